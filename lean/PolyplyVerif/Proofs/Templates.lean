/-
Lemmas about `Model/Templates.lean` (C15).  Geometry over an arbitrary field `K` (so `ℚ` and `ℝ`), reusing
the rotation lemmas of `Proofs/Rotation.lean`; the verdict and the size over `ℚ` (ordered).
-/
import PolyplyVerif.Model.Templates
import PolyplyVerif.Proofs.Rotation
import Mathlib.Algebra.Field.Basic
import Mathlib.Algebra.CharZero.Defs
import Mathlib.Algebra.Order.Field.Basic
import Mathlib.Algebra.Order.Ring.Abs
import Mathlib.Tactic.FieldSimp
import Mathlib.Tactic.Linarith
import Mathlib.Tactic.Positivity
import Mathlib.Tactic.NormNum
import Mathlib.Tactic.Push
import Mathlib.Algebra.BigOperators.Group.List.Basic

namespace PolyplyVerif.Proofs.Templates
open PolyplyVerif.Rot PolyplyVerif.Templ PolyplyVerif.Proofs.Rotation

/-! ### dictionaries -/

section dict
variable {β : Type}

theorem get?_set (d : Dict β) (k k' : String) (v : β) :
    (d.set k v).get? k' = if k' = k then some v else d.get? k' := by
  induction d with
  | nil =>
    simp only [Dict.set, Dict.get?]
    by_cases h : k = k'
    · subst h; simp
    · have h' : ¬ k' = k := fun e => h e.symm
      simp [h, h']
  | cons kv d ih =>
    obtain ⟨k0, v0⟩ := kv
    simp only [Dict.set]
    split
    · rename_i h0; subst h0
      simp only [Dict.get?]
      by_cases h : k0 = k'
      · subst h; simp
      · have h' : ¬ k' = k0 := fun e => h e.symm
        simp [h, h']
    · rename_i h0
      simp only [Dict.get?]
      by_cases h1 : k0 = k'
      · subst h1; simp [show ¬ k0 = k from h0]
      · simp [h1, ih]

theorem has_set (d : Dict β) (k k' : String) (v : β) :
    (d.set k v).has k' = (decide (k' = k) || d.has k') := by
  unfold Dict.has
  rw [get?_set]
  by_cases h : k' = k <;> simp [h]

theorem has_set_self (d : Dict β) (k : String) (v : β) : (d.set k v).has k = true := by
  rw [has_set]; simp

theorem has_set_of_has (d : Dict β) (k k' : String) (v : β) (h : d.has k' = true) :
    (d.set k v).has k' = true := by
  rw [has_set, h]; simp

theorem get?_del_ne (d : Dict β) (k k' : String) (h : k' ≠ k) : (d.del k).get? k' = d.get? k' := by
  induction d with
  | nil => rfl
  | cons kv d ih =>
    obtain ⟨k0, v0⟩ := kv
    simp only [Dict.del]
    by_cases h0 : k0 = k
    · subst h0
      simp only [if_true, Dict.get?]
      rw [if_neg (fun e : k0 = k' => h e.symm)]
    · simp only [h0, if_false, Dict.get?, ih]

theorem has_iff_get? (d : Dict β) (k : String) : d.has k = true ↔ ∃ v, d.get? k = some v := by
  unfold Dict.has
  cases d.get? k <;> simp

theorem get?_update (d src : Dict β) (k : String) (hk : src.has k = false) :
    (d.update src).get? k = d.get? k := by
  unfold Dict.update
  induction src generalizing d with
  | nil => rfl
  | cons kv src ih =>
    obtain ⟨k0, v0⟩ := kv
    have hne : k0 ≠ k := by
      intro e; subst e; simp [Dict.has, Dict.get?] at hk
    have hk' : Dict.has src k = false := by
      simpa [Dict.has, Dict.get?, hne] using hk
    simp only [List.foldl_cons]
    rw [ih _ hk', get?_set, if_neg (fun e => hne e.symm)]

/-- with distinct keys, `update` makes every key of `src` carry `src`'s value -/
theorem get?_update_of_mem (d src : Dict β) (hnd : src.keys.Nodup) (k : String) (v : β)
    (hv : src.get? k = some v) : (d.update src).get? k = some v := by
  unfold Dict.update
  induction src generalizing d with
  | nil => simp [Dict.get?] at hv
  | cons kv src ih =>
    obtain ⟨k0, v0⟩ := kv
    simp only [Dict.keys, List.map_cons, List.nodup_cons] at hnd
    simp only [List.foldl_cons]
    by_cases h0 : k0 = k
    · subst h0
      simp [Dict.get?] at hv; subst hv
      have hk' : Dict.has src k0 = false := by
        cases hh : Dict.has src k0 with
        | false => rfl
        | true =>
          exfalso
          obtain ⟨w, hw⟩ := (has_iff_get? src k0).1 hh
          apply hnd.1
          clear ih hnd
          induction src with
          | nil => simp [Dict.get?] at hw
          | cons kv' src' ih' =>
            obtain ⟨k1, v1⟩ := kv'
            simp only [Dict.get?] at hw
            by_cases h1 : k1 = k0
            · simp [h1]
            · simp only [h1, if_false] at hw
              simp only [List.map_cons, List.mem_cons]
              right
              exact ih' (by simp [Dict.has, hw]) hw
      have := get?_update (d.set k0 v0) src k0 hk'
      unfold Dict.update at this
      rw [this, get?_set]; simp
    · simp only [Dict.get?, h0, if_false] at hv
      exact ih (d.set k0 v0) hnd.2 hv

end dict

/-! ### `map_from_CoG` -/

section field
variable {K : Type} [Field K]

@[simp] theorem sdiv_x (v : V3 K) (k : K) : (V3.sdiv v k).x = v.x / k := rfl
@[simp] theorem sdiv_y (v : V3 K) (k : K) : (V3.sdiv v k).y = v.y / k := rfl
@[simp] theorem sdiv_z (v : V3 K) (k : K) : (V3.sdiv v k).z = v.z / k := rfl

theorem sum_map_sub (g : V3 K) (l : List (V3 K)) :
    V3.sum (l.map fun v => v - g) = V3.sum l - V3.smul (l.length : K) g := by
  induction l with
  | nil => simp only [List.map_nil, sum_nil, List.length_nil, Nat.cast_zero]; ext <;> v3simp <;> ring
  | cons a l ih =>
    simp only [List.map_cons, sum_cons, ih, List.length_cons, Nat.cast_succ]
    ext <;> v3simp <;> ring

/-- the vectors `map_from_CoG` returns sum to zero (non-empty input, characteristic 0) -/
theorem mapFromCoG_sum [CharZero K] (c : Template K) (hne : c ≠ []) :
    V3.sum ((mapFromCoG c).map (·.2)) = 0 := by
  have hn : ((c.map (·.2)).length : K) ≠ 0 := by
    have : c.length ≠ 0 := by simpa using hne
    simpa using this
  unfold mapFromCoG centerOfGeometry
  simp only [List.map_map]
  have : ((fun kv : String × V3 K => kv.2) ∘ fun kv : String × V3 K =>
      (kv.1, kv.2 - V3.sdiv (V3.sum (c.map (·.2))) ((c.map (·.2)).length : K)))
      = (fun v => v - V3.sdiv (V3.sum (c.map (·.2))) ((c.map (·.2)).length : K)) ∘ (·.2) := rfl
  rw [this, ← List.map_map, sum_map_sub]
  ext <;> v3simp <;> simp only [sdiv_x, sdiv_y, sdiv_z] <;> field_simp <;> ring

theorem mapFromCoG_keys (c : Template K) : (mapFromCoG c).map (·.1) = c.map (·.1) := by
  unfold mapFromCoG
  simp [List.map_map, Function.comp_def]

/-! ### virtual sites: the code's constructions are the GROMACS constructions -/

theorem vs2_eq (a : K) (ri rj : V3 K) : vs2 a ri rj = gmx2 a ri rj := by
  have h : (0 + (1 - a) + a : K) = 1 := by ring
  unfold vs2 gmx2 weightedAverage
  simp only [List.zipWith_cons_cons, List.zipWith_nil_right, List.foldl_cons, List.foldl_nil, h, V3.sum]
  ext <;> simp only [sdiv_x, sdiv_y, sdiv_z, div_one] <;> show _ = _ <;>
    simp only [V3.add, V3.zero, V3.smul, add_x, add_y, add_z] <;> ring

theorem vs3_eq (a b : K) (ri rj rk : V3 K) : vs3 a b ri rj rk = gmx3 a b ri rj rk := by
  have h : (0 + (1 - a - b) + a + b : K) = 1 := by ring
  unfold vs3 gmx3 weightedAverage
  simp only [List.zipWith_cons_cons, List.zipWith_nil_right, List.foldl_cons, List.foldl_nil, h, V3.sum]
  ext <;> simp only [sdiv_x, sdiv_y, sdiv_z, div_one] <;> show _ = _ <;>
    simp only [V3.add, V3.zero, V3.smul, add_x, add_y, add_z] <;> ring

theorem sum_zipWith_ones (xs : List (V3 K)) :
    V3.sum (List.zipWith V3.smul (xs.map fun _ => (1 : K)) xs) = V3.sum xs := by
  induction xs with
  | nil => rfl
  | cons a xs ih =>
    simp only [List.map_cons, List.zipWith_cons_cons, sum_cons, ih]
    ext <;> v3simp <;> ring

theorem foldl_add_ones (acc : K) (xs : List (V3 K)) :
    (xs.map fun _ => (1 : K)).foldl (· + ·) acc = acc + (xs.length : K) := by
  induction xs generalizing acc with
  | nil => simp
  | cons a xs ih => simp only [List.map_cons, List.foldl_cons, ih, List.length_cons, Nat.cast_succ]; ring

theorem vsn1_eq (xs : List (V3 K)) : vsn1 xs = gmxCog xs := by
  unfold vsn1 gmxCog weightedAverage
  rw [sum_zipWith_ones, foldl_add_ones, zero_add]
  ext <;> v3simp <;> simp only [sdiv_x, sdiv_y, sdiv_z] <;> ring

theorem vs3fd_eq (nrm : K → K) (a b : K) (ri rj rk : V3 K) :
    vs3fd nrm a b ri rj rk = gmx3fd nrm a b ri rj rk := by
  unfold vs3fd gmx3fd
  ext <;> v3simp <;> simp only [sdiv_x, sdiv_y, sdiv_z] <;> v3simp <;> ring

theorem vs3fad_eq (nrm : K → K) (c s d : K) (ri rj rk : V3 K) :
    vs3fad nrm c s d ri rj rk = gmx3fad nrm c s d ri rj rk := by
  simp only [vs3fad, gmx3fad]
  generalize nrm (V3.normSq (rj - ri)) = n1
  generalize V3.dot (rj - ri) (rk - rj) = d1
  generalize V3.dot (rj - ri) (rj - ri) = d2
  have e : rk - rj - V3.sdiv (V3.smul d1 (rj - ri)) d2 = rk - rj - V3.smul (d1 / d2) (rj - ri) := by
    ext <;> simp only [sub_x, sub_y, sub_z, sdiv_x, sdiv_y, sdiv_z, smul_x, smul_y, smul_z] <;> ring
  rw [e]
  generalize nrm (V3.normSq (rk - rj - V3.smul (d1 / d2) (rj - ri))) = n2
  generalize rk - rj - V3.smul (d1 / d2) (rj - ri) = w
  ext <;> simp only [add_x, add_y, add_z, sub_x, sub_y, sub_z, sdiv_x, sdiv_y, sdiv_z, smul_x, smul_y, smul_z] <;>
    ring

theorem vs3out_eq (a b c : K) (ri rj rk : V3 K) : vs3out a b c ri rj rk = gmx3out a b c ri rj rk := rfl

theorem vs4fdn_eq (nrm : K → K) (a b c : K) (ri rj rk rl : V3 K) :
    vs4fdn nrm a b c ri rj rk rl = gmx4fdn nrm a b c ri rj rk rl := by
  unfold vs4fdn gmx4fdn
  ext <;> v3simp <;> simp only [sdiv_x, sdiv_y, sdiv_z] <;> v3simp <;> ring

/-! ### equivariance -/

/-- the affine map `x ↦ A·x + t` -/
def aff (A : M3 K) (t : V3 K) (x : V3 K) : V3 K := A.mulVec x + t

theorem gmx2_aff (A : M3 K) (t : V3 K) (a : K) (ri rj : V3 K) :
    gmx2 a (aff A t ri) (aff A t rj) = aff A t (gmx2 a ri rj) := by
  unfold gmx2 aff; ext <;> v3simp <;> ring

theorem gmx3_aff (A : M3 K) (t : V3 K) (a b : K) (ri rj rk : V3 K) :
    gmx3 a b (aff A t ri) (aff A t rj) (aff A t rk) = aff A t (gmx3 a b ri rj rk) := by
  unfold gmx3 aff; ext <;> v3simp <;> ring

theorem sum_map_aff (A : M3 K) (t : V3 K) (xs : List (V3 K)) :
    V3.sum (xs.map (aff A t)) = A.mulVec (V3.sum xs) + V3.smul (xs.length : K) t := by
  induction xs with
  | nil => simp only [List.map_nil, sum_nil, List.length_nil, Nat.cast_zero]; ext <;> v3simp <;> ring
  | cons a xs ih =>
    simp only [List.map_cons, sum_cons, ih, List.length_cons, Nat.cast_succ, aff]
    ext <;> v3simp <;> ring

theorem gmxCog_aff [CharZero K] (A : M3 K) (t : V3 K) (xs : List (V3 K)) (hne : xs ≠ []) :
    gmxCog (xs.map (aff A t)) = aff A t (gmxCog xs) := by
  have hn : (xs.length : K) ≠ 0 := by
    have : xs.length ≠ 0 := by simpa using hne
    exact_mod_cast this
  unfold gmxCog
  rw [sum_map_aff, List.length_map]
  unfold aff
  ext <;> v3simp <;> field_simp

/-! rigid motions: `x ↦ R·x + t` with `R` a proper rotation -/

theorem aff_sub (R : M3 K) (t x y : V3 K) : aff R t x - aff R t y = R.mulVec (x - y) := by
  unfold aff; ext <;> v3simp <;> ring

theorem mulVec_sdiv (R : M3 K) (v : V3 K) (k : K) : R.mulVec (V3.sdiv v k) = V3.sdiv (R.mulVec v) k := by
  ext <;> v3simp <;> simp only [sdiv_x, sdiv_y, sdiv_z] <;> ring

theorem aff_add_mulVec (R : M3 K) (t x y : V3 K) : aff R t x + R.mulVec y = aff R t (x + y) := by
  unfold aff; ext <;> v3simp <;> ring

section rigid
variable {R : M3 K} (hR : Proper R) (t : V3 K)
include hR

theorem gmx3fd_rigid (nrm : K → K) (a b : K) (ri rj rk : V3 K) :
    gmx3fd nrm a b (aff R t ri) (aff R t rj) (aff R t rk) = aff R t (gmx3fd nrm a b ri rj rk) := by
  unfold gmx3fd
  simp only [aff_sub, ← mulVec_smul, ← mulVec_add, normSq_preserved hR.left, aff_add_mulVec]

theorem gmx3out_rigid (a b c : K) (ri rj rk : V3 K) :
    gmx3out a b c (aff R t ri) (aff R t rj) (aff R t rk) = aff R t (gmx3out a b c ri rj rk) := by
  unfold gmx3out
  simp only [aff_sub, cross_preserved hR, ← mulVec_smul, aff_add_mulVec]

theorem gmx4fdn_rigid (nrm : K → K) (a b c : K) (ri rj rk rl : V3 K) :
    gmx4fdn nrm a b c (aff R t ri) (aff R t rj) (aff R t rk) (aff R t rl)
      = aff R t (gmx4fdn nrm a b c ri rj rk rl) := by
  unfold gmx4fdn
  simp only [aff_sub, ← mulVec_smul, ← mulVec_sub, cross_preserved hR, normSq_preserved hR.left,
    aff_add_mulVec]

theorem gmx3fad_rigid (nrm : K → K) (c s d : K) (ri rj rk : V3 K) :
    gmx3fad nrm c s d (aff R t ri) (aff R t rj) (aff R t rk) = aff R t (gmx3fad nrm c s d ri rj rk) := by
  unfold gmx3fad
  simp only [aff_sub, dot_preserved hR.left, ← mulVec_smul, ← mulVec_sub, normSq_preserved hR.left,
    aff_add_mulVec]

end rigid

/-- the fixed-distance constructions really sit at the prescribed distance when `nrm` is a square root -/
theorem gmx3fd_dist (nrm : K → K) (a b : K) (ri rj rk : V3 K)
    (hn : nrm (V3.normSq ((rj - ri) + V3.smul a (rk - rj))) * nrm (V3.normSq ((rj - ri) + V3.smul a (rk - rj)))
      = V3.normSq ((rj - ri) + V3.smul a (rk - rj)))
    (h0 : nrm (V3.normSq ((rj - ri) + V3.smul a (rk - rj))) ≠ 0) :
    V3.normSq (gmx3fd nrm a b ri rj rk - ri) = b * b := by
  show V3.normSq (ri + V3.smul (b / nrm (V3.normSq ((rj - ri) + V3.smul a (rk - rj))))
      ((rj - ri) + V3.smul a (rk - rj)) - ri) = b * b
  generalize nrm (V3.normSq ((rj - ri) + V3.smul a (rk - rj))) = n at hn h0
  have e : V3.normSq (ri + V3.smul (b / n) ((rj - ri) + V3.smul a (rk - rj)) - ri)
      = (b / n) * (b / n) * V3.normSq ((rj - ri) + V3.smul a (rk - rj)) := by
    v3simp; ring
  rw [e, ← hn]; field_simp

end field

/-! ### the verdict of `optimize_geometry` -/

section verdict

theorem rabs_eq_abs (q : Rat) : rabs q = |q| := by
  unfold rabs
  split
  · rw [abs_of_neg (by assumption)]
  · rw [abs_of_nonneg (by linarith)]

/-- one item: `¬ Wp·d² > Wt·tol²` with `0 < Wp`, `Wt ≤ Wp`, `tol ≥ 0` gives `|d| ≤ tol` -/
theorem within_of_not_gt (Wp Wt tol d : Rat) (hW : 0 < Wp) (hle : Wt ≤ Wp) (htol : 0 ≤ tol)
    (h : ¬ (Wp * (d * d) > Wt * (tol * tol))) : |d| ≤ tol := by
  have h1 : Wp * (d * d) ≤ Wt * (tol * tol) := not_lt.mp h
  have h1' : Wp * (d * d) ≤ Wp * (tol * tol) :=
    le_trans h1 (mul_le_mul_of_nonneg_right hle (mul_self_nonneg tol))
  have h2 : d * d ≤ tol * tol := le_of_mul_le_mul_left h1' hW
  rcases abs_le_of_sq_le_sq' (by nlinarith : d ^ 2 ≤ tol ^ 2) htol with ⟨hl, hr⟩
  exact abs_le.mpr ⟨hl, hr⟩

theorem verdict_within (weights tolerance : List (String × Rat)) (methods wkey : List (String × String))
    (items : List Item)
    (hpos : ∀ it ∈ items, 0 < penaltyWeight weights methods wkey it.kind ∧
      lookupD weights it.kind ≤ penaltyWeight weights methods wkey it.kind ∧ 0 ≤ lookupD tolerance it.kind)
    (h : verdict weights tolerance methods wkey items = true) : withinTolerance tolerance items = true := by
  unfold verdict at h
  unfold withinTolerance
  rw [List.all_eq_true] at h ⊢
  intro it hit
  have hv := h it hit
  obtain ⟨hW, hle, htol⟩ := hpos it hit
  by_cases hd : (it.kind = "dihedrals" && !it.improper) = true
  · simp [hd]
  · have hd' : (it.kind = "dihedrals" && !it.improper) = false := by simpa using hd
    simp only [hd', Bool.false_or, decide_eq_true_eq]
    simp only [penalty, hd', Bool.false_eq_true, if_false, Bool.not_eq_true', decide_eq_false_iff_not] at hv
    rw [rabs_eq_abs]
    exact within_of_not_gt _ _ _ _ hW hle htol hv

end verdict

/-! ### `compute_volume` -/

section volume

theorem normSq_nonneg (v : V3 Rat) : 0 ≤ V3.normSq v := by
  unfold V3.normSq V3.dot
  nlinarith [mul_self_nonneg v.x, mul_self_nonneg v.y, mul_self_nonneg v.z]

theorem foldl_add_nonneg {β : Type} (f : β → Rat) (hf : ∀ b, 0 ≤ f b) (l : List β) (acc : Rat)
    (hacc : 0 ≤ acc) : 0 ≤ l.foldl (fun acc b => acc + f b) acc := by
  induction l generalizing acc with
  | nil => simpa
  | cons b l ih => exact ih _ (add_nonneg hacc (hf b))

theorem foldl_nested_nonneg (pts : List (V3 Rat)) (l : List (V3 Rat)) (acc : Rat) (hacc : 0 ≤ acc) :
    0 ≤ l.foldl (fun acc i => pts.foldl (fun acc j => acc + V3.normSq (i - j)) acc) acc := by
  induction l generalizing acc with
  | nil => simpa
  | cons i l ih => exact ih _ (foldl_add_nonneg (fun j => V3.normSq (i - j)) (fun j => normSq_nonneg _) pts acc hacc)

theorem radiusOfGyrationSq_nonneg (pts : List (V3 Rat)) : 0 ≤ radiusOfGyrationSq pts := by
  unfold radiusOfGyrationSq
  apply mul_nonneg
  · positivity
  · exact foldl_nested_nonneg pts pts 0 le_rfl

theorem maxList_mem (l : List Rat) (m : Rat) (h : maxList l = some m) : m ∈ l := by
  induction l generalizing m with
  | nil => simp [maxList] at h
  | cons a l ih =>
    simp only [maxList] at h
    cases hl : maxList l with
    | none => simp [hl] at h; simp [h]
    | some m' =>
      simp only [hl, Option.some.injEq] at h
      by_cases hgt : m' > a
      · simp only [hgt, if_true] at h; subst h; simp [ih m' hl]
      · simp only [hgt, if_false] at h; simp [h]

theorem computeVolume_eq (thr : Rat) (atoms : List VolAtom) :
    computeVolume thr atoms =
      if ((geomVects thr atoms).any fun v => !isZero v) = true
      then Size.sqrtOf (radiusOfGyrationSq (geomVects thr atoms))
      else match maxList (nearRadii thr atoms) with
        | some r => Size.exact r
        | none => Size.error := rfl

/-- the size is positive when every radius is positive (largest-radius branch) or the squared radius of
gyration is not zero (it is never negative) -/
theorem computeVolume_positive (thr : Rat) (atoms : List VolAtom) (hrad : ∀ a ∈ atoms, 0 < a.rad) :
    (∀ q, computeVolume thr atoms = .sqrtOf q → q ≠ 0 → 0 < q) ∧
    (∀ r, computeVolume thr atoms = .exact r → 0 < r) := by
  constructor
  · intro q hq hne
    rw [computeVolume_eq] at hq
    by_cases hany : ((geomVects thr atoms).any fun v => !isZero v) = true
    · rw [if_pos hany] at hq
      injection hq with hq
      subst hq
      exact lt_of_le_of_ne (radiusOfGyrationSq_nonneg _) (Ne.symm hne)
    · rw [if_neg hany] at hq
      cases hm : maxList (nearRadii thr atoms) <;> rw [hm] at hq <;> cases hq
  · intro r hr
    rw [computeVolume_eq] at hr
    by_cases hany : ((geomVects thr atoms).any fun v => !isZero v) = true
    · rw [if_pos hany] at hr; cases hr
    · rw [if_neg hany] at hr
      cases hm : maxList (nearRadii thr atoms) with
      | none => rw [hm] at hr; cases hr
      | some m =>
        rw [hm] at hr
        injection hr with hr
        subst hr
        have hmem := maxList_mem _ _ hm
        unfold nearRadii at hmem
        simp only [List.mem_map, List.mem_filter] at hmem
        obtain ⟨a, ⟨ha, _⟩, rfl⟩ := hmem
        exact hrad a ha

end volume

/-! ### bookkeeping: grouping, generation, precedence -/

section book
variable {K : Type} [Field K] {G : Type}

theorem has_update_of_has {β : Type} (d src : Dict β) (k : String) (h : d.has k = true) :
    (d.update src).has k = true := by
  unfold Dict.update
  induction src generalizing d with
  | nil => exact h
  | cons kv src ih => exact ih _ (has_set_of_has d kv.1 k kv.2 h)

/-- every size once stored under a key stays under that key; `Inv`: every templated key has a size -/
def Inv (st : GTState K) : Prop := ∀ k, st.templates.has k = true → st.volumes.has k = true

theorem genTemplates_spec (gen : String → G → Generated K) (tg : List (String × Option G))
    (st st' : GTState K) (h : genTemplates gen st tg = some st') :
    (∀ k, st.templates.has k = true → st'.templates.get? k = st.templates.get? k) ∧
    (∀ k, st.templates.has k = true → st'.volumes.get? k = st.volumes.get? k) ∧
    (∀ k, (∀ kg ∈ tg, kg.1 ≠ k) → st'.volumes.get? k = st.volumes.get? k) ∧
    (∀ k, st.volumes.has k = true → st'.volumes.has k = true) ∧
    (∀ kg ∈ tg, st'.templates.has kg.1 = true) ∧
    (Inv st → Inv st') := by
  induction tg generalizing st with
  | nil =>
    simp only [genTemplates, Option.some.injEq] at h
    subst h
    exact ⟨fun _ _ => rfl, fun _ _ => rfl, fun _ _ => rfl, fun _ hk => hk, fun _ hkg => by simp at hkg, id⟩
  | cons kg tg ih =>
    obtain ⟨gh, g⟩ := kg
    simp only [genTemplates] at h
    by_cases hhas : st.templates.has gh = true
    · rw [if_pos hhas] at h
      obtain ⟨h1, h2, h3, h4, h5, h6⟩ := ih st h
      refine ⟨h1, h2, fun k hk => h3 k (fun kg hkg => hk kg (by simp [hkg])), h4, ?_, h6⟩
      intro kg hkg
      simp only [List.mem_cons] at hkg
      rcases hkg with rfl | hkg
      · have := h1 gh hhas
        rw [has_iff_get?] at hhas ⊢
        obtain ⟨v, hv⟩ := hhas
        exact ⟨v, by rw [this, hv]⟩
      · exact h5 kg hkg
    · rw [if_neg hhas] at h
      cases g with
      | none => simp at h
      | some g =>
        simp only at h
        obtain ⟨h1, h2, h3, h4, h5, h6⟩ := ih _ h
        have hne : ∀ k, st.templates.has k = true → k ≠ gh := by
          intro k hk e; subst e; exact hhas hk
        refine ⟨?_, ?_, ?_, ?_, ?_, ?_⟩
        · intro k hk
          rw [h1 k (has_set_of_has _ _ _ _ hk), get?_set, if_neg (hne k hk)]
        · intro k hk
          rw [h2 k (has_set_of_has _ _ _ _ hk), get?_set, if_neg (hne k hk)]
        · intro k hk
          rw [h3 k (fun kg hkg => hk kg (by simp [hkg])), get?_set,
            if_neg (fun e => hk (gh, some g) (by simp) e.symm)]
        · intro k hk
          exact h4 k (has_set_of_has _ _ _ _ hk)
        · intro kg hkg
          simp only [List.mem_cons] at hkg
          rcases hkg with rfl | hkg
          · have hs : (st.templates.set gh (mapFromCoG (gen gh g).coords)).has gh = true := has_set_self _ _ _
            have := h1 gh hs
            rw [has_iff_get?] at hs ⊢
            obtain ⟨v, hv⟩ := hs
            exact ⟨v, by rw [this, hv]⟩
          · exact h5 kg hkg
        · intro hinv
          apply h6
          intro k hk
          rw [has_set] at hk ⊢
          by_cases e : k = gh
          · simp [e]
          · simp only [e, decide_false, Bool.false_or] at hk ⊢
            exact hinv k hk

theorem groupResiduesByHash_spec (h : G → String) (nodes : List (ResNode G)) (unique : Dict (Option G)) :
    (groupResiduesByHash h nodes unique).2 = nodes.map (fun n => h n.graph) ∧
    (∀ k, unique.has k = true → (groupResiduesByHash h nodes unique).1.has k = true) ∧
    (∀ n ∈ nodes, (groupResiduesByHash h nodes unique).1.has (h n.graph) = true) := by
  induction nodes generalizing unique with
  | nil => exact ⟨rfl, fun _ hk => hk, fun _ hn => by simp at hn⟩
  | cons n nodes ih =>
    simp only [groupResiduesByHash]
    set unique' := if unique.has (h n.graph) = true then unique else unique.set (h n.graph) (some n.graph) with hu
    obtain ⟨i1, i2, i3⟩ := ih unique'
    have hmono : ∀ k, unique.has k = true → unique'.has k = true := by
      intro k hk
      rw [hu]; split
      · exact hk
      · exact has_set_of_has _ _ _ _ hk
    have hself : unique'.has (h n.graph) = true := by
      rw [hu]; split
      · assumption
      · exact has_set_self _ _ _
    refine ⟨by simp [i1], fun k hk => i2 k (hmono k hk), ?_⟩
    intro n' hn'
    simp only [List.mem_cons] at hn'
    rcases hn' with rfl | hn'
    · exact i2 _ hself
    · exact i3 n' hn'

theorem extractSkipFilter_attrs (h : G → String) (nodes : List (ResNode G)) (tg : Dict (Option G)) :
    (extractSkipFilter h nodes tg).2 = nodes.map (fun n => h n.graph) := by
  induction nodes generalizing tg with
  | nil => rfl
  | cons n nodes ih => simp only [extractSkipFilter, ih, List.map_cons]

theorem extract_attrs (h : G → String) (sf : Bool) (nodes : List (ResNode G)) (tg : Dict (Option G)) :
    (extractTemplateGraphs h sf nodes tg).2 = nodes.map (fun n => h n.graph) := by
  unfold extractTemplateGraphs
  cases sf
  · exact (groupResiduesByHash_spec h nodes tg).1
  · exact extractSkipFilter_attrs h nodes tg

/-- what one `run_molecule` guarantees -/
theorem runMolecule_spec (h : G → String) (gen : String → G → Generated K) (sf : Bool) (st st' : GTState K)
    (m : Mol G K) (attrs : List String) (hrun : runMolecule h gen sf st m = some (st', attrs)) :
    attrs = m.nodes.map (fun n => h n.graph) ∧
    (∀ k, st.templates.has k = true → st'.templates.has k = true) ∧
    (∀ k, st.volumes.has k = true → st'.volumes.has k = true) ∧
    (∀ k, st.templates.has k = true → st'.volumes.get? k = st.volumes.get? k) ∧
    (sf = false → ∀ n ∈ m.nodes, st'.templates.has (h n.graph) = true) ∧
    (Inv st → (∀ k, (m.userTemplates.getD []).has k = true → st.volumes.has k = true) → Inv st') ∧
    (∀ U, m.userTemplates = some U → U.keys.Nodup → ∀ k T, U.get? k = some T → st'.templates.get? k = some T) := by
  unfold runMolecule at hrun
  simp only at hrun
  set user := m.userTemplates.getD [] with huser
  set tg0 : Dict (Option G) := user.map fun kv => (kv.1, none) with htg0
  set st1 : GTState K := { st with templates := st.templates.update user } with hst1
  have hattrs := extract_attrs h sf m.nodes tg0
  cases hex : extractTemplateGraphs h sf m.nodes tg0 with
  | mk tg attrs0 =>
    rw [hex] at hrun hattrs
    simp only at hrun hattrs
    cases hg : genTemplates gen st1 tg with
    | none => rw [hg] at hrun; simp at hrun
    | some st2 =>
      rw [hg] at hrun
      simp only [Option.some.injEq, Prod.mk.injEq] at hrun
      obtain ⟨rfl, rfl⟩ := hrun
      obtain ⟨g1, g2, g3, g4, g5, g6⟩ := genTemplates_spec gen tg st1 st2 hg
      have hup : ∀ k, st.templates.has k = true → st1.templates.has k = true :=
        fun k hk => has_update_of_has _ _ _ hk
      refine ⟨hattrs, ?_, ?_, ?_, ?_, ?_, ?_⟩
      · intro k hk
        have := g1 k (hup k hk)
        have h1 := hup k hk
        rw [has_iff_get?] at h1 ⊢
        obtain ⟨v, hv⟩ := h1
        exact ⟨v, by rw [this, hv]⟩
      · intro k hk; exact g4 k hk
      · intro k hk; exact g2 k (hup k hk)
      · intro hsf n hn
        subst hsf
        have : tg = (groupResiduesByHash h m.nodes tg0).1 := by
          have := congrArg Prod.fst hex
          simpa [extractTemplateGraphs] using this.symm
        have hk := (groupResiduesByHash_spec h m.nodes tg0).2.2 n hn
        rw [← this] at hk
        -- a key of tg has a template afterwards
        obtain ⟨v, hv⟩ := (has_iff_get? tg _).1 hk
        have hmem : ∃ kg ∈ tg, kg.1 = h n.graph := by
          clear hk hex this g1 g2 g3 g4 g5 g6 hg
          induction tg with
          | nil => simp [Dict.get?] at hv
          | cons kv tg ih =>
            obtain ⟨k0, v0⟩ := kv
            by_cases e : k0 = h n.graph
            · exact ⟨(k0, v0), by simp, e⟩
            · simp only [Dict.get?, e, if_false] at hv
              obtain ⟨kg, hkg, hk⟩ := ih hv
              exact ⟨kg, by simp [hkg], hk⟩
        obtain ⟨kg, hkg, hk'⟩ := hmem
        rw [← hk']; exact g5 kg hkg
      · intro hinv hvol
        apply g6
        intro k hk
        -- a key of the updated templates was a key before or is a user key
        by_cases hold : st.templates.has k = true
        · exact hinv k hold
        · have hold' : st.templates.has k = false := by simpa using hold
          by_cases hu : user.has k = true
          · exact hvol k hu
          · have hu' : user.has k = false := by simpa using hu
            have := get?_update st.templates user k hu'
            simp only [hst1] at hk
            rw [Dict.has, this] at hk
            rw [Dict.has] at hold'
            rw [hold'] at hk
            exact absurd hk (by simp)
      · intro U hU hnd k T hT
        have huU : user = U := by simp [huser, hU]
        have h1 : st1.templates.get? k = some T := by
          simp only [hst1, huU]
          exact get?_update_of_mem _ U hnd k T hT
        rw [g1 k ((has_iff_get? _ _).2 ⟨T, h1⟩), h1]

end book

section system
variable {K : Type} [Field K] {G : Type}

/-- `run_system`, non-`skip_filter` grouping: template attributes are the hashes; every residue's hash has a
template and a size in the final state -/
theorem runSystem_covers (h : G → String) (gen : String → G → Generated K) (ms : List (Mol G K))
    (st fin : GTState K) (attrs : List (List String))
    (hinv : Inv st)
    (huser : ∀ m ∈ ms, ∀ k, (m.userTemplates.getD []).has k = true → st.volumes.has k = true)
    (hrun : runSystem h gen false st ms = some (fin, attrs)) :
    attrs = ms.map (fun m => m.nodes.map (fun n => h n.graph)) ∧
    Inv fin ∧
    (∀ k, st.templates.has k = true → fin.templates.has k = true) ∧
    (∀ k, st.volumes.has k = true → fin.volumes.has k = true) ∧
    (∀ m ∈ ms, ∀ n ∈ m.nodes, fin.templates.has (h n.graph) = true ∧ fin.volumes.has (h n.graph) = true) := by
  induction ms generalizing st attrs with
  | nil =>
    simp only [runSystem, Option.some.injEq, Prod.mk.injEq] at hrun
    obtain ⟨rfl, rfl⟩ := hrun
    exact ⟨rfl, hinv, fun _ hk => hk, fun _ hk => hk, fun _ hm => by simp at hm⟩
  | cons m ms ih =>
    simp only [runSystem] at hrun
    cases hm : runMolecule h gen false st m with
    | none => rw [hm] at hrun; simp at hrun
    | some r =>
      obtain ⟨st', a⟩ := r
      rw [hm] at hrun
      simp only at hrun
      cases hr : runSystem h gen false st' ms with
      | none => rw [hr] at hrun; simp at hrun
      | some r2 =>
        obtain ⟨fin', more⟩ := r2
        rw [hr] at hrun
        simp only [Option.some.injEq, Prod.mk.injEq] at hrun
        obtain ⟨rfl, rfl⟩ := hrun
        obtain ⟨m1, m2, m3, _, m5, m6, _⟩ := runMolecule_spec h gen false st st' m a hm
        have hinv' : Inv st' := m6 hinv (huser m (by simp))
        obtain ⟨i1, i2, i3, i4, i5⟩ := ih st' more hinv'
          (fun m' hm' k hk => m3 k (huser m' (by simp [hm']) k hk)) hr
        refine ⟨by simp [m1, i1], i2, fun k hk => i3 k (m2 k hk), fun k hk => i4 k (m3 k hk), ?_⟩
        intro m' hm' n hn
        simp only [List.mem_cons] at hm'
        rcases hm' with rfl | hm'
        · have ht := i3 _ (m5 rfl n hn)
          exact ⟨ht, i2 _ ht⟩
        · exact i5 m' hm' n hn

/-- template attributes are the hashes for both values of `skip_filter` -/
theorem runSystem_attrs (h : G → String) (gen : String → G → Generated K) (sf : Bool) (ms : List (Mol G K))
    (st fin : GTState K) (attrs : List (List String)) (hrun : runSystem h gen sf st ms = some (fin, attrs)) :
    attrs = ms.map (fun m => m.nodes.map (fun n => h n.graph)) := by
  induction ms generalizing st attrs with
  | nil =>
    simp only [runSystem, Option.some.injEq, Prod.mk.injEq] at hrun
    obtain ⟨_, rfl⟩ := hrun; rfl
  | cons m ms ih =>
    simp only [runSystem] at hrun
    cases hm : runMolecule h gen sf st m with
    | none => rw [hm] at hrun; simp at hrun
    | some r =>
      obtain ⟨st', a⟩ := r
      rw [hm] at hrun
      simp only at hrun
      cases hr : runSystem h gen sf st' ms with
      | none => rw [hr] at hrun; simp at hrun
      | some r2 =>
        obtain ⟨fin', more⟩ := r2
        rw [hr] at hrun
        simp only [Option.some.injEq, Prod.mk.injEq] at hrun
        obtain ⟨rfl, rfl⟩ := hrun
        simp [(runMolecule_spec h gen sf st st' m a hm).1, ih st' more hr]

/-- user templates win: when every molecule carries the build file's templates `U`, the final templates
give every key of `U` exactly `U`'s value -/
theorem runSystem_user_templates (h : G → String) (gen : String → G → Generated K) (sf : Bool)
    (U : Dict (Template K)) (hnd : U.keys.Nodup) (ms : List (Mol G K)) (hne : ms ≠ [])
    (hU : ∀ m ∈ ms, m.userTemplates = some U)
    (st fin : GTState K) (attrs : List (List String)) (hrun : runSystem h gen sf st ms = some (fin, attrs)) :
    ∀ k T, U.get? k = some T → fin.templates.get? k = some T := by
  induction ms generalizing st attrs with
  | nil => exact absurd rfl hne
  | cons m ms ih =>
    simp only [runSystem] at hrun
    cases hm : runMolecule h gen sf st m with
    | none => rw [hm] at hrun; simp at hrun
    | some r =>
      obtain ⟨st', a⟩ := r
      rw [hm] at hrun
      simp only at hrun
      cases hr : runSystem h gen sf st' ms with
      | none => rw [hr] at hrun; simp at hrun
      | some r2 =>
        obtain ⟨fin', more⟩ := r2
        rw [hr] at hrun
        simp only [Option.some.injEq, Prod.mk.injEq] at hrun
        obtain ⟨rfl, rfl⟩ := hrun
        by_cases hms : ms = []
        · subst hms
          simp only [runSystem, Option.some.injEq, Prod.mk.injEq] at hr
          obtain ⟨rfl, _⟩ := hr
          exact (runMolecule_spec h gen sf st st' m a hm).2.2.2.2.2.2 U (hU m (by simp)) hnd
        · exact ih hms (fun m' hm' => hU m' (by simp [hm'])) st' more hr

/-- a size stored under a key that has a template never changes again -/
theorem runSystem_size_fixed (h : G → String) (gen : String → G → Generated K) (sf : Bool) (ms : List (Mol G K))
    (st fin : GTState K) (attrs : List (List String)) (hrun : runSystem h gen sf st ms = some (fin, attrs))
    (k : String) (hk : st.templates.has k = true) : fin.volumes.get? k = st.volumes.get? k := by
  induction ms generalizing st attrs with
  | nil =>
    simp only [runSystem, Option.some.injEq, Prod.mk.injEq] at hrun
    obtain ⟨rfl, _⟩ := hrun; rfl
  | cons m ms ih =>
    simp only [runSystem] at hrun
    cases hm : runMolecule h gen sf st m with
    | none => rw [hm] at hrun; simp at hrun
    | some r =>
      obtain ⟨st', a⟩ := r
      rw [hm] at hrun
      simp only at hrun
      cases hr : runSystem h gen sf st' ms with
      | none => rw [hr] at hrun; simp at hrun
      | some r2 =>
        obtain ⟨fin', more⟩ := r2
        rw [hr] at hrun
        simp only [Option.some.injEq, Prod.mk.injEq] at hrun
        obtain ⟨rfl, rfl⟩ := hrun
        obtain ⟨_, m2, _, m4, _, _, _⟩ := runMolecule_spec h gen sf st st' m a hm
        rw [ih st' more hr (m2 k hk), m4 k hk]

/-- the generation step: a residue name with a user size hands that size to the hash being generated, and
it stays -/
theorem genTemplates_user_volume (gen : String → G → Generated K) (st st' : GTState K) (gh : String) (g : G)
    (rest : List (String × Option G)) (v : K)
    (hnew : st.templates.has gh = false) (hv : st.volumes.get? (gen gh g).resname = some v)
    (h : genTemplates gen st ((gh, some g) :: rest) = some st') :
    st'.volumes.get? gh = some v ∧ st'.templates.get? gh = some (mapFromCoG (gen gh g).coords) := by
  simp only [genTemplates, hnew, Bool.false_eq_true, if_false, hv] at h
  obtain ⟨h1, h2, _, _, _, _⟩ := genTemplates_spec gen rest _ st' h
  have hs : (st.templates.set gh (mapFromCoG (gen gh g).coords)).has gh = true := has_set_self _ _ _
  constructor
  · rw [h2 gh hs, get?_set]; simp
  · rw [h1 gh hs, get?_set]; simp

/-- … and without a user size it gets the size computed from its own coordinates -/
theorem genTemplates_own_volume (gen : String → G → Generated K) (st st' : GTState K) (gh : String) (g : G)
    (rest : List (String × Option G))
    (hnew : st.templates.has gh = false) (hv : st.volumes.get? (gen gh g).resname = none)
    (h : genTemplates gen st ((gh, some g) :: rest) = some st') :
    st'.volumes.get? gh = some (gen gh g).volume := by
  simp only [genTemplates, hnew, Bool.false_eq_true, if_false, hv] at h
  obtain ⟨_, h2, _, _, _, _⟩ := genTemplates_spec gen rest _ st' h
  have hs : (st.templates.set gh (mapFromCoG (gen gh g).coords)).has gh = true := has_set_self _ _ _
  rw [h2 gh hs, get?_set]; simp

omit [Field K] in
/-- `BuildDirector.finalize`: the user's size of a residue name reaches the hash of the user's template of
that name and stays available under the name (no hash of the build file is itself a residue name of it) -/
theorem rekeyPairs_spec (vols : Dict K) (r2h : List (String × String))
    (hdisj : ∀ rh ∈ r2h, ∀ rh' ∈ r2h, rh.2 ≠ rh'.1) :
    (∀ rh ∈ r2h, (rekeyPairs vols r2h).get? rh.1 = vols.get? rh.1) ∧
    (∀ rh ∈ r2h, ∀ v, vols.get? rh.1 = some v →
      (∀ rh' ∈ r2h, rh'.2 = rh.2 → vols.get? rh'.1 = some v ∨ vols.get? rh'.1 = none) →
      (rekeyPairs vols r2h).get? rh.2 = some v) := by
  unfold rekeyPairs
  -- generalise: fold over a suffix `l` of the list, names keep their value in the accumulator
  have key : ∀ (l : List (String × String)) (acc : Dict K),
      (∀ rh ∈ l, ∀ rh' ∈ r2h, rh.2 ≠ rh'.1) →
      (∀ rh' ∈ r2h, acc.get? rh'.1 = vols.get? rh'.1) →
      (∀ rh' ∈ r2h, (l.foldl (fun vs rh => match vs.get? rh.1 with
          | some v => vs.set rh.2 v | none => vs) acc).get? rh'.1 = vols.get? rh'.1) ∧
      (∀ H v, (acc.get? H = some v ∨ ∃ rh ∈ l, rh.2 = H ∧ vols.get? rh.1 = some v) →
        (∀ rh ∈ l, rh.2 = H → vols.get? rh.1 = some v ∨ vols.get? rh.1 = none) →
        (∀ rh ∈ l, rh ∈ r2h) →
        (l.foldl (fun vs rh => match vs.get? rh.1 with
          | some v => vs.set rh.2 v | none => vs) acc).get? H = some v) := by
    intro l
    induction l with
    | nil =>
      intro acc _ hacc
      refine ⟨fun rh' hrh' => hacc rh' hrh', ?_⟩
      intro H v hH _ _
      rcases hH with hH | ⟨rh, hrh, _⟩
      · exact hH
      · simp at hrh
    | cons rh l ih =>
      intro acc hd hacc
      simp only [List.foldl_cons]
      set acc' := (match acc.get? rh.1 with | some v => acc.set rh.2 v | none => acc) with hacc'
      have hacc'_names : ∀ rh' ∈ r2h, acc'.get? rh'.1 = vols.get? rh'.1 := by
        intro rh' hrh'
        rw [hacc']
        cases hg : acc.get? rh.1 with
        | none => exact hacc rh' hrh'
        | some v =>
          simp only
          rw [get?_set, if_neg (fun e => hd rh (by simp) rh' hrh' e.symm)]
          exact hacc rh' hrh'
      obtain ⟨i1, i2⟩ := ih acc' (fun x hx => hd x (by simp [hx])) hacc'_names
      refine ⟨i1, ?_⟩
      intro H v hH hsame hsub
      apply i2 H v ?_ (fun x hx => hsame x (by simp [hx])) (fun x hx => hsub x (by simp [hx]))
      have hrh_mem : rh ∈ r2h := hsub rh (by simp)
      -- value of H in acc'
      by_cases hH2 : rh.2 = H
      · -- this entry writes H (if the name has a size)
        have hname := hacc rh hrh_mem
        rcases hsame rh (by simp) hH2 with hv | hn
        · left
          rw [hacc']
          rw [hname, hv]
          simp only
          rw [get?_set]; simp [hH2]
        · -- the name has no size: acc unchanged
          have : acc' = acc := by rw [hacc', hname, hn]
          rw [this]
          rcases hH with hH | ⟨x, hx, hxH, hxv⟩
          · left; exact hH
          · simp only [List.mem_cons] at hx
            rcases hx with rfl | hx
            · rw [hn] at hxv; cases hxv
            · right; exact ⟨x, hx, hxH, hxv⟩
      · rcases hH with hH | ⟨x, hx, hxH, hxv⟩
        · left
          rw [hacc']
          cases hg : acc.get? rh.1 with
          | none => exact hH
          | some w =>
            simp only
            rw [get?_set, if_neg (fun e => hH2 e.symm)]; exact hH
        · simp only [List.mem_cons] at hx
          rcases hx with rfl | hx
          · exact absurd hxH hH2
          · right; exact ⟨x, hx, hxH, hxv⟩
  obtain ⟨k1, k2⟩ := key r2h vols (fun rh hrh rh' hrh' => hdisj rh hrh rh' hrh') (fun _ _ => rfl)
  refine ⟨k1, ?_⟩
  intro rh hrh v hv hsame
  exact k2 rh.2 v (Or.inr ⟨rh, hrh, rfl, hv⟩) (fun x hx hxe => hsame x hx hxe) (fun _ hx => hx)

end system

/-! ### the size is positive (full statement, exact arithmetic) -/

section sizepos

theorem normSq_pos_of_ne {v : V3 Rat} (h : v ≠ 0) : 0 < V3.normSq v := by
  have hne : v.x ≠ 0 ∨ v.y ≠ 0 ∨ v.z ≠ 0 := by
    by_contra hc
    push Not at hc
    apply h
    ext <;> simp [hc.1, hc.2.1, hc.2.2]
  unfold V3.normSq V3.dot
  rcases hne with hx | hy | hz
  · have := mul_self_pos.mpr hx
    nlinarith [mul_self_nonneg v.y, mul_self_nonneg v.z]
  · have := mul_self_pos.mpr hy
    nlinarith [mul_self_nonneg v.x, mul_self_nonneg v.z]
  · have := mul_self_pos.mpr hz
    nlinarith [mul_self_nonneg v.x, mul_self_nonneg v.y]

theorem inner_ge (pts : List (V3 Rat)) (i : V3 Rat) (acc : Rat) :
    acc ≤ pts.foldl (fun acc j => acc + V3.normSq (i - j)) acc := by
  induction pts generalizing acc with
  | nil => exact le_rfl
  | cons b l ih => exact le_trans (le_add_of_nonneg_right (normSq_nonneg _)) (ih _)

theorem inner_mem (pts : List (V3 Rat)) (i j : V3 Rat) (acc : Rat) (hj : j ∈ pts) (hacc : 0 ≤ acc) :
    V3.normSq (i - j) ≤ pts.foldl (fun acc j => acc + V3.normSq (i - j)) acc := by
  induction pts generalizing acc with
  | nil => simp at hj
  | cons b l ih =>
    simp only [List.mem_cons] at hj
    simp only [List.foldl_cons]
    rcases hj with rfl | hj
    · exact le_trans (le_add_of_nonneg_left hacc) (inner_ge l i _)
    · exact ih _ hj (add_nonneg hacc (normSq_nonneg _))

theorem outer_ge (pts l : List (V3 Rat)) (acc : Rat) :
    acc ≤ l.foldl (fun acc i => pts.foldl (fun acc j => acc + V3.normSq (i - j)) acc) acc := by
  induction l generalizing acc with
  | nil => exact le_rfl
  | cons b l ih => exact le_trans (inner_ge pts b acc) (ih _)

theorem outer_mem (pts l : List (V3 Rat)) (i j : V3 Rat) (acc : Rat) (hi : i ∈ l) (hj : j ∈ pts) (hacc : 0 ≤ acc) :
    V3.normSq (i - j) ≤ l.foldl (fun acc i => pts.foldl (fun acc j => acc + V3.normSq (i - j)) acc) acc := by
  induction l generalizing acc with
  | nil => simp at hi
  | cons b l ih =>
    simp only [List.mem_cons] at hi
    simp only [List.foldl_cons]
    rcases hi with rfl | hi
    · exact le_trans (inner_mem pts i j acc hj hacc) (outer_ge pts l _)
    · exact ih _ hi (le_trans hacc (inner_ge pts b acc))

/-- two different points ⇒ positive squared radius of gyration -/
theorem radiusOfGyrationSq_pos (pts : List (V3 Rat)) (i j : V3 Rat) (hi : i ∈ pts) (hj : j ∈ pts) (hne : i ≠ j) :
    0 < radiusOfGyrationSq pts := by
  unfold radiusOfGyrationSq
  have hn : (0 : Rat) < (pts.length : Rat) := by
    have : 0 < pts.length := List.length_pos_of_mem hi
    exact_mod_cast this
  apply mul_pos
  · positivity
  · have hd : i - j ≠ 0 := by
      intro e
      apply hne
      have hx := congrArg V3.x e
      have hy := congrArg V3.y e
      have hz := congrArg V3.z e
      simp only [sub_x, sub_y, sub_z, zero_x, zero_y, zero_z] at hx hy hz
      ext <;> linarith
    exact lt_of_lt_of_le (normSq_pos_of_ne hd) (outer_mem pts pts i j 0 hi hj le_rfl)

/-- the pushed-out vector of an atom -/
def pushed (a : VolAtom) : V3 Rat := a.diff + V3.smul a.rad (V3.sdiv a.diff a.nrm)

theorem dot_sum (g : V3 Rat) (l : List (V3 Rat)) : V3.dot (V3.sum l) g = (l.map fun v => V3.dot v g).sum := by
  induction l with
  | nil => simp [sum_nil, V3.dot]
  | cons a l ih =>
    rw [sum_cons, List.map_cons, List.sum_cons, ← ih]
    simp only [V3.dot, add_x, add_y, add_z]; ring

theorem sum_pos_of_pos (l : List Rat) (hne : l ≠ []) (h : ∀ x ∈ l, 0 < x) : 0 < l.sum := by
  induction l with
  | nil => exact absurd rfl hne
  | cons a l ih =>
    rw [List.sum_cons]
    by_cases hl : l = []
    · subst hl; simpa using h a (by simp)
    · exact add_pos (h a (by simp)) (ih hl (fun x hx => h x (by simp [hx])))

/-- what the theorem assumes about the input of `compute_volume`: non-negative threshold, positive self σ,
`nrm` the genuine norm of `diff`, differences taken from the centre of geometry, at least one atom -/
structure VolInput (thr : Rat) (atoms : List VolAtom) : Prop where
  thr_nonneg : 0 ≤ thr
  rad_pos : ∀ a ∈ atoms, 0 < a.rad
  nrm_nonneg : ∀ a ∈ atoms, 0 ≤ a.nrm
  nrm_sq : ∀ a ∈ atoms, a.nrm * a.nrm = V3.normSq a.diff
  centred : V3.sum (atoms.map (·.diff)) = 0
  nonempty : atoms ≠ []

theorem pushed_dot (a : VolAtom) (hn : 0 < a.nrm) (hr : 0 < a.rad) (hsq : a.nrm * a.nrm = V3.normSq a.diff) :
    0 < V3.dot a.diff (pushed a) := by
  have e : V3.dot a.diff (pushed a) = (1 + a.rad / a.nrm) * V3.normSq a.diff := by
    simp only [pushed, V3.dot, V3.normSq, add_x, add_y, add_z, smul_x, smul_y, smul_z, sdiv_x, sdiv_y, sdiv_z]
    ring
  rw [e, ← hsq]
  have : 0 < a.rad / a.nrm := div_pos hr hn
  positivity

theorem pushed_ne_zero (a : VolAtom) (hn : 0 < a.nrm) (hr : 0 < a.rad) (hsq : a.nrm * a.nrm = V3.normSq a.diff) :
    pushed a ≠ 0 := by
  intro e
  have := pushed_dot a hn hr hsq
  rw [e] at this
  simp [V3.dot, zero_x, zero_y, zero_z] at this

theorem any_replicate_zero (k : Nat) : ((List.replicate k (0 : V3 Rat)).any fun v => !isZero v) = false := by
  induction k with
  | zero => rfl
  | succ k ih =>
    rw [List.replicate_succ, List.any_cons, ih]
    simp [isZero, zero_x, zero_y, zero_z]

theorem isZero_iff (v : V3 Rat) : isZero v = true ↔ v = 0 := by
  constructor
  · intro h
    simp only [isZero, Bool.and_eq_true, beq_iff_eq] at h
    ext <;> simp [h.1.1, h.1.2, h.2]
  · intro h; subst h; simp [isZero, zero_x, zero_y, zero_z]

/-- every size `compute_volume` returns for a well-formed input is positive -/
theorem computeVolume_positive_full (thr : Rat) (atoms : List VolAtom) (hin : VolInput thr atoms) :
    (computeVolume thr atoms).positive := by
  rw [computeVolume_eq]
  set far := atoms.filter fun a => decide (a.nrm > thr) with hfar
  have hg : geomVects thr atoms = far.map pushed ++ List.replicate (atoms.length - far.length) (0 : V3 Rat) := rfl
  have hfar_sub : ∀ a ∈ far, a ∈ atoms ∧ a.nrm > thr := by
    intro a ha
    rw [hfar, List.mem_filter] at ha
    exact ⟨ha.1, by simpa using ha.2⟩
  by_cases hnofar : far = []
  · -- all atoms on the centre: the largest radius
    have hany : ((geomVects thr atoms).any fun v => !isZero v) = false := by
      rw [hg, hnofar]; simp only [List.map_nil, List.nil_append]; exact any_replicate_zero _
    rw [if_neg (by simp [hany])]
    have hnear : nearRadii thr atoms = atoms.map (·.rad) := by
      unfold nearRadii
      congr 1
      rw [List.filter_eq_self]
      intro a ha
      by_contra hc
      have : a ∈ far := by
        rw [hfar, List.mem_filter]
        exact ⟨ha, by simpa using hc⟩
      rw [hnofar] at this; simp at this
    cases hm : maxList (nearRadii thr atoms) with
    | none =>
      exfalso
      have hne := hin.nonempty
      rw [hnear] at hm
      cases hatoms : atoms with
      | nil => exact hne hatoms
      | cons a l =>
        rw [hatoms] at hm
        simp only [List.map_cons, maxList] at hm
        cases h2 : maxList (l.map (·.rad)) <;> simp [h2] at hm
    | some m =>
      show 0 < m
      have hmem := maxList_mem _ _ hm
      rw [hnear] at hmem
      simp only [List.mem_map] at hmem
      obtain ⟨a, ha, rfl⟩ := hmem
      exact hin.rad_pos a ha
  · -- some atom off the centre
    obtain ⟨a0, ha0⟩ := List.exists_mem_of_ne_nil far hnofar
    obtain ⟨ha0_in, ha0_far⟩ := hfar_sub a0 ha0
    have hn0 : 0 < a0.nrm := lt_of_le_of_lt hin.thr_nonneg ha0_far
    have hg0 : pushed a0 ≠ 0 := pushed_ne_zero a0 hn0 (hin.rad_pos a0 ha0_in) (hin.nrm_sq a0 ha0_in)
    have hg0_mem : pushed a0 ∈ geomVects thr atoms := by
      rw [hg]; exact List.mem_append_left _ (List.mem_map_of_mem ha0)
    have hany : ((geomVects thr atoms).any fun v => !isZero v) = true := by
      rw [List.any_eq_true]
      refine ⟨pushed a0, hg0_mem, ?_⟩
      cases hz : isZero (pushed a0) with
      | false => rfl
      | true => exact absurd ((isZero_iff _).1 hz) hg0
    rw [if_pos hany]
    show 0 < radiusOfGyrationSq (geomVects thr atoms)
    by_cases hlen : far.length < atoms.length
    · -- a zero row exists
      have hz_mem : (0 : V3 Rat) ∈ geomVects thr atoms := by
        rw [hg]
        apply List.mem_append_right
        rw [List.mem_replicate]
        exact ⟨by omega, rfl⟩
      exact radiusOfGyrationSq_pos _ _ _ hg0_mem hz_mem hg0
    · -- every atom is off the centre
      have hall : far = atoms := by
        have hle : far.length ≤ atoms.length := List.length_filter_le _ _
        have : far.length = atoms.length := by omega
        rw [hfar] at this ⊢
        exact List.filter_eq_self.mpr (List.length_filter_eq_length_iff.mp this)
      by_cases hsame : ∀ a ∈ atoms, pushed a = pushed a0
      · exfalso
        have hzero : V3.dot (V3.sum (atoms.map (·.diff))) (pushed a0) = 0 := by
          rw [hin.centred]; simp [V3.dot, zero_x, zero_y, zero_z]
        rw [dot_sum, List.map_map] at hzero
        have hpos : 0 < ((atoms.map ((fun v => V3.dot v (pushed a0)) ∘ fun a => a.diff))).sum := by
          apply sum_pos_of_pos
          · simpa using hin.nonempty
          · intro x hx
            simp only [List.mem_map, Function.comp] at hx
            obtain ⟨a, ha, rfl⟩ := hx
            rw [← hsame a ha]
            have hafar : a ∈ far := by rw [hall]; exact ha
            have hna : 0 < a.nrm := lt_of_le_of_lt hin.thr_nonneg (hfar_sub a hafar).2
            exact pushed_dot a hna (hin.rad_pos a ha) (hin.nrm_sq a ha)
        rw [hzero] at hpos
        exact lt_irrefl _ hpos
      · push Not at hsame
        obtain ⟨a, ha, hne⟩ := hsame
        have ha_mem : pushed a ∈ geomVects thr atoms := by
          rw [hg]; apply List.mem_append_left; apply List.mem_map_of_mem; rw [hall]; exact ha
        exact radiusOfGyrationSq_pos _ _ _ ha_mem hg0_mem hne

end sizepos

/-! ### the build file leaves a size for every template it supplies -/

section buildfile
variable {K : Type} [Field K]

theorem rekeyVolumes_has (vols : Dict K) (r2h : Dict (List String)) (k : String) (h : vols.has k = true) :
    (rekeyVolumes vols r2h).has k = true := by
  unfold rekeyVolumes rekeyPairs
  generalize r2hPairs r2h = pairs
  induction pairs generalizing vols with
  | nil => exact h
  | cons rh l ih =>
    simp only [List.foldl_cons]
    apply ih
    cases vols.get? rh.1 with
    | none => exact h
    | some v => exact has_set_of_has _ _ _ _ h

theorem bfFold_inv (ops : List (BfOp K)) (s : BfState K)
    (hs : ∀ k, s.templates.has k = true → s.volumes.has k = true) :
    ∀ k, (ops.foldl BfState.step s).templates.has k = true → (ops.foldl BfState.step s).volumes.has k = true := by
  induction ops generalizing s with
  | nil => exact hs
  | cons op ops ih =>
    simp only [List.foldl_cons]
    apply ih
    intro k hk
    cases op with
    | volume resname v =>
      simp only [BfState.step] at hk ⊢
      exact has_set_of_has _ _ _ _ (hs k hk)
    | template resname hash coords vol =>
      simp only [BfState.step] at hk ⊢
      rw [has_set] at hk
      by_cases e : k = hash
      · subst e
        split
        · assumption
        · exact has_set_self _ _ _
      · simp only [e, decide_false, Bool.false_or] at hk
        split
        · exact hs k hk
        · exact has_set_of_has _ _ _ _ (hs k hk)

/-- after `read_build_file` every template of the build file has a size -/
theorem readBuildFile_sizes (vols0 : Dict K) (ops : List (BfOp K)) :
    ∀ k, (readBuildFile vols0 ops).2.has k = true → (readBuildFile vols0 ops).1.has k = true := by
  intro k hk
  unfold readBuildFile at hk ⊢
  simp only at hk ⊢
  apply rekeyVolumes_has
  exact bfFold_inv ops ⟨vols0, [], []⟩ (fun k hk => by simp [Dict.has, Dict.get?] at hk) k hk

end buildfile

end PolyplyVerif.Proofs.Templates
