/-
Composition C03 ∘ C08: the atom listing `gen_coords` writes is determined by the READ topology.

`Model/Coords.lean` (C03) takes molecule types (`MolType` = name + atoms) and a parsed `[ molecules ]`
list `(name, count)`; `Model/TopParse.lean` (C08) produces, from the topology TEXT, the collected molecule
types as line groups (`Glob.groups`, in `read_itp` call order), the set of block names, the `[ molecules ]`
lines as token pairs and `topology.molecules`.

BRIDGE (functions, no assumptions)
* `bridgeTypes atomsOf g`: one `Coords.MolType` per collected group: name = `groupName grp` (what the
  reader itself takes as block name), atoms = `atomsOf (sealGroup grp)`.  `atomsOf` — what vermouth's
  `read_itp` makes of the `[ atoms ]` lines of a collected molecule type — is a PARAMETER, exactly as in
  the TopParse model, where `read_itp` is trusted; every theorem holds for EVERY `atomsOf`.  A concrete
  instance (`groupAtoms`: columns 3-5 of the lines below `[ atoms ]`) is used in the examples.  The list
  is REVERSED so that `Coords.findType` (first hit) returns the LAST group read under a name
  (`force_field.blocks[name] = block` overwrites).
* `parsedMols` (Proofs/TopParse.lean) turns the count tokens into numbers;
* `molLines raws`: the `[ molecules ]` lines of a text by an independent scan (`molScan`): section
  bookkeeping of `parse_header` only, then every two-token content line while the section is `molecules`.

No disagreement between the two models was found: `Coords.expandLoop` and `TopParse.expandMols` are two
models of the same loop of `TOPDirector.finalize` and produce the same molecule order
(`expandLoop_names`).
-/
import PolyplyVerif.Model.TopParse
import PolyplyVerif.Proofs.TopParse
import PolyplyVerif.Proofs.C08Flatten
import PolyplyVerif.Model.Coords
import PolyplyVerif.Proofs.Coords

set_option linter.unusedSimpArgs false
set_option linter.unusedVariables false

namespace PolyplyVerif.Compose
open PolyplyVerif PolyplyVerif.TopParse PolyplyVerif.Proofs.TopParse PolyplyVerif.Proofs.C08Flatten
open PolyplyVerif.Coords (MolType findType listing specListing)

/-! ### bridge -/

/-- molecule types of the read topology, last read first -/
def bridgeTypes (atomsOf : Group → List Coords.Atom) (g : Glob) : List MolType :=
  g.groups.reverse.filterMap fun grp =>
    match groupName grp with
    | .ok nm => some ⟨nm, atomsOf (sealGroup grp)⟩
    | .error _ => none

/-- the atoms of the molecule type called `name` in the read topology (`[]` if there is none) -/
def atomsOfName (atomsOf : Group → List Coords.Atom) (g : Glob) (name : String) : List Coords.Atom :=
  ((findType (bridgeTypes atomsOf g) name).map (·.atoms)).getD []

/-- the `[ molecules ]` contribution of one content line read in section `sec` -/
def molContrib (sec : List String) (toks : List String) : List (String × String) :=
  if handlerOf sec == some "_molecules" then
    match toks with
    | [a, b] => [(a, b)]
    | _ => []
  else []

/-- independent scan for the `[ molecules ]` lines: only headers move the section -/
def molScan : List Line → List String → List (String × String)
  | [], _ => []
  | .header name :: rest, sec => molScan rest (newSection sec name)
  | .content toks :: rest, sec => molContrib sec toks ++ molScan rest sec
  | _ :: rest, sec => molScan rest sec

/-- the `[ molecules ]` lines of a topology text, in order, as (name, count token) -/
def molLines (raws : List String) : List (String × String) := molScan (parseLines raws) []

/-- a concrete reading of the `[ atoms ]` lines of a collected molecule type: `nr type resnr residue atom …` -/
def atomOfToks : List String → Option Coords.Atom
  | _ :: _ :: resnr :: resname :: atomname :: _ => (natOfTok resnr).map fun r => ⟨r.toNat, resname, atomname⟩
  | _ => none

def groupAtomsGo : Group → Bool → List Coords.Atom
  | [], _ => []
  | .hdr n :: rest, _ => groupAtomsGo rest (n == "atoms")
  | .toks t :: rest, inAtoms =>
    (if inAtoms && (t.head?.bind firstChar) != some '#' then (atomOfToks t).toList else []) ++ groupAtomsGo rest inAtoms

def groupAtoms (grp : Group) : List Coords.Atom := groupAtomsGo grp false

/-- an include tree for the examples (the tree `fsGood` of Properties/C08.lean, copied so that this file does
not depend on that Properties file): six files, conditional includes, a molecule type in an included file -/
def exTree : FS :=
  [(["run", "system.top"], ["#define FLEXIBLE", "#include \"../ff/forcefield.itp\"", "#ifdef HEAVY", "#error no heavy hydrogens",
                            "#endif", "[ moleculetype ]", "MOL1 1", "[ atoms ]", "1 CT 1 RES A1 1", "#ifdef FLEXIBLE",
                            "[ bonds ]", "#endif", "#include \"../mols/water.itp\"", "[ system ]", "title",
                            "[ molecules ]", "SOL 2", "MOL1 1", "SOL 1"]),
   (["ff", "forcefield.itp"], ["[ defaults ]", "1 2 yes 0.5 0.8333", "#ifdef FLEXIBLE", "#include \"sub/flex.itp\"", "#else",
                               "#include \"sub/rigid.itp\"", "#endif", "[ atomtypes ]", "CT 12.011 0.0 A 0.35 0.276"]),
   (["ff", "sub", "flex.itp"], ["[ bondtypes ]", "CT CT 1 0.153 224262.4", "#include \"./common.itp\""]),
   (["ff", "sub", "rigid.itp"], ["[ constrainttypes ]", "CT CT 1 0.153"]),
   (["ff", "sub", "common.itp"], ["[ angletypes ]", "CT CT CT 1 112.7 488.273"]),
   (["mols", "water.itp"], ["[ moleculetype ]", "SOL 2", "[ atoms ]", "1 OW 1 SOL OW 1", "[ settles ]", "1 1 0.1 0.16"])]

/-! ### C03 side: the listing when every listed name is a type -/

theorem specListing_of_known (types : List MolType) (mols : List (String × Nat))
    (h : ∀ m ∈ mols, (findType types m.1).isSome = true) :
    specListing types mols =
      some (mols.flatMap fun m => (List.replicate m.2 (((findType types m.1).map (·.atoms)).getD [])).flatten) := by
  induction mols with
  | nil => rfl
  | cons e rest ih =>
    obtain ⟨name, n⟩ := e
    have h1 := h (name, n) List.mem_cons_self
    have ih' := ih (fun m hm => h m (List.mem_cons_of_mem _ hm))
    cases hf : findType types name with
    | none => rw [hf] at h1; cases h1
    | some t =>
      simp only [specListing, hf, ih', List.flatMap_cons, Option.map_some, Option.getD_some]

theorem flatMap_expandSpec {β} (pm : List (String × Nat)) (f : String → List β) :
    (expandSpec pm).flatMap f = pm.flatMap fun m => (List.replicate m.2 (f m.1)).flatten := by
  unfold expandSpec
  rw [List.flatMap_assoc]
  apply List.flatMap_congr
  intro m _
  induction m.2 with
  | zero => rfl
  | succ k ih => simp [List.replicate_succ, ih]

/-- a name has a type in the bridge iff a collected group carries it -/
theorem findType_bridge_isSome (atomsOf : Group → List Coords.Atom) (g : Glob) (n : String)
    (h : ∃ grp ∈ g.groups, groupName grp = .ok n) : (findType (bridgeTypes atomsOf g) n).isSome = true := by
  obtain ⟨grp, hg, hn⟩ := h
  unfold findType
  rw [List.find?_isSome]
  refine ⟨⟨n, atomsOf (sealGroup grp)⟩, ?_, by simp⟩
  unfold bridgeTypes
  rw [List.mem_filterMap]
  exact ⟨grp, List.mem_reverse.mpr hg, by rw [hn]⟩

/-- **core of the composition**: for a read topology `g` in which every name of the parsed `[ molecules ]`
list `pm` is carried by a collected group, the listing is the expansion of `pm` with the atoms of the named
type — equivalently `topology.molecules` (when it is `expandSpec pm`) mapped to atoms -/
theorem listing_of_glob (atomsOf : Group → List Coords.Atom) (g : Glob) (pm : List (String × Nat))
    (hnames : ∀ m ∈ pm, ∃ grp ∈ g.groups, groupName grp = .ok m.1) :
    listing (bridgeTypes atomsOf g) pm =
      some (pm.flatMap fun m => (List.replicate m.2 (atomsOfName atomsOf g m.1)).flatten) := by
  rw [Proofs.Coords.listing_eq_spec, specListing_of_known]
  · rfl
  · intro m hm
    exact findType_bridge_isSome atomsOf g m.1 (hnames m hm)

/-! ### C08 side: what one director leaves behind -/

/-- the part of the topology object that only `finalize` writes -/
def Keep (g g' : Glob) : Prop :=
  g'.groups = g.groups ∧ g'.blockNames = g.blockNames ∧ g'.molecules = g.molecules ∧ g'.molIdx = g.molIdx

theorem Keep.refl (g : Glob) : Keep g g := ⟨rfl, rfl, rfl, rfl⟩

theorem Keep.trans {a b c : Glob} (h1 : Keep a b) (h2 : Keep b c) : Keep a c :=
  ⟨h2.1.trans h1.1, h2.2.1.trans h1.2.1, h2.2.2.1.trans h1.2.2.1, h2.2.2.2.trans h1.2.2.2⟩

theorem doType_keep (g : Glob) (c : Option Cond) (s : String) (toks : List String) (g' : Glob)
    (h : doType g c s toks = .ok g') : Keep g g' := by
  unfold doType at h
  split at h
  · cases h
  · split at h
    · cases h
    · cases h
      exact ⟨rfl, rfl, rfl, rfl⟩

theorem doContent_keep (g : Glob) (l : Loc) (toks : List String) (g' : Glob) (l' : Loc)
    (h : doContent g l toks = .ok (g', l')) :
    Keep g g' ∧ l'.sec = l.sec ∧ l'.mols = l.mols ++ molContrib l.sec toks := by
  unfold doContent at h
  cases hh : handlerOf l.sec with
  | none => simp [hh] at h
  | some hd =>
    simp only [hh] at h
    by_cases hm : hd = "_molecules"
    · subst hm
      have e1 : (("_molecules" == "_system") || ("_molecules" == "_skip") || ("_molecules" == "_macros")) = false := by decide
      simp only [e1, Bool.false_eq_true, if_false, beq_self_eq_true, if_true] at h
      unfold molContrib
      simp only [hh, beq_self_eq_true, if_true]
      split at h
      · cases h
        exact ⟨Keep.refl _, rfl, rfl⟩
      · cases h
    · have hmc : molContrib l.sec toks = [] := by
        unfold molContrib
        have : (handlerOf l.sec == some "_molecules") = false := by
          rw [hh]; simp [hm]
        simp [this]
      rw [hmc, List.append_nil]
      have hmb : (hd == "_molecules") = false := by simp [hm]
      simp only [hmb, Bool.false_eq_true, if_false] at h
      split at h
      · cases h; exact ⟨Keep.refl _, rfl, rfl⟩
      · split at h
        · cases hd' : doDefaults toks with
          | error e => simp [hd', Except.map] at h
          | ok d =>
            simp only [hd', Except.map] at h
            cases h; exact ⟨⟨rfl, rfl, rfl, rfl⟩, rfl, rfl⟩
        · split at h
          · cases hd' : doAtomType toks with
            | error e => simp [hd', Except.map] at h
            | ok d =>
              simp only [hd', Except.map] at h
              cases h; exact ⟨⟨rfl, rfl, rfl, rfl⟩, rfl, rfl⟩
          · split at h
            · cases hd' : doNonbond toks with
              | error e => simp [hd', Except.map] at h
              | ok d =>
                simp only [hd', Except.map] at h
                cases h; exact ⟨⟨rfl, rfl, rfl, rfl⟩, rfl, rfl⟩
            · split at h
              · cases hd' : doType g l.cond (l.sec.getLast?.getD "") toks with
                | error e => simp [hd', Except.map] at h
                | ok d =>
                  simp only [hd', Except.map] at h
                  cases h; exact ⟨doType_keep _ _ _ _ _ hd', rfl, rfl⟩
              · split at h
                · split at h
                  · cases h; exact ⟨Keep.refl _, rfl, rfl⟩
                  · cases h
                · cases h

theorem doHeader_sec_mols (l : Loc) (name : String) :
    (doHeader l name).sec = newSection l.sec name ∧ (doHeader l name).mols = l.mols := by
  unfold doHeader
  simp only []
  split <;> split <;> (try split) <;> (try split) <;> simp

theorem doPragma_keep (inc : Path → Glob → Except String Glob) (hinc : ∀ p g g', inc p g = .ok g' → Keep g g')
    (dir : Path) (g : Glob) (l : Loc) (toks : List String) (g' : Glob) (l' : Loc)
    (h : doPragma inc dir g l toks = .ok (g', l')) :
    Keep g g' ∧ l'.sec = l.sec ∧ l'.mols = l.mols := by
  unfold doPragma at h
  simp only [] at h
  split at h
  · split at h
    · (cases h; exact ⟨⟨rfl, rfl, rfl, rfl⟩, rfl, rfl⟩)
    · split at h
      · cases h
      · (cases h; exact ⟨⟨rfl, rfl, rfl, rfl⟩, rfl, rfl⟩)
  · split at h
    · split at h
      · (cases h; exact ⟨⟨rfl, rfl, rfl, rfl⟩, rfl, rfl⟩)
      · split at h
        · cases h
        · split at h
          · cases h
          · (cases h; exact ⟨⟨rfl, rfl, rfl, rfl⟩, rfl, rfl⟩)
    · split at h
      · split at h
        · (cases h; exact ⟨⟨rfl, rfl, rfl, rfl⟩, rfl, rfl⟩)
        · split at h
          · cases h
          · split at h
            · (cases h; exact ⟨⟨rfl, rfl, rfl, rfl⟩, rfl, rfl⟩)
            · cases h
      · split at h
        · split at h
          · (cases h; exact ⟨⟨rfl, rfl, rfl, rfl⟩, rfl, rfl⟩)
          · (cases h; exact ⟨⟨rfl, rfl, rfl, rfl⟩, rfl, rfl⟩)
          · cases h
        · split at h
          · split at h
            · (cases h; exact ⟨⟨rfl, rfl, rfl, rfl⟩, rfl, rfl⟩)
            · cases h
          · split at h
            · split at h
              · split at h
                · (cases h; exact ⟨⟨rfl, rfl, rfl, rfl⟩, rfl, rfl⟩)
                · split at h
                  · cases h
                  · rename_i full hfull
                    cases hi : inc full g with
                    | error e => simp [hi, Except.map] at h
                    | ok g1 =>
                      simp only [hi, Except.map] at h
                      (cases h; exact ⟨hinc _ _ _ hi, rfl, rfl⟩)
              · cases h
            · cases h

theorem runLines_keep (inc : Path → Glob → Except String Glob) (hinc : ∀ p g g', inc p g = .ok g' → Keep g g')
    (dir : Path) (lines : List Line) (g : Glob) (l : Loc) (g' : Glob) (l' : Loc)
    (h : runLines inc dir lines (g, l) = .ok (g', l')) :
    Keep g g' ∧ l'.mols = l.mols ++ molScan lines l.sec := by
  induction lines generalizing g l with
  | nil =>
    simp only [runLines] at h
    cases h
    exact ⟨Keep.refl _, by simp [molScan]⟩
  | cons line rest ih =>
    unfold runLines at h
    cases hs : step inc dir (g, l) line with
    | error e => simp [hs] at h
    | ok st1 =>
      obtain ⟨g1, l1⟩ := st1
      simp only [hs] at h
      obtain ⟨hk, hm⟩ := ih g1 l1 h
      cases line with
      | pragma toks =>
        simp only [step] at hs
        obtain ⟨k1, s1, m1⟩ := doPragma_keep inc hinc dir g l toks g1 l1 hs
        refine ⟨k1.trans hk, ?_⟩
        rw [hm, m1, s1]; simp [molScan]
      | star =>
        simp only [step] at hs
        cases hs
        exact ⟨hk, by rw [hm]; simp [molScan]⟩
      | badHeader => simp [step] at hs
      | header name =>
        simp only [step] at hs
        cases hs
        obtain ⟨s1, m1⟩ := doHeader_sec_mols l name
        exact ⟨hk, by rw [hm, m1, s1]; simp [molScan]⟩
      | content toks =>
        simp only [step] at hs
        obtain ⟨k1, s1, m1⟩ := doContent_keep g l toks g1 l1 hs
        refine ⟨k1.trans hk, ?_⟩
        rw [hm, m1, s1]; simp [molScan, List.append_assoc]

/-- **C08 side of the composition**: what reading ONE text (no include is followed) leaves in the topology
object about molecules: the `[ molecules ]` lines found by the independent scan parse to numbers, the
molecule list is their expansion, and every listed name is the name of a collected molecule type. -/
theorem readSingle_molecules (raws : List String) (g : Glob) (h : readSingle raws = .ok g) :
    ∃ pm, parsedMols (molLines raws) = some pm ∧ g.molecules = expandSpec pm ∧
      (∀ m ∈ pm, ∃ grp ∈ g.groups, groupName grp = .ok m.1) ∧ NamesOk g.groups g.blockNames := by
  unfold readSingle at h
  cases hr : runLines (fun _ _ => Except.error "include-in-single-file") [] (parseLines raws) ({}, {}) with
  | error e => simp [hr] at h
  | ok st1 =>
    obtain ⟨g1, l1⟩ := st1
    simp only [hr] at h
    obtain ⟨hk, hm⟩ := runLines_keep _ (fun p g g' hc => by cases hc) [] (parseLines raws) {} {} g1 l1 hr
    have hmols : l1.mols = molLines raws := by rw [hm]; rfl
    unfold finalize at h
    simp only [] at h
    split at h
    · cases h
    · cases hrg : readGroups g1 (if itpActive l1 = true then l1.itpLines ++ [l1.itp.getD []] else l1.itpLines) with
      | error e => simp [hrg] at h
      | ok g2 =>
        simp only [hrg] at h
        obtain ⟨hg, _, _, _, _, _, hmo, hmi, _, hnok⟩ := readGroups_spec _ g1 g2 hrg
        have hn1 : NamesOk g1.groups g1.blockNames := by
          rw [hk.1, hk.2.1]
          exact ⟨fun grp hgrp => (by cases hgrp), fun n => ⟨fun hc => (by cases hc), fun ⟨_, hgrp, _⟩ => (by cases hgrp)⟩⟩
        have hn2 := hnok hn1
        have hm2 : g2.molecules = [] := by rw [hmo, hk.2.2.1]
        have hi2 : g2.molIdx = [] := by rw [hmi, hk.2.2.2]
        have hinv : IdxInv g2 := by
          intro n; simp [hm2, hi2, assocGet, positionsOf]
        obtain ⟨pm, hpm, hmol, _, hnames, hbn, hgr⟩ := expandMols_spec l1.mols g2 g 0 (by simp [hm2]) hinv h
        refine ⟨pm, by rw [← hmols]; exact hpm, by simpa [hm2] using hmol, ?_, by rw [hbn, hgr]; exact hn2⟩
        -- names of pm = names of l1.mols
        have hpmnames : ∀ (ms : List (String × String)) (p : List (String × Nat)), parsedMols ms = some p →
            ∀ m ∈ p, ∃ m' ∈ ms, m'.1 = m.1 := by
          intro ms
          induction ms with
          | nil => intro p hp m hmem; simp [parsedMols] at hp; subst hp; cases hmem
          | cons x xs ihx =>
            intro p hp m hmem
            obtain ⟨nm, tok⟩ := x
            simp only [parsedMols] at hp
            cases hk' : natOfTok tok with
            | none => simp [hk'] at hp
            | some k =>
              cases hr' : parsedMols xs with
              | none => simp [hk', hr'] at hp
              | some r =>
                simp only [hk', hr', Option.some.injEq] at hp
                subst hp
                rcases List.mem_cons.mp hmem with rfl | hmem
                · exact ⟨(nm, tok), List.mem_cons_self, rfl⟩
                · obtain ⟨m', hm', he⟩ := ihx r hr' m hmem
                  exact ⟨m', List.mem_cons_of_mem _ hm', he⟩
        intro m hmem
        obtain ⟨m', hm', he⟩ := hpmnames l1.mols pm hpm m hmem
        have := hnames m' hm'
        rw [he] at this
        rw [hgr]
        exact (hn2.set m.1).mp this

/-! ### the composition -/

/-- **one text**: for EVERY topology text the single-file reader accepts -/
theorem listing_of_readSingle (atomsOf : Group → List Coords.Atom) (raws : List String) (g : Glob)
    (h : readSingle raws = .ok g) :
    ∃ pm, parsedMols (molLines raws) = some pm ∧ g.molecules = expandSpec pm ∧
      listing (bridgeTypes atomsOf g) pm =
        some (pm.flatMap fun m => (List.replicate m.2 (atomsOfName atomsOf g m.1)).flatten) ∧
      listing (bridgeTypes atomsOf g) pm = some (g.molecules.flatMap (atomsOfName atomsOf g)) := by
  obtain ⟨pm, hpm, hmol, hnames, _⟩ := readSingle_molecules raws g h
  have hl := listing_of_glob atomsOf g pm hnames
  refine ⟨pm, hpm, hmol, hl, ?_⟩
  rw [hl, hmol, flatMap_expandSpec]

/-- **include tree**: for every WELL-FORMED include tree the tree reader accepts, with the `[ molecules ]`
lines taken from the flattened text of the property statement of C08 -/
theorem listing_of_readTop (atomsOf : Group → List Coords.Atom) (fs : FS) (top : Path) (st : FlatSt) (gt : Glob)
    (hwf : wellFormed fs top = true) (hfl : flatten fs top = .ok st) (hrt : readTop fs top = .ok gt) :
    ∃ pm, parsedMols (molLines st.out) = some pm ∧ gt.molecules = expandSpec pm ∧
      listing (bridgeTypes atomsOf gt) pm =
        some (pm.flatMap fun m => (List.replicate m.2 (atomsOfName atomsOf gt m.1)).flatten) ∧
      listing (bridgeTypes atomsOf gt) pm = some (gt.molecules.flatMap (atomsOfName atomsOf gt)) := by
  obtain ⟨gf, hgf, hobs⟩ := (flatten_equiv fs top st gt hwf hfl hrt).2
  obtain ⟨pm, hpm, hmol, hnames, _⟩ := readSingle_molecules st.out gf hgf
  have hnames' : ∀ m ∈ pm, ∃ grp ∈ gt.groups, groupName grp = .ok m.1 :=
    fun m hm => (names_perm gt.groups gf.groups hobs.groups m.1).mpr (hnames m hm)
  have hl := listing_of_glob atomsOf gt pm hnames'
  have hmol' : gt.molecules = expandSpec pm := by rw [hobs.molecules]; exact hmol
  refine ⟨pm, hpm, hmol', hl, ?_⟩
  rw [hl, hmol', flatMap_expandSpec]

/-- the two models of the `[ molecules ]` loop agree on the ORDER of the instances: the names of
`Coords.expandLoop` are `TopParse.expandSpec` -/
theorem expandLoop_names (types : List MolType) (pm : List (String × Nat)) (out : List MolType)
    (hname : ∀ t ∈ types, ∀ n, findType types n = some t → t.name = n)
    (h : Coords.expandLoop types [] pm = some out) : out.map (·.name) = expandSpec pm := by
  have key : ∀ (pm : List (String × Nat)) (acc out : List MolType), Coords.expandLoop types acc pm = some out →
      out.map (·.name) = acc.map (·.name) ++ expandSpec pm := by
    intro pm
    induction pm with
    | nil => intro acc out h; simp [Coords.expandLoop] at h; subst h; simp [expandSpec]
    | cons e rest ih =>
      intro acc out h
      obtain ⟨name, n⟩ := e
      simp only [Coords.expandLoop] at h
      cases hf : findType types name with
      | none => simp [hf] at h
      | some t =>
        simp only [hf] at h
        rw [ih _ _ h, Proofs.Coords.appendCopies_eq]
        have ht : t.name = name := by
          have hmem : t ∈ types := by
            unfold findType at hf
            exact List.mem_of_find?_eq_some hf
          exact hname t hmem name hf
        simp [expandSpec, List.flatMap_cons, ht, List.map_replicate]
  simpa using key pm [] out h

end PolyplyVerif.Compose
