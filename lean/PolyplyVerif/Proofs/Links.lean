/-
Helper lemmas for C02 (link application): insertion-ordered dictionaries, the fold of inserts, the
accepted events of the double loop, the backtracking enumeration of residue matches.
-/
import PolyplyVerif.Model.Links

set_option linter.unusedSectionVars false
set_option linter.unusedSimpArgs false
set_option linter.unusedVariables false

namespace PolyplyVerif.Links

section Dict
variable {κ ν : Type} [BEq κ] [LawfulBEq κ]

theorem lookupKV_nil (k : κ) : lookupKV ([] : List (κ × ν)) k = none := rfl

theorem lookupKV_cons (p : κ × ν) (d : List (κ × ν)) (k : κ) :
    lookupKV (p :: d) k = if p.1 == k then some p.2 else lookupKV d k := by
  unfold lookupKV
  by_cases h : p.1 == k <;> simp [List.find?, h]

theorem lookupKV_insertKV (d : List (κ × ν)) (k k' : κ) (v : ν) :
    lookupKV (insertKV d k v) k' = if k == k' then some v else lookupKV d k' := by
  induction d with
  | nil => simp [insertKV, lookupKV_cons, lookupKV_nil]
  | cons p d ih =>
    obtain ⟨a, b⟩ := p
    unfold insertKV
    by_cases h : a == k
    · have hk : a = k := eq_of_beq h
      subst hk
      simp only [h, if_true, lookupKV_cons]
      by_cases h2 : a == k' <;> simp [h2]
    · simp only [h, Bool.false_eq_true, if_false, lookupKV_cons, ih]
      by_cases h2 : a == k'
      · have : ¬ (k == k') := by
          intro h3
          have e1 : a = k' := eq_of_beq h2
          have e2 : k = k' := eq_of_beq h3
          exact h (by rw [e1, e2]; exact beq_self_eq_true k')
        simp [h2, this]
      · simp [h2]

theorem lookupKV_append (l l' : List (κ × ν)) (k : κ) :
    lookupKV (l ++ l') k = (lookupKV l k).or (lookupKV l' k) := by
  induction l with
  | nil => simp [lookupKV_nil]
  | cons p l ih =>
    rw [List.cons_append, lookupKV_cons, lookupKV_cons, ih]
    by_cases h : p.1 == k <;> simp [h]

theorem lastFor_nil (k : κ) : lastFor ([] : List (κ × ν)) k = none := rfl

theorem lastFor_cons (p : κ × ν) (l : List (κ × ν)) (k : κ) :
    lastFor (p :: l) k = (lastFor l k).or (if p.1 == k then some p.2 else none) := by
  unfold lastFor
  rw [List.reverse_cons, lookupKV_append]
  simp [lookupKV_cons, lookupKV_nil]

theorem lastFor_append (l l' : List (κ × ν)) (k : κ) :
    lastFor (l ++ l') k = (lastFor l' k).or (lastFor l k) := by
  unfold lastFor
  rw [List.reverse_append, lookupKV_append]

/-- **fold of inserts**: after inserting the pairs of `l` one by one into `d`, the value under `k` is
the value of the LAST pair of `l` with key `k`; if `l` has no such pair it is what `d` had. -/
theorem fold_insert_last (l d : List (κ × ν)) (k : κ) :
    lookupKV (l.foldl (fun d kv => insertKV d kv.1 kv.2) d) k = (lastFor l k).or (lookupKV d k) := by
  induction l generalizing d with
  | nil => simp [lastFor_nil]
  | cons p l ih =>
    rw [List.foldl_cons, ih, lastFor_cons, lookupKV_insertKV]
    cases lastFor l k with
    | some v => rfl
    | none => by_cases h : p.1 == k <;> simp [h]

theorem lastFor_eq_none_iff (l : List (κ × ν)) (k : κ) :
    lastFor l k = none ↔ ∀ p ∈ l, ¬ (p.1 == k) := by
  unfold lastFor lookupKV
  simp [List.find?_eq_none]

theorem lastFor_some_mem (l : List (κ × ν)) (k : κ) (v : ν) (h : lastFor l k = some v) :
    (k, v) ∈ l := by
  unfold lastFor lookupKV at h
  simp only [Option.map_eq_some_iff] at h
  obtain ⟨p, hp, hv⟩ := h
  have hm := List.mem_of_find?_eq_some hp
  have hk := List.find?_some hp
  have : p.1 = k := eq_of_beq hk
  have hp' : p = (k, v) := by cases p; simp_all
  rw [← hp']
  exact List.mem_reverse.mp hm

/-- filtering a dictionary by a predicate on keys -/
theorem lookupKV_filter_key (d : List (κ × ν)) (q : κ → Bool) (k : κ) :
    lookupKV (d.filter (fun kv => q kv.1)) k = if q k then lookupKV d k else none := by
  induction d with
  | nil => simp [lookupKV_nil]
  | cons p d ih =>
    by_cases hq : q p.1
    · rw [List.filter_cons_of_pos (by simpa using hq), lookupKV_cons, lookupKV_cons, ih]
      by_cases h : p.1 == k
      · have : p.1 = k := eq_of_beq h
        simp [h, ← this, hq]
      · simp [h]
    · rw [List.filter_cons_of_neg (by simpa using hq), lookupKV_cons, ih]
      by_cases h : p.1 == k
      · have : p.1 = k := eq_of_beq h
        simp [h, ← this, hq]
      · simp [h]

end Dict


/-! ### the double loop as a fold over accepted events -/

def step (inp : Input) (s : St) (c : Link × List Nat) : St := applyOne inp s c.1 c.2

/-- state reached from `s` after visiting the candidates `cs` -/
def stateAfter (inp : Input) (s : St) (cs : List (Link × List Nat)) : St := cs.foldl (step inp) s

theorem events_cons_none {inp : Input} {s : St} {c : Link × List Nat} (cs : List (Link × List Nat))
    (h : tryCand inp s c.1 c.2 = none) : events inp s (c :: cs) = events inp s cs := by
  rw [events]; simp [h]

theorem events_cons_some {inp : Input} {s : St} {c : Link × List Nat} {e : Event} (cs : List (Link × List Nat))
    (h : tryCand inp s c.1 c.2 = some e) : events inp s (c :: cs) = e :: events inp (s.apply e) cs := by
  rw [events]; simp [h]

theorem step_none {inp : Input} {s : St} {c : Link × List Nat} (h : tryCand inp s c.1 c.2 = none) :
    step inp s c = s := by simp [step, applyOne, h]

theorem step_some {inp : Input} {s : St} {c : Link × List Nat} {e : Event} (h : tryCand inp s c.1 c.2 = some e) :
    step inp s c = s.apply e := by simp [step, applyOne, h]

theorem stateAfter_cons (inp : Input) (s : St) (c : Link × List Nat) (cs : List (Link × List Nat)) :
    stateAfter inp s (c :: cs) = stateAfter inp (step inp s c) cs := rfl

theorem stateAfter_nil (inp : Input) (s : St) : stateAfter inp s [] = s := rfl

theorem stateAfter_eq_events (inp : Input) (cs : List (Link × List Nat)) (s : St) :
    stateAfter inp s cs = (events inp s cs).foldl St.apply s := by
  induction cs generalizing s with
  | nil => rfl
  | cons c cs ih =>
    rw [stateAfter_cons]
    cases h : tryCand inp s c.1 c.2 with
    | none => rw [step_none h, events_cons_none cs h, ih]
    | some e => rw [step_some h, events_cons_some cs h, ih, List.foldl_cons]

theorem events_append (inp : Input) (cs cs' : List (Link × List Nat)) (s : St) :
    events inp s (cs ++ cs') = events inp s cs ++ events inp (stateAfter inp s cs) cs' := by
  induction cs generalizing s with
  | nil => rfl
  | cons c cs ih =>
    rw [List.cons_append, stateAfter_cons]
    cases h : tryCand inp s c.1 c.2 with
    | none => rw [step_none h, events_cons_none _ h, events_cons_none _ h, ih]
    | some e => rw [step_some h, events_cons_some _ h, events_cons_some _ h, ih, List.cons_append]

/-- an event is accepted iff its candidate passes `tryCand` in the state reached by the candidates
before it -/
theorem mem_events_iff (inp : Input) (cs : List (Link × List Nat)) (s : St) (e : Event) :
    e ∈ events inp s cs ↔
      ∃ pre c post, cs = pre ++ c :: post ∧ tryCand inp (stateAfter inp s pre) c.1 c.2 = some e := by
  induction cs generalizing s with
  | nil => simp [events]
  | cons c cs ih =>
    constructor
    · intro h
      cases ht : tryCand inp s c.1 c.2 with
      | none =>
        rw [events_cons_none cs ht] at h
        obtain ⟨pre, c', post, hcs, hc⟩ := (ih s).mp h
        refine ⟨c :: pre, c', post, by rw [hcs]; rfl, ?_⟩
        rw [stateAfter_cons, step_none ht]; exact hc
      | some e' =>
        rw [events_cons_some cs ht] at h
        rcases List.mem_cons.mp h with h | h
        · exact ⟨[], c, cs, rfl, by rw [h]; exact ht⟩
        · obtain ⟨pre, c', post, hcs, hc⟩ := (ih (s.apply e')).mp h
          refine ⟨c :: pre, c', post, by rw [hcs]; rfl, ?_⟩
          rw [stateAfter_cons, step_some ht]; exact hc
    · rintro ⟨pre, c', post, hcs, hc⟩
      cases pre with
      | nil =>
        simp only [List.nil_append, List.cons.injEq] at hcs
        obtain ⟨h1, h2⟩ := hcs
        subst h1
        have : tryCand inp s c.1 c.2 = some e := hc
        rw [events_cons_some cs this]
        exact List.mem_cons_self
      | cons p pre =>
        simp only [List.cons_append, List.cons.injEq] at hcs
        obtain ⟨h1, h2⟩ := hcs
        subst h1
        rw [stateAfter_cons] at hc
        cases ht : tryCand inp s c.1 c.2 with
        | none =>
          rw [events_cons_none cs ht]
          rw [step_none ht] at hc
          exact (ih s).mpr ⟨pre, c', post, h2, hc⟩
        | some e' =>
          rw [events_cons_some cs ht]
          rw [step_some ht] at hc
          exact List.mem_cons_of_mem _ ((ih (s.apply e')).mpr ⟨pre, c', post, h2, hc⟩)

theorem loopSt_eq_stateAfter (inp : Input) : loopSt inp = stateAfter inp (initSt inp) (cands inp) := by
  unfold loopSt cands candsWith stateAfter
  generalize initSt inp = s
  induction inp.links generalizing s with
  | nil => rfl
  | cons l ls ih =>
    rw [List.foldl_cons, List.flatMap_cons, List.foldl_append, ih]
    congr 1
    by_cases hp : prefilter inp l
    · simp [hp, List.foldl_map, step]
    · simp [hp]

/-! components of the state after a list of events -/

theorem apply_fold_store (es : List Event) (s : St) :
    (es.foldl St.apply s).store = (es.flatMap Event.contribs).foldl (fun d kv => insertKV d kv.1 kv.2) s.store := by
  induction es generalizing s with
  | nil => rfl
  | cons e es ih => rw [List.foldl_cons, ih, List.flatMap_cons, List.foldl_append]; rfl

theorem apply_fold_removed (es : List Event) (s : St) :
    (es.foldl St.apply s).removed = s.removed ++ es.flatMap Event.removals := by
  induction es generalizing s with
  | nil => simp
  | cons e es ih => rw [List.foldl_cons, ih, List.flatMap_cons]; simp [St.apply]

theorem apply_fold_edges (es : List Event) (s : St) :
    (es.foldl St.apply s).edges = (es.flatMap Event.newEdges).foldl addEdge s.edges := by
  induction es generalizing s with
  | nil => rfl
  | cons e es ih => rw [List.foldl_cons, ih, List.flatMap_cons, List.foldl_append]; rfl

theorem apply_fold_attrs (es : List Event) (s : St) :
    (es.foldl St.apply s).attrs = (es.flatMap Event.replaces).foldl updAttrs s.attrs := by
  induction es generalizing s with
  | nil => rfl
  | cons e es ih => rw [List.foldl_cons, ih, List.flatMap_cons, List.foldl_append]; rfl

theorem apply_fold_resid (es : List Event) (s : St) : (es.foldl St.apply s).resid = s.resid := by
  induction es generalizing s with
  | nil => rfl
  | cons e es ih => rw [List.foldl_cons, ih]; rfl

/-! edges -/

theorem hasEdge_append (es es' : List (Nat × Nat)) (a b : Nat) :
    hasEdge (es ++ es') a b = (hasEdge es a b || hasEdge es' a b) := by
  simp [hasEdge, List.any_append]

theorem hasEdge_addEdge (es : List (Nat × Nat)) (e : Nat × Nat) (a b : Nat) :
    hasEdge (addEdge es e) a b = (hasEdge es a b || hasEdge [e] a b) := by
  unfold addEdge
  by_cases h : hasEdge es e.1 e.2
  · simp only [h, if_true]
    by_cases h2 : hasEdge [e] a b
    · simp only [h2, Bool.or_true]
      simp only [hasEdge, List.any_cons, List.any_nil, Bool.or_false, Bool.or_eq_true, Bool.and_eq_true,
        beq_iff_eq] at h2
      rcases h2 with ⟨h3, h4⟩ | ⟨h3, h4⟩
      · rw [← h3, ← h4]; exact h
      · rw [← h3, ← h4]
        simp only [hasEdge, List.any_eq_true, Bool.or_eq_true, Bool.and_eq_true, beq_iff_eq] at h ⊢
        obtain ⟨x, hx, hx2⟩ := h
        exact ⟨x, hx, hx2.symm⟩
    · simp [h2]
  · simp only [h, Bool.false_eq_true, if_false, hasEdge_append]

theorem hasEdge_foldl_addEdge (new es : List (Nat × Nat)) (a b : Nat) :
    hasEdge (new.foldl addEdge es) a b = (hasEdge es a b || hasEdge new a b) := by
  induction new generalizing es with
  | nil => simp [hasEdge]
  | cons e new ih =>
    rw [List.foldl_cons, ih, hasEdge_addEdge]
    have : hasEdge (e :: new) a b = (hasEdge [e] a b || hasEdge new a b) := by
      simp [hasEdge]
    rw [this, Bool.or_assoc]


/-! ### residue-level matches: the enumeration is sound and complete -/

theorem mem_resMatchesAux_iff (inp : Input) (l : Link) (rs : List LRes) (m : List Nat) :
    m ∈ resMatchesAux inp l rs ↔
      m.length = rs.length ∧
      (∀ p ∈ rs.zip m, ∃ nd ∈ inp.res, nd.key = p.2 ∧ nodeOK p.1 nd = true) ∧
      (rs.zip m).Pairwise (fun p q => pairOK inp l p.1.order p.2 q.1.order q.2 = true) := by
  induction rs generalizing m with
  | nil =>
    cases m with
    | nil => simp [resMatchesAux]
    | cons x m => simp [resMatchesAux]
  | cons r rs ih =>
    cases m with
    | nil => simp [resMatchesAux]
    | cons x m =>
      simp only [resMatchesAux, List.mem_flatMap, List.mem_map, List.mem_filter, Bool.and_eq_true,
        List.all_eq_true, List.length_cons, List.zip_cons_cons, List.mem_cons, List.pairwise_cons,
        List.cons.injEq, Nat.add_right_cancel_iff]
      constructor
      · rintro ⟨tail, htail, nd, ⟨hnd, hok, hall⟩, hkey, heq⟩
        subst heq
        obtain ⟨hlen, hnodes, hpw⟩ := (ih tail).mp htail
        refine ⟨hlen, ?_, ?_, hpw⟩
        · intro p hp
          rcases hp with hp | hp
          · subst hp; exact ⟨nd, hnd, hkey, hok⟩
          · exact hnodes p hp
        · intro q hq
          rw [← hkey]
          exact hall q hq
      · rintro ⟨hlen, hnodes, hhead, hpw⟩
        obtain ⟨nd, hnd, hkey, hok⟩ := hnodes (r, x) (Or.inl rfl)
        refine ⟨m, (ih m).mpr ⟨hlen, fun p hp => hnodes p (Or.inr hp), hpw⟩, nd, ⟨hnd, hok, ?_⟩, hkey, rfl⟩
        intro q hq
        rw [hkey]
        exact hhead q hq

theorem mem_resMatches_iff (inp : Input) (l : Link) (m : List Nat) :
    m ∈ resMatches inp l ↔ isResMatch inp l m :=
  mem_resMatchesAux_iff inp l l.resLink m

theorem mem_tuples_iff {α : Type} (xs : List α) (k : Nat) (t : List α) :
    t ∈ tuples xs k ↔ t.length = k ∧ ∀ x ∈ t, x ∈ xs := by
  induction k generalizing t with
  | zero =>
    cases t with
    | nil => simp [tuples]
    | cons a t => simp [tuples]
  | succ k ih =>
    cases t with
    | nil => simp [tuples]
    | cons a t =>
      simp only [tuples, List.mem_flatMap, List.mem_map, List.cons.injEq, List.length_cons,
        Nat.add_right_cancel_iff, List.mem_cons]
      constructor
      · rintro ⟨x, hx, t', ht', h1, h2⟩
        subst h1; subst h2
        obtain ⟨hl, hall⟩ := (ih t').mp ht'
        exact ⟨hl, fun y hy => hy.elim (fun h => h ▸ hx) (hall y)⟩
      · rintro ⟨hl, hall⟩
        exact ⟨a, hall a (Or.inl rfl), t, (ih t).mpr ⟨hl, fun y hy => hall y (Or.inr hy)⟩, rfl, rfl⟩

theorem pairwiseB_iff {α : Type} (r : α → α → Bool) (l : List α) :
    pairwiseB r l = true ↔ l.Pairwise (fun a b => r a b = true) := by
  induction l with
  | nil => simp [pairwiseB]
  | cons a l ih => simp [pairwiseB, ih, List.pairwise_cons]

theorem mem_zip_snd_of_length {α β : Type} (xs : List α) (ys : List β) (h : ys.length = xs.length)
    (y : β) (hy : y ∈ ys) : ∃ x, (x, y) ∈ xs.zip ys := by
  induction xs generalizing ys with
  | nil => cases ys with
    | nil => cases hy
    | cons b ys => simp at h
  | cons a xs ih =>
    cases ys with
    | nil => cases hy
    | cons b ys =>
      simp only [List.length_cons, Nat.add_right_cancel_iff] at h
      rcases List.mem_cons.mp hy with hy | hy
      · exact ⟨a, by rw [hy]; simp⟩
      · obtain ⟨x, hx⟩ := ih ys h hy
        exact ⟨x, by simp [hx]⟩

/-- the oracle's independent enumeration (filter over ALL tuples) finds exactly the same matches -/
theorem mem_specMatches_iff (inp : Input) (l : Link) (m : List Nat) :
    m ∈ specMatches inp l ↔ isResMatch inp l m := by
  unfold specMatches isResMatch
  simp only [List.mem_filter, mem_tuples_iff, Bool.and_eq_true, List.all_eq_true, List.any_eq_true,
    pairwiseB_iff, beq_iff_eq, List.mem_map]
  constructor
  · rintro ⟨⟨hl, _⟩, hn, hp⟩
    refine ⟨hl, ?_, hp⟩
    intro p hp'
    obtain ⟨nd, hnd, hk, hok⟩ := hn p hp'
    exact ⟨nd, hnd, hk, hok⟩
  · rintro ⟨hl, hn, hp⟩
    refine ⟨⟨hl, ?_⟩, ?_, hp⟩
    · intro x hx
      obtain ⟨r, hr⟩ := mem_zip_snd_of_length l.resLink m hl x hx
      obtain ⟨nd, hnd, hk, _⟩ := hn (r, x) hr
      exact ⟨nd, hnd, hk⟩
    · intro p hp'
      obtain ⟨nd, hnd, hk, hok⟩ := hn p hp'
      exact ⟨nd, hnd, hk, hok⟩


/-! ### `match_order` -/

theorem sgn_eq_iff (x y : Int) : sgn x = sgn y ↔ (x < 0 ∧ y < 0) ∨ (x = 0 ∧ y = 0) ∨ (0 < x ∧ 0 < y) := by
  unfold sgn
  split <;> split <;> (try split) <;> (try split) <;> omega

theorem matchOrder_num_num (a b r1 r2 : Int) : matchOrder (.num a) r1 (.num b) r2 = true ↔ b - a = r2 - r1 := by
  simp [matchOrder]

theorem matchOrder_zero_rel (s r1 r2 : Int) :
    matchOrder (.num 0) r1 (.rel s) r2 = true ↔ (r2 < r1 ∧ s < 0) ∨ (r2 = r1 ∧ s = 0) ∨ (r1 < r2 ∧ 0 < s) := by
  simp only [matchOrder, beq_self_eq_true, if_true, beq_iff_eq, sgn_eq_iff]
  omega

theorem matchOrder_rel_rel (s1 s2 r1 r2 : Int) :
    matchOrder (.rel s1) r1 (.rel s2) r2 = true ↔
      (r2 < r1 ∧ s2 < s1) ∨ (r2 = r1 ∧ s2 = s1) ∨ (r1 < r2 ∧ s1 < s2) := by
  simp only [matchOrder, beq_iff_eq, sgn_eq_iff]
  omega

theorem matchOrder_zero_star (k : Nat) (r1 r2 : Int) :
    matchOrder (.num 0) r1 (.star k) r2 = true ↔ r1 ≠ r2 := by
  simp [matchOrder]

theorem matchOrder_star_star (j k : Nat) (r1 r2 : Int) :
    matchOrder (.star j) r1 (.star k) r2 = true ↔ (j = k ↔ r1 = r2) := by
  simp only [matchOrder, beq_iff_eq]
  by_cases h1 : j = k <;> by_cases h2 : r1 = r2 <;> simp [h1, h2]
  all_goals (rw [Bool.eq_iff_iff]; simp [h1, h2])

theorem bne_comm_int (a b : Int) : (a != b) = (b != a) := by
  rw [Bool.eq_iff_iff]; simp only [bne_iff_ne, ne_eq]
  constructor <;> intro h h' <;> exact h h'.symm

theorem matchOrder_symm (o1 o2 : Order) (r1 r2 : Int) :
    matchOrder o1 r1 o2 r2 = matchOrder o2 r2 o1 r1 := by
  cases o1 with
  | num a =>
    cases o2 with
    | num b => simp only [matchOrder]; rw [Bool.eq_iff_iff]; simp only [beq_iff_eq]; omega
    | rel s => simp only [matchOrder]
    | star k => simp only [matchOrder]; by_cases h : a == 0 <;> simp [h, bne_comm_int]
  | rel s =>
    cases o2 with
    | num b => simp only [matchOrder]
    | rel s2 => simp only [matchOrder]; rw [Bool.eq_iff_iff]; simp only [beq_iff_eq, sgn_eq_iff]; omega
    | star k => simp only [matchOrder]
  | star j =>
    cases o2 with
    | num b => simp only [matchOrder]; by_cases h : b == 0 <;> simp [h, bne_comm_int]
    | rel s => simp only [matchOrder]
    | star k =>
      simp only [matchOrder]
      have e1 : (k == j) = (j == k) := by rw [Bool.eq_iff_iff]; simp only [beq_iff_eq]; exact ⟨Eq.symm, Eq.symm⟩
      have e2 : (r2 == r1) = (r1 == r2) := by rw [Bool.eq_iff_iff]; simp only [beq_iff_eq]; exact ⟨Eq.symm, Eq.symm⟩
      rw [e1, e2]

/-! ### candidates and acceptance -/

theorem mem_cands_iff (inp : Input) (l : Link) (m : List Nat) :
    (l, m) ∈ cands inp ↔ l ∈ inp.links ∧ prefilter inp l = true ∧ isResMatch inp l m := by
  unfold cands candsWith
  simp only [List.mem_flatMap]
  constructor
  · rintro ⟨l', hl', h⟩
    by_cases hp : prefilter inp l'
    · simp only [hp, if_true, List.mem_map, Prod.mk.injEq] at h
      obtain ⟨m', hm', h1, h2⟩ := h
      subst h1; subst h2
      exact ⟨hl', hp, (mem_resMatches_iff inp l' m').mp hm'⟩
    · simp [hp] at h
  · rintro ⟨hl, hp, hm⟩
    refine ⟨l, hl, ?_⟩
    simp only [hp, if_true, List.mem_map]
    exact ⟨m, (mem_resMatches_iff inp l m).mpr hm, rfl⟩

/-- what passing all checks means -/
theorem tryCand_eq_some_iff (inp : Input) (s : St) (l : Link) (m : List Nat) (e : Event) :
    tryCand inp s l m = some e ↔
      checkRelativeOrder (l.orders.zip (m.map (fun n => ((inp.resNode? n).map (·.resid)).getD 0))) = true ∧
      matchAtoms inp l m = some e.amap ∧
      nonEdgesOK s l e.amap = true ∧
      (l.patterns.isEmpty = true ∨ anyPatternMatch s l e.amap = true) ∧
      e.link = l := by
  obtain ⟨el, eam⟩ := e
  unfold tryCand
  simp only []
  by_cases h1 : checkRelativeOrder (l.orders.zip (m.map (fun n => ((inp.resNode? n).map (·.resid)).getD 0)))
  · simp only [h1, Bool.not_true, Bool.false_eq_true, if_false, true_and]
    cases h2 : matchAtoms inp l m with
    | none => simp
    | some am =>
      simp only [Option.some.injEq]
      by_cases h3 : nonEdgesOK s l am <;> by_cases h4 : l.patterns.isEmpty <;>
        by_cases h5 : anyPatternMatch s l am <;>
        simp only [h3, h4, h5, Bool.not_true, Bool.not_false, Bool.false_eq_true, Bool.and_self, Bool.and_true,
          Bool.and_false, Bool.false_and, Bool.true_and, if_true, if_false, Option.some.injEq, Event.mk.injEq,
          reduceCtorEq, false_iff, not_and, true_or, or_true, or_false, true_and] <;>
        grind
  · simp [h1]


/-! ### more dictionary facts -/

section Dict2
variable {κ ν : Type} [BEq κ] [LawfulBEq κ]

theorem lookupKV_isSome_iff (d : List (κ × ν)) (k : κ) : (lookupKV d k).isSome = true ↔ ∃ v, (k, v) ∈ d := by
  induction d with
  | nil => simp [lookupKV_nil]
  | cons p d ih =>
    rw [lookupKV_cons]
    by_cases h : p.1 == k
    · have hk : p.1 = k := eq_of_beq h
      simp only [h, if_true, Option.isSome_some, true_iff]
      exact ⟨p.2, by rw [← hk]; exact List.mem_cons_self⟩
    · simp only [h, Bool.false_eq_true, if_false, ih, List.mem_cons]
      constructor
      · rintro ⟨v, hv⟩; exact ⟨v, Or.inr hv⟩
      · rintro ⟨v, hv | hv⟩
        · exfalso; apply h; rw [← hv]; exact beq_self_eq_true k
        · exact ⟨v, hv⟩

theorem lastFor_isSome_iff (l : List (κ × ν)) (k : κ) : (lastFor l k).isSome = true ↔ ∃ v, (k, v) ∈ l := by
  unfold lastFor
  rw [lookupKV_isSome_iff]
  simp [List.mem_reverse]

theorem lookupKV_map_snd (d : List (κ × ν)) (f : κ → ν → ν) (k : κ) :
    lookupKV (d.map (fun p => (p.1, f p.1 p.2))) k = (lookupKV d k).map (f k) := by
  induction d with
  | nil => rfl
  | cons p d ih =>
    rw [List.map_cons, lookupKV_cons, lookupKV_cons, ih]
    by_cases h : p.1 == k
    · have hk : p.1 = k := eq_of_beq h
      simp [h, hk]
    · simp [h]

end Dict2

/-! ### attribute replacement -/

theorem updAttrs_eq_map (attrs : List (Nat × MAttrs)) (r : Nat × MAttrs) :
    updAttrs attrs r = attrs.map (fun p => (p.1, (fun x a => if x == r.1 then MAttrs.update a r.2 else a) p.1 p.2)) := by
  unfold updAttrs
  apply List.map_congr_left
  intro p _
  by_cases h : p.1 == r.1 <;> simp [h]

theorem lookup_updAttrs (attrs : List (Nat × MAttrs)) (r : Nat × MAttrs) (x : Nat) :
    lookupKV (updAttrs attrs r) x =
      (lookupKV attrs x).map (fun a => if x == r.1 then MAttrs.update a r.2 else a) := by
  rw [updAttrs_eq_map]
  exact lookupKV_map_snd attrs (fun x a => if x == r.1 then MAttrs.update a r.2 else a) x

theorem update_append (d a b : MAttrs) : MAttrs.update d (a ++ b) = MAttrs.update (MAttrs.update d a) b := by
  unfold MAttrs.update; rw [List.foldl_append]

/-- all the `replace` dictionaries aimed at atom `x`, concatenated in order -/
def replacesOn (rs : List (Nat × MAttrs)) (x : Nat) : MAttrs := (rs.filter (fun r => x == r.1)).flatMap (·.2)

theorem lookup_foldl_updAttrs (rs : List (Nat × MAttrs)) (attrs : List (Nat × MAttrs)) (x : Nat) :
    lookupKV (rs.foldl updAttrs attrs) x = (lookupKV attrs x).map (fun a => MAttrs.update a (replacesOn rs x)) := by
  induction rs generalizing attrs with
  | nil =>
    simp only [List.foldl_nil, replacesOn, List.filter_nil, List.flatMap_nil]
    cases lookupKV attrs x <;> simp [MAttrs.update]
  | cons r rs ih =>
    rw [List.foldl_cons, ih, lookup_updAttrs]
    cases lookupKV attrs x with
    | none => rfl
    | some a =>
      simp only [Option.map_some, Option.some.injEq]
      by_cases h : x == r.1
      · simp only [h, if_true, replacesOn, List.filter_cons_of_pos, List.flatMap_cons, update_append]
      · simp only [h, Bool.false_eq_true, if_false, replacesOn]
        rw [List.filter_cons_of_neg (by simpa using h)]

/-- `d.update(src)`: the value of `k` is that of the last pair of `src` with key `k`, else the old one -/
theorem find_update (d src : MAttrs) (k : String) :
    MAttrs.find (MAttrs.update d src) k = (lastFor src k).or (MAttrs.find d k) := by
  unfold MAttrs.find MAttrs.update MAttrs.set
  have h := fold_insert_last src d k
  exact h


/-! ### dangling interactions -/

theorem reverse_eq_cons {α : Type} (l : List α) (a : α) (t : List α) (h : l.reverse = a :: t) :
    l = t.reverse ++ [a] := by
  have := congrArg List.reverse h
  simpa using this

theorem splitLoop_spec (n : Nat) (rest : List BIxn) (prev : List Nat) (links : List (List BIxn)) (kept : List BIxn) :
    (splitLoop n rest prev links kept).2 = kept ++ rest.filter (fun i => !isDangling n i) ∧
    (splitLoop n rest prev links kept).1.flatten = links.flatten ++ rest.filter (isDangling n) := by
  induction rest generalizing prev links kept with
  | nil => simp [splitLoop]
  | cons i rest ih =>
    unfold splitLoop
    by_cases hd : isDangling n i
    · simp only [hd, if_true]
      by_cases hp : i.atoms != prev
      · simp only [hp, if_true]
        obtain ⟨h1, h2⟩ := ih i.atoms (links ++ [[i]]) kept
        refine ⟨by rw [h1]; simp [hd], by rw [h2]; simp [hd]⟩
      · simp only [hp, Bool.false_eq_true, if_false]
        cases hr : links.reverse with
        | nil =>
          have hl : links = [] := by simpa using hr
          obtain ⟨h1, h2⟩ := ih prev [[i]] kept
          refine ⟨by rw [h1]; simp [hd], by rw [h2, hl]; simp [hd]⟩
        | cons last before =>
          have hl := reverse_eq_cons links last before hr
          obtain ⟨h1, h2⟩ := ih prev (before.reverse ++ [last ++ [i]]) kept
          refine ⟨by rw [h1]; simp [hd], by rw [h2, hl]; simp [hd]⟩
    · simp only [hd, Bool.false_eq_true, if_false]
      obtain ⟨h1, h2⟩ := ih prev links (kept ++ [i])
      refine ⟨by rw [h1]; simp [hd], by rw [h2]; simp [hd]⟩


theorem splitLoop_groups (n : Nat) (rest : List BIxn) (prev : List Nat) (links : List (List BIxn)) (kept : List BIxn)
    (hg : ∀ g ∈ links, GroupOK n g)
    (hlast : ∀ last before, links.reverse = last :: before → ∀ i ∈ last, i.atoms = prev) :
    ∀ g ∈ (splitLoop n rest prev links kept).1, GroupOK n g := by
  induction rest generalizing prev links kept with
  | nil => simpa [splitLoop] using hg
  | cons i rest ih =>
    unfold splitLoop
    by_cases hd : isDangling n i
    · simp only [hd, if_true]
      by_cases hp : i.atoms != prev
      · simp only [hp, if_true]
        apply ih
        · intro g hgm
          rcases List.mem_append.mp hgm with h | h
          · exact hg g h
          · simp only [List.mem_singleton] at h
            subst h
            refine ⟨by simp, ?_⟩
            intro a ha
            simp only [List.mem_singleton] at ha
            subst ha
            exact ⟨hd, fun j hj => by simp only [List.mem_singleton] at hj; rw [hj]⟩
        · intro last before hr
          simp only [List.reverse_append, List.reverse_cons, List.reverse_nil, List.nil_append,
            List.singleton_append, List.cons.injEq] at hr
          intro a ha
          rw [← hr.1] at ha
          simp only [List.mem_singleton] at ha
          rw [ha]
      · simp only [hp, Bool.false_eq_true, if_false]
        have hpe : i.atoms = prev := by simpa using hp
        cases hr : links.reverse with
        | nil =>
          simp only []
          apply ih
          · intro g hgm
            simp only [List.mem_singleton] at hgm
            subst hgm
            refine ⟨by simp, ?_⟩
            intro a ha
            simp only [List.mem_singleton] at ha
            subst ha
            exact ⟨hd, fun j hj => by simp only [List.mem_singleton] at hj; rw [hj]⟩
          · intro last before hr'
            simp only [List.reverse_cons, List.reverse_nil, List.nil_append, List.cons.injEq] at hr'
            intro a ha
            rw [← hr'.1] at ha
            simp only [List.mem_singleton] at ha
            rw [ha, hpe]
        | cons last before =>
          simp only []
          have hl := reverse_eq_cons links last before hr
          have hlastok : GroupOK n last := hg last (by rw [hl]; simp)
          have hlastatoms := hlast last before hr
          apply ih
          · intro g hgm
            rcases List.mem_append.mp hgm with h | h
            · exact hg g (by rw [hl]; exact List.mem_append_left _ h)
            · simp only [List.mem_singleton] at h
              subst h
              refine ⟨by simp, ?_⟩
              intro a ha
              have hall : ∀ b ∈ last ++ [i], b.atoms = prev := by
                intro b hb
                rcases List.mem_append.mp hb with hb | hb
                · exact hlastatoms b hb
                · simp only [List.mem_singleton] at hb; rw [hb, hpe]
              refine ⟨?_, fun j hj => by rw [hall a ha, hall j hj]⟩
              rcases List.mem_append.mp ha with ha | ha
              · exact (hlastok.2 a ha).1
              · simp only [List.mem_singleton] at ha; rw [ha]; exact hd
          · intro last' before' hr'
            simp only [List.reverse_append, List.reverse_cons, List.reverse_nil, List.nil_append,
              List.singleton_append, List.cons.injEq] at hr'
            intro a ha
            rw [← hr'.1] at ha
            rcases List.mem_append.mp ha with ha | ha
            · exact hlastatoms a ha
            · simp only [List.mem_singleton] at ha; rw [ha, hpe]
    · simp only [hd, Bool.false_eq_true, if_false]
      exact ih prev links (kept ++ [i]) hg hlast

theorem dedupKeys_spec (l : List (String × Nat × Nat)) :
    (∀ y ∈ mkDLink.dedupKeys l, y ∈ l) ∧ (∀ x ∈ l, ∃ y ∈ mkDLink.dedupKeys l, y.1 = x.1) := by
  unfold mkDLink.dedupKeys
  suffices h : ∀ (acc : List (String × Nat × Nat)),
      (∀ y ∈ l.foldl (fun acc x => if acc.any (fun y => y.1 == x.1) then acc else acc ++ [x]) acc, y ∈ acc ∨ y ∈ l) ∧
      (∀ x, (x ∈ acc ∨ x ∈ l) → ∃ y ∈ l.foldl (fun acc x => if acc.any (fun y => y.1 == x.1) then acc else acc ++ [x]) acc, y.1 = x.1) by
    obtain ⟨h1, h2⟩ := h []
    exact ⟨fun y hy => (h1 y hy).elim (fun h => by cases h) id, fun x hx => h2 x (Or.inr hx)⟩
  induction l with
  | nil =>
    intro acc
    exact ⟨fun y hy => Or.inl hy, fun x hx => hx.elim (fun h => ⟨x, h, rfl⟩) (fun h => by cases h)⟩
  | cons a l ih =>
    intro acc
    rw [List.foldl_cons]
    by_cases hany : acc.any (fun y => y.1 == a.1)
    · simp only [hany, if_true]
      obtain ⟨h1, h2⟩ := ih acc
      refine ⟨fun y hy => (h1 y hy).imp id (List.mem_cons_of_mem _), ?_⟩
      intro x hx
      rcases hx with hx | hx
      · exact h2 x (Or.inl hx)
      · rcases List.mem_cons.mp hx with hx | hx
        · obtain ⟨y, hy, hyk⟩ := List.any_eq_true.mp hany
          obtain ⟨z, hz, hzk⟩ := h2 y (Or.inl hy)
          exact ⟨z, hz, by rw [hzk, hx]; exact eq_of_beq hyk⟩
        · exact h2 x (Or.inr hx)
    · simp only [hany, Bool.false_eq_true, if_false]
      obtain ⟨h1, h2⟩ := ih (acc ++ [a])
      refine ⟨?_, ?_⟩
      · intro y hy
        rcases h1 y hy with h | h
        · rcases List.mem_append.mp h with h | h
          · exact Or.inl h
          · simp only [List.mem_singleton] at h; exact Or.inr (by rw [h]; exact List.mem_cons_self)
        · exact Or.inr (List.mem_cons_of_mem _ h)
      · intro x hx
        rcases hx with hx | hx
        · exact h2 x (Or.inl (List.mem_append_left _ hx))
        · rcases List.mem_cons.mp hx with hx | hx
          · exact h2 x (Or.inl (by rw [hx]; simp))
          · exact h2 x (Or.inr hx)



/-! ### numeric orders -/

theorem checkRelativeOrder_iff_pairwise (l : List (Order × Int)) :
    checkRelativeOrder l = true ↔ l.Pairwise (fun p q => matchOrder p.1 p.2 q.1 q.2 = true) := by
  induction l with
  | nil => simp [checkRelativeOrder]
  | cons p l ih =>
    obtain ⟨o, r⟩ := p
    simp only [checkRelativeOrder, Bool.and_eq_true, List.all_eq_true, ih, List.pairwise_cons]

/-- numeric orders: the residue tuple passes the relative-order check iff all resids are the orders shifted by one constant -/
theorem numeric_orders_offsets (l : List (Int × Int)) :
    checkRelativeOrder (l.map (fun p => (Order.num p.1, p.2))) = true ↔
      ∀ p ∈ l, ∀ q ∈ l, q.1 - p.1 = q.2 - p.2 := by
  rw [checkRelativeOrder_iff_pairwise, List.pairwise_map]
  simp only [matchOrder_num_num]
  induction l with
  | nil => simp
  | cons a l ih =>
    rw [List.pairwise_cons, ih]
    constructor
    · rintro ⟨h1, h2⟩ p hp q hq
      rcases List.mem_cons.mp hp with hpa | hpl <;> rcases List.mem_cons.mp hq with hqa | hql
      · rw [hpa, hqa]; omega
      · rw [hpa]; exact h1 q hql
      · rw [hqa]; have := h1 p hpl; omega
      · exact h2 p hpl q hql
    · intro h
      exact ⟨fun q hq => h a List.mem_cons_self q (List.mem_cons_of_mem _ hq),
             fun p hp q hq => h p (List.mem_cons_of_mem _ hp) q (List.mem_cons_of_mem _ hq)⟩


/-! ### explicit links -/

theorem xatoms_eq_some_iff (nodes : List Nat) (as : List Int) (atoms : List Nat) :
    xatoms nodes as = some atoms ↔
      (∀ a ∈ as, 1 ≤ a ∧ (a - 1).toNat ∈ nodes) ∧ atoms = as.map (fun a => (a - 1).toNat) := by
  induction as generalizing atoms with
  | nil => simp [xatoms, eq_comm]
  | cons a rest ih =>
    unfold xatoms
    by_cases h : 1 ≤ a ∧ nodes.contains (a - 1).toNat = true
    · rw [if_pos h]
      have h2 : (a - 1).toNat ∈ nodes := by simpa using h.2
      cases hr : xatoms nodes rest with
      | none =>
        simp only [Option.map_none, List.mem_cons, forall_eq_or_imp, List.map_cons]
        constructor
        · intro hc; cases hc
        · rintro ⟨⟨_, hall⟩, _⟩
          have := (ih (rest.map (fun a => (a - 1).toNat))).mpr ⟨hall, rfl⟩
          rw [hr] at this; cases this
      | some t =>
        obtain ⟨hall, ht⟩ := (ih t).mp hr
        simp only [Option.map_some, Option.some.injEq, List.mem_cons, forall_eq_or_imp, List.map_cons]
        constructor
        · intro he; exact ⟨⟨⟨h.1, h2⟩, hall⟩, by rw [← he, ht]⟩
        · rintro ⟨_, he⟩; rw [he, ht]
    · rw [if_neg h]
      simp only [List.mem_cons, forall_eq_or_imp]
      constructor
      · intro hc; cases hc
      · rintro ⟨⟨⟨h1, h2⟩, _⟩, _⟩
        exact absurd ⟨h1, by simpa using h2⟩ h

theorem xatoms_eq_none_iff (nodes : List Nat) (as : List Int) :
    xatoms nodes as = none ↔ ¬ ∀ a ∈ as, 1 ≤ a ∧ (a - 1).toNat ∈ nodes := by
  constructor
  · intro h hall
    have := (xatoms_eq_some_iff nodes as _).mpr ⟨hall, rfl⟩
    rw [h] at this; cases this
  · intro h
    cases hr : xatoms nodes as with
    | none => rfl
    | some t => exact absurd ((xatoms_eq_some_iff nodes as t).mp hr).1 h

theorem explicitStep_of_wellAddressed (nodes : List Nat) (s : XSt) (i : XIxn) (h : i.wellAddressed nodes) :
    explicitStep nodes s i =
      .ok ⟨insertKV s.ixns i.contrib.1 i.contrib.2, (consecutive i.nodes).foldl addEdge s.edges⟩ := by
  obtain ⟨as, has, hall⟩ := h
  unfold explicitStep XIxn.contrib XIxn.nodes
  rw [has]
  simp only []
  rw [(xatoms_eq_some_iff nodes as _).mpr ⟨hall, rfl⟩]
  rfl

theorem explicitStep_of_not_wellAddressed (nodes : List Nat) (s : XSt) (i : XIxn) (h : ¬ i.wellAddressed nodes) :
    explicitStep nodes s i = .error (if i.ints = none then .value else .io) := by
  unfold explicitStep
  cases has : i.ints with
  | none => simp
  | some as =>
    have : xatoms nodes as = none := (xatoms_eq_none_iff nodes as).mpr (fun hall => h ⟨as, has, hall⟩)
    simp only []
    rw [this]; simp

/-- the run succeeds iff every interaction addresses existing atoms; then the store is the fold of
inserts of the contributions and the edges are the old ones plus all consecutive pairs -/
theorem applyExplicit_of_wellAddressed (nodes : List Nat) (xs : List XIxn) (s : XSt)
    (h : ∀ i ∈ xs, i.wellAddressed nodes) :
    applyExplicit nodes s xs =
      .ok ⟨(xs.map XIxn.contrib).foldl (fun d kv => insertKV d kv.1 kv.2) s.ixns,
           (xs.flatMap (fun i => consecutive i.nodes)).foldl addEdge s.edges⟩ := by
  induction xs generalizing s with
  | nil => rfl
  | cons i rest ih =>
    unfold applyExplicit
    rw [explicitStep_of_wellAddressed nodes s i (h i List.mem_cons_self)]
    simp only []
    rw [ih _ (fun j hj => h j (List.mem_cons_of_mem _ hj))]
    simp [List.foldl_append]

/-- the first interaction that does not address existing atoms ends the run, with `ValueError` if a
token is not a number and `IOError` otherwise -/
theorem applyExplicit_first_error (nodes : List Nat) (pre : List XIxn) (i : XIxn) (post : List XIxn) (s : XSt)
    (hpre : ∀ j ∈ pre, j.wellAddressed nodes) (hi : ¬ i.wellAddressed nodes) :
    applyExplicit nodes s (pre ++ i :: post) = .error (if i.ints = none then .value else .io) := by
  induction pre generalizing s with
  | nil =>
    simp only [List.nil_append]
    unfold applyExplicit
    rw [explicitStep_of_not_wellAddressed nodes s i hi]
  | cons j pre ih =>
    simp only [List.cons_append]
    unfold applyExplicit
    rw [explicitStep_of_wellAddressed nodes s j (hpre j List.mem_cons_self)]
    exact ih _ (fun k hk => hpre k (List.mem_cons_of_mem _ hk))

theorem applyExplicit_ok_iff (nodes : List Nat) (xs : List XIxn) (s : XSt) :
    (∃ s', applyExplicit nodes s xs = .ok s') ↔ ∀ i ∈ xs, i.wellAddressed nodes := by
  constructor
  · rintro ⟨s', hs⟩
    induction xs generalizing s with
    | nil => intro i hi; cases hi
    | cons x rest ih =>
      unfold applyExplicit at hs
      by_cases hx : x.wellAddressed nodes
      · rw [explicitStep_of_wellAddressed nodes s x hx] at hs
        intro i hi
        rcases List.mem_cons.mp hi with rfl | hi
        · exact hx
        · exact ih _ hs i hi
      · rw [explicitStep_of_not_wellAddressed nodes s x hx] at hs
        cases hs
  · intro h; exact ⟨_, applyExplicit_of_wellAddressed nodes xs s h⟩

theorem consecutive_cons_cons (x y : Nat) (t : List Nat) :
    consecutive (x :: y :: t) = (x, y) :: consecutive (y :: t) := rfl

/-- `{a,b}` is an edge of `zip(atoms[:-1], atoms[1:])` iff `a` and `b` are neighbours in the atom list -/
theorem hasEdge_consecutive_iff (l : List Nat) (a b : Nat) :
    hasEdge (consecutive l) a b = true ↔
      ∃ pre post, l = pre ++ a :: b :: post ∨ l = pre ++ b :: a :: post := by
  induction l with
  | nil =>
    simp only [consecutive, List.zip_nil_left, hasEdge, List.any_nil, Bool.false_eq_true, false_iff]
    rintro ⟨pre, post, h | h⟩ <;> cases pre <;> cases h
  | cons x t ih =>
    cases t with
    | nil =>
      simp only [consecutive, List.tail_cons, List.zip_nil_right, hasEdge, List.any_nil, Bool.false_eq_true, false_iff]
      rintro ⟨pre, post, h | h⟩ <;> cases pre with
        | nil => cases h
        | cons p pre => cases pre <;> cases h
    | cons y t =>
      rw [consecutive_cons_cons]
      have hsplit : hasEdge ((x, y) :: consecutive (y :: t)) a b =
          (((x == a && y == b) || (x == b && y == a)) || hasEdge (consecutive (y :: t)) a b) := by
        simp [hasEdge]
      rw [hsplit, Bool.or_eq_true, ih]
      constructor
      · rintro (h | ⟨pre, post, h | h⟩)
        · simp only [Bool.or_eq_true, Bool.and_eq_true, beq_iff_eq] at h
          rcases h with ⟨h1, h2⟩ | ⟨h1, h2⟩
          · exact ⟨[], t, Or.inl (by rw [h1, h2]; rfl)⟩
          · exact ⟨[], t, Or.inr (by rw [h1, h2]; rfl)⟩
        · exact ⟨x :: pre, post, Or.inl (by rw [h]; rfl)⟩
        · exact ⟨x :: pre, post, Or.inr (by rw [h]; rfl)⟩
      · rintro ⟨pre, post, h⟩
        cases pre with
        | nil =>
          left
          simp only [List.nil_append, List.cons.injEq] at h
          simp only [Bool.or_eq_true, Bool.and_eq_true, beq_iff_eq]
          rcases h with ⟨h1, h2, _⟩ | ⟨h1, h2, _⟩
          · exact Or.inl ⟨h1, h2⟩
          · exact Or.inr ⟨h1, h2⟩
        | cons p pre =>
          right
          simp only [List.cons_append, List.cons.injEq] at h
          rcases h with ⟨_, h⟩ | ⟨_, h⟩
          · exact ⟨pre, post, Or.inl h⟩
          · exact ⟨pre, post, Or.inr h⟩

theorem hasEdge_flatMap {α : Type} (xs : List α) (f : α → List (Nat × Nat)) (a b : Nat) :
    hasEdge (xs.flatMap f) a b = true ↔ ∃ x ∈ xs, hasEdge (f x) a b = true := by
  simp only [hasEdge, List.any_eq_true, List.mem_flatMap]
  constructor
  · rintro ⟨e, ⟨x, hx, he⟩, h⟩; exact ⟨x, hx, e, he, h⟩
  · rintro ⟨x, hx, e, he, h⟩; exact ⟨e, ⟨x, hx, he⟩, h⟩


/-! ### `_check_relative_order` with repeated orders -/

/-- one order token is never paired with two resids -/
def Functional (l : List (Order × Int)) : Prop := ∀ p ∈ l, ∀ q ∈ l, p.1 = q.1 → p.2 = q.2

theorem lookupKV_eq_none_iff_keys {κ ν : Type} [BEq κ] [LawfulBEq κ] (d : List (κ × ν)) (k : κ) :
    lookupKV d k = none ↔ k ∉ d.map (·.1) := by
  unfold lookupKV
  rw [Option.map_eq_none_iff, List.find?_eq_none]
  simp only [List.mem_map, not_exists, not_and, beq_iff_eq]

theorem lookupKV_some_mem {κ ν : Type} [BEq κ] [LawfulBEq κ] (d : List (κ × ν)) (k : κ) (v : ν)
    (h : lookupKV d k = some v) : (k, v) ∈ d := by
  unfold lookupKV at h
  rw [Option.map_eq_some_iff] at h
  obtain ⟨p, hp, rfl⟩ := h
  have h1 := List.mem_of_find?_eq_some hp
  have h2 := List.find?_some hp
  have : p.1 = k := by simpa using h2
  rw [← this]; exact h1

/-- the dictionary loop: it fails iff the pairs are not functional; otherwise the dictionary holds exactly
the given pairs (as a set), under pairwise distinct keys -/
theorem orderMatch_spec (l acc : List (Order × Int)) (hk : (acc.map (·.1)).Nodup) (hf : Functional acc) :
    (Functional (acc ++ l) → ∃ d, orderMatch acc l = some d ∧ (∀ x, x ∈ d ↔ x ∈ acc ++ l) ∧ (d.map (·.1)).Nodup) ∧
    (¬ Functional (acc ++ l) → orderMatch acc l = none) := by
  induction l generalizing acc with
  | nil =>
    refine ⟨fun _ => ⟨acc, rfl, by simp, hk⟩, fun h => absurd (by simpa using hf) h⟩
  | cons p l ih =>
    obtain ⟨o, r⟩ := p
    unfold orderMatch
    cases hl : lookupKV acc o with
    | none =>
      have hnot := (lookupKV_eq_none_iff_keys acc o).mp hl
      have hk' : ((acc ++ [(o, r)]).map (·.1)).Nodup := by
        rw [List.map_append, List.nodup_append]
        refine ⟨hk, by simp, ?_⟩
        intro a ha b hb
        simp only [List.map_cons, List.map_nil, List.mem_singleton] at hb
        rw [hb]; intro h; exact hnot (h ▸ ha)
      have hf' : Functional (acc ++ [(o, r)]) := by
        intro p hp q hq he
        rcases List.mem_append.mp hp with hp | hp <;> rcases List.mem_append.mp hq with hq | hq
        · exact hf p hp q hq he
        · simp only [List.mem_singleton] at hq; subst hq
          exact absurd (List.mem_map.mpr ⟨p, hp, he⟩) hnot
        · simp only [List.mem_singleton] at hp; subst hp
          exact absurd (List.mem_map.mpr ⟨q, hq, he.symm⟩) hnot
        · simp only [List.mem_singleton] at hp hq; rw [hp, hq]
      have := ih (acc ++ [(o, r)]) hk' hf'
      simp only [List.append_assoc, List.singleton_append] at this
      exact this
    | some r' =>
      have hmem := lookupKV_some_mem acc o r' hl
      simp only []
      by_cases hr : r' = r
      · subst hr
        simp only [beq_self_eq_true, if_true]
        obtain ⟨ih1, ih2⟩ := ih acc hk hf
        have hiff : Functional (acc ++ (o, r') :: l) ↔ Functional (acc ++ l) := by
          constructor
          · intro h p hp q hq he
            have sup : ∀ x, x ∈ acc ++ l → x ∈ acc ++ (o, r') :: l := by
              intro x hx
              simp only [List.mem_append, List.mem_cons] at hx ⊢
              rcases hx with hx | hx
              · exact Or.inl hx
              · exact Or.inr (Or.inr hx)
            exact h p (sup p hp) q (sup q hq) he
          · intro h p hp q hq he
            have sub : ∀ x, x ∈ acc ++ (o, r') :: l → x ∈ acc ++ l := by
              intro x hx
              simp only [List.mem_append, List.mem_cons] at hx ⊢
              rcases hx with hx | hx | hx
              · exact Or.inl hx
              · exact Or.inl (hx ▸ hmem)
              · exact Or.inr hx
            exact h p (sub p hp) q (sub q hq) he
        refine ⟨fun h => ?_, fun h => ih2 (fun h' => h (hiff.mpr h'))⟩
        obtain ⟨d, hd, hmemd, hnd⟩ := ih1 (hiff.mp h)
        refine ⟨d, hd, ?_, hnd⟩
        intro x
        rw [hmemd]
        simp only [List.mem_append, List.mem_cons]
        constructor
        · rintro (hx | hx); exact Or.inl hx; exact Or.inr (Or.inr hx)
        · rintro (hx | hx | hx); exact Or.inl hx; exact Or.inl (hx ▸ hmem); exact Or.inr hx
      · have : (r' == r) = false := by simpa using hr
        simp only [this, Bool.false_eq_true, if_false]
        refine ⟨fun h => ?_, fun _ => trivial⟩
        exact absurd (h (o, r') (by simp [hmem]) (o, r) (by simp) rfl) hr

theorem orderMatch_of_nodup (l acc : List (Order × Int)) (h : ((acc ++ l).map (·.1)).Nodup) :
    orderMatch acc l = some (acc ++ l) := by
  induction l generalizing acc with
  | nil => simp [orderMatch]
  | cons p l ih =>
    obtain ⟨o, r⟩ := p
    unfold orderMatch
    have hnot : o ∉ acc.map (·.1) := by
      rw [List.map_append, List.nodup_append] at h
      intro ho
      exact h.2.2 o ho o (by simp) rfl
    rw [(lookupKV_eq_none_iff_keys acc o).mpr hnot]
    have := ih (acc ++ [(o, r)]) (by simpa [List.append_assoc] using h)
    simpa [List.append_assoc] using this

/-- with pairwise distinct order tokens (the residues of a residue-level link) the dictionary loop changes
nothing: `_check_relative_order` is the pairwise `match_order` check -/
theorem checkRelativeOrderPy_of_nodup (l : List (Order × Int)) (h : (l.map (·.1)).Nodup) :
    checkRelativeOrderPy l = checkRelativeOrder l := by
  unfold checkRelativeOrderPy
  rw [orderMatch_of_nodup l [] (by simpa using h)]
  rfl

theorem pairwise_iff_of_nodup_keys (R : Order × Int → Order × Int → Prop) (hsymm : ∀ p q, R p q → R q p)
    (d : List (Order × Int)) (hk : (d.map (·.1)).Nodup) :
    d.Pairwise R ↔ ∀ p ∈ d, ∀ q ∈ d, p.1 ≠ q.1 → R p q := by
  induction d with
  | nil => simp
  | cons a d ih =>
    rw [List.map_cons, List.nodup_cons] at hk
    rw [List.pairwise_cons, ih hk.2]
    constructor
    · rintro ⟨h1, h2⟩ p hp q hq hne
      rcases List.mem_cons.mp hp with hpa | hp' <;> rcases List.mem_cons.mp hq with hqa | hq'
      · exact absurd (by rw [hpa, hqa]) hne
      · rw [hpa]; exact h1 q hq'
      · rw [hqa]; exact hsymm _ _ (h1 p hp')
      · exact h2 p hp' q hq' hne
    · intro h
      refine ⟨fun q hq => h a List.mem_cons_self q (List.mem_cons_of_mem _ hq) ?_,
        fun p hp q hq hne => h p (List.mem_cons_of_mem _ hp) q (List.mem_cons_of_mem _ hq) hne⟩
      intro he
      exact hk.1 (List.mem_map.mpr ⟨q, hq, he.symm⟩)

/-- `_check_relative_order` for any list of (order, resid) pairs: no order token with two resids, and
`match_order` holds for every two pairs with different tokens -/
theorem checkRelativeOrderPy_iff (l : List (Order × Int)) :
    checkRelativeOrderPy l = true ↔
      Functional l ∧ ∀ p ∈ l, ∀ q ∈ l, p.1 ≠ q.1 → matchOrder p.1 p.2 q.1 q.2 = true := by
  unfold checkRelativeOrderPy
  obtain ⟨h1, h2⟩ := orderMatch_spec l [] (by simp) (by intro p hp; cases hp)
  simp only [List.nil_append] at h1 h2
  by_cases hF : Functional l
  · obtain ⟨d, hd, hmem, hnd⟩ := h1 hF
    rw [hd]
    simp only []
    rw [checkRelativeOrder_iff_pairwise,
      pairwise_iff_of_nodup_keys _ (fun p q h => by rw [matchOrder_symm]; exact h) d hnd]
    constructor
    · intro h; exact ⟨hF, fun p hp q hq => h p ((hmem p).mpr hp) q ((hmem q).mpr hq)⟩
    · rintro ⟨_, h⟩ p hp q hq; exact h p ((hmem p).mp hp) q ((hmem q).mp hq)
  · rw [h2 hF]
    simp [hF]


end PolyplyVerif.Links
