/-
C08: the flattening theorem.  Simulation between the reader run over an include tree (`readFile`, one
director per file) and the reader run over the flattened text (`flatten`, one director), for well-formed
trees (`wellFormed`).  See `Properties/C08.lean` for the statement.
Part A: basic lemmas (run over appended lines, section bookkeeping, sealed groups, tables modulo tags).
-/
import PolyplyVerif.Model.TopParse
import PolyplyVerif.Proofs.TopParse

namespace PolyplyVerif.Proofs.C08Flatten
open PolyplyVerif PolyplyVerif.TopParse PolyplyVerif.Proofs.TopParse

/-! ### runs -/

theorem runLines_append (inc : Path → Glob → Except String Glob) (dir : Path) (a b : List Line) (st : Glob × Loc) :
    runLines inc dir (a ++ b) st =
      (match runLines inc dir a st with
       | .error e => .error e
       | .ok st' => runLines inc dir b st') := by
  induction a generalizing st with
  | nil => rfl
  | cons x rest ih =>
    simp only [List.cons_append, runLines]
    cases step inc dir st x with
    | error e => rfl
    | ok st' => exact ih st'

/-- the include handler of the single-file reader -/
def noInc : Path → Glob → Except String Glob := fun _ _ => .error "include-in-single-file"

/-- the single director run over raw lines from the initial state -/
def flatRun (raws : List String) : Except String (Glob × Loc) := runLines noInc [] (parseLines raws) ({}, {})

theorem parseLines_append (a b : List String) : parseLines (a ++ b) = parseLines a ++ parseLines b := by
  simp [parseLines, List.filterMap_append]

theorem flatRun_snoc (raws : List String) (r : String) :
    flatRun (raws ++ [r]) =
      (match flatRun raws with
       | .error e => .error e
       | .ok st => match classify r with
         | none => .ok st
         | some line => step noInc [] st line) := by
  unfold flatRun
  rw [parseLines_append, runLines_append]
  cases runLines noInc [] (parseLines raws) ({}, {}) with
  | error e => rfl
  | ok st =>
    simp only [parseLines, List.filterMap_cons, List.filterMap_nil]
    cases classify r with
    | none => rfl
    | some line =>
      simp only [runLines]
      cases step noInc [] st line <;> rfl

/-! ### sections -/

/-- table facts about the translated section table (re-established on every build) -/
theorem known_shape : (knownSections.all fun s => decide (s.length ≤ 2) &&
    (s.length != 2 || (s.head? == some "moleculetype" && molSubsections.contains (s.getLastD "")))) = true := by
  decide

theorem subs_known : (molSubsections.all fun x => knownSections.contains ["moleculetype", x]) = true := by decide

theorem moleculetype_not_sub : molSubsections.contains "moleculetype" = false := by decide

theorem known2 (a b : String) (h : knownSections.contains [a, b] = true) :
    a = "moleculetype" ∧ molSubsections.contains b = true := by
  have hm : [a, b] ∈ knownSections := by simpa using h
  have := List.all_eq_true.mp known_shape _ hm
  simpa using this

theorem known3 (a b c : String) (rest : List String) : knownSections.contains (a :: b :: c :: rest) = false := by
  cases h : knownSections.contains (a :: b :: c :: rest) with
  | false => rfl
  | true =>
    have hm : (a :: b :: c :: rest) ∈ knownSections := by simpa using h
    have := List.all_eq_true.mp known_shape _ hm
    simp at this

/-- the shapes a director's section can have -/
inductive SecShape : List String → Prop where
  | empty : SecShape []
  | one (n : String) : SecShape [n]
  | mol (x : String) : SecShape ["moleculetype", x]

theorem newSection_top (sec : List String) (name : String) (hs : SecShape sec)
    (hn : molSubsections.contains name = false) : newSection sec name = [name] := by
  cases hs with
  | empty => simp [newSection, shrink]
  | one n =>
    have hk : knownSections.contains [n, name] = false := by
      cases h : knownSections.contains [n, name] with
      | false => rfl
      | true => have := (known2 n name h).2; rw [hn] at this; cases this
    have hk' : [n, name] ∉ knownSections := by simpa using hk
    simp [newSection, shrink, hk']
  | mol x =>
    have hk3 : ["moleculetype", x, name] ∉ knownSections := by simpa using known3 "moleculetype" x name []
    have hk : knownSections.contains ["moleculetype", name] = false := by
      cases h : knownSections.contains ["moleculetype", name] with
      | false => rfl
      | true => have := (known2 _ name h).2; rw [hn] at this; cases this
    have hk' : ["moleculetype", name] ∉ knownSections := by simpa using hk
    simp [newSection, shrink, hk3, hk']

theorem newSection_sub (sec : List String) (x : String) (hx : molSubsections.contains x = true)
    (hs : sec = ["moleculetype"] ∨ ∃ y, sec = ["moleculetype", y]) : newSection sec x = ["moleculetype", x] := by
  have hk : knownSections.contains ["moleculetype", x] = true :=
    List.all_eq_true.mp subs_known x (by simpa using hx)
  have hk' : ["moleculetype", x] ∈ knownSections := by simpa using hk
  rcases hs with rfl | ⟨y, rfl⟩
  · simp [newSection, shrink, hk']
  · have hk3 : ["moleculetype", y, x] ∉ knownSections := by simpa using known3 "moleculetype" y x []
    simp [newSection, shrink, hk3, hk']

/-! ### sealed groups -/

def isSubHdr (l : ItpLine) : Bool := match l with
  | .hdr n => molSubsections.contains n
  | .toks _ => true

theorem sealGroup_eq (first : ItpLine) (rest : Group) : sealGroup (first :: rest) = first :: rest.takeWhile isSubHdr := by
  simp only [sealGroup]
  congr 1

theorem takeWhile_snoc_false {α} (p : α → Bool) (l : List α) (x : α) (h : p x = false) :
    (l ++ [x]).takeWhile p = l.takeWhile p := by
  induction l with
  | nil => simp [List.takeWhile, h]
  | cons y ys ih =>
    simp only [List.cons_append, List.takeWhile_cons]
    split
    · rw [ih]
    · rfl

/-- a top-level header appended to a collected moleculetype is invisible after sealing -/
theorem sealGroup_snoc_top (g : Group) (n : String) (hg : g ≠ []) (hn : molSubsections.contains n = false) :
    sealGroup (g ++ [.hdr n]) = sealGroup g := by
  cases g with
  | nil => exact absurd rfl hg
  | cons first rest =>
    have hn' : n ∉ molSubsections := by simpa using hn
    rw [List.cons_append, sealGroup_eq, sealGroup_eq, takeWhile_snoc_false]
    simp [isSubHdr, hn']

theorem takeWhile_takeWhile_imp {α} (p q : α → Bool) (l : List α) (h : ∀ x, p x = true → q x = true) :
    (l.takeWhile q).takeWhile p = l.takeWhile p := by
  induction l with
  | nil => rfl
  | cons y ys ih =>
    simp only [List.takeWhile_cons]
    by_cases hp : p y = true
    · simp [h y hp, hp, ih]
    · by_cases hq : q y = true
      · simp [hq, hp]
      · simp [hq, hp]

theorem groupName_seal (g : Group) : groupName (sealGroup g) = groupName g := by
  cases g with
  | nil => rfl
  | cons first rest =>
    rw [sealGroup_eq]
    unfold groupName
    simp only [List.drop_succ_cons, List.drop_zero]
    rw [takeWhile_takeWhile_imp]
    intro x hx
    cases x with
    | hdr n => simp at hx
    | toks t => rfl

/-! ### tables modulo the conditional tag -/

def eraseTable (tab : List (List String × List TypeEntry)) : List (List String × List (List String)) :=
  tab.map fun e => (e.1, e.2.map (·.params))

def eraseTypes (types : List (String × List (List String × List TypeEntry))) :
    List (String × List (List String × List (List String))) :=
  types.map fun e => (e.1, eraseTable e.2)

theorem assocGet_map {β γ} (f : β → γ) (l : List (String × β)) (k : String) :
    assocGet (l.map fun e => (e.1, f e.2)) k = (assocGet l k).map f := by
  induction l with
  | nil => rfl
  | cons hd rest ih =>
    simp only [List.map_cons, assocGet, List.find?_cons] at ih ⊢
    cases h : hd.1 == k with
    | true => simp
    | false => simpa using ih

theorem assocSet_map {β γ} (f : β → γ) (l : List (String × β)) (k : String) (v : β) :
    (assocSet l k v).map (fun e => (e.1, f e.2)) = assocSet (l.map fun e => (e.1, f e.2)) k (f v) := by
  induction l with
  | nil => rfl
  | cons hd rest ih =>
    simp only [assocSet, List.map_cons]
    cases h : hd.1 == k with
    | true => simp
    | false => simp [ih]

theorem keySet_erase (tab : List (List String × List TypeEntry)) (key : List String) (e : TypeEntry) :
    eraseTable (keySet tab key (fun old => old.getD [] ++ [e])) =
      keySet (eraseTable tab) key (fun old => old.getD [] ++ [e.params]) := by
  induction tab with
  | nil => simp [keySet, eraseTable]
  | cons hd rest ih =>
    simp only [keySet, eraseTable, List.map_cons] at ih ⊢
    cases h : hd.1 == key with
    | true => simp
    | false => simp [ih]

/-- the type tables after `_type_params`, up to the tags, depend on the tables up to the tags only -/
theorem doType_erase (g1 g2 : Glob) (c1 c2 : Option Cond) (sec : String) (toks : List String) (g1' : Glob)
    (ht : eraseTypes g1.types = eraseTypes g2.types) (h : doType g1 c1 sec toks = .ok g1') :
    ∃ g2', doType g2 c2 sec toks = .ok g2' ∧ eraseTypes g1'.types = eraseTypes g2'.types ∧
      g1' = { g1 with types := g1'.types } ∧ g2' = { g2 with types := g2'.types } := by
  unfold doType at h ⊢
  cases hi : assocGet Tables.Top.atomIdxs sec with
  | none => simp [hi] at h
  | some idxs =>
    simp only [hi] at h ⊢
    cases hs : splitAtoms toks idxs with
    | error e => simp [hs] at h
    | ok r =>
      obtain ⟨atoms, params⟩ := r
      simp only [hs] at h ⊢
      injection h with h
      subst h
      refine ⟨_, rfl, ?_, rfl, rfl⟩
      simp only [eraseTypes] at ht ⊢
      rw [assocSet_map (f := eraseTable), assocSet_map (f := eraseTable), keySet_erase, keySet_erase]
      have hg : (assocGet g1.types (interTypeOf sec)).map eraseTable = (assocGet g2.types (interTypeOf sec)).map eraseTable := by
        rw [← assocGet_map, ← assocGet_map, ht]
      have ht' : (g1.types.map fun e => (e.1, eraseTable e.2)) = (g2.types.map fun e => (e.1, eraseTable e.2)) := ht
      rw [ht']
      congr 2
      cases h1 : assocGet g1.types (interTypeOf sec) with
      | none =>
        cases h2 : assocGet g2.types (interTypeOf sec) with
        | none => rfl
        | some t2 => simp [h1, h2] at hg
      | some t1 =>
        cases h2 : assocGet g2.types (interTypeOf sec) with
        | none => simp [h1, h2] at hg
        | some t2 => simp [h1, h2] at hg; simpa using hg

/-! ## Part B: the simulation relation -/

def condOf : Option (Bool × String) → Option Cond
  | none => none
  | some (true, t) => some ⟨"ifdef", t⟩
  | some (false, t) => some ⟨"ifndef", t⟩

/-- the open collected moleculetype, as a list of groups (`if self.current_itp:`) -/
def openOf (it : Option Group) : List Group :=
  match it with
  | some g => if g.isEmpty then [] else [g]
  | none => []

def activeOf (it : Option Group) : Bool := match it with | some g => !g.isEmpty | none => false

theorem itpActive_eq (l : Loc) : itpActive l = activeOf l.itp := rfl

def WellItp (it : Option Group) : Prop := it = none ∨ ∃ g, it = some g ∧ g ≠ []

structure SameTables (a b : Glob) : Prop where
  defines : a.defines = b.defines
  defaults : a.defaults = b.defaults
  atomTypes : a.atomTypes = b.atomTypes
  nonbond : a.nonbond = b.nonbond
  types : eraseTypes a.types = eraseTypes b.types

/-- names of the groups the tree has already handed to `read_itp` -/
structure NamesOk (groups : List Group) (blockNames : List String) : Prop where
  good : ∀ grp ∈ groups, ∃ n, groupName grp = .ok n
  set : ∀ n, blockNames.contains n = true ↔ ∃ grp ∈ groups, groupName grp = .ok n

/-- global part: tables, macro set, nothing expanded yet -/
structure RelG (defs : List String) (Gt Gf : Glob) : Prop where
  tables : SameTables Gt Gf
  defsOk : ∀ tag, defs.contains tag = (assocGet Gt.defines tag).isSome
  gfEmpty : Gf.groups = [] ∧ Gf.blockNames = [] ∧ Gf.molecules = [] ∧ Gf.molIdx = []
  gtMols : Gt.molecules = [] ∧ Gt.molIdx = []
  names : NamesOk Gt.groups Gt.blockNames

/-- conditional part; `frozen`/`fc`: the current file was included from inside the conditional `fc` -/
structure RelC (w : WfSt) (frozen : Bool) (fc : Option Cond) (defines : List (String × Option (List String)))
    (ct cf : Option Cond) : Prop where
  condT : ct = condOf w.cond
  condF : if frozen then (cf = fc ∧ fc.isSome = true ∧ switchedOff { defines := defines } fc = false ∧ w.cond = none)
          else cf = ct
  /-- no evaluated conditional is open once a moleculetype has been seen -/
  condPhase : w.phase2 = true → w.cond = none

/-- section part -/
structure RelS (w : WfSt) (st sf : List String) : Prop where
  shapeT : SecShape st
  shapeF : SecShape sf
  secEq : w.fresh = false → st = sf
  secMol : w.secMol = true ↔ (st = ["moleculetype"] ∨ ∃ y, st = ["moleculetype", y])
  molSec : w.molSec = true ↔ st = ["molecules"]

/-- moleculetype / `[molecules]` part; `anc`, `m0`: groups and molecule lines pending in the including directors -/
structure RelI (w : WfSt) (isTop : Bool) (anc : List Group) (m0 : List (String × String)) (gr : List Group)
    (it : Option Group) (ilt : List Group) (mt : List (String × String))
    (itf : Option Group) (ilf : List Group) (mf : List (String × String)) : Prop where
  ownT : w.own = activeOf it
  itpT : WellItp it
  itpF : WellItp itf
  phaseF : w.phase2 = activeOf itf
  ownPhase : w.own = true → w.phase2 = true
  secMolOwn : w.secMol = true → w.own = true
  mols : mf = m0 ++ mt
  molsTop : isTop = false → mt = []
  perm : ((gr ++ anc ++ ilt ++ openOf it).map sealGroup).Perm ((ilf ++ openOf itf).map sealGroup)
  alive : w.fresh = false → w.secMol = true →
    it = itf ∧ ((gr ++ anc ++ ilt).map sealGroup).Perm (ilf.map sealGroup)

/-- the relation between the scan state `w`, the tree run (global `Gt`, current director `Lt`) and the single
director `(Gf, Lf)` over the text flattened so far; `defs` = the flattener's macro set -/
structure Rel (w : WfSt) (frozen isTop : Bool) (fc : Option Cond) (anc : List Group) (m0 : List (String × String))
    (defs : List String) (Gt : Glob) (Lt : Loc) (Gf : Glob) (Lf : Loc) : Prop where
  g : RelG defs Gt Gf
  c : RelC w frozen fc Gf.defines Lt.cond Lf.cond
  s : RelS w Lt.sec Lf.sec
  i : RelI w isTop anc m0 Gt.groups Lt.itp Lt.itpLines Lt.mols Lf.itp Lf.itpLines Lf.mols

theorem switchedOff_defines (g : Glob) (c : Option Cond) : switchedOff g c = switchedOff { defines := g.defines } c := by
  cases c <;> rfl

theorem activeOf_iff (it : Option Group) : activeOf it = true ↔ ∃ g, it = some g ∧ g ≠ [] := by
  cases it with
  | none => simp [activeOf]
  | some g => cases g <;> simp [activeOf]

theorem openOf_some (g : Group) (hg : g ≠ []) : openOf (some g) = [g] := by
  cases g with
  | nil => exact absurd rfl hg
  | cons a b => rfl

/-- table facts: which sections the handlers that look at the director state belong to -/
theorem handler_molecules : (Tables.Top.sections.all fun s => s.2 != "_molecules" || s.1 == ["molecules"]) = true := by
  decide

theorem handler_molecule : (Tables.Top.sections.all fun s => s.2 != "_molecule" ||
    (s.1 == ["moleculetype"] || (s.1.length == 2 && s.1.head? == some "moleculetype"))) = true := by decide

theorem handlerOf_molecules (sec : List String) (h : handlerOf sec = some "_molecules") : sec = ["molecules"] := by
  unfold handlerOf at h
  split at h
  · simp at h
  · cases hf : Tables.Top.sections.find? (fun x => x.1 == sec) with
    | none => simp [hf] at h
    | some e =>
      simp [hf] at h
      have hm := List.mem_of_find?_eq_some hf
      have hk := List.find?_some hf
      have := List.all_eq_true.mp handler_molecules e hm
      simp [h] at this
      simp at hk
      rw [← hk, this]

theorem handlerOf_molecule (sec : List String) (hs : SecShape sec) (h : handlerOf sec = some "_molecule") :
    sec = ["moleculetype"] ∨ ∃ y, sec = ["moleculetype", y] := by
  unfold handlerOf at h
  split at h
  · simp at h
  · cases hf : Tables.Top.sections.find? (fun x => x.1 == sec) with
    | none => simp [hf] at h
    | some e =>
      simp [hf] at h
      have hm := List.mem_of_find?_eq_some hf
      have hk := List.find?_some hf
      have := List.all_eq_true.mp handler_molecule e hm
      simp [h] at this
      simp at hk
      rw [hk] at this
      cases hs with
      | empty => simp at this
      | one n => left; simpa using this
      | mol x => right; exact ⟨x, rfl⟩

/-! ### content lines -/

theorem activeOf_snoc (grp : Group) (x : ItpLine) : activeOf (some (grp ++ [x])) = true :=
  (activeOf_iff _).mpr ⟨_, rfl, by simp⟩

theorem activeOf_well (it : Option Group) (g : Group) (hw : WellItp it) (h : it = some g) : activeOf it = true := by
  rcases hw with hn | ⟨g', hg, hgne⟩
  · rw [h] at hn; cases hn
  · exact (activeOf_iff _).mpr ⟨g', hg, hgne⟩

theorem sim_content (w : WfSt) (frozen isTop : Bool) (fc : Option Cond) (anc : List Group) (m0 : List (String × String))
    (defs : List String) (Gt : Glob) (Lt : Loc) (Gf : Glob) (Lf : Loc) (toks : List String) (Gt' : Glob) (Lt' : Loc)
    (R : Rel w frozen isTop fc anc m0 defs Gt Lt Gf Lf) (hfresh : w.fresh = false)
    (hmol : w.molSec = true → isTop = true)
    (h : doContent Gt Lt toks = .ok (Gt', Lt')) :
    ∃ Gf' Lf', doContent Gf Lf toks = .ok (Gf', Lf') ∧ Rel w frozen isTop fc anc m0 defs Gt' Lt' Gf' Lf' := by
  have hsec : Lt.sec = Lf.sec := R.s.secEq hfresh
  unfold doContent at h ⊢
  cases hh : handlerOf Lt.sec with
  | none => simp [hh] at h
  | some hd =>
    have hhf : handlerOf Lf.sec = some hd := by rw [← hsec]; exact hh
    simp only [hh] at h
    simp only [hhf]
    by_cases h1 : (hd == "_system" || hd == "_skip" || hd == "_macros") = true
    · rw [if_pos h1] at h ⊢
      injection h with h; injection h with hg hl; subst hg hl
      exact ⟨Gf, Lf, rfl, R⟩
    · rw [if_neg h1] at h ⊢
      by_cases h2 : (hd == "_molecules") = true
      · rw [if_pos h2] at h ⊢
        have hd2 : hd = "_molecules" := by simpa using h2
        have hsecm : Lt.sec = ["molecules"] := handlerOf_molecules _ (hd2 ▸ hh)
        have htop : isTop = true := hmol (R.s.molSec.mpr hsecm)
        match toks, h with
        | [name, n], h =>
          simp only at h ⊢
          injection h with h; injection h with hg hl; subst hg hl
          refine ⟨Gf, _, rfl, ⟨R.g, R.c, R.s, ?_⟩⟩
          have I := R.i
          exact { ownT := I.ownT, itpT := I.itpT, itpF := I.itpF, phaseF := I.phaseF, ownPhase := I.ownPhase,
                  secMolOwn := I.secMolOwn,
                  mols := (by simp [I.mols, List.append_assoc]),
                  molsTop := (fun hf => by rw [htop] at hf; cases hf),
                  perm := I.perm, alive := I.alive }
      · rw [if_neg h2] at h ⊢
        by_cases h3 : (hd == "_defaults") = true
        · rw [if_pos h3] at h ⊢
          cases hd3 : doDefaults toks with
          | error e => simp [hd3, Except.map] at h
          | ok d =>
            simp only [hd3, Except.map] at h ⊢
            injection h with h; injection h with hg hl; subst hg hl
            refine ⟨_, Lf, rfl, ⟨?_, R.c, R.s, R.i⟩⟩
            exact { tables := ⟨R.g.tables.defines, rfl, R.g.tables.atomTypes, R.g.tables.nonbond, R.g.tables.types⟩,
                    defsOk := R.g.defsOk, gfEmpty := R.g.gfEmpty, gtMols := R.g.gtMols, names := R.g.names }
        · rw [if_neg h3] at h ⊢
          by_cases h4 : (hd == "_atomtypes") = true
          · rw [if_pos h4] at h ⊢
            cases hd4 : doAtomType toks with
            | error e => simp [hd4, Except.map] at h
            | ok r =>
              obtain ⟨nm, row⟩ := r
              simp only [hd4, Except.map] at h ⊢
              injection h with h; injection h with hg hl; subst hg hl
              refine ⟨_, Lf, rfl, ⟨?_, R.c, R.s, R.i⟩⟩
              exact { tables := ⟨R.g.tables.defines, R.g.tables.defaults, (by simp [R.g.tables.atomTypes]),
                                 R.g.tables.nonbond, R.g.tables.types⟩,
                      defsOk := R.g.defsOk, gfEmpty := R.g.gfEmpty, gtMols := R.g.gtMols, names := R.g.names }
          · rw [if_neg h4] at h ⊢
            by_cases h5 : (hd == "_nonbond_params") = true
            · rw [if_pos h5] at h ⊢
              cases hd5 : doNonbond toks with
              | error e => simp [hd5, Except.map] at h
              | ok r =>
                obtain ⟨k, v⟩ := r
                simp only [hd5, Except.map] at h ⊢
                injection h with h; injection h with hg hl; subst hg hl
                refine ⟨_, Lf, rfl, ⟨?_, R.c, R.s, R.i⟩⟩
                exact { tables := ⟨R.g.tables.defines, R.g.tables.defaults, R.g.tables.atomTypes,
                                   (by simp [R.g.tables.nonbond]), R.g.tables.types⟩,
                        defsOk := R.g.defsOk, gfEmpty := R.g.gfEmpty, gtMols := R.g.gtMols, names := R.g.names }
            · rw [if_neg h5] at h ⊢
              by_cases h6 : (hd == "_type_params") = true
              · rw [if_pos h6] at h ⊢
                cases hd6 : doType Gt Lt.cond (Lt.sec.getLast?.getD "") toks with
                | error e => simp [hd6, Except.map] at h
                | ok g1 =>
                  simp only [hd6, Except.map] at h
                  injection h with h; injection h with hg hl; subst hg hl
                  obtain ⟨g2, hg2, herase, hsame1, hsame2⟩ :=
                    doType_erase Gt Gf Lt.cond Lf.cond (Lt.sec.getLast?.getD "") toks g1 R.g.tables.types hd6
                  refine ⟨g2, Lf, (by rw [← hsec]; simp [hg2, Except.map]), ⟨?_, ?_, R.s, ?_⟩⟩
                  · rw [hsame1, hsame2]
                    exact { tables := ⟨R.g.tables.defines, R.g.tables.defaults, R.g.tables.atomTypes,
                                       R.g.tables.nonbond, herase⟩,
                            defsOk := R.g.defsOk, gfEmpty := R.g.gfEmpty, gtMols := R.g.gtMols, names := R.g.names }
                  · rw [hsame2]; exact R.c
                  · rw [hsame1]; exact R.i
              · rw [if_neg h6] at h ⊢
                by_cases h7 : (hd == "_molecule") = true
                · rw [if_pos h7] at h ⊢
                  have hd7 : hd = "_molecule" := by simpa using h7
                  have hshape := handlerOf_molecule _ R.s.shapeT (hd7 ▸ hh)
                  have hsm : w.secMol = true := R.s.secMol.mpr hshape
                  obtain ⟨hitp, hperm⟩ := R.i.alive hfresh hsm
                  cases hit : Lt.itp with
                  | none => simp [hit] at h
                  | some grp =>
                    simp only [hit] at h
                    injection h with h; injection h with hg hl; subst hg hl
                    have hitf : Lf.itp = some grp := by rw [← hitp, hit]
                    refine ⟨Gf, { Lf with itp := some (grp ++ [ItpLine.toks toks]) }, (by simp [hitf]), ⟨R.g, R.c, R.s, ?_⟩⟩
                    have I := R.i
                    have hact : activeOf (some grp) = true := activeOf_well _ grp (hit ▸ I.itpT) rfl
                    have hne : grp ++ [ItpLine.toks toks] ≠ [] := by simp
                    exact { ownT := (by have := I.ownT; rw [hit, hact] at this; rw [this, activeOf_snoc]),
                            itpT := Or.inr ⟨_, rfl, hne⟩, itpF := Or.inr ⟨_, rfl, hne⟩,
                            phaseF := (by have := I.phaseF; rw [hitf, hact] at this; rw [this, activeOf_snoc]),
                            ownPhase := I.ownPhase, secMolOwn := I.secMolOwn, mols := I.mols, molsTop := I.molsTop,
                            perm := (by
                              rw [openOf_some _ hne]
                              have := hperm.append_right [sealGroup (grp ++ [ItpLine.toks toks])]
                              simpa [List.map_append] using this),
                            alive := (fun _ _ => ⟨rfl, hperm⟩) }
                · rw [if_neg h7] at h
                  cases h

/-! ### headers -/

theorem doHeader_mol (L : Loc) (hs : SecShape L.sec) (hw : WellItp L.itp) :
    doHeader L "moleculetype" = { sec := ["moleculetype"], cond := L.cond, itp := some [ItpLine.hdr "moleculetype"],
                                  itpLines := L.itpLines ++ openOf L.itp, mols := L.mols } := by
  have hsec : newSection L.sec "moleculetype" = ["moleculetype"] := newSection_top _ _ hs moleculetype_not_sub
  unfold doHeader
  simp only [hsec, beq_self_eq_true, if_true]
  rcases hw with hn | ⟨g, hg, hgne⟩
  · simp [hn, openOf]
  · cases g with
    | nil => exact absurd rfl hgne
    | cons a b => simp [hg, openOf]

def appendHdr (it : Option Group) (name : String) : Option Group := it.map (· ++ [ItpLine.hdr name])

theorem doHeader_other (L : Loc) (name : String) (sec' : List String) (hsec : newSection L.sec name = sec')
    (hne : sec' ≠ ["moleculetype"]) :
    doHeader L name = { sec := sec', cond := L.cond, itp := appendHdr L.itp name, itpLines := L.itpLines, mols := L.mols } := by
  unfold doHeader
  have : (sec' == ["moleculetype"]) = false := by simpa using hne
  simp only [hsec, this, Bool.false_eq_true, if_false]
  cases h : L.itp with
  | none => simp [appendHdr]
  | some g => simp [appendHdr]

theorem wellItp_appendHdr (it : Option Group) (name : String) (h : WellItp it) : WellItp (appendHdr it name) := by
  rcases h with hn | ⟨g, hg, _⟩
  · left; simp [appendHdr, hn]
  · right; exact ⟨g ++ [ItpLine.hdr name], by simp [appendHdr, hg], by simp⟩

theorem activeOf_appendHdr (it : Option Group) (name : String) (h : WellItp it) :
    activeOf (appendHdr it name) = activeOf it := by
  rcases h with hn | ⟨g, hg, hgne⟩
  · simp [appendHdr, hn]
  · rw [hg]
    have : activeOf (some g) = true := (activeOf_iff _).mpr ⟨g, rfl, hgne⟩
    rw [this]
    exact (activeOf_iff _).mpr ⟨_, rfl, by simp⟩

/-- a top-level header appended to the open group does not change the sealed view -/
theorem openOf_appendHdr_top (it : Option Group) (name : String) (h : WellItp it)
    (hn : molSubsections.contains name = false) :
    (openOf (appendHdr it name)).map sealGroup = (openOf it).map sealGroup := by
  rcases h with hnone | ⟨g, hg, hgne⟩
  · simp [appendHdr, hnone]
  · rw [hg]
    simp only [appendHdr, Option.map_some]
    rw [openOf_some _ (by simp), openOf_some _ hgne]
    simp [sealGroup_snoc_top g name hgne hn]

theorem sim_header (w w' : WfSt) (frozen isTop : Bool) (fc : Option Cond) (anc : List Group) (m0 : List (String × String))
    (defs : List String) (Gt : Glob) (Lt : Loc) (Gf : Glob) (Lf : Loc) (name : String)
    (R : Rel w frozen isTop fc anc m0 defs Gt Lt Gf Lf)
    (hw : (if name == "moleculetype" then
            (if w.cond.isNone && !frozen && !w.swallow then
              some { w with phase2 := true, fresh := false, own := true, secMol := true, molSec := false } else none)
          else if molSubsections.contains name then (if !w.fresh && w.secMol then some w else none)
          else (if w.swallow then none else some { w with fresh := false, secMol := false, molSec := name == "molecules" }))
          = some w') :
    Rel w' frozen isTop fc anc m0 defs Gt (doHeader Lt name) Gf (doHeader Lf name) := by
  have I := R.i
  have S := R.s
  by_cases hm : (name == "moleculetype") = true
  · -- a new moleculetype
    have hname : name = "moleculetype" := by simpa using hm
    subst hname
    simp only [beq_self_eq_true, if_true] at hw
    split at hw
    · rename_i hc
      injection hw with hw; subst hw
      simp only [Bool.and_eq_true, Bool.not_eq_true', Option.isNone_iff_eq_none] at hc
      obtain ⟨⟨hcond, hfr⟩, _⟩ := hc
      rw [doHeader_mol Lt S.shapeT I.itpT, doHeader_mol Lf S.shapeF I.itpF]
      refine ⟨R.g, ?_, ?_, ?_⟩
      · exact { condT := R.c.condT, condF := (by have := R.c.condF; simpa [hfr] using this),
                condPhase := fun _ => hcond }
      · exact { shapeT := SecShape.one _, shapeF := SecShape.one _, secEq := fun _ => rfl,
                secMol := ⟨fun _ => Or.inl rfl, fun _ => rfl⟩,
                molSec := ⟨fun h => (by cases h), fun h => (by simp at h)⟩ }
      · exact { ownT := rfl, itpT := Or.inr ⟨_, rfl, by simp⟩, itpF := Or.inr ⟨_, rfl, by simp⟩, phaseF := rfl,
                ownPhase := fun _ => rfl, secMolOwn := fun _ => rfl, mols := I.mols, molsTop := I.molsTop,
                perm := (by
                  have := I.perm.append_right [sealGroup [ItpLine.hdr "moleculetype"]]
                  simpa [List.map_append, openOf, List.append_assoc] using this),
                alive := (fun _ _ => ⟨rfl, by simpa [List.append_assoc] using I.perm⟩) }
    · cases hw
  · have hname : name ≠ "moleculetype" := by simpa using hm
    have hm' : (name == "moleculetype") = false := by simpa using hm
    simp only [hm', Bool.false_eq_true, if_false] at hw
    by_cases hsub : molSubsections.contains name = true
    · -- a subsection of the current moleculetype
      simp only [hsub, if_true] at hw
      split at hw
      · rename_i hc
        injection hw with hw; subst hw
        simp only [Bool.and_eq_true, Bool.not_eq_true'] at hc
        obtain ⟨hfresh, hsm⟩ := hc
        have hshape := S.secMol.mp hsm
        have hsecT : newSection Lt.sec name = ["moleculetype", name] := newSection_sub _ _ hsub hshape
        have hsecF : newSection Lf.sec name = ["moleculetype", name] := by
          rw [← S.secEq hfresh]; exact hsecT
        have hne : ["moleculetype", name] ≠ ["moleculetype"] := by simp
        rw [doHeader_other Lt name _ hsecT hne, doHeader_other Lf name _ hsecF hne]
        obtain ⟨hitp, hperm⟩ := I.alive hfresh hsm
        refine ⟨R.g, ⟨R.c.condT, R.c.condF, R.c.condPhase⟩, ?_, ?_⟩
        · exact { shapeT := SecShape.mol _, shapeF := SecShape.mol _, secEq := fun _ => rfl,
                  secMol := ⟨fun _ => Or.inr ⟨name, rfl⟩, fun _ => hsm⟩,
                  molSec := ⟨fun h => (by
                               have := S.molSec.mp h
                               rcases hshape with h1 | ⟨y, h1⟩ <;> rw [h1] at this <;> simp at this),
                             fun h => (by simp at h)⟩ }
        · exact { ownT := (by rw [activeOf_appendHdr _ _ I.itpT]; exact I.ownT),
                  itpT := wellItp_appendHdr _ _ I.itpT, itpF := wellItp_appendHdr _ _ I.itpF,
                  phaseF := (by rw [activeOf_appendHdr _ _ I.itpF]; exact I.phaseF),
                  ownPhase := I.ownPhase, secMolOwn := I.secMolOwn, mols := I.mols, molsTop := I.molsTop,
                  perm := (by
                    rw [← hitp]
                    have := hperm.append_right ((openOf (appendHdr Lt.itp name)).map sealGroup)
                    simpa [List.map_append] using this),
                  alive := (fun _ _ => ⟨by rw [hitp], hperm⟩) }
      · cases hw
    · -- a top-level (or unknown) section
      have hsub' : molSubsections.contains name = false := by simpa using hsub
      simp only [hsub', Bool.false_eq_true, if_false] at hw
      split at hw
      · cases hw
      · injection hw with hw; subst hw
        have hsecT : newSection Lt.sec name = [name] := newSection_top _ _ S.shapeT hsub'
        have hsecF : newSection Lf.sec name = [name] := newSection_top _ _ S.shapeF hsub'
        have hne : [name] ≠ ["moleculetype"] := by simpa using hname
        rw [doHeader_other Lt name _ hsecT hne, doHeader_other Lf name _ hsecF hne]
        refine ⟨R.g, ⟨R.c.condT, R.c.condF, R.c.condPhase⟩, ?_, ?_⟩
        · exact { shapeT := SecShape.one _, shapeF := SecShape.one _, secEq := fun _ => rfl,
                  secMol := ⟨fun h => (by cases h), fun h => (by
                    rcases h with h | ⟨y, h⟩
                    · simp at h; exact absurd h hname
                    · simp at h)⟩,
                  molSec := ⟨fun h => (by simpa using h), fun h => (by simpa using h)⟩ }
        · exact { ownT := (by rw [activeOf_appendHdr _ _ I.itpT]; exact I.ownT),
                  itpT := wellItp_appendHdr _ _ I.itpT, itpF := wellItp_appendHdr _ _ I.itpF,
                  phaseF := (by rw [activeOf_appendHdr _ _ I.itpF]; exact I.phaseF),
                  ownPhase := I.ownPhase, secMolOwn := (fun h => (by cases h)), mols := I.mols, molsTop := I.molsTop,
                  perm := (by
                    simp only [List.map_append]
                    rw [openOf_appendHdr_top _ _ I.itpT hsub', openOf_appendHdr_top _ _ I.itpF hsub']
                    simpa [List.map_append] using I.perm),
                  alive := (fun _ h => (by cases h)) }

/-! ### pragmas that do not include -/

/-- `Rel` looks at the scan state only through six of its fields -/
theorem rel_w (w w' : WfSt) (frozen isTop : Bool) (fc : Option Cond) (anc : List Group) (m0 : List (String × String))
    (defs : List String) (Gt : Glob) (Lt : Loc) (Gf : Glob) (Lf : Loc)
    (h1 : w'.phase2 = w.phase2) (h2 : w'.fresh = w.fresh) (h3 : w'.own = w.own) (h4 : w'.secMol = w.secMol)
    (h5 : w'.cond = w.cond) (h6 : w'.molSec = w.molSec)
    (R : Rel w frozen isTop fc anc m0 defs Gt Lt Gf Lf) : Rel w' frozen isTop fc anc m0 defs Gt Lt Gf Lf := by
  obtain ⟨p, f, o, sm, c, sw, ms⟩ := w
  obtain ⟨p', f', o', sm', c', sw', ms'⟩ := w'
  simp only at h1 h2 h3 h4 h5 h6
  subst h1 h2 h3 h4 h5 h6
  exact ⟨R.g, ⟨R.c.condT, R.c.condF, R.c.condPhase⟩,
    ⟨R.s.shapeT, R.s.shapeF, R.s.secEq, R.s.secMol, R.s.molSec⟩,
    ⟨R.i.ownT, R.i.itpT, R.i.itpF, R.i.phaseF, R.i.ownPhase, R.i.secMolOwn, R.i.mols, R.i.molsTop, R.i.perm, R.i.alive⟩⟩

/-- a line stored into the open moleculetype of both directors (inside a moleculetype section of the file) -/
theorem rel_swallow (w : WfSt) (frozen isTop : Bool) (fc : Option Cond) (anc : List Group) (m0 : List (String × String))
    (defs : List String) (Gt : Glob) (Lt : Loc) (Gf : Glob) (Lf : Loc) (x : ItpLine)
    (R : Rel w frozen isTop fc anc m0 defs Gt Lt Gf Lf) (hfresh : w.fresh = false) (hsm : w.secMol = true) :
    itpActive Lt = true ∧ itpActive Lf = true ∧
    Rel w frozen isTop fc anc m0 defs Gt { Lt with itp := some (Lt.itp.getD [] ++ [x]) }
                                     Gf { Lf with itp := some (Lf.itp.getD [] ++ [x]) } := by
  have I := R.i
  obtain ⟨hitp, hperm⟩ := I.alive hfresh hsm
  have hown : w.own = true := I.secMolOwn hsm
  have hactT : activeOf Lt.itp = true := by rw [← I.ownT]; exact hown
  have hactF : activeOf Lf.itp = true := by rw [← hitp]; exact hactT
  obtain ⟨g, hg, hgne⟩ := (activeOf_iff _).mp hactT
  have hgf : Lf.itp = some g := by rw [← hitp]; exact hg
  refine ⟨by rw [itpActive_eq]; exact hactT, by rw [itpActive_eq]; exact hactF, R.g, R.c, R.s, ?_⟩
  have hne : g ++ [x] ≠ [] := by simp
  simp only [hg, hgf, Option.getD_some]
  exact { ownT := (by rw [hown, activeOf_snoc]),
          itpT := Or.inr ⟨_, rfl, hne⟩, itpF := Or.inr ⟨_, rfl, hne⟩,
          phaseF := (by rw [I.ownPhase hown, activeOf_snoc]),
          ownPhase := I.ownPhase, secMolOwn := I.secMolOwn, mols := I.mols, molsTop := I.molsTop,
          perm := (by
            rw [openOf_some _ hne]
            have := hperm.append_right [sealGroup (g ++ [x])]
            simpa [List.map_append] using this),
          alive := (fun _ _ => ⟨rfl, hperm⟩) }

theorem switchedOff_congr (g1 g2 : Glob) (c : Option Cond) (h : g1.defines = g2.defines) :
    switchedOff g1 c = switchedOff g2 c := by
  rw [switchedOff_defines g1, switchedOff_defines g2, h]

theorem holds_eq (defs : List String) (g : Glob) (wc : Option (Bool × String))
    (hd : ∀ tag, defs.contains tag = (assocGet g.defines tag).isSome) :
    holds defs wc = !switchedOff g (condOf wc) := by
  cases wc with
  | none => rfl
  | some p =>
    obtain ⟨b, t⟩ := p
    have := hd t
    cases b
    · simp [holds, condOf, switchedOff, ← this]
    · simp [holds, condOf, switchedOff, ← this]

theorem not_frozen_of_cond (w : WfSt) (frozen : Bool) (fc : Option Cond) (d : List (String × Option (List String)))
    (ct cf : Option Cond) (C : RelC w frozen fc d ct cf) (h : w.cond.isSome = true) : frozen = false := by
  cases frozen with
  | false => rfl
  | true =>
    have := C.condF
    simp only [if_true] at this
    rw [this.2.2.2] at h
    cases h

/-- the three conditional pragmas when both directors store them (inside a moleculetype of the file) -/
theorem sim_cond_stored (w w' : WfSt) (frozen isTop : Bool) (fc : Option Cond) (anc : List Group)
    (m0 : List (String × String)) (defs : List String) (Gt : Glob) (Lt : Loc) (Gf : Glob) (Lf : Loc) (Gt' : Glob) (Lt' : Loc)
    (toks : List String)
    (R : Rel w frozen isTop fc anc m0 defs Gt Lt Gf Lf)
    (hin : (!w.fresh && w.own && w.secMol) = true)
    (h1 : w'.phase2 = w.phase2) (h2 : w'.fresh = w.fresh) (h3 : w'.own = w.own) (h4 : w'.secMol = w.secMol)
    (h5 : w'.cond = w.cond) (h6 : w'.molSec = w.molSec)
    (ht : (if itpActive Lt = true then
             (Except.ok (Gt, { Lt with itp := some ((Lt.itp.getD []) ++ [ItpLine.toks toks]) }) : Except String (Glob × Loc))
           else Except.error "x") = .ok (Gt', Lt')) :
    itpActive Lf = true ∧
      Rel w' frozen isTop fc anc m0 defs Gt' Lt' Gf { Lf with itp := some ((Lf.itp.getD []) ++ [ItpLine.toks toks]) } := by
  simp only [Bool.and_eq_true, Bool.not_eq_true'] at hin
  obtain ⟨⟨hfresh, _⟩, hsm⟩ := hin
  obtain ⟨aT, aF, R'⟩ := rel_swallow w frozen isTop fc anc m0 defs Gt Lt Gf Lf (ItpLine.toks toks) R hfresh hsm
  rw [if_pos aT] at ht
  injection ht with ht; injection ht with hg hl; subst hg hl
  exact ⟨aF, rel_w _ _ _ _ _ _ _ _ _ _ _ _ h1 h2 h3 h4 h5 h6 R'⟩

/-- rebuild `Rel` for a scan state that differs in `cond` / `swallow` only, given the new conditional part -/
theorem rel_change_c (w w' : WfSt) (frozen isTop : Bool) (fc : Option Cond) (anc : List Group) (m0 : List (String × String))
    (defs : List String) (Gt : Glob) (Lt Lt' : Loc) (Gf : Glob) (Lf Lf' : Loc)
    (h1 : w'.phase2 = w.phase2) (h2 : w'.fresh = w.fresh) (h3 : w'.own = w.own) (h4 : w'.secMol = w.secMol)
    (h6 : w'.molSec = w.molSec)
    (hLt : Lt'.sec = Lt.sec ∧ Lt'.itp = Lt.itp ∧ Lt'.itpLines = Lt.itpLines ∧ Lt'.mols = Lt.mols)
    (hLf : Lf'.sec = Lf.sec ∧ Lf'.itp = Lf.itp ∧ Lf'.itpLines = Lf.itpLines ∧ Lf'.mols = Lf.mols)
    (R : Rel w frozen isTop fc anc m0 defs Gt Lt Gf Lf)
    (C : RelC w' frozen fc Gf.defines Lt'.cond Lf'.cond) : Rel w' frozen isTop fc anc m0 defs Gt Lt' Gf Lf' := by
  obtain ⟨p, f, o, sm, c, sw, ms⟩ := w
  obtain ⟨p', f', o', sm', c', sw', ms'⟩ := w'
  simp only at h1 h2 h3 h4 h6
  subst h1 h2 h3 h4 h6
  obtain ⟨a1, a2, a3, a4⟩ := hLt
  obtain ⟨b1, b2, b3, b4⟩ := hLf
  refine ⟨R.g, C, ?_, ?_⟩
  · rw [a1, b1]
    exact ⟨R.s.shapeT, R.s.shapeF, R.s.secEq, R.s.secMol, R.s.molSec⟩
  · rw [a2, a3, a4, b2, b3, b4]
    exact ⟨R.i.ownT, R.i.itpT, R.i.itpF, R.i.phaseF, R.i.ownPhase, R.i.secMolOwn, R.i.mols, R.i.molsTop, R.i.perm, R.i.alive⟩

theorem condOf_isSome (c : Option (Bool × String)) : (condOf c).isSome = c.isSome := by
  cases c with
  | none => rfl
  | some p => obtain ⟨b, t⟩ := p; cases b <;> rfl

theorem sim_pragma_noinc (w w' : WfSt) (frozen isTop : Bool) (fc : Option Cond) (anc : List Group)
    (m0 : List (String × String)) (Gt : Glob) (Lt : Loc) (Gf : Glob) (Lf : Loc) (Gt' : Glob) (Lt' : Loc)
    (incW : Path → Bool → Bool → Option Bool) (incT : Path → Glob → Except String Glob)
    (incF : Path → FlatSt → Except String FlatSt) (dir : Path) (c c' : Option (Bool × String)) (fst fst' : FlatSt)
    (raw : String) (toks : List String)
    (hni : (toks.headD "" == "#include") = false)
    (R : Rel w frozen isTop fc anc m0 fst.defs Gt Lt Gf Lf) (hc : w.swallow = false → c = w.cond)
    (hw : wfPragma incW dir frozen w toks = some w')
    (ht : doPragma incT dir Gt Lt toks = .ok (Gt', Lt'))
    (hf : flatPragma incF dir c fst raw toks = .ok (c', fst')) :
    (fst'.out = fst.out ++ [raw] ∧ fst'.abort = fst.abort) ∧ (w'.swallow = false → c' = w'.cond) ∧
      ∃ Gf' Lf', doPragma noInc [] Gf Lf toks = .ok (Gf', Lf') ∧
        Rel w' frozen isTop fc anc m0 fst'.defs Gt' Lt' Gf' Lf' := by
  have I := R.i
  have hactT : itpActive Lt = w.own := by rw [itpActive_eq, ← I.ownT]
  have hactF : itpActive Lf = w.phase2 := by rw [itpActive_eq, ← I.phaseF]
  have hown1 : ¬ w.phase2 = true → w.own = false := by
    intro hp
    cases ho : w.own with
    | false => rfl
    | true => exact absurd (I.ownPhase ho) hp
  have hinOwn : (!w.fresh && w.own && w.secMol) = true → itpActive Lt = true := by
    intro hin
    simp only [Bool.and_eq_true] at hin
    rw [hactT]; exact hin.1.2
  unfold wfPragma at hw
  unfold doPragma at ht ⊢
  unfold flatPragma at hf
  simp only at hw ht hf ⊢
  by_cases c1 : (toks == ["#endif"]) = true
  · -- #endif
    rw [if_pos c1] at hw ht hf ⊢
    injection hf with hf; injection hf with hc' hfst; subst hc' hfst
    refine ⟨⟨rfl, rfl⟩, ?_⟩
    by_cases hp : w.phase2 = true
    · rw [if_pos hp] at hw
      split at hw
      · rename_i hin
        injection hw with hw; subst hw
        obtain ⟨aF, R'⟩ := sim_cond_stored w { w with swallow := false } frozen isTop fc anc m0 _ Gt Lt Gf Lf Gt' Lt' toks R hin
          rfl rfl rfl rfl rfl rfl (by rw [if_pos (hinOwn hin)] at ht ⊢; exact ht)
        rw [if_pos aF]
        exact ⟨fun _ => (R.c.condPhase hp).symm, _, _, rfl, R'⟩
      · cases hw
    · rw [if_neg hp] at hw
      split at hw
      · rename_i hcs
        injection hw with hw; subst hw
        have hfz := not_frozen_of_cond w frozen fc _ _ _ R.c hcs
        have hcF := R.c.condF
        simp only [hfz, Bool.false_eq_true, if_false] at hcF
        have hTs : Lt.cond.isNone = false := by
          rw [R.c.condT]
          have := condOf_isSome w.cond
          rw [hcs] at this
          cases hcc : condOf w.cond with
          | none => rw [hcc] at this; cases this
          | some m => rfl
        have hTa : ¬ itpActive Lt = true := by rw [hactT, hown1 hp]; simp
        have hFa : ¬ itpActive Lf = true := by rw [hactF]; exact hp
        rw [if_neg hTa] at ht
        rw [if_neg hFa]
        simp only [hTs, Bool.false_eq_true, if_false] at ht
        injection ht with ht; injection ht with hg hl; subst hg hl
        refine ⟨fun _ => rfl, Gf, { Lf with cond := none }, (by simp [hcF, hTs]), ?_⟩
        refine rel_change_c w _ frozen isTop fc anc m0 _ Gt Lt _ Gf Lf _ rfl rfl rfl rfl rfl
          ⟨rfl, rfl, rfl, rfl⟩ ⟨rfl, rfl, rfl, rfl⟩ R ?_
        exact { condT := rfl, condF := (by simp [hfz]), condPhase := fun _ => rfl }
      · cases hw
  · rw [if_neg c1] at hw ht hf ⊢
    by_cases c2 : startsWith (toks.headD "") "#else" = true
    · -- #else
      rw [if_pos c2] at hw ht hf ⊢
      injection hf with hf; injection hf with hc' hfst; subst hc' hfst
      refine ⟨⟨rfl, rfl⟩, ?_⟩
      split at hw
      · cases hw
      · by_cases hp : w.phase2 = true
        · rw [if_pos hp] at hw
          split at hw
          · rename_i hin
            injection hw with hw; subst hw
            obtain ⟨aF, R'⟩ := sim_cond_stored w w frozen isTop fc anc m0 _ Gt Lt Gf Lf Gt' Lt' toks R hin
              rfl rfl rfl rfl rfl rfl (by rw [if_pos (hinOwn hin)] at ht ⊢; exact ht)
            rw [if_pos aF]
            refine ⟨fun hs => ?_, _, _, rfl, R'⟩
            rw [hc hs, R.c.condPhase hp]; rfl
          · cases hw
        · rw [if_neg hp] at hw
          have hTa : ¬ itpActive Lt = true := by rw [hactT, hown1 hp]; simp
          have hFa : ¬ itpActive Lf = true := by rw [hactF]; exact hp
          rw [if_neg hTa] at ht
          rw [if_neg hFa]
          cases hcw : w.cond with
          | none => simp [hcw] at hw
          | some bt =>
            obtain ⟨b, t⟩ := bt
            simp only [hcw] at hw
            injection hw with hw; subst hw
            have hfz := not_frozen_of_cond w frozen fc _ _ _ R.c (by simp [hcw])
            have hcF := R.c.condF
            simp only [hfz, Bool.false_eq_true, if_false] at hcF
            have hcT := R.c.condT
            rw [hcw] at hcT
            rw [hcF]
            cases b with
            | false =>
              have e : Lt.cond = some ⟨"ifndef", t⟩ := hcT
              rw [e] at ht ⊢
              simp only [inverseCond, show ("ifndef" == "ifdef") = false by decide, Bool.false_eq_true, if_false,
                show ("ifndef" == "ifndef") = true by decide, if_true] at ht ⊢
              injection ht with ht; injection ht with hg hl; subst hg hl
              refine ⟨fun hs => (by rw [hc hs, hcw]; rfl), _, _, rfl, ?_⟩
              refine rel_change_c w _ frozen isTop fc anc m0 _ Gt Lt _ Gf Lf _ rfl rfl rfl rfl rfl
                ⟨rfl, rfl, rfl, rfl⟩ ⟨rfl, rfl, rfl, rfl⟩ R ?_
              exact { condT := rfl, condF := (by simp [hfz]), condPhase := (fun h => absurd h hp) }
            | true =>
              have e : Lt.cond = some ⟨"ifdef", t⟩ := hcT
              rw [e] at ht ⊢
              simp only [inverseCond, show ("ifdef" == "ifdef") = true by decide, if_true] at ht ⊢
              injection ht with ht; injection ht with hg hl; subst hg hl
              refine ⟨fun hs => (by rw [hc hs, hcw]; rfl), _, _, rfl, ?_⟩
              refine rel_change_c w _ frozen isTop fc anc m0 _ Gt Lt _ Gf Lf _ rfl rfl rfl rfl rfl
                ⟨rfl, rfl, rfl, rfl⟩ ⟨rfl, rfl, rfl, rfl⟩ R ?_
              exact { condT := rfl, condF := (by simp [hfz]), condPhase := (fun h => absurd h hp) }
    · rw [if_neg c2] at hw ht hf ⊢
      by_cases c3 : (startsWith (toks.headD "") "#ifdef" || startsWith (toks.headD "") "#ifndef") = true
      · -- #ifdef / #ifndef
        rw [if_pos c3] at hw ht hf ⊢
        match toks, hw, ht, hf with
        | [k, tag], hw, ht, hf =>
          simp only at hw ht hf ⊢
          injection hf with hf; injection hf with hc' hfst; subst hc' hfst
          refine ⟨⟨rfl, rfl⟩, ?_⟩
          split at hw
          · cases hw
          · rename_i hk
            have hk' : k = "#ifdef" ∨ k = "#ifndef" := by
              simp only [Bool.and_eq_true, bne_iff_ne, ne_eq, not_and, Decidable.not_not] at hk
              by_cases h1 : k = "#ifdef"
              · exact Or.inl h1
              · exact Or.inr (hk h1)
            by_cases hp : w.phase2 = true
            · rw [if_pos hp] at hw
              split at hw
              · rename_i hin
                injection hw with hw; subst hw
                obtain ⟨aF, R'⟩ := sim_cond_stored w { w with swallow := true } frozen isTop fc anc m0 _ Gt Lt Gf Lf Gt' Lt'
                  [k, tag] R hin rfl rfl rfl rfl rfl rfl (by rw [if_pos (hinOwn hin)] at ht ⊢; exact ht)
                rw [if_pos aF]
                exact ⟨fun hs => (by cases hs), _, _, rfl, R'⟩
              · cases hw
            · rw [if_neg hp] at hw
              split at hw
              · rename_i hcn
                injection hw with hw; subst hw
                simp only [Bool.and_eq_true, Option.isNone_iff_eq_none, Bool.not_eq_true'] at hcn
                obtain ⟨hcw, hfz⟩ := hcn
                have hcF := R.c.condF
                simp only [hfz, Bool.false_eq_true, if_false] at hcF
                have hcT : Lt.cond = none := by rw [R.c.condT, hcw]; rfl
                have hTa : ¬ itpActive Lt = true := by rw [hactT, hown1 hp]; simp
                have hFa : ¬ itpActive Lf = true := by rw [hactF]; exact hp
                rw [if_neg hTa] at ht
                rw [if_neg hFa, hcF]
                rw [hcT] at ht ⊢
                dsimp only at ht ⊢
                injection ht with ht; injection ht with hg hl; subst hg hl
                refine ⟨fun _ => rfl, _, _, rfl, ?_⟩
                refine rel_change_c w _ frozen isTop fc anc m0 _ Gt Lt _ Gf Lf _ rfl rfl rfl rfl rfl
                  ⟨rfl, rfl, rfl, rfl⟩ ⟨rfl, rfl, rfl, rfl⟩ R ?_
                refine { condT := ?_, condF := (by simp [hfz]), condPhase := (fun h => absurd h hp) }
                rcases hk' with rfl | rfl
                · show some (⟨removeChar "#ifdef" '#', tag⟩ : Cond) = condOf (some (("#ifdef" == "#ifdef"), tag))
                  have e1 : removeChar "#ifdef" '#' = "ifdef" := by decide
                  have e2 : ("#ifdef" == "#ifdef") = true := by decide
                  rw [e1, e2]; rfl
                · show some (⟨removeChar "#ifndef" '#', tag⟩ : Cond) = condOf (some (("#ifndef" == "#ifdef"), tag))
                  have e1 : removeChar "#ifndef" '#' = "ifndef" := by decide
                  have e2 : ("#ifndef" == "#ifdef") = false := by decide
                  rw [e1, e2]; rfl
              · cases hw
        | [], hw, _, _ => simp at hw
        | [_], hw, _, _ => simp at hw
        | _ :: _ :: _ :: _, hw, _, _ => simp at hw
      · rw [if_neg c3] at hw ht hf ⊢
        by_cases c4 : (toks.headD "" == "#define") = true
        · -- #define
          rw [if_pos c4] at hw ht hf ⊢
          split at hw
          · rename_i hcd
            injection hw with hw; subst hw
            simp only [Bool.and_eq_true, decide_eq_true_eq, Option.isNone_iff_eq_none, Bool.not_eq_true'] at hcd
            obtain ⟨⟨⟨hlen, hcw⟩, hfz⟩, hsw⟩ := hcd
            have hcc : c = none := by rw [hc hsw, hcw]
            have hcF := R.c.condF
            simp only [hfz, Bool.false_eq_true, if_false] at hcF
            have hdefs := R.g.tables.defines
            -- the new macro table, and the flattener's set
            have key : ∀ (tag : String) (v : Option (List String)) (Gt1 Gf1 : Glob) (defs1 : List String),
                Gt1 = { Gt with defines := assocSet Gt.defines tag v } →
                Gf1 = { Gf with defines := assocSet Gf.defines tag v } →
                defs1 = (if fst.defs.contains tag then fst.defs else fst.defs ++ [tag]) →
                Rel w frozen isTop fc anc m0 defs1 Gt1 Lt Gf1 Lf := by
              intro tag v Gt1 Gf1 defs1 e1 e2 e3
              subst e1 e2 e3
              refine ⟨?_, ?_, R.s, R.i⟩
              · refine { tables := ⟨by simp [hdefs], R.g.tables.defaults, R.g.tables.atomTypes, R.g.tables.nonbond,
                                     R.g.tables.types⟩,
                         defsOk := ?_, gfEmpty := R.g.gfEmpty, gtMols := R.g.gtMols, names := R.g.names }
                intro t
                simp only
                rw [assocGet_assocSet]
                have hold := R.g.defsOk t
                by_cases ht' : t = tag
                · subst ht'
                  simp only [if_true, Option.isSome_some]
                  split
                  · assumption
                  · simp
                · simp only [ht', if_false]
                  split
                  · exact hold
                  · rw [← hold]; simp [ht']
              · exact { condT := R.c.condT, condF := (by simp [hfz, hcF]), condPhase := R.c.condPhase }
            match toks, hlen, ht, hf with
            | [_, tag], _, ht, hf =>
              simp only [hcc, Option.isNone_none, if_true] at ht hf ⊢
              injection hf with hf; injection hf with hc' hfst; subst hc' hfst
              injection ht with ht; injection ht with hg hl; subst hg hl
              exact ⟨⟨rfl, rfl⟩, fun hs => (by rw [hcw]), _, _, rfl, key tag none _ _ _ rfl rfl rfl⟩
            | _ :: tag :: v :: vals, _, ht, hf =>
              simp only [hcc, Option.isNone_none, if_true] at ht hf ⊢
              injection hf with hf; injection hf with hc' hfst; subst hc' hfst
              injection ht with ht; injection ht with hg hl; subst hg hl
              exact ⟨⟨rfl, rfl⟩, fun hs => (by rw [hcw]), _, _, rfl, key tag (some (v :: vals)) _ _ _ rfl rfl rfl⟩
          · cases hw
        · rw [if_neg c4] at hw ht hf ⊢
          by_cases c5 : (toks.headD "" == "#error") = true
          · -- #error
            rw [if_pos c5] at hw ht hf ⊢
            split at hw
            · cases hw
            · rename_i hsw
              injection hw with hw; subst hw
              have hsw' : w.swallow = false := by simpa using hsw
              split at ht
              · rename_i hoff
                injection ht with ht; injection ht with hg hl; subst hg hl
                injection hf with hf; injection hf with hc' hfst; subst hc'
                have hout : fst'.out = fst.out ++ [raw] := by rw [← hfst]; split <;> rfl
                have hdf : fst'.defs = fst.defs := by rw [← hfst]; split <;> rfl
                have hab : fst'.abort = fst.abort := by
                  -- the tree skipped the #error, so its condition does not hold for the flattener either
                  have hh : holds fst.defs c = false := by
                    rw [hc hsw', holds_eq fst.defs Gt w.cond R.g.defsOk, ← R.c.condT, hoff]; rfl
                  rw [← hfst, hh]; rfl
                refine ⟨⟨hout, hab⟩, fun hs => hc hs, Gf, Lf, ?_, by rw [hdf]; exact R⟩
                -- the flat director skips the #error as well
                cases hfz : frozen with
                | false =>
                  have hcF := R.c.condF
                  simp only [hfz, Bool.false_eq_true, if_false] at hcF
                  rw [hcF, switchedOff_congr Gf Gt _ R.g.tables.defines.symm, hoff]
                  rfl
                | true =>
                  -- a frozen file has no conditional of its own: the tree would have raised
                  exfalso
                  have hcF := R.c.condF
                  simp only [hfz, if_true] at hcF
                  have : Lt.cond = none := by rw [R.c.condT, hcF.2.2.2]; rfl
                  rw [this] at hoff
                  simp [switchedOff] at hoff
              · cases ht
          · -- #include is excluded here, anything else is not well formed
            rw [if_neg c5] at hw
            rw [hni] at hw
            simp at hw

/-! ### finalize -/

theorem readGroups_spec (grps : List Group) (g g' : Glob) (h : readGroups g grps = .ok g') :
    g'.groups = g.groups ++ grps ∧ g'.defines = g.defines ∧ g'.defaults = g.defaults ∧ g'.atomTypes = g.atomTypes ∧
    g'.nonbond = g.nonbond ∧ g'.types = g.types ∧ g'.molecules = g.molecules ∧ g'.molIdx = g.molIdx ∧
    (∀ grp ∈ grps, ∃ n, groupName grp = .ok n) ∧
    (NamesOk g.groups g.blockNames → NamesOk g'.groups g'.blockNames) := by
  induction grps generalizing g with
  | nil =>
    simp [readGroups] at h; subst h
    exact ⟨by simp, rfl, rfl, rfl, rfl, rfl, rfl, rfl, by simp, id⟩
  | cons grp rest ih =>
    unfold readGroups at h
    cases hn : groupName grp with
    | error e => simp [hn] at h
    | ok nm =>
      simp only [hn] at h
      obtain ⟨h1, h2, h3, h4, h5, h6, h7, h8, h9, h10⟩ := ih _ h
      refine ⟨by simp [h1], h2, h3, h4, h5, h6, h7, h8, ?_, ?_⟩
      · intro x hx
        rcases List.mem_cons.mp hx with rfl | hx
        · exact ⟨nm, hn⟩
        · exact h9 x hx
      · intro N
        apply h10
        constructor
        · intro x hx
          simp only at hx
          rcases List.mem_append.mp hx with hx | hx
          · exact N.good x hx
          · simp at hx; subst hx; exact ⟨nm, hn⟩
        · intro n
          simp only
          constructor
          · intro hc
            by_cases hcn : g.blockNames.contains nm = true
            · simp only [hcn, if_true] at hc
              obtain ⟨x, hx, hxn⟩ := (N.set n).mp hc
              exact ⟨x, List.mem_append_left _ hx, hxn⟩
            · simp only [hcn] at hc
              simp only [Bool.false_eq_true, if_false, List.contains_append, Bool.or_eq_true] at hc
              rcases hc with hc | hc
              · obtain ⟨x, hx, hxn⟩ := (N.set n).mp hc
                exact ⟨x, List.mem_append_left _ hx, hxn⟩
              · have : n = nm := by simpa using hc
                subst this
                exact ⟨grp, by simp, hn⟩
          · rintro ⟨x, hx, hxn⟩
            rcases List.mem_append.mp hx with hx | hx
            · have := (N.set n).mpr ⟨x, hx, hxn⟩
              by_cases hcn : g.blockNames.contains nm = true
              · simp only [hcn, if_true]; exact this
              · simp only [hcn, Bool.false_eq_true, if_false, List.contains_append, Bool.or_eq_true]; exact Or.inl this
            · simp at hx; subst hx
              rw [hn] at hxn
              injection hxn with hxn
              subst hxn
              by_cases hcn : g.blockNames.contains nm = true
              · simp only [hcn, if_true]
              · simp only [hcn, Bool.false_eq_true, if_false, List.contains_append, Bool.or_eq_true]
                right; simp

/-- the groups a director hands to `read_itp` at the end -/
theorem finalize_groups (l : Loc) (hw : WellItp l.itp) :
    (if itpActive l then l.itpLines ++ [l.itp.getD []] else l.itpLines) = l.itpLines ++ openOf l.itp := by
  rcases hw with hn | ⟨g, hg, hgne⟩
  · simp [itpActive, hn, openOf]
  · cases g with
    | nil => exact absurd rfl hgne
    | cons a b => simp [itpActive, hg, openOf]

/-- `finalize` of a director that collected no `[molecules]` lines -/
theorem finalize_child (g g' : Glob) (l : Loc) (hw : WellItp l.itp) (hm : l.mols = []) (h : finalize g l = .ok g') :
    l.cond = none ∧ readGroups g (l.itpLines ++ openOf l.itp) = .ok g' := by
  unfold finalize at h
  rw [finalize_groups l hw] at h
  cases hc : l.cond with
  | some m => simp [hc] at h
  | none =>
    simp only [hc, Option.isSome_none, Bool.false_eq_true, if_false] at h
    cases hr : readGroups g (l.itpLines ++ openOf l.itp) with
    | error e => simp [hr] at h
    | ok g1 =>
      simp only [hr, hm, expandMols] at h
      exact ⟨rfl, by rw [← h]⟩

/-! ### well-formedness bookkeeping -/

theorem wfFile_frozen (fs : FS) (fuel : Nat) (isTop : Bool) (path : Path) (ph ph' : Bool)
    (h : wfFile fs fuel isTop path true ph = some ph') : ph' = ph := by
  cases fuel with
  | zero => simp [wfFile] at h
  | succ fuel =>
    unfold wfFile at h
    cases hf : fsGet fs path with
    | none => simp [hf] at h
    | some raws =>
      simp only [hf] at h
      split at h
      · cases h
      · rename_i w hw
        split at h
        · rename_i hc
          injection h with h
          simp only [Bool.and_eq_true, Bool.not_true, Bool.false_or, beq_iff_eq] at hc
          rw [← h]; exact hc.2
        · cases h

/-- forgetting that a header has been seen only weakens the relation -/
theorem rel_fresh (w : WfSt) (ph : Bool) (frozen isTop : Bool) (fc : Option Cond) (anc : List Group) (m0 : List (String × String))
    (defs : List String) (Gt : Glob) (Lt : Loc) (Gf : Glob) (Lf : Loc) (hph : ph = w.phase2)
    (R : Rel w frozen isTop fc anc m0 defs Gt Lt Gf Lf) :
    Rel { w with phase2 := ph, fresh := true } frozen isTop fc anc m0 defs Gt Lt Gf Lf := by
  subst hph
  exact ⟨R.g, ⟨R.c.condT, R.c.condF, R.c.condPhase⟩,
    ⟨R.s.shapeT, R.s.shapeF, (fun h => (by cases h)), R.s.secMol, R.s.molSec⟩,
    ⟨R.i.ownT, R.i.itpT, R.i.itpF, R.i.phaseF, R.i.ownPhase, R.i.secMolOwn, R.i.mols, R.i.molsTop, R.i.perm,
     (fun h => (by cases h))⟩⟩

/-! ### returning from an included file -/

theorem rel_after_child (w wc : WfSt) (frozen isTop : Bool) (fc fc' : Option Cond) (anc : List Group)
    (m0 : List (String × String)) (defs defs' : List String)
    (Gt : Glob) (Lt : Loc) (Gf : Glob) (Lf : Loc) (Gt1 : Glob) (Lt1 : Loc) (Gf' : Glob) (Lf' : Loc) (Gt' : Glob) (ph : Bool)
    (R : Rel w frozen isTop fc anc m0 defs Gt Lt Gf Lf)
    (Rc : Rel wc (frozen || w.cond.isSome) false fc' (anc ++ Lt.itpLines ++ openOf Lt.itp) (m0 ++ Lt.mols) defs'
            Gt1 Lt1 Gf' Lf')
    (hfc : fc' = if frozen then fc else Lf.cond)
    (hfin : finalize Gt1 Lt1 = .ok Gt')
    (hcond : wc.cond = none) (hph : wc.phase2 = ph) (hfrz : (frozen || w.cond.isSome) = true → ph = w.phase2)
    (hmono : w.phase2 = true → ph = true) :
    Rel { w with phase2 := ph, fresh := true } frozen isTop fc anc m0 defs' Gt' Lt Gf' Lf' := by
  have hmols1 : Lt1.mols = [] := Rc.i.molsTop rfl
  obtain ⟨hc1, hread⟩ := finalize_child Gt1 Gt' Lt1 Rc.i.itpT hmols1 hfin
  obtain ⟨hgr, hdef, hdflt, hat, hnb, hty, hmol, hidx, _, hnames⟩ := readGroups_spec _ _ _ hread
  refine ⟨?_, ?_, ?_, ?_⟩
  · -- global part
    exact { tables := ⟨by rw [hdef]; exact Rc.g.tables.defines, by rw [hdflt]; exact Rc.g.tables.defaults,
                       by rw [hat]; exact Rc.g.tables.atomTypes, by rw [hnb]; exact Rc.g.tables.nonbond,
                       by rw [hty]; exact Rc.g.tables.types⟩,
            defsOk := (by intro t; rw [hdef]; exact Rc.g.defsOk t),
            gfEmpty := Rc.g.gfEmpty,
            gtMols := ⟨by rw [hmol]; exact Rc.g.gtMols.1, by rw [hidx]; exact Rc.g.gtMols.2⟩,
            names := hnames Rc.g.names }
  · -- conditional part
    have hcT := R.c.condT
    refine { condT := hcT, condF := ?_, condPhase := ?_ }
    · cases hfz : frozen with
      | true =>
        have hp := R.c.condF
        simp only [hfz, if_true] at hp
        have hcc := Rc.c.condF
        simp only [hfz, Bool.true_or, if_true] at hcc hfc
        subst hfc
        exact ⟨hcc.1, hcc.2.1, hcc.2.2.1, hp.2.2.2⟩
      | false =>
        have hp := R.c.condF
        simp only [hfz, Bool.false_eq_true, if_false] at hp hfc ⊢
        cases hcs : w.cond.isSome with
        | true =>
          have hcc := Rc.c.condF
          simp only [hfz, hcs, Bool.or_true, if_true] at hcc
          rw [hcc.1, hfc, hp]
        | false =>
          have hcc := Rc.c.condF
          simp only [hfz, hcs, Bool.or_false, Bool.false_eq_true, if_false] at hcc
          rw [hcc, Rc.c.condT, hcond, hcT]
          have : w.cond = none := by
            cases hw : w.cond with
            | none => rfl
            | some p => rw [hw] at hcs; cases hcs
          rw [this]
    · intro hp2
      show w.cond = none
      cases hcs : w.cond.isSome with
      | false =>
        cases hw : w.cond with
        | none => rfl
        | some p => rw [hw] at hcs; cases hcs
      | true =>
        have : ph = w.phase2 := hfrz (by simp [hcs])
        exact R.c.condPhase (by rw [← this]; exact hp2)
  · exact ⟨R.s.shapeT, Rc.s.shapeF, (fun h => (by cases h)), R.s.secMol, R.s.molSec⟩
  · have I := R.i
    have Ic := Rc.i
    refine { ownT := I.ownT, itpT := I.itpT, itpF := Ic.itpF, phaseF := (by show ph = _; rw [← hph]; exact Ic.phaseF),
             ownPhase := (fun h => hmono (I.ownPhase h)), secMolOwn := I.secMolOwn,
             mols := (by rw [Ic.mols, hmols1]; simp), molsTop := I.molsTop, perm := ?_,
             alive := (fun h => (by cases h)) }
    -- the groups: the child's groups have moved from "current director" to "already read"
    rw [hgr]
    refine List.Perm.trans ?_ Ic.perm
    apply List.Perm.map
    have : Gt1.groups ++ (Lt1.itpLines ++ openOf Lt1.itp) ++ anc ++ Lt.itpLines ++ openOf Lt.itp
        = Gt1.groups ++ ((Lt1.itpLines ++ openOf Lt1.itp) ++ (anc ++ Lt.itpLines ++ openOf Lt.itp)) := by
      simp [List.append_assoc]
    rw [this]
    have : Gt1.groups ++ (anc ++ Lt.itpLines ++ openOf Lt.itp) ++ Lt1.itpLines ++ openOf Lt1.itp
        = Gt1.groups ++ ((anc ++ Lt.itpLines ++ openOf Lt.itp) ++ (Lt1.itpLines ++ openOf Lt1.itp)) := by
      simp [List.append_assoc]
    rw [this]
    exact List.Perm.append_left _ List.perm_append_comm

/-! ### entering an included file -/

theorem rel_child_start (w : WfSt) (frozen isTop : Bool) (fc : Option Cond) (anc : List Group) (m0 : List (String × String))
    (defs : List String) (Gt : Glob) (Lt : Loc) (Gf : Glob) (Lf : Loc)
    (R : Rel w frozen isTop fc anc m0 defs Gt Lt Gf Lf) (hact : switchedOff Gt Lt.cond = false) :
    Rel { phase2 := w.phase2 } (frozen || w.cond.isSome) false (if frozen then fc else Lf.cond)
        (anc ++ Lt.itpLines ++ openOf Lt.itp) (m0 ++ Lt.mols) defs Gt {} Gf Lf := by
  refine ⟨R.g, ?_, ?_, ?_⟩
  · refine { condT := rfl, condF := ?_, condPhase := fun _ => rfl }
    have hp := R.c.condF
    cases hfz : frozen with
    | true =>
      simp only [hfz, if_true] at hp
      simp only [Bool.true_or, if_true]
      exact ⟨hp.1, hp.2.1, hp.2.2.1, trivial⟩
    | false =>
      simp only [hfz, Bool.false_eq_true, if_false] at hp
      cases hcs : w.cond.isSome with
      | true =>
        simp only [Bool.false_or, if_true, Bool.false_eq_true, if_false]
        refine ⟨trivial, ?_, ?_, trivial⟩
        · rw [hp, R.c.condT, condOf_isSome]; exact hcs
        · rw [hp, ← switchedOff_defines Gf, switchedOff_congr Gf Gt _ R.g.tables.defines.symm]; exact hact
      | false =>
        simp only [Bool.false_or, Bool.false_eq_true, if_false]
        rw [hp, R.c.condT]
        have : w.cond = none := by
          cases hw : w.cond with
          | none => rfl
          | some p => rw [hw] at hcs; cases hcs
        rw [this]; rfl
  · exact ⟨SecShape.empty, R.s.shapeF, (fun h => (by cases h)),
      ⟨(fun h => (by cases h)), (fun h => (by rcases h with h | ⟨y, h⟩ <;> cases h))⟩,
      ⟨(fun h => (by cases h)), (fun h => (by cases h))⟩⟩
  · have I := R.i
    exact { ownT := rfl, itpT := Or.inl rfl, itpF := I.itpF, phaseF := I.phaseF, ownPhase := (fun h => (by cases h)),
            secMolOwn := (fun h => (by cases h)), mols := (by simp [I.mols]), molsTop := (fun _ => rfl),
            perm := (by
              have := I.perm
              simpa [openOf, List.append_assoc] using this),
            alive := (fun h => (by cases h)) }

/-- the statement proved by induction on the include depth: an included file -/
def SimFile (fs : FS) (fuel : Nat) : Prop :=
  ∀ (path : Path) (frozen ph ph' : Bool) (fc : Option Cond) (anc : List Group) (m0 : List (String × String))
    (fst fst' : FlatSt) (Gt gt' Gf : Glob) (Lf : Loc),
    wfFile fs fuel false path frozen ph = some ph' →
    flattenFile fs fuel path fst = .ok fst' →
    readFile fs fuel path Gt = .ok gt' →
    flatRun fst.out = .ok (Gf, Lf) →
    Rel { phase2 := ph } frozen false fc anc m0 fst.defs Gt {} Gf Lf →
    ∃ Gf' Lf' Gt1 Lt1 w',
      flatRun fst'.out = .ok (Gf', Lf') ∧ fst'.abort = fst.abort ∧ finalize Gt1 Lt1 = .ok gt' ∧
      Rel w' frozen false fc anc m0 fst'.defs Gt1 Lt1 Gf' Lf' ∧
      w'.cond = none ∧ w'.phase2 = ph' ∧ (ph = true → ph' = true)

theorem include_consts (toks : List String) (h : (toks.headD "" == "#include") = true) :
    (toks == ["#endif"]) = false ∧ startsWith (toks.headD "") "#else" = false ∧
    (startsWith (toks.headD "") "#ifdef" || startsWith (toks.headD "") "#ifndef") = false ∧
    (toks.headD "" == "#define") = false ∧ (toks.headD "" == "#error") = false := by
  have e : toks.headD "" = "#include" := by simpa using h
  refine ⟨?_, ?_, ?_, ?_, ?_⟩
  · cases toks with
    | nil => rfl
    | cons a b =>
      simp only [List.headD_cons] at e
      subst e
      cases b <;> simp
  · rw [e]; decide
  · rw [e]; decide
  · rw [e]; decide
  · rw [e]; decide

theorem sim_include (fs : FS) (fuel : Nat) (IH : SimFile fs fuel)
    (w w' : WfSt) (frozen isTop : Bool) (fc : Option Cond) (anc : List Group)
    (m0 : List (String × String)) (Gt : Glob) (Lt : Loc) (Gf : Glob) (Lf : Loc) (Gt' : Glob) (Lt' : Loc)
    (dir : Path) (c c' : Option (Bool × String)) (fst fst' : FlatSt) (raw : String) (toks : List String)
    (hinc : (toks.headD "" == "#include") = true)
    (R : Rel w frozen isTop fc anc m0 fst.defs Gt Lt Gf Lf) (hc : w.swallow = false → c = w.cond)
    (hflat : flatRun fst.out = .ok (Gf, Lf))
    (hw : wfPragma (fun p fr ph => wfFile fs fuel false p fr ph) dir frozen w toks = some w')
    (ht : doPragma (readFile fs fuel) dir Gt Lt toks = .ok (Gt', Lt'))
    (hf : flatPragma (flattenFile fs fuel) dir c fst raw toks = .ok (c', fst')) :
    (w'.swallow = false → c' = w'.cond) ∧ (w.phase2 = true → w'.phase2 = true) ∧ fst'.abort = fst.abort ∧
      ∃ Gf' Lf', flatRun fst'.out = .ok (Gf', Lf') ∧ Rel w' frozen isTop fc anc m0 fst'.defs Gt' Lt' Gf' Lf' := by
  obtain ⟨k1, k2, k3, k4, k5⟩ := include_consts toks hinc
  unfold wfPragma at hw
  unfold doPragma at ht
  unfold flatPragma at hf
  simp only [k1, k2, k3, k4, k5, hinc, Bool.false_eq_true, if_false, if_true] at hw ht hf
  match toks, hw, ht, hf with
  | _ :: p :: _, hw, ht, hf =>
    simp only at hw ht hf
    split at hw
    · cases hw
    · rename_i hsw
      have hsw' : w.swallow = false := by simpa using hsw
      have hcc : c = w.cond := hc hsw'
      cases hn : normPath (dir ++ splitPath (includePath p)) with
      | none => simp [hn] at hw
      | some full =>
        simp only [hn] at hw ht hf
        cases hwf : wfFile fs fuel false full (frozen || w.cond.isSome) w.phase2 with
        | none => simp [hwf] at hw
        | some ph =>
          simp only [hwf] at hw
          injection hw with hw; subst hw
          have hholds : holds fst.defs c = !switchedOff Gt Lt.cond := by
            rw [hcc, holds_eq fst.defs Gt w.cond R.g.defsOk, R.c.condT]
          cases hoff : switchedOff Gt Lt.cond with
          | true =>
            -- the include is switched off: nothing is read, nothing is emitted
            simp only [hoff, if_true] at ht
            simp only [hholds, hoff, Bool.not_true, Bool.false_eq_true, if_false] at hf
            injection ht with ht; injection ht with hg hl; subst hg hl
            injection hf with hf; injection hf with hc' hfst; subst hc' hfst
            have hcs : w.cond.isSome = true := by
              cases hwc : w.cond with
              | some x => rfl
              | none =>
                have := R.c.condT
                rw [hwc] at this
                rw [this] at hoff
                simp [condOf, switchedOff] at hoff
            have hph : ph = w.phase2 := by
              have := wfFile_frozen fs fuel false full w.phase2 ph (by simpa [hcs] using hwf)
              exact this
            exact ⟨fun _ => hcc, fun h => by rw [hph]; exact h, rfl, Gf, Lf, hflat, rel_fresh w ph frozen isTop fc anc m0 _ Gt Lt Gf Lf hph R⟩
          | false =>
            simp only [hoff, Bool.false_eq_true, if_false] at ht
            simp only [hholds, hoff, Bool.not_false, if_true] at hf
            cases hrf : readFile fs fuel full Gt with
            | error e => simp [hrf, Except.map] at ht
            | ok gt1 =>
              simp only [hrf, Except.map] at ht
              injection ht with ht; injection ht with hg hl; subst hg hl
              cases hff : flattenFile fs fuel full fst with
              | error e => simp [hff, Except.map] at hf
              | ok fst1 =>
                simp only [hff, Except.map] at hf
                injection hf with hf; injection hf with hc' hfst; subst hc' hfst
                have Rstart := rel_child_start w frozen isTop fc anc m0 _ Gt Lt Gf Lf R hoff
                obtain ⟨Gf', Lf', Gt1, Lt1, wc, hfl', habc, hfin, Rc, hcnone, hphc, hmono⟩ :=
                  IH full (frozen || w.cond.isSome) w.phase2 ph _ _ _ fst fst1 Gt gt1 Gf Lf hwf hff hrf hflat Rstart
                have hfrz : (frozen || w.cond.isSome) = true → ph = w.phase2 := by
                  intro hfz
                  rw [hfz] at hwf
                  exact wfFile_frozen fs fuel false full w.phase2 ph hwf
                have Rafter := rel_after_child w wc frozen isTop fc _ anc m0 _ _ Gt Lt Gf Lf Gt1 Lt1 Gf' Lf' gt1 ph
                  R Rc rfl hfin hcnone hphc hfrz hmono
                exact ⟨fun _ => hcc, hmono, habc, Gf', Lf', hfl', Rafter⟩
  | [], hw, _, _ => simp at hw
  | [_], hw, _, _ => simp at hw

theorem wfPragma_phase (incW : Path → Bool → Bool → Option Bool) (dir : Path) (frozen : Bool) (w w' : WfSt)
    (toks : List String) (hni : (toks.headD "" == "#include") = false)
    (hw : wfPragma incW dir frozen w toks = some w') : w'.phase2 = w.phase2 := by
  unfold wfPragma at hw
  simp only at hw
  by_cases c1 : (toks == ["#endif"]) = true
  · rw [if_pos c1] at hw
    by_cases hp : w.phase2 = true
    · rw [if_pos hp] at hw
      split at hw
      · injection hw with hw; subst hw; rfl
      · cases hw
    · rw [if_neg hp] at hw
      split at hw
      · injection hw with hw; subst hw; rfl
      · cases hw
  · rw [if_neg c1] at hw
    by_cases c2 : startsWith (toks.headD "") "#else" = true
    · rw [if_pos c2] at hw
      split at hw
      · cases hw
      · by_cases hp : w.phase2 = true
        · rw [if_pos hp] at hw
          split at hw
          · injection hw with hw; subst hw; rfl
          · cases hw
        · rw [if_neg hp] at hw
          cases hcw : w.cond with
          | none => simp [hcw] at hw
          | some bt => simp only [hcw] at hw; injection hw with hw; subst hw; rfl
    · rw [if_neg c2] at hw
      by_cases c3 : (startsWith (toks.headD "") "#ifdef" || startsWith (toks.headD "") "#ifndef") = true
      · rw [if_pos c3] at hw
        match toks, hw with
        | [k, tag], hw =>
          simp only at hw
          split at hw
          · cases hw
          · by_cases hp : w.phase2 = true
            · rw [if_pos hp] at hw
              split at hw
              · injection hw with hw; subst hw; rfl
              · cases hw
            · rw [if_neg hp] at hw
              split at hw
              · injection hw with hw; subst hw; rfl
              · cases hw
        | [], hw => simp at hw
        | [_], hw => simp at hw
        | _ :: _ :: _ :: _, hw => simp at hw
      · rw [if_neg c3] at hw
        by_cases c4 : (toks.headD "" == "#define") = true
        · rw [if_pos c4] at hw
          split at hw
          · injection hw with hw; subst hw; rfl
          · cases hw
        · rw [if_neg c4] at hw
          by_cases c5 : (toks.headD "" == "#error") = true
          · rw [if_pos c5] at hw
            split at hw
            · cases hw
            · injection hw with hw; subst hw; rfl
          · rw [if_neg c5, hni] at hw
            simp at hw

/-! ### one line, all lines, a whole file -/

/-- what the tree director does with one raw line -/
def treeLine (inc : Path → Glob → Except String Glob) (dir : Path) (st : Glob × Loc) (raw : String) :
    Except String (Glob × Loc) :=
  match classify raw with
  | none => .ok st
  | some line => step inc dir st line

theorem runLines_parse_cons (inc : Path → Glob → Except String Glob) (dir : Path) (raw : String) (rest : List String)
    (st : Glob × Loc) :
    runLines inc dir (parseLines (raw :: rest)) st =
      (match treeLine inc dir st raw with
       | .error e => .error e
       | .ok st' => runLines inc dir (parseLines rest) st') := by
  unfold treeLine
  simp only [parseLines, List.filterMap_cons]
  cases classify raw with
  | none => rfl
  | some line => rfl

theorem flatRun_keep (out : List String) (raw : String) (Gf : Glob) (Lf : Loc) (hflat : flatRun out = .ok (Gf, Lf)) :
    flatRun (out ++ [raw]) = treeLine noInc [] (Gf, Lf) raw := by
  rw [flatRun_snoc, hflat]
  unfold treeLine
  cases classify raw <;> rfl

theorem sim_line (fs : FS) (fuel : Nat) (IH : SimFile fs fuel)
    (w w1 : WfSt) (frozen isTop : Bool) (fc : Option Cond) (anc : List Group)
    (m0 : List (String × String)) (Gt : Glob) (Lt : Loc) (Gf : Glob) (Lf : Loc) (Gt1 : Glob) (Lt1 : Loc)
    (dir : Path) (c c1 : Option (Bool × String)) (fst fst1 : FlatSt) (raw : String)
    (R : Rel w frozen isTop fc anc m0 fst.defs Gt Lt Gf Lf) (hc : w.swallow = false → c = w.cond)
    (hflat : flatRun fst.out = .ok (Gf, Lf))
    (hw : wfLine (fun p fr ph => wfFile fs fuel false p fr ph) dir frozen isTop w raw = some w1)
    (ht : treeLine (readFile fs fuel) dir (Gt, Lt) raw = .ok (Gt1, Lt1))
    (hf : flatLine (flattenFile fs fuel) dir c fst raw = .ok (c1, fst1)) :
    (w1.swallow = false → c1 = w1.cond) ∧ (w.phase2 = true → w1.phase2 = true) ∧ fst1.abort = fst.abort ∧
      ∃ Gf1 Lf1, flatRun fst1.out = .ok (Gf1, Lf1) ∧ Rel w1 frozen isTop fc anc m0 fst1.defs Gt1 Lt1 Gf1 Lf1 := by
  unfold wfLine at hw
  unfold treeLine at ht
  unfold flatLine at hf
  cases hcl : classify raw with
  | none =>
    simp only [hcl] at hw ht hf
    injection hw with hw; subst hw
    injection ht with ht; injection ht with hg hl; subst hg hl
    injection hf with hf; injection hf with h1 h2; subst h1 h2
    refine ⟨hc, id, rfl, Gf, Lf, ?_, R⟩
    rw [flatRun_keep _ raw Gf Lf hflat]; unfold treeLine; rw [hcl]
  | some line =>
    cases line with
    | star =>
      simp only [hcl] at hw ht hf
      injection hw with hw; subst hw
      simp only [step] at ht
      injection ht with ht; injection ht with hg hl; subst hg hl
      injection hf with hf; injection hf with h1 h2; subst h1 h2
      refine ⟨hc, id, rfl, Gf, Lf, ?_, R⟩
      rw [flatRun_keep _ raw Gf Lf hflat]; unfold treeLine; rw [hcl]; rfl
    | badHeader => simp [hcl] at hw
    | header name =>
      simp only [hcl] at hw ht hf
      simp only [step] at ht
      injection ht with ht; injection ht with hg hl; subst hg hl
      injection hf with hf; injection hf with h1 h2; subst h1 h2
      have R' := sim_header w w1 frozen isTop fc anc m0 _ Gt Lt Gf Lf name R hw
      have hflat' : flatRun (fst.out ++ [raw]) = .ok (Gf, doHeader Lf name) := by
        rw [flatRun_keep _ raw Gf Lf hflat]; unfold treeLine; rw [hcl]; rfl
      refine ⟨?_, ?_, rfl, Gf, _, hflat', R'⟩
      · -- the scan state keeps `cond` and `swallow` (headers need swallow = false where they reset anything)
        intro hs
        by_cases hm : (name == "moleculetype") = true
        · simp only [hm, if_true] at hw
          split at hw
          · rename_i hcnd
            injection hw with hw; subst hw
            simp only [Bool.and_eq_true, Bool.not_eq_true'] at hcnd
            exact hc hcnd.2
          · cases hw
        · simp only [hm, Bool.false_eq_true, if_false] at hw
          by_cases hsub : molSubsections.contains name = true
          · simp only [hsub, if_true] at hw
            split at hw
            · injection hw with hw; subst hw; exact hc hs
            · cases hw
          · simp only [hsub, Bool.false_eq_true, if_false] at hw
            split at hw
            · cases hw
            · rename_i hsw
              injection hw with hw; subst hw
              exact hc (by simpa using hsw)
      · intro hp
        by_cases hm : (name == "moleculetype") = true
        · simp only [hm, if_true] at hw
          split at hw
          · injection hw with hw; subst hw; rfl
          · cases hw
        · simp only [hm, Bool.false_eq_true, if_false] at hw
          by_cases hsub : molSubsections.contains name = true
          · simp only [hsub, if_true] at hw
            split at hw
            · injection hw with hw; subst hw; exact hp
            · cases hw
          · simp only [hsub, Bool.false_eq_true, if_false] at hw
            split at hw
            · cases hw
            · injection hw with hw; subst hw; exact hp
    | content toks =>
      simp only [hcl] at hw ht hf
      simp only [step] at ht
      injection hf with hf; injection hf with h1 h2; subst h1 h2
      split at hw
      · cases hw
      · rename_i hfr
        split at hw
        · cases hw
        · rename_i hms
          injection hw with hw; subst hw
          have hfresh : w.fresh = false := by simpa using hfr
          have hmol : w.molSec = true → isTop = true := by
            intro h
            simp only [Bool.and_eq_true, Bool.not_eq_true', not_and, Bool.not_eq_false] at hms
            exact hms h
          obtain ⟨Gf', Lf', hdo, R'⟩ := sim_content w frozen isTop fc anc m0 _ Gt Lt Gf Lf toks Gt1 Lt1 R hfresh hmol ht
          refine ⟨hc, id, rfl, Gf', Lf', ?_, R'⟩
          rw [flatRun_keep _ raw Gf Lf hflat]; unfold treeLine; rw [hcl]; exact hdo
    | pragma toks =>
      simp only [hcl] at hw ht hf
      simp only [step] at ht
      by_cases hinc : (toks.headD "" == "#include") = true
      · obtain ⟨h1, h2, hab, Gf', Lf', h3, h4⟩ := sim_include fs fuel IH w w1 frozen isTop fc anc m0 Gt Lt Gf Lf Gt1 Lt1 dir c c1
          fst fst1 raw toks hinc R hc hflat hw ht hf
        exact ⟨h1, h2, hab, Gf', Lf', h3, h4⟩
      · have hni : (toks.headD "" == "#include") = false := by simpa using hinc
        obtain ⟨⟨hout, hab⟩, hc1, Gf', Lf', hdo, R'⟩ := sim_pragma_noinc w w1 frozen isTop fc anc m0 Gt Lt Gf Lf Gt1 Lt1 _ _ _ dir c c1
          fst fst1 raw toks hni R hc hw ht hf
        refine ⟨hc1, ?_, hab, Gf', Lf', ?_, R'⟩
        · -- no pragma other than #include changes the phase
          intro hp
          rw [wfPragma_phase _ dir frozen w w1 toks hni hw]; exact hp
        · rw [hout, flatRun_keep _ raw Gf Lf hflat]; unfold treeLine; rw [hcl]; exact hdo

theorem sim_lines (fs : FS) (fuel : Nat) (IH : SimFile fs fuel) (frozen isTop : Bool) (fc : Option Cond) (anc : List Group)
    (m0 : List (String × String)) (dir : Path) :
    ∀ (raws : List String) (w w' : WfSt) (c : Option (Bool × String)) (fst fst' : FlatSt)
      (Gt : Glob) (Lt : Loc) (Gt' : Glob) (Lt' : Loc) (Gf : Glob) (Lf : Loc),
      wfLines (fun p fr ph => wfFile fs fuel false p fr ph) dir frozen isTop raws w = some w' →
      flattenLines (flattenFile fs fuel) dir raws c fst = .ok fst' →
      runLines (readFile fs fuel) dir (parseLines raws) (Gt, Lt) = .ok (Gt', Lt') →
      flatRun fst.out = .ok (Gf, Lf) →
      Rel w frozen isTop fc anc m0 fst.defs Gt Lt Gf Lf → (w.swallow = false → c = w.cond) →
      (w.phase2 = true → w'.phase2 = true) ∧ fst'.abort = fst.abort ∧
        ∃ Gf' Lf', flatRun fst'.out = .ok (Gf', Lf') ∧ Rel w' frozen isTop fc anc m0 fst'.defs Gt' Lt' Gf' Lf' := by
  intro raws
  induction raws with
  | nil =>
    intro w w' c fst fst' Gt Lt Gt' Lt' Gf Lf hw hf ht hflat R _
    simp only [wfLines] at hw
    simp only [flattenLines] at hf
    simp only [parseLines, List.filterMap_nil, runLines] at ht
    injection hw with hw; subst hw
    injection hf with hf; subst hf
    injection ht with ht; injection ht with hg hl; subst hg hl
    exact ⟨id, rfl, Gf, Lf, hflat, R⟩
  | cons raw rest ih =>
    intro w w' c fst fst' Gt Lt Gt' Lt' Gf Lf hw hf ht hflat R hc
    simp only [wfLines] at hw
    simp only [flattenLines] at hf
    rw [runLines_parse_cons] at ht
    cases hw1 : wfLine (fun p fr ph => wfFile fs fuel false p fr ph) dir frozen isTop w raw with
    | none => simp [hw1] at hw
    | some w1 =>
      simp only [hw1] at hw
      cases hf1 : flatLine (flattenFile fs fuel) dir c fst raw with
      | error e => simp [hf1] at hf
      | ok r =>
        obtain ⟨c1, fst1⟩ := r
        simp only [hf1] at hf
        cases ht1 : treeLine (readFile fs fuel) dir (Gt, Lt) raw with
        | error e => simp [ht1] at ht
        | ok st1 =>
          obtain ⟨Gt1, Lt1⟩ := st1
          simp only [ht1] at ht
          obtain ⟨hc1, hm1, hab1, Gf1, Lf1, hflat1, R1⟩ := sim_line fs fuel IH w w1 frozen isTop fc anc m0 Gt Lt Gf Lf Gt1 Lt1
            dir c c1 fst fst1 raw R hc hflat hw1 ht1 hf1
          obtain ⟨hm2, hab2, Gf', Lf', hflat', R'⟩ := ih w1 w' c1 fst1 fst' Gt1 Lt1 Gt' Lt' Gf1 Lf1 hw hf ht hflat1 R1 hc1
          exact ⟨fun h => hm2 (hm1 h), hab2.trans hab1, Gf', Lf', hflat', R'⟩

theorem sim_file (fs : FS) : ∀ fuel, SimFile fs fuel := by
  intro fuel
  induction fuel with
  | zero =>
    intro path frozen ph ph' fc anc m0 fst fst' Gt gt' Gf Lf hw
    simp [wfFile] at hw
  | succ fuel IH =>
    intro path frozen ph ph' fc anc m0 fst fst' Gt gt' Gf Lf hw hf ht hflat R
    unfold wfFile at hw
    unfold flattenFile at hf
    unfold readFile at ht
    cases hget : fsGet fs path with
    | none => simp [hget] at hw
    | some raws =>
      simp only [hget] at hw hf ht
      cases hwl : wfLines (fun p fr ph => wfFile fs fuel false p fr ph) path.dropLast frozen false raws { phase2 := ph } with
      | none => simp [hwl] at hw
      | some w' =>
        simp only [hwl] at hw
        split at hw
        · rename_i hend
          injection hw with hw
          simp only [Bool.and_eq_true, Option.isNone_iff_eq_none, Bool.not_eq_true'] at hend
          cases hrl : runLines (readFile fs fuel) path.dropLast (parseLines raws) (Gt, {}) with
          | error e => simp [hrl] at ht
          | ok st1 =>
            obtain ⟨Gt1, Lt1⟩ := st1
            simp only [hrl] at ht
            obtain ⟨hmono, hab, Gf', Lf', hflat', R'⟩ := sim_lines fs fuel IH frozen false fc anc m0 path.dropLast raws
              { phase2 := ph } w' none fst fst' Gt {} Gt1 Lt1 Gf Lf hwl hf hrl hflat R (fun _ => rfl)
            exact ⟨Gf', Lf', Gt1, Lt1, w', hflat', hab, ht, R', hend.1.1, hw, fun h => by rw [← hw]; exact hmono h⟩
        · cases hw

/-! ### the top file -/

/-- what the property compares: the tables (type tables without the conditional tag), the collected molecule
types (as a multiset, after cutting what vermouth's itp reader ignores), the molecule list and `mol_idx_by_name` -/
structure ObsEq (a b : Glob) : Prop where
  tables : SameTables a b
  groups : (a.groups.map sealGroup).Perm (b.groups.map sealGroup)
  molecules : a.molecules = b.molecules
  molIdx : a.molIdx = b.molIdx

theorem readGroups_ok (grps : List Group) (g : Glob) (h : ∀ grp ∈ grps, ∃ n, groupName grp = .ok n) :
    ∃ g', readGroups g grps = .ok g' := by
  induction grps generalizing g with
  | nil => exact ⟨g, rfl⟩
  | cons grp rest ih =>
    obtain ⟨n, hn⟩ := h grp List.mem_cons_self
    unfold readGroups
    rw [hn]
    exact ih _ (fun x hx => h x (List.mem_cons_of_mem _ hx))

theorem expandMols_congr (mols : List (String × String)) (g1 g2 g1' : Glob) (count : Nat)
    (hm : g1.molecules = g2.molecules) (hi : g1.molIdx = g2.molIdx)
    (hb : ∀ n, g1.blockNames.contains n = g2.blockNames.contains n)
    (h : expandMols g1 count mols = .ok g1') :
    ∃ g2', expandMols g2 count mols = .ok g2' ∧ g2'.molecules = g1'.molecules ∧ g2'.molIdx = g1'.molIdx ∧
      g2'.groups = g2.groups ∧ g2'.defines = g2.defines ∧ g2'.defaults = g2.defaults ∧ g2'.atomTypes = g2.atomTypes ∧
      g2'.nonbond = g2.nonbond ∧ g2'.types = g2.types ∧
      g1'.groups = g1.groups ∧ g1'.defines = g1.defines ∧ g1'.defaults = g1.defaults ∧ g1'.atomTypes = g1.atomTypes ∧
      g1'.nonbond = g1.nonbond ∧ g1'.types = g1.types := by
  induction mols generalizing g1 g2 count with
  | nil =>
    simp [expandMols] at h; subst h
    exact ⟨g2, rfl, hm.symm, hi.symm, rfl, rfl, rfl, rfl, rfl, rfl, rfl, rfl, rfl, rfl, rfl, rfl⟩
  | cons hd rest ih =>
    obtain ⟨name, n⟩ := hd
    unfold expandMols at h ⊢
    rw [← hb name]
    by_cases hc : g1.blockNames.contains name = true
    · simp only [hc, Bool.not_true, Bool.false_eq_true, if_false] at h ⊢
      cases hn : natOfTok n with
      | none => simp [hn] at h
      | some k =>
        simp only [hn] at h ⊢
        rw [← hm, ← hi]
        obtain ⟨g2', h1, h2, h3, h4, h5, h6, h7, h8, h9, h10, h11, h12, h13, h14, h15⟩ :=
          ih { g1 with molecules := g1.molecules ++ List.replicate k.toNat name,
                       molIdx := if (k.toNat == 0) = true then g1.molIdx
                                 else assocSet g1.molIdx name ((assocGet g1.molIdx name).getD [] ++
                                        (List.range k.toNat).map (· + count)) }
             { g2 with molecules := g1.molecules ++ List.replicate k.toNat name,
                       molIdx := if (k.toNat == 0) = true then g1.molIdx
                                 else assocSet g1.molIdx name ((assocGet g1.molIdx name).getD [] ++
                                        (List.range k.toNat).map (· + count)) } _ rfl rfl hb h
        exact ⟨g2', h1, h2, h3, h4, h5, h6, h7, h8, h9, h10, h11, h12, h13, h14, h15⟩
    · have hmem : name ∉ g1.blockNames := by simpa using hc
      simp [hmem] at h

theorem names_perm (T F : List Group) (hp : (T.map sealGroup).Perm (F.map sealGroup)) (n : String) :
    (∃ grp ∈ T, groupName grp = .ok n) ↔ (∃ grp ∈ F, groupName grp = .ok n) := by
  have key : ∀ (A B : List Group), (A.map sealGroup).Perm (B.map sealGroup) →
      (∃ grp ∈ A, groupName grp = .ok n) → (∃ grp ∈ B, groupName grp = .ok n) := by
    intro A B hAB ⟨grp, hg, hn⟩
    have hm : sealGroup grp ∈ B.map sealGroup := hAB.mem_iff.mp (List.mem_map_of_mem hg)
    obtain ⟨grp', hg', he⟩ := List.mem_map.mp hm
    refine ⟨grp', hg', ?_⟩
    rw [← groupName_seal grp', he, groupName_seal grp, hn]
  exact ⟨key T F hp, key F T hp.symm⟩

theorem rel_init : Rel { phase2 := false } false true none [] [] ([] : List String) {} {} {} {} := by
  refine ⟨?_, ?_, ?_, ?_⟩
  · exact { tables := ⟨rfl, rfl, rfl, rfl, rfl⟩, defsOk := (fun t => rfl), gfEmpty := ⟨rfl, rfl, rfl, rfl⟩,
            gtMols := ⟨rfl, rfl⟩,
            names := ⟨(fun grp h => (by cases h)), (fun n => ⟨(fun h => (by cases h)), (fun h => (by obtain ⟨g, hg, _⟩ := h; cases hg))⟩)⟩ }
  · exact { condT := rfl, condF := rfl, condPhase := fun _ => rfl }
  · exact ⟨SecShape.empty, SecShape.empty, (fun h => (by cases h)),
      ⟨(fun h => (by cases h)), (fun h => (by rcases h with h | ⟨y, h⟩ <;> cases h))⟩,
      ⟨(fun h => (by cases h)), (fun h => (by cases h))⟩⟩
  · exact { ownT := rfl, itpT := Or.inl rfl, itpF := Or.inl rfl, phaseF := rfl, ownPhase := (fun h => (by cases h)),
            secMolOwn := (fun h => (by cases h)), mols := rfl, molsTop := (fun h => (by cases h)),
            perm := List.Perm.refl _, alive := (fun h => (by cases h)) }

/-- **The flattening theorem.**  For a well-formed include tree whose flattened text exists: if the tree is
read, the flattened text is read by the single-file reader, with the same observables. -/
theorem flatten_equiv (fs : FS) (top : Path) (st : FlatSt) (gt : Glob)
    (hwf : wellFormed fs top = true) (hfl : flatten fs top = .ok st) (hrt : readTop fs top = .ok gt) :
    st.abort = false ∧ ∃ gf, readSingle st.out = .ok gf ∧ ObsEq gt gf := by
  unfold wellFormed at hwf
  unfold flatten at hfl
  unfold readTop at hrt
  unfold wfFile at hwf
  unfold flattenFile at hfl
  unfold readFile at hrt
  cases hget : fsGet fs top with
  | none => simp [hget] at hwf
  | some raws =>
    simp only [hget] at hwf hfl hrt
    cases hwl : wfLines (fun p fr ph => wfFile fs fs.length false p fr ph) top.dropLast false true raws { phase2 := false } with
    | none => simp [hwl] at hwf
    | some w' =>
      cases hrl : runLines (readFile fs fs.length) top.dropLast (parseLines raws) ({}, {}) with
      | error e => simp [hrl] at hrt
      | ok st1 =>
        obtain ⟨Gt1, Lt1⟩ := st1
        simp only [hrl] at hrt
        have hflat0 : flatRun ([] : List String) = .ok (({} : Glob), ({} : Loc)) := rfl
        obtain ⟨_, habort, Gf', Lf', hflat', R⟩ := sim_lines fs fs.length (sim_file fs fs.length) false true none [] []
          top.dropLast raws { phase2 := false } w' none {} st {} {} Gt1 Lt1 {} {} hwl hfl hrl hflat0 rel_init (fun _ => rfl)
        -- the two finalize steps
        have I := R.i
        unfold finalize at hrt
        rw [finalize_groups Lt1 I.itpT] at hrt
        cases hct : Lt1.cond with
        | some m => simp [hct] at hrt
        | none =>
          simp only [hct, Option.isSome_none, Bool.false_eq_true, if_false] at hrt
          cases hrg : readGroups Gt1 (Lt1.itpLines ++ openOf Lt1.itp) with
          | error e => simp [hrg] at hrt
          | ok G1t =>
            simp only [hrg] at hrt
            obtain ⟨hgr, hdef, hdflt, hat, hnb, hty, hmol, hidx, hgood, hnames⟩ := readGroups_spec _ _ _ hrg
            have NT := hnames R.g.names
            have hcf : Lf'.cond = none := by
              have := R.c.condF
              simp only [Bool.false_eq_true, if_false] at this
              rw [this, hct]
            have hperm : ((Gt1.groups ++ Lt1.itpLines ++ openOf Lt1.itp).map sealGroup).Perm
                ((Lf'.itpLines ++ openOf Lf'.itp).map sealGroup) := by
              simpa using I.perm
            -- every group of the flat director has a name
            have hgoodF : ∀ grp ∈ Lf'.itpLines ++ openOf Lf'.itp, ∃ n, groupName grp = .ok n := by
              intro grp hg
              have hm : sealGroup grp ∈ (Gt1.groups ++ Lt1.itpLines ++ openOf Lt1.itp).map sealGroup :=
                hperm.mem_iff.mpr (List.mem_map_of_mem hg)
              obtain ⟨grp', hg', he⟩ := List.mem_map.mp hm
              have : ∃ n, groupName grp' = .ok n := by
                rw [List.append_assoc] at hg'
                rcases List.mem_append.mp hg' with h1 | h1
                · exact R.g.names.good grp' h1
                · exact hgood grp' h1
              obtain ⟨n, hn⟩ := this
              exact ⟨n, by rw [← groupName_seal grp, ← he, groupName_seal grp', hn]⟩
            obtain ⟨G1f, hrgf⟩ := readGroups_ok _ Gf' hgoodF
            obtain ⟨hgrf, hdeff, hdfltf, hatf, hnbf, htyf, hmolf, hidxf, _, hnamesf⟩ := readGroups_spec _ _ _ hrgf
            have NF := hnamesf (by
              rw [R.g.gfEmpty.1, R.g.gfEmpty.2.1]
              exact ⟨(fun grp h => (by cases h)), (fun n => ⟨(fun h => (by cases h)), (fun h => (by obtain ⟨g, hg, _⟩ := h; cases hg))⟩)⟩)
            have hpermG : (G1t.groups.map sealGroup).Perm (G1f.groups.map sealGroup) := by
              rw [hgr, hgrf, R.g.gfEmpty.1, List.nil_append, ← List.append_assoc]
              exact hperm
            have hbn : ∀ n, G1t.blockNames.contains n = G1f.blockNames.contains n := by
              intro n
              have h1 := NT.set n
              have h2 := NF.set n
              have h3 := names_perm _ _ hpermG n
              cases ha : G1t.blockNames.contains n with
              | true => exact (h2.mpr (h3.mp (h1.mp ha))).symm
              | false =>
                cases hb : G1f.blockNames.contains n with
                | false => rfl
                | true => rw [h1.mpr (h3.mpr (h2.mp hb))] at ha; cases ha
            have hmolsEq : Lf'.mols = Lt1.mols := by rw [I.mols]; rfl
            obtain ⟨gf, hexp, em, ei, eg, e1, e2, e3, e4, e5, tg, t1, t2, t3, t4, t5⟩ :=
              expandMols_congr Lt1.mols G1t G1f gt 0
                (by rw [hmol, hmolf, R.g.gtMols.1, R.g.gfEmpty.2.2.1])
                (by rw [hidx, hidxf, R.g.gtMols.2, R.g.gfEmpty.2.2.2]) hbn hrt
            refine ⟨habort, gf, ?_, ?_⟩
            · have hrs : readSingle st.out = (match flatRun st.out with
                    | Except.error e => Except.error e
                    | Except.ok (g, l) => finalize g l) := rfl
              rw [hrs, hflat']
              simp only
              unfold finalize
              rw [finalize_groups Lf' I.itpF, hcf]
              simp only [Option.isSome_none, Bool.false_eq_true, if_false, hrgf, hmolsEq]
              exact hexp
            · have T := R.g.tables
              exact { tables := ⟨by rw [t1, e1, hdef, hdeff]; exact T.defines, by rw [t2, e2, hdflt, hdfltf]; exact T.defaults,
                                 by rw [t3, e3, hat, hatf]; exact T.atomTypes, by rw [t4, e4, hnb, hnbf]; exact T.nonbond,
                                 by rw [t5, e5, hty, htyf]; exact T.types⟩,
                      groups := (by rw [tg, eg]; exact hpermG),
                      molecules := em.symm, molIdx := ei.symm }

end PolyplyVerif.Proofs.C08Flatten
