/-
C08: the flattening theorem.  Simulation between the reader run over an include tree (`readFile`, one
director per file) and the reader run over the flattened text (`flatten`, one director), for well-formed
trees (`wellFormed`).  See `Properties/C08.lean` for the statement.
Part A: basic lemmas (run over appended lines, section bookkeeping, sealed groups, tables modulo tags).
-/
import PolyplyVerif.Model.TopParse
import PolyplyVerif.Proofs.TopParse

namespace PolyplyVerif.Proofs.C08Flatten
open PolyplyVerif PolyplyVerif.TopParse PolyplyVerif.Proofs.TopParse

/-! ### runs -/

theorem runLines_append (inc : Path → Glob → Except String Glob) (dir : Path) (a b : List Line) (st : Glob × Loc) :
    runLines inc dir (a ++ b) st =
      (match runLines inc dir a st with
       | .error e => .error e
       | .ok st' => runLines inc dir b st') := by
  induction a generalizing st with
  | nil => rfl
  | cons x rest ih =>
    simp only [List.cons_append, runLines]
    cases step inc dir st x with
    | error e => rfl
    | ok st' => exact ih st'

/-- the include handler of the single-file reader -/
def noInc : Path → Glob → Except String Glob := fun _ _ => .error "include-in-single-file"

/-- the single director run over raw lines from the initial state -/
def flatRun (raws : List String) : Except String (Glob × Loc) := runLines noInc [] (parseLines raws) ({}, {})

theorem parseLines_append (a b : List String) : parseLines (a ++ b) = parseLines a ++ parseLines b := by
  simp [parseLines, List.filterMap_append]

theorem flatRun_snoc (raws : List String) (r : String) :
    flatRun (raws ++ [r]) =
      (match flatRun raws with
       | .error e => .error e
       | .ok st => match classify r with
         | none => .ok st
         | some line => step noInc [] st line) := by
  unfold flatRun
  rw [parseLines_append, runLines_append]
  cases runLines noInc [] (parseLines raws) ({}, {}) with
  | error e => rfl
  | ok st =>
    simp only [parseLines, List.filterMap_cons, List.filterMap_nil]
    cases classify r with
    | none => rfl
    | some line =>
      simp only [runLines]
      cases step noInc [] st line <;> rfl

/-! ### sections -/

/-- table facts about the translated section table (re-established on every build) -/
theorem known_shape : (knownSections.all fun s => decide (s.length ≤ 2) &&
    (s.length != 2 || (s.head? == some "moleculetype" && molSubsections.contains (s.getLastD "")))) = true := by
  decide

theorem subs_known : (molSubsections.all fun x => knownSections.contains ["moleculetype", x]) = true := by decide

theorem moleculetype_not_sub : molSubsections.contains "moleculetype" = false := by decide

theorem known2 (a b : String) (h : knownSections.contains [a, b] = true) :
    a = "moleculetype" ∧ molSubsections.contains b = true := by
  have hm : [a, b] ∈ knownSections := by simpa using h
  have := List.all_eq_true.mp known_shape _ hm
  simpa using this

theorem known3 (a b c : String) (rest : List String) : knownSections.contains (a :: b :: c :: rest) = false := by
  cases h : knownSections.contains (a :: b :: c :: rest) with
  | false => rfl
  | true =>
    have hm : (a :: b :: c :: rest) ∈ knownSections := by simpa using h
    have := List.all_eq_true.mp known_shape _ hm
    simp at this

/-- the shapes a director's section can have -/
inductive SecShape : List String → Prop where
  | empty : SecShape []
  | one (n : String) : SecShape [n]
  | mol (x : String) : SecShape ["moleculetype", x]

theorem newSection_top (sec : List String) (name : String) (hs : SecShape sec)
    (hn : molSubsections.contains name = false) : newSection sec name = [name] := by
  cases hs with
  | empty => simp [newSection, shrink]
  | one n =>
    have hk : knownSections.contains [n, name] = false := by
      cases h : knownSections.contains [n, name] with
      | false => rfl
      | true => have := (known2 n name h).2; rw [hn] at this; cases this
    have hk' : [n, name] ∉ knownSections := by simpa using hk
    simp [newSection, shrink, hk']
  | mol x =>
    have hk3 : ["moleculetype", x, name] ∉ knownSections := by simpa using known3 "moleculetype" x name []
    have hk : knownSections.contains ["moleculetype", name] = false := by
      cases h : knownSections.contains ["moleculetype", name] with
      | false => rfl
      | true => have := (known2 _ name h).2; rw [hn] at this; cases this
    have hk' : ["moleculetype", name] ∉ knownSections := by simpa using hk
    simp [newSection, shrink, hk3, hk']

theorem newSection_sub (sec : List String) (x : String) (hx : molSubsections.contains x = true)
    (hs : sec = ["moleculetype"] ∨ ∃ y, sec = ["moleculetype", y]) : newSection sec x = ["moleculetype", x] := by
  have hk : knownSections.contains ["moleculetype", x] = true :=
    List.all_eq_true.mp subs_known x (by simpa using hx)
  have hk' : ["moleculetype", x] ∈ knownSections := by simpa using hk
  rcases hs with rfl | ⟨y, rfl⟩
  · simp [newSection, shrink, hk']
  · have hk3 : ["moleculetype", y, x] ∉ knownSections := by simpa using known3 "moleculetype" y x []
    simp [newSection, shrink, hk3, hk']

/-! ### sealed groups -/

def isSubHdr (l : ItpLine) : Bool := match l with
  | .hdr n => molSubsections.contains n
  | .toks _ => true

theorem sealGroup_eq (first : ItpLine) (rest : Group) : sealGroup (first :: rest) = first :: rest.takeWhile isSubHdr := by
  simp only [sealGroup]
  congr 1

theorem takeWhile_snoc_false {α} (p : α → Bool) (l : List α) (x : α) (h : p x = false) :
    (l ++ [x]).takeWhile p = l.takeWhile p := by
  induction l with
  | nil => simp [List.takeWhile, h]
  | cons y ys ih =>
    simp only [List.cons_append, List.takeWhile_cons]
    split
    · rw [ih]
    · rfl

/-- a top-level header appended to a collected moleculetype is invisible after sealing -/
theorem sealGroup_snoc_top (g : Group) (n : String) (hg : g ≠ []) (hn : molSubsections.contains n = false) :
    sealGroup (g ++ [.hdr n]) = sealGroup g := by
  cases g with
  | nil => exact absurd rfl hg
  | cons first rest =>
    have hn' : n ∉ molSubsections := by simpa using hn
    rw [List.cons_append, sealGroup_eq, sealGroup_eq, takeWhile_snoc_false]
    simp [isSubHdr, hn']

theorem takeWhile_takeWhile_imp {α} (p q : α → Bool) (l : List α) (h : ∀ x, p x = true → q x = true) :
    (l.takeWhile q).takeWhile p = l.takeWhile p := by
  induction l with
  | nil => rfl
  | cons y ys ih =>
    simp only [List.takeWhile_cons]
    by_cases hp : p y = true
    · simp [h y hp, hp, ih]
    · by_cases hq : q y = true
      · simp [hq, hp]
      · simp [hq, hp]

theorem groupName_seal (g : Group) : groupName (sealGroup g) = groupName g := by
  cases g with
  | nil => rfl
  | cons first rest =>
    rw [sealGroup_eq]
    unfold groupName
    simp only [List.drop_succ_cons, List.drop_zero]
    rw [takeWhile_takeWhile_imp]
    intro x hx
    cases x with
    | hdr n => simp at hx
    | toks t => rfl

/-! ### tables modulo the conditional tag -/

def eraseTable (tab : List (List String × List TypeEntry)) : List (List String × List (List String)) :=
  tab.map fun e => (e.1, e.2.map (·.params))

def eraseTypes (types : List (String × List (List String × List TypeEntry))) :
    List (String × List (List String × List (List String))) :=
  types.map fun e => (e.1, eraseTable e.2)

theorem assocGet_map {β γ} (f : β → γ) (l : List (String × β)) (k : String) :
    assocGet (l.map fun e => (e.1, f e.2)) k = (assocGet l k).map f := by
  induction l with
  | nil => rfl
  | cons hd rest ih =>
    simp only [List.map_cons, assocGet, List.find?_cons] at ih ⊢
    cases h : hd.1 == k with
    | true => simp
    | false => simpa using ih

theorem assocSet_map {β γ} (f : β → γ) (l : List (String × β)) (k : String) (v : β) :
    (assocSet l k v).map (fun e => (e.1, f e.2)) = assocSet (l.map fun e => (e.1, f e.2)) k (f v) := by
  induction l with
  | nil => rfl
  | cons hd rest ih =>
    simp only [assocSet, List.map_cons]
    cases h : hd.1 == k with
    | true => simp
    | false => simp [ih]

theorem keySet_erase (tab : List (List String × List TypeEntry)) (key : List String) (e : TypeEntry) :
    eraseTable (keySet tab key (fun old => old.getD [] ++ [e])) =
      keySet (eraseTable tab) key (fun old => old.getD [] ++ [e.params]) := by
  induction tab with
  | nil => simp [keySet, eraseTable]
  | cons hd rest ih =>
    simp only [keySet, eraseTable, List.map_cons] at ih ⊢
    cases h : hd.1 == key with
    | true => simp
    | false => simp [ih]

/-- the type tables after `_type_params`, up to the tags, depend on the tables up to the tags only -/
theorem doType_erase (g1 g2 : Glob) (c1 c2 : Option Cond) (sec : String) (toks : List String) (g1' : Glob)
    (ht : eraseTypes g1.types = eraseTypes g2.types) (h : doType g1 c1 sec toks = .ok g1') :
    ∃ g2', doType g2 c2 sec toks = .ok g2' ∧ eraseTypes g1'.types = eraseTypes g2'.types ∧
      g1' = { g1 with types := g1'.types } ∧ g2' = { g2 with types := g2'.types } := by
  unfold doType at h ⊢
  cases hi : assocGet Tables.Top.atomIdxs sec with
  | none => simp [hi] at h
  | some idxs =>
    simp only [hi] at h ⊢
    cases hs : splitAtoms toks idxs with
    | error e => simp [hs] at h
    | ok r =>
      obtain ⟨atoms, params⟩ := r
      simp only [hs] at h ⊢
      injection h with h
      subst h
      refine ⟨_, rfl, ?_, rfl, rfl⟩
      simp only [eraseTypes] at ht ⊢
      rw [assocSet_map (f := eraseTable), assocSet_map (f := eraseTable), keySet_erase, keySet_erase]
      have hg : (assocGet g1.types (interTypeOf sec)).map eraseTable = (assocGet g2.types (interTypeOf sec)).map eraseTable := by
        rw [← assocGet_map, ← assocGet_map, ht]
      have ht' : (g1.types.map fun e => (e.1, eraseTable e.2)) = (g2.types.map fun e => (e.1, eraseTable e.2)) := ht
      rw [ht']
      congr 2
      cases h1 : assocGet g1.types (interTypeOf sec) with
      | none =>
        cases h2 : assocGet g2.types (interTypeOf sec) with
        | none => rfl
        | some t2 => simp [h1, h2] at hg
      | some t1 =>
        cases h2 : assocGet g2.types (interTypeOf sec) with
        | none => simp [h1, h2] at hg
        | some t2 => simp [h1, h2] at hg; simpa using hg

end PolyplyVerif.Proofs.C08Flatten
