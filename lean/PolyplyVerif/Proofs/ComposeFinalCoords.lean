/-
Composition C04 ∘ C17 ∘ C06: the coordinate every atom ends with.

Three models meet here:
* `Model/Walk.lean` (C17, shared with C04): the engine holds, per (molecule, residue), a position
  IDENTIFIER (`Nat`): supplied positions carry the identifier of the input, generated ones a counter;
* `Model/Supply.lean` (C04): `writeBack` (identifier each residue ends with) and `placeInit`, the loop of
  `Backmap._place_init_coords` as a map atom ↦ coordinate (`Rat × Rat × Rat`), fed with the ORIENTED
  template vector of every atom;
* `Model/Rotation.lean` (C06): templates as name ↦ vector, the rotation `rotMat ang`, and a second model
  of `_place_init_coords` (`Rot.placeRes`: the list of assignments).

BRIDGE (functions, no assumptions)
* `coord : Nat → Supply.V3` interprets position identifiers as coordinates (for a supplied identifier the
  supplied centre, for the `k`-th generated one whatever the walk produced) — arbitrary, the theorems hold
  for every interpretation;
* `tup` / `untup` convert between the two vector types;
* `ResInfo`: what `Backmap` reads of a residue besides its position (flag, template key, atoms, angles
  returned by the optimiser); `backmapInput` builds the residues of molecule `j` as `Rot.Res` with
  `pos = coord (writeBack …)`;
* `orientedAtoms T r`: `(atom key, R · template[name])` for the atoms of `r` — this is where
  `Supply.BRes.atoms` ("oriented template vector") gets its C06 meaning; `toBRes` packs it.
  `placeRes_agrees` proves that C06's own model (`Rot.placeRes`) writes exactly
  `centre + f · (these vectors)`, so the two models of `_place_init_coords` agree on a residue.

This file must not import Properties/C04.lean (which imports it): `final_kept` / `final_placed` analyse
`finalCoords` given the identifier `writeBack` returns; `C04_final_coordinates` (Properties/C04.lean)
discharges that with `C04_supplied_written_back` and `C17_complete`.
-/
import PolyplyVerif.Model.Supply
import PolyplyVerif.Proofs.Supply
import PolyplyVerif.Model.Rotation
import PolyplyVerif.Proofs.Rotation

set_option linter.unusedSimpArgs false
set_option linter.unusedVariables false

namespace PolyplyVerif.Compose
open PolyplyVerif PolyplyVerif.Supply PolyplyVerif.Walk

/-! ### bridge -/

def tup (v : Rot.V3 Rat) : Supply.V3 := (v.x, v.y, v.z)
def untup (v : Supply.V3) : Rot.V3 Rat := ⟨v.1, v.2.1, v.2.2⟩

theorem tup_untup (v : Supply.V3) : tup (untup v) = v := rfl

/-- `(atom key, R · template[atom name])` for the atoms of a residue whose name is a key of its template -/
def orientedAtoms (T : List (String × Rot.Template Rat)) (r : Rot.Res Rat) : List (Nat × Supply.V3) :=
  match Rot.klookup T r.template with
  | none => []
  | some t => r.atoms.filterMap fun a =>
      (Rot.tlookup t a.name).map fun v => (a.key, tup ((Rot.rotMat r.ang).mulVec v))

def toBRes (T : List (String × Rot.Template Rat)) (r : Rot.Res Rat) : BRes :=
  ⟨r.backmap, tup r.pos, orientedAtoms T r⟩

/-- what `Backmap` reads of a residue besides its position -/
structure ResInfo where
  backmap : Bool
  template : String
  atoms : List Rot.Atom
  ang : Rot.Angles Rat

/-- the residues of molecule `j` as `Backmap` sees them after `update_positions_in_molecules`: the centre
is the coordinate of the identifier the write-back returns (totalised with identifier 0 where there is
none: excluded by `C17_complete` / complete input of ignored molecules, see the guard in the theorems) -/
def backmapInput (coord : Nat → Supply.V3) (mols : List Mol) (eng : Engine) (j : Nat) (m : Mol)
    (info : Node → ResInfo) : List (Rot.Res Rat) :=
  m.nodes.map fun n =>
    ⟨(info n).backmap, (info n).template, untup (coord ((Supply.writeBack mols eng j n).getD 0)), n,
     (info n).atoms, (info n).ang⟩

/-- atom coordinates after `Backmap._place_init_coords`, from the coordinates `c0` on entry -/
def finalCoords (fudge : Rat) (T : List (String × Rot.Template Rat)) (coord : Nat → Supply.V3)
    (mols : List Mol) (eng : Engine) (j : Nat) (m : Mol) (info : Node → ResInfo) (c0 : Coords) : Coords :=
  placeInit fudge ((backmapInput coord mols eng j m info).map (toBRes T)) c0

/-! ### lemmas -/

theorem orientedAtoms_keys (T : List (String × Rot.Template Rat)) (r : Rot.Res Rat) (a : Nat)
    (h : a ∈ (orientedAtoms T r).map (·.1)) : a ∈ r.atoms.map (·.key) := by
  unfold orientedAtoms at h
  split at h
  · cases h
  · rename_i t _
    obtain ⟨p, hp, hpa⟩ := List.mem_map.mp h
    obtain ⟨at', hat, hf⟩ := List.mem_filterMap.mp hp
    cases hv : Rot.tlookup t at'.name with
    | none => rw [hv] at hf; cases hf
    | some v =>
      rw [hv] at hf
      simp only [Option.map_some, Option.some.injEq] at hf
      subst hf
      exact List.mem_map.mpr ⟨at', hat, hpa⟩

theorem lookup_filterMap_key (t : Rot.Template Rat) (R : Rot.M3 Rat) (atoms : List Rot.Atom)
    (hnd : (atoms.map (·.key)).Nodup) (at' : Rot.Atom) (hat : at' ∈ atoms) (v : Rot.V3 Rat)
    (hv : Rot.tlookup t at'.name = some v) :
    (atoms.filterMap fun a => (Rot.tlookup t a.name).map fun v => (a.key, tup (R.mulVec v))).lookup at'.key =
      some (tup (R.mulVec v)) := by
  induction atoms with
  | nil => cases hat
  | cons x xs ih =>
    simp only [List.map_cons, List.nodup_cons] at hnd
    rcases List.mem_cons.mp hat with rfl | hmem
    · simp [List.filterMap_cons, hv, List.lookup_cons]
    · have hne : at'.key ≠ x.key := by
        intro he
        apply hnd.1
        rw [← he]
        exact List.mem_map.mpr ⟨at', hmem, rfl⟩
      rw [List.filterMap_cons]
      cases hx : Rot.tlookup t x.name with
      | none => simp only [hx, Option.map_none]; exact ih hnd.2 hmem
      | some w =>
        simp only [hx, Option.map_some, List.lookup_cons]
        have : (at'.key == x.key) = false := by simp [hne]
        rw [this]
        exact ih hnd.2 hmem

theorem split_last {α} [DecidableEq α] (l : List α) (x : α) (h : x ∈ l) :
    ∃ pre post, l = pre ++ x :: post ∧ x ∉ post := by
  induction l with
  | nil => cases h
  | cons y ys ih =>
    by_cases hx : x ∈ ys
    · obtain ⟨pre, post, he, hn⟩ := ih hx
      exact ⟨y :: pre, post, by rw [he]; rfl, hn⟩
    · rcases List.mem_cons.mp h with rfl | h'
      · exact ⟨[], ys, rfl, hx⟩
      · exact absurd h' hx

/-- **kept**: an atom that belongs to no residue flagged `backmap` keeps the coordinate it had on entry -/
theorem final_kept (fudge : Rat) (T : List (String × Rot.Template Rat)) (coord : Nat → Supply.V3)
    (mols : List Mol) (eng : Engine) (j : Nat) (m : Mol) (info : Node → ResInfo) (c0 : Coords) (a : Nat)
    (h : ∀ n ∈ m.nodes, (info n).backmap = true → a ∉ (info n).atoms.map (·.key)) :
    finalCoords fudge T coord mols eng j m info c0 a = c0 a := by
  unfold finalCoords
  apply placeInit_other
  intro r hr hb
  obtain ⟨r0, hr0, rfl⟩ := List.mem_map.mp hr
  unfold backmapInput at hr0
  obtain ⟨n, hn, rfl⟩ := List.mem_map.mp hr0
  intro ha
  exact h n hn hb (orientedAtoms_keys T _ a ha)

/-- **placed**: an atom of a residue flagged `backmap` (its key occurring in no other residue, keys
distinct inside the residue, its name a key of the residue's template) ends at
`coord p + fudge · (R · template[name])`, `p` the identifier the write-back returns for its residue -/
theorem final_placed (fudge : Rat) (T : List (String × Rot.Template Rat)) (coord : Nat → Supply.V3)
    (mols : List Mol) (eng : Engine) (j : Nat) (m : Mol) (info : Node → ResInfo) (c0 : Coords)
    (n : Node) (hn : n ∈ m.nodes) (hb : (info n).backmap = true)
    (at' : Rot.Atom) (hat : at' ∈ (info n).atoms) (hnd : ((info n).atoms.map (·.key)).Nodup)
    (hother : ∀ n' ∈ m.nodes, n' ≠ n → at'.key ∉ (info n').atoms.map (·.key))
    (t : Rot.Template Rat) (ht : Rot.klookup T (info n).template = some t)
    (v : Rot.V3 Rat) (hv : Rot.tlookup t at'.name = some v)
    (p : Nat) (hp : Supply.writeBack mols eng j n = some p) :
    finalCoords fudge T coord mols eng j m info c0 at'.key =
      some (V3.add (coord p) (V3.smul fudge (tup ((Rot.rotMat (info n).ang).mulVec v)))) := by
  obtain ⟨pre, post, hsplit, hnpost⟩ := split_last m.nodes n hn
  unfold finalCoords backmapInput
  rw [hsplit, List.map_append, List.map_cons, List.map_append, List.map_cons]
  have := placeInit_own fudge
    ((pre.map fun n => (⟨(info n).backmap, (info n).template, untup (coord ((Supply.writeBack mols eng j n).getD 0)), n,
        (info n).atoms, (info n).ang⟩ : Rot.Res Rat)).map (toBRes T))
    (toBRes T ⟨(info n).backmap, (info n).template, untup (coord ((Supply.writeBack mols eng j n).getD 0)), n,
        (info n).atoms, (info n).ang⟩)
    ((post.map fun n => (⟨(info n).backmap, (info n).template, untup (coord ((Supply.writeBack mols eng j n).getD 0)), n,
        (info n).atoms, (info n).ang⟩ : Rot.Res Rat)).map (toBRes T))
    c0 at'.key (tup ((Rot.rotMat (info n).ang).mulVec v)) hb
    (by
      show (orientedAtoms T _).lookup at'.key = _
      unfold orientedAtoms
      simp only [ht]
      exact lookup_filterMap_key t _ _ hnd at' hat v hv)
    (by
      intro r' hr' hb' ha
      obtain ⟨r0, hr0, rfl⟩ := List.mem_map.mp hr'
      obtain ⟨n', hn', rfl⟩ := List.mem_map.mp hr0
      have hne : n' ≠ n := fun he => hnpost (he ▸ hn')
      have hmem : n' ∈ m.nodes := by rw [hsplit]; exact List.mem_append_right _ (List.mem_cons_of_mem _ hn')
      exact hother n' hmem hne (orientedAtoms_keys T _ _ ha))
  rw [this]
  simp only [toBRes, hp, Option.getD_some, tup_untup]

/-- **the two models of `_place_init_coords` agree on a residue**: what C06's model (`Rot.placeRes`, the list
of assignments) writes for a backmapped residue is `centre + f · w` for exactly the pairs `(key, w)` of
`orientedAtoms` — the input `toBRes` hands to C04's model -/
theorem placeRes_agrees (f : Rat) (T : List (String × Rot.Template Rat)) (r : Rot.Res Rat) (hb : r.backmap = true)
    (placed : List (Nat × Rot.V3 Rat)) (h : Rot.placeRes f T r = some placed) :
    placed.map (fun p => (p.1, tup p.2)) =
      (orientedAtoms T r).map (fun kw => (kw.1, V3.add (tup r.pos) (V3.smul f kw.2))) := by
  unfold Rot.placeRes at h
  simp only [hb, if_true] at h
  unfold orientedAtoms
  cases ht : Rot.klookup T r.template with
  | none => simp [ht] at h
  | some t =>
    simp only [ht] at h ⊢
    unfold Rot.placeAtoms at h
    generalize r.atoms = atoms at h
    induction atoms generalizing placed with
    | nil => simp at h; subst h; rfl
    | cons x xs ih =>
      simp only [List.mapM_cons] at h
      rw [Proofs.Rotation.tlookup_orient] at h
      cases hx : Rot.tlookup t x.name with
      | none => simp [hx] at h
      | some w =>
        cases hr : xs.mapM (fun a' => (Rot.tlookup (Rot.orientTemplate r.ang t) a'.name).map fun v => (a'.key, r.pos + Rot.V3.smul f v)) with
        | none => simp [hx, hr] at h
        | some rr =>
          simp [hx, hr] at h
          subst h
          rw [List.filterMap_cons]
          simp only [hx, Option.map_some, List.map_cons]
          rw [ih rr hr]
          rfl

end PolyplyVerif.Compose
