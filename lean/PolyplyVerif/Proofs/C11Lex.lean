/-
Helper lemmas for the character level of C11 (model: `Model/C11Lex.lean`).

Part 1: `str.split()` on padded cells (`Chunk`), part 2: `lexLine` on every kind of line the writer produces,
part 3: the whole file — lexing the text of `writeItpText` gives the token lines of `writeItp`
(comment texts stripped), part 4: the readers do not look at comment texts.
-/
import PolyplyVerif.Model.C11Lex
import PolyplyVerif.Proofs.TopParse
import PolyplyVerif.Proofs.ItpIO

namespace PolyplyVerif.Proofs.C11Lex
open PolyplyVerif
open PolyplyVerif.TopParse (isWs stripComment words wordsGo stripWs headerNameChars)
open PolyplyVerif.ItpIO PolyplyVerif.C11Lex
open PolyplyVerif.Proofs.TopParse

/-! ### part 1: tokens of padded cells -/

theorem blank_isWs : isWs ' ' = true := by decide

theorem replicate_ws (n : Nat) : ∀ c ∈ List.replicate n ' ', isWs c = true := by
  intro c hc
  rw [(List.mem_replicate.mp hc).2]; exact blank_isWs

theorem semi_not_ws : isWs ';' = false := by decide

/-- a clean character list: no whitespace, no `;` (possibly empty) -/
def CleanL (t : List Char) : Prop := ∀ c ∈ t, isWs c = false ∧ c ≠ ';'

theorem cleanChars_iff (t : List Char) : cleanChars t = true ↔ t ≠ [] ∧ CleanL t := by
  unfold cleanChars CleanL
  simp only [Bool.and_eq_true, Bool.not_eq_true', List.isEmpty_eq_false_iff, List.all_eq_true, bne_iff_ne, ne_eq]

theorem wordsGo_clean_some (t rest w : List Char) (h : CleanL t) :
    wordsGo (t ++ rest) (some w) = wordsGo rest (some (w ++ t)) := by
  induction t generalizing w with
  | nil => simp
  | cons c t ih =>
    have hc := (h c List.mem_cons_self).1
    have ht : CleanL t := fun x hx => h x (List.mem_cons_of_mem _ hx)
    simp only [List.cons_append, wordsGo, hc, Bool.false_eq_true, if_false, Option.getD_some]
    rw [ih _ ht]
    simp

theorem wordsGo_clean_none (t rest : List Char) (hne : t ≠ []) (h : CleanL t) :
    wordsGo (t ++ rest) none = wordsGo rest (some t) := by
  cases t with
  | nil => exact absurd rfl hne
  | cons c t =>
    have hc := (h c List.mem_cons_self).1
    have ht : CleanL t := fun x hx => h x (List.mem_cons_of_mem _ hx)
    simp only [List.cons_append, wordsGo, hc, Bool.false_eq_true, if_false, Option.getD_none, List.nil_append]
    rw [wordsGo_clean_some t rest [c] ht]
    simp

/-- whitespace after an open word closes it -/
theorem wordsGo_ws_some (ws rest w : List Char) (h : ∀ c ∈ ws, isWs c = true) (hne : ws ≠ []) :
    wordsGo (ws ++ rest) (some w) = w :: wordsGo rest none := by
  cases ws with
  | nil => exact absurd rfl hne
  | cons c ws =>
    have hc := h c List.mem_cons_self
    simp only [List.cons_append, wordsGo, hc, if_true]
    congr 1
    exact words_leading ws rest (fun x hx => h x (List.mem_cons_of_mem _ hx))

/-- `s` is a piece of a line without `;` that, followed by a blank, contributes exactly the tokens `ts` -/
def Chunk (s : List Char) (ts : List (List Char)) : Prop :=
  ';' ∉ s ∧ (∀ rest, wordsGo (s ++ ' ' :: rest) none = ts ++ wordsGo rest none) ∧ '\n' ∉ s

theorem chunk_blanks (n : Nat) : Chunk (List.replicate n ' ') [] := by
  refine ⟨?_, ?_, ?_⟩
  · intro h; have := (List.mem_replicate.mp h).2; exact absurd this (by decide)
  rotate_left
  · intro h; have := (List.mem_replicate.mp h).2; exact absurd this (by decide)
  · intro rest
    have : wordsGo ((List.replicate n ' ' ++ [' ']) ++ rest) none = wordsGo rest none :=
      words_leading _ rest (by
        intro c hc
        rcases List.mem_append.mp hc with hc | hc
        · exact replicate_ws n c hc
        · simp at hc; rw [hc]; exact blank_isWs)
    simpa using this

theorem not_semi_of_clean {t : List Char} (h : CleanL t) : ';' ∉ t := fun hm => (h ';' hm).2 rfl

theorem not_semi_replicate (n : Nat) : ';' ∉ List.replicate n ' ' := by
  intro h; have := (List.mem_replicate.mp h).2; exact absurd this (by decide)

theorem not_nl_replicate (n : Nat) : '\n' ∉ List.replicate n ' ' := by
  intro h; have := (List.mem_replicate.mp h).2; exact absurd this (by decide)

theorem not_nl_of_clean {t : List Char} (h : CleanL t) : '\n' ∉ t := by
  intro hm
  have := (h '\n' hm).1
  exact absurd this (by decide)

/-- a token between blanks -/
theorem chunk_padded (a b : Nat) (t : List Char) (hne : t ≠ []) (h : CleanL t) :
    Chunk (List.replicate a ' ' ++ t ++ List.replicate b ' ') [t] := by
  refine ⟨?_, ?_, ?_⟩
  · simp only [List.mem_append, not_or]
    exact ⟨⟨not_semi_replicate a, not_semi_of_clean h⟩, not_semi_replicate b⟩
  rotate_left
  · simp only [List.mem_append, not_or]
    exact ⟨⟨not_nl_replicate a, not_nl_of_clean h⟩, not_nl_replicate b⟩
  · intro rest
    have e1 : (List.replicate a ' ' ++ t ++ List.replicate b ' ') ++ ' ' :: rest
        = List.replicate a ' ' ++ (t ++ ((List.replicate b ' ' ++ [' ']) ++ rest)) := by simp
    rw [e1]
    have l1 : wordsGo (List.replicate a ' ' ++ (t ++ ((List.replicate b ' ' ++ [' ']) ++ rest))) none
        = wordsGo (t ++ ((List.replicate b ' ' ++ [' ']) ++ rest)) none :=
      words_leading _ _ (replicate_ws a)
    rw [l1, wordsGo_clean_none t _ hne h, wordsGo_ws_some (List.replicate b ' ' ++ [' ']) rest t ?_ (by simp)]
    · rfl
    · intro c hc
      rcases List.mem_append.mp hc with hc | hc
      · exact replicate_ws b c hc
      · simp at hc; rw [hc]; exact blank_isWs

/-- the tokens of a cell text: none when the text is empty -/
def tokOf (t : List Char) : List (List Char) := if t = [] then [] else [t]

theorem chunk_padL (w : Nat) (t : List Char) (h : CleanL t) : Chunk (padL w t) (tokOf t) := by
  unfold padL tokOf
  by_cases ht : t = []
  · subst ht; simpa using chunk_blanks (w - 0)
  · simp only [ht, if_false]
    simpa using chunk_padded (w - t.length) 0 t ht h

theorem chunk_padR (w : Nat) (t : List Char) (h : CleanL t) : Chunk (padR w t) (tokOf t) := by
  unfold padR tokOf
  by_cases ht : t = []
  · subst ht; simpa using chunk_blanks (w - 0)
  · simp only [ht, if_false]
    simpa using chunk_padded 0 (w - t.length) t ht h

theorem chunk_tok (t : List Char) (hne : t ≠ []) (h : CleanL t) : Chunk t [t] := by
  simpa using chunk_padded 0 0 t hne h

/-- `' '.join` of chunks is a chunk -/
theorem chunk_joinSp (cs : List (List Char × List (List Char))) (h : ∀ p ∈ cs, Chunk p.1 p.2) :
    Chunk (joinSp (cs.map (·.1))) (cs.flatMap (·.2)) := by
  induction cs with
  | nil =>
    refine ⟨by simp [joinSp], ?_, by simp [joinSp]⟩
    intro rest
    simp [joinSp, wordsGo, blank_isWs]
  | cons p cs ih =>
    have hp := h p List.mem_cons_self
    have hcs := ih (fun q hq => h q (List.mem_cons_of_mem _ hq))
    cases cs with
    | nil =>
      simpa [joinSp] using hp
    | cons q cs =>
      refine ⟨?_, ?_, ?_⟩
      · simp only [List.map_cons, joinSp, List.mem_append, List.mem_cons, not_or]
        refine ⟨hp.1, by decide, ?_⟩
        simpa [joinSp] using hcs.1
      rotate_left
      · simp only [List.map_cons, joinSp, List.mem_append, List.mem_cons, not_or]
        refine ⟨hp.2.2, by decide, ?_⟩
        simpa [joinSp] using hcs.2.2
      · intro rest
        simp only [List.map_cons, joinSp, List.flatMap_cons, List.append_assoc, List.cons_append]
        rw [hp.2.1]
        have := hcs.2.1 rest
        simp only [List.map_cons, List.flatMap_cons, List.append_assoc] at this
        rw [this]

theorem chunk_words {s : List Char} {ts : List (List Char)} (h : Chunk s ts) : words s = ts := by
  have h1 : wordsGo (s ++ [' ']) none = wordsGo s none :=
    wordsGo_trailing s [' '] (by intro c hc; simp at hc; rw [hc]; exact blank_isWs) none
  have h2 := h.2.1 []
  unfold words
  rw [← h1, h2]
  simp [wordsGo]

/-! ### part 2: `lexLine` on the lines the writer produces -/

theorem hasSemi_false {s : List Char} (h : ';' ∉ s) : hasSemi s = false := by
  unfold hasSemi
  simp only [List.any_eq_false, beq_iff_eq]
  intro c hc e; exact h (e ▸ hc)

theorem hasSemi_append_semi (s r : List Char) : hasSemi (s ++ ';' :: r) = true := by
  unfold hasSemi; simp

theorem afterSemi_append (s r : List Char) (h : ';' ∉ s) : afterSemi (s ++ ';' :: r) = r := by
  unfold afterSemi
  induction s with
  | nil => simp
  | cons c s ih =>
    have hc : c ≠ ';' := fun e => h (e ▸ List.mem_cons_self)
    have hs : ';' ∉ s := fun e => h (List.mem_cons_of_mem _ e)
    simp only [List.cons_append, List.dropWhile_cons, bne_iff_ne, ne_eq, hc, not_false_eq_true, if_true]
    exact ih hs

theorem stripWs_blank_cons (c : List Char) : stripWs (' ' :: c) = stripWs c := by
  have := stripWs_pad [' '] c [] (by intro x hx; simp at hx; rw [hx]; exact blank_isWs) (by simp)
  simpa using this

/-- a data line: cells, then optionally ` ; comment` -/
theorem lexLine_data (s : List Char) (t0 : List Char) (ts : List (List Char)) (hch : Chunk s (t0 :: ts))
    (h0 : t0.head? ≠ some '[') (h1 : t0.head? ≠ some '#') (c : Option String) :
    lexLine (s ++ commentSuffix c) =
      .data ((t0 :: ts).map String.ofList) (c.map fun c => String.ofList (stripWs c.toList)) := by
  have h0' : (t0.head? == some '[') = false := by simpa using h0
  have h1' : (t0.head? == some '#') = false := by simpa using h1
  cases c with
  | none =>
    have hw : words (stripComment (s ++ commentSuffix none)) = t0 :: ts := by
      simp only [commentSuffix, List.append_nil]
      rw [stripComment_no_comment s hch.1]; exact chunk_words hch
    unfold lexLine
    simp only [hw, h0', h1', Bool.false_eq_true, if_false]
    simp [commentSuffix, hasSemi_false hch.1]
  | some c =>
    have hs' : ';' ∉ s ++ [' '] := by
      simp only [List.mem_append, List.mem_singleton, not_or]; exact ⟨hch.1, by decide⟩
    have e : s ++ commentSuffix (some c) = (s ++ [' ']) ++ ';' :: (' ' :: c.toList) := by
      simp [commentSuffix]
    have hw : words (stripComment (s ++ commentSuffix (some c))) = t0 :: ts := by
      rw [e, stripComment_append_comment _ _ hs']
      have := hch.2.1 []
      unfold words
      simpa [wordsGo] using this
    unfold lexLine
    simp only [hw, h0', h1', Bool.false_eq_true, if_false]
    rw [e, hasSemi_append_semi, afterSemi_append _ _ hs', stripWs_blank_cons]
    simp

/-- a pragma line -/
theorem lexLine_pragma (s : List Char) (t0 : List Char) (ts : List (List Char)) (hch : Chunk s (t0 :: ts))
    (h1 : t0.head? = some '#') : lexLine s = .pragma ((t0 :: ts).map String.ofList) := by
  have hw : words (stripComment s) = t0 :: ts := by
    rw [stripComment_no_comment s hch.1]; exact chunk_words hch
  have h0' : (t0.head? == some '[') = false := by rw [h1]; decide
  have h1' : (t0.head? == some '#') = true := by rw [h1]; decide
  unfold lexLine
  simp only [hw, h0', h1', Bool.false_eq_true, if_false, if_true]

/-- a comment line `; text` -/
theorem lexLine_comment (t : String) : lexLine (commentText t) = .comment (String.ofList (stripWs t.toList)) := by
  have hw : words (stripComment (commentText t)) = [] := by
    simp [commentText, stripComment, words, wordsGo]
  unfold lexLine
  simp only [hw]
  have e : commentText t = [] ++ ';' :: (' ' :: t.toList) := rfl
  rw [e, hasSemi_append_semi, afterSemi_append _ _ (by simp), stripWs_blank_cons]
  simp

theorem lexLine_nil : lexLine [] = .blank := by decide

theorem lexLine_header_known : ∀ s ∈ knownHeaders, lexLine (headerLineText s) = .header s := by decide

theorem lexLine_endif : lexLine "#endif".toList = .pragma ["#endif"] := by decide

/-! digits -/

theorem digit_clean (c : Char) (h : c.isDigit = true) : isWs c = false ∧ c ≠ ';' ∧ c ≠ '[' ∧ c ≠ '#' := by
  refine ⟨?_, ?_, ?_, ?_⟩
  · cases hw : isWs c with
    | false => rfl
    | true =>
      simp only [isWs, Bool.or_eq_true, beq_iff_eq] at hw
      rcases hw with ((((rfl | rfl) | rfl) | rfl) | rfl) | rfl <;> exact absurd h (by decide)
  · rintro rfl; exact absurd h (by decide)
  · rintro rfl; exact absurd h (by decide)
  · rintro rfl; exact absurd h (by decide)

theorem natTok_digits (n : Nat) : ∀ c ∈ (natTok n).toList, c.isDigit = true := by
  intro c hc
  unfold natTok at hc
  rw [Nat.toList_repr] at hc
  exact Nat.isDigit_of_mem_toDigits (by decide) (by decide) hc

theorem natTok_ne (n : Nat) : (natTok n).toList ≠ [] := by
  unfold natTok
  rw [Nat.toList_repr]; exact Nat.toDigits_ne_nil

theorem natTok_clean (n : Nat) : CleanL (natTok n).toList := by
  intro c hc
  have := digit_clean c (natTok_digits n c hc)
  exact ⟨this.1, this.2.1⟩

theorem natTok_head (n : Nat) : (natTok n).toList.head? ≠ some '[' ∧ (natTok n).toList.head? ≠ some '#' := by
  cases h : (natTok n).toList with
  | nil => exact absurd h (natTok_ne n)
  | cons c l =>
    have hc : c ∈ (natTok n).toList := by rw [h]; exact List.mem_cons_self
    have := digit_clean c (natTok_digits n c hc)
    simp only [List.head?_cons, ne_eq, Option.some.injEq]
    exact ⟨this.2.2.1, this.2.2.2⟩

/-! ### part 3: the lines of a file -/

theorem cleanTok_spec {t : Tok} (h : cleanTok t = true) : t.toList ≠ [] ∧ CleanL t.toList :=
  (cleanChars_iff _).mp h

theorem tokOf_ne {t : List Char} (h : t ≠ []) : tokOf t = [t] := by simp [tokOf, h]

theorem tokOf_opt (o : Option Tok) (h : optClean o = true) :
    (tokOf (o.getD "").toList).map String.ofList = o.toList ∧ CleanL (o.getD "").toList := by
  cases o with
  | none =>
    refine ⟨by simp [tokOf], ?_⟩
    intro c hc; simp at hc
  | some t =>
    have := cleanTok_spec (t := t) h
    refine ⟨by simp [tokOf, this.1, String.ofList_toList], ?_⟩
    simpa using this.2

theorem normLine_data (toks : List Tok) (c : Option String) :
    normLine (.data toks c) = .data toks (c.map fun c => String.ofList (stripWs c.toList)) := by
  cases c <;> rfl

theorem flatMap_congr' {α β : Type} (l : List α) (f g : α → List β) (h : ∀ a ∈ l, f a = g a) :
    l.flatMap f = l.flatMap g := by
  induction l with
  | nil => rfl
  | cons a l ih =>
    simp only [List.flatMap_cons]
    rw [h a List.mem_cons_self, ih (fun b hb => h b (List.mem_cons_of_mem _ hb))]

/-- an `[ atoms ]` line -/
theorem lexLine_atomText (W : Widths) (a : Atom) (i : Nat)
    (h1 : cleanTok a.atype = true) (h2 : cleanTok a.resname = true) (h3 : cleanTok a.name = true)
    (h4 : optClean a.charge = true) (h5 : optClean a.mass = true) :
    lexLine (atomText W a i) = atomLine a i := by
  have c1 := cleanTok_spec h1
  have c2 := cleanTok_spec h2
  have c3 := cleanTok_spec h3
  have c4 := tokOf_opt a.charge h4
  have c5 := tokOf_opt a.mass h5
  have hch := chunk_joinSp
    [(padL W.idx (natTok (i + 1)).toList, tokOf (natTok (i + 1)).toList),
     (padR W.atype a.atype.toList, tokOf a.atype.toList),
     (padL W.resid (natTok a.resid).toList, tokOf (natTok a.resid).toList),
     (padR W.resname a.resname.toList, tokOf a.resname.toList),
     (padR W.name a.name.toList, tokOf a.name.toList),
     (padL W.cgnr (natTok a.cgnr).toList, tokOf (natTok a.cgnr).toList),
     (padL W.charge (a.charge.getD "").toList, tokOf (a.charge.getD "").toList),
     (padL W.mass (a.mass.getD "").toList, tokOf (a.mass.getD "").toList)]
    (by
      intro p hp
      simp only [List.mem_cons, List.not_mem_nil, or_false] at hp
      rcases hp with rfl | rfl | rfl | rfl | rfl | rfl | rfl | rfl
      · exact chunk_padL _ _ (natTok_clean _)
      · exact chunk_padR _ _ c1.2
      · exact chunk_padL _ _ (natTok_clean _)
      · exact chunk_padR _ _ c2.2
      · exact chunk_padR _ _ c3.2
      · exact chunk_padL _ _ (natTok_clean _)
      · exact chunk_padL _ _ c4.2
      · exact chunk_padL _ _ c5.2)
  simp only [List.map_cons, List.map_nil, List.flatMap_cons, List.flatMap_nil, List.append_nil,
    tokOf_ne (natTok_ne _), tokOf_ne c1.1, tokOf_ne c2.1, tokOf_ne c3.1, List.cons_append, List.nil_append] at hch
  have := lexLine_data _ _ _ hch (natTok_head (i + 1)).1 (natTok_head (i + 1)).2 none
  simp only [commentSuffix, List.append_nil] at this
  unfold atomText atomCells
  rw [this]
  simp only [atomLine, List.map_cons, List.map_append, String.ofList_toList, c4.1, c5.1, Option.map_none,
    List.cons_append, List.nil_append]

theorem atomTextFrom_lex (W : Widths) (i : Nat) (ns : List Atom)
    (h : ∀ a ∈ ns, cleanTok a.atype = true ∧ cleanTok a.resname = true ∧ cleanTok a.name = true ∧
      optClean a.charge = true ∧ optClean a.mass = true) :
    (atomTextFrom W i ns).map lexLine = (atomLinesFrom i ns).map normLine := by
  induction ns generalizing i with
  | nil => rfl
  | cons a l ih =>
    obtain ⟨h1, h2, h3, h4, h5⟩ := h a List.mem_cons_self
    simp only [atomTextFrom, atomLinesFrom, List.map_cons]
    rw [lexLine_atomText W a i h1 h2 h3 h4 h5, ih (i + 1) (fun b hb => h b (List.mem_cons_of_mem _ hb))]
    rfl

theorem chunk_toks (l : List Tok) (h : ∀ p ∈ l, cleanTok p = true) :
    Chunk (joinSp (l.map String.toList)) (l.map String.toList) := by
  have := chunk_joinSp (l.map fun p => (p.toList, [p.toList])) (by
    intro q hq
    obtain ⟨p, hp, rfl⟩ := List.mem_map.mp hq
    have := cleanTok_spec (h p hp)
    exact chunk_tok _ this.1 this.2)
  simpa [List.map_map, Function.comp_def, List.flatMap_map, ← List.map_eq_flatMap] using this

/-- an interaction line -/
theorem lexLine_ixnText (W : Widths) (ns : List Atom) (name : String) (x : Ixn)
    (hp : ∀ p ∈ x.params, cleanTok p = true) (hlen : 1 ≤ x.atoms.length) :
    lexLine (ixnText W ns name x) = normLine (ixnLine ns name x) := by
  have hA : 1 ≤ (writtenAtoms ns name x).length := by rw [Proofs.ItpIO.writtenAtoms_length]; exact hlen
  generalize hAeq : writtenAtoms ns name x = A at hA
  obtain ⟨a0, A1, rfl⟩ : ∃ a0 A1, A = a0 :: A1 := by
    cases A with
    | nil => simp at hA
    | cons a l => exact ⟨a, l, rfl⟩
  let pairOf : Nat → List Char × List (List Char) := fun n => (padL W.idx (natTok n).toList, [(natTok n).toList])
  have hpair : ∀ n, Chunk (pairOf n).1 (pairOf n).2 := by
    intro n
    have := chunk_padL W.idx _ (natTok_clean n)
    rwa [tokOf_ne (natTok_ne n)] at this
  have hP := chunk_toks x.params hp
  rw [Proofs.ItpIO.ixnLine_eq, normLine_data]
  unfold ixnText ixnCells Proofs.ItpIO.ixnToks
  simp only [hAeq]
  by_cases hv : name = "virtual_sitesn"
  · simp only [hv, if_true, List.map_cons, List.take_succ_cons, List.take_zero, List.drop_succ_cons, List.drop_zero]
    have hch := chunk_joinSp
      (pairOf a0 :: (joinSp (x.params.map String.toList), x.params.map String.toList) :: A1.map pairOf)
      (by
        intro p hp'
        simp only [List.mem_cons, List.mem_map] at hp'
        rcases hp' with rfl | rfl | ⟨n, _, rfl⟩
        · exact hpair a0
        · exact hP
        · exact hpair n)
    simp only [List.map_cons, List.flatMap_cons, List.map_map, List.flatMap_map, pairOf, Function.comp_def,
      List.cons_append, List.nil_append, ← List.map_eq_flatMap] at hch
    have := lexLine_data _ _ _ hch (natTok_head a0).1 (natTok_head a0).2 x.comment
    simp only [List.cons_append, List.nil_append] at this ⊢
    rw [this]
    simp [List.map_append, List.map_map, Function.comp_def, String.ofList_toList]
  · simp only [hv, if_false, List.map_cons]
    have hch := chunk_joinSp
      (pairOf a0 :: (A1.map pairOf ++ [(joinSp (x.params.map String.toList), x.params.map String.toList)]))
      (by
        intro p hp'
        simp only [List.mem_cons, List.mem_append, List.mem_map, List.not_mem_nil, or_false] at hp'
        rcases hp' with rfl | ⟨n, _, rfl⟩ | rfl
        · exact hpair a0
        · exact hpair n
        · exact hP)
    simp only [List.map_cons, List.map_append, List.flatMap_cons, List.flatMap_append, List.map_map, List.flatMap_map,
      pairOf, Function.comp_def, List.cons_append, List.nil_append, ← List.map_eq_flatMap, List.map_nil,
      List.flatMap_nil, List.append_nil] at hch
    have := lexLine_data _ _ _ hch (natTok_head a0).1 (natTok_head a0).2 x.comment
    simp only [List.cons_append] at this ⊢
    rw [this]
    simp [List.map_append, List.map_map, Function.comp_def, String.ofList_toList]

/-- `#ifdef TAG` / `#ifndef TAG` -/
theorem lexLine_cond (kw t : Tok) (hkw : kw = "#ifdef" ∨ kw = "#ifndef") (ht : cleanTok t = true) :
    lexLine (kw.toList ++ ' ' :: t.toList) = .pragma [kw, t] := by
  have ct := cleanTok_spec ht
  have ck : kw.toList ≠ [] ∧ CleanL kw.toList ∧ kw.toList.head? = some '#' := by
    rcases hkw with rfl | rfl
    · refine ⟨by decide, ?_, by decide⟩
      exact ((cleanChars_iff _).mp (by decide)).2
    · refine ⟨by decide, ?_, by decide⟩
      exact ((cleanChars_iff _).mp (by decide)).2
  have hch := chunk_joinSp [(kw.toList, [kw.toList]), (t.toList, [t.toList])] (by
    intro p hp
    simp only [List.mem_cons, List.not_mem_nil, or_false] at hp
    rcases hp with rfl | rfl
    · exact chunk_tok _ ck.1 ck.2.1
    · exact chunk_tok _ ct.1 ct.2)
  simp only [List.map_cons, List.map_nil, joinSp, List.flatMap_cons, List.flatMap_nil, List.append_nil,
    List.cons_append, List.nil_append] at hch
  rw [lexLine_pragma _ _ _ hch ck.2.2]
  simp [String.ofList_toList]

theorem lex_groupText (W : Widths) (ns : List Atom) (name : String) (k : GKey) (g : List Ixn)
    (hx : ∀ x ∈ g, (∀ p ∈ x.params, cleanTok p = true) ∧ 1 ≤ x.atoms.length)
    (hk : ∀ t c, k.cond = some (t, c) → cleanTok t = true) :
    (groupText W ns name k g).map lexLine = (groupLines ns name k g).map normLine := by
  unfold groupText groupLines
  simp only [List.map_append, List.map_map]
  congr 1
  · congr 1
    · congr 1
      · congr 1
        · cases hc : k.cond with
          | none => rfl
          | some tc =>
            obtain ⟨t, c⟩ := tc
            have ht := hk t c hc
            cases c
            · simp only [Bool.false_eq_true, if_false, List.map_cons, List.map_nil]
              rw [lexLine_cond "#ifndef" t (Or.inr rfl) ht]; rfl
            · simp only [if_true, List.map_cons, List.map_nil]
              rw [lexLine_cond "#ifdef" t (Or.inl rfl) ht]; rfl
        · by_cases hg : k.group = ""
          · simp [hg]
          · simp only [hg, if_false, List.map_cons, List.map_nil]
            rw [lexLine_comment]; rfl
      · apply List.map_congr_left
        intro x hxm
        have hxg : x ∈ g := List.mem_mergeSort.mp hxm
        obtain ⟨h1, h2⟩ := hx x hxg
        simp only [Function.comp]
        exact lexLine_ixnText W ns name x h1 h2
    · cases k.cond with
      | none => rfl
      | some _ =>
        simp only [List.map_cons, List.map_nil]
        rw [lexLine_endif]; rfl

theorem runs_nonempty {α κ : Type} [DecidableEq κ] (key : α → κ) (l : List α) :
    ∀ kg ∈ runs key l, kg.2 ≠ [] := by
  induction l with
  | nil => simp [runs]
  | cons a l ih =>
    simp only [runs]
    cases h : runs key l with
    | nil => simp
    | cons kg rest =>
      obtain ⟨k, g⟩ := kg
      rw [h] at ih
      simp only
      split
      · intro q hq
        rcases List.mem_cons.mp hq with rfl | hq
        · simp
        · exact ih q (List.mem_cons_of_mem _ hq)
      · intro q hq
        rcases List.mem_cons.mp hq with rfl | hq
        · simp
        · exact ih q hq

theorem one_le_minAtoms (name : String) : 1 ≤ minAtoms name := by
  unfold minAtoms; split <;> (try split) <;> (try split) <;> omega

/-- what `tokensOk` and writability give for one interaction -/
def IxnOk (x : Ixn) : Prop :=
  (∀ p ∈ x.params, cleanTok p = true) ∧ optClean x.ifdef = true ∧ optClean x.ifndef = true ∧ 1 ≤ x.atoms.length

theorem gkey_cond_clean (x : Ixn) (h : IxnOk x) (t : Tok) (c : Bool) (hc : x.gkey.cond = some (t, c)) :
    cleanTok t = true := by
  obtain ⟨_, h1, h2, _⟩ := h
  unfold Ixn.gkey at hc
  cases hd : x.ifdef with
  | some d =>
    simp only [hd] at hc h1
    cases hc; exact h1
  | none =>
    cases hn : x.ifndef with
    | some d =>
      simp only [hd, hn] at hc h2
      cases hc; exact h2
    | none => simp [hd, hn] at hc

theorem lex_sectionText (W : Widths) (ns : List Atom) (s : String × List Ixn)
    (hh : headerName s.1 ∈ knownHeaders) (hx : ∀ x ∈ s.2, IxnOk x) :
    (sectionText W ns s).map lexLine = (sectionLines ns s).map normLine := by
  unfold sectionText sectionLines
  simp only [List.map_cons, List.map_flatMap]
  rw [lexLine_header_known _ hh]
  congr 1
  apply flatMap_congr'
  intro kg hkg
  apply lex_groupText
  · intro x hxm
    have := hx x (Proofs.ItpIO.mem_sectionGroups hkg hxm)
    exact ⟨this.1, this.2.2.2⟩
  · intro t c hc
    have hne := runs_nonempty Ixn.gkey _ kg hkg
    obtain ⟨x, hxm⟩ := List.exists_mem_of_ne_nil _ hne
    have hkey := Proofs.ItpIO.runs_key Ixn.gkey _ kg hkg x hxm
    exact gkey_cond_clean x (hx x (Proofs.ItpIO.mem_sectionGroups hkg hxm)) t c (by rw [hkey]; exact hc)

theorem map_lex_comment (l : List String) :
    (l.map commentText).map lexLine = (l.map Line.comment).map normLine := by
  induction l with
  | nil => rfl
  | cons h l ih =>
    simp only [List.map_cons, ih, lexLine_comment]; rfl

theorem lex_headerText (header : List String) :
    (headerText header).map lexLine = (headerLines header).map normLine := by
  unfold headerText headerLines
  split
  · rfl
  · rw [List.map_append, List.map_append, map_lex_comment]
    simp only [List.map_cons, List.map_nil, lexLine_nil]; rfl

theorem lexLine_moltype (moltype : Tok) (n : Nat) (h1 : cleanTok moltype = true) (h2 : plainFirst moltype = true) :
    lexLine (moltype.toList ++ ' ' :: (natTok n).toList) = .data [moltype, natTok n] none := by
  have cm := cleanTok_spec h1
  have hch := chunk_joinSp [(moltype.toList, [moltype.toList]), ((natTok n).toList, [(natTok n).toList])] (by
    intro p hp
    simp only [List.mem_cons, List.not_mem_nil, or_false] at hp
    rcases hp with rfl | rfl
    · exact chunk_tok _ cm.1 cm.2
    · exact chunk_tok _ (natTok_ne n) (natTok_clean n))
  simp only [List.map_cons, List.map_nil, joinSp, List.flatMap_cons, List.flatMap_nil, List.append_nil,
    List.cons_append, List.nil_append] at hch
  unfold plainFirst at h2
  simp only [Bool.and_eq_true, bne_iff_ne, ne_eq] at h2
  have := lexLine_data _ _ _ hch h2.1 h2.2 none
  simp only [commentSuffix, List.append_nil] at this
  rw [this]
  simp [String.ofList_toList]

/-- **lexing the written text gives the written token lines** (comment texts stripped) -/
theorem lex_writeItpText (header : List String) (moltype : Tok) (m : Mol) (lines : List Line)
    (hw : writeItp header moltype m = .ok lines) (htok : tokensOk moltype m = true) (hhdr : headersOk m = true) :
    ∃ text, writeItpText header moltype m = .ok text ∧ lexText text = lines.map normLine := by
  unfold tokensOk at htok
  simp only [Bool.and_eq_true, List.all_eq_true] at htok
  obtain ⟨⟨⟨hm1, hm2⟩, hat⟩, hsec⟩ := htok
  unfold headersOk at hhdr
  simp only [List.all_eq_true, Bool.or_eq_true, List.isEmpty_iff, List.contains_eq_mem, decide_eq_true_eq] at hhdr
  unfold writeItp at hw
  unfold writeItpText
  by_cases hne : (sortedNodes m).isEmpty = true
  · simp [hne] at hw
  · simp only [hne, Bool.false_eq_true, if_false] at hw ⊢
    by_cases hwr : (sortSections m.sections).all (fun s => s.2.all (ixnWritable (sortedNodes m) s.1)) = true
    · simp only [hwr, Bool.not_true, Bool.false_eq_true, if_false, Except.ok.injEq] at hw ⊢
      refine ⟨_, rfl, ?_⟩
      subst hw
      have hsecs : (sortSections m.sections).Perm (m.sections.filter (fun s => !s.2.isEmpty)) :=
        List.mergeSort_perm _ _
      have hatoms : ∀ a ∈ sortedNodes m, cleanTok a.atype = true ∧ cleanTok a.resname = true ∧
          cleanTok a.name = true ∧ optClean a.charge = true ∧ optClean a.mass = true := by
        intro a ha
        have ha' : a ∈ m.atoms := List.mem_mergeSort.mp ha
        have := hat a ha'
        obtain ⟨⟨⟨⟨h1, h2⟩, h3⟩, h4⟩, h5⟩ := this
        exact ⟨h1, h2, h3, h4, h5⟩
      unfold lexText
      simp only [List.map_append, List.map_cons, List.map_nil, List.map_flatMap]
      rw [lex_headerText, atomTextFrom_lex _ _ _ hatoms, lexLine_moltype _ _ hm1 hm2, lexLine_nil,
        lexLine_header_known "moleculetype" (by decide), lexLine_header_known "atoms" (by decide)]
      congr 1
      apply flatMap_congr'
      intro s hs
      have hs' := List.mem_filter.mp (hsecs.mem_iff.mp hs)
      have hsm : s ∈ m.sections := hs'.1
      apply lex_sectionText
      · rcases hhdr s hsm with h | h
        · simp [h] at hs'
        · exact h
      · intro x hx
        have h1 := hsec s hsm x hx
        have h2 := (List.all_eq_true.mp ((List.all_eq_true.mp hwr) s hs)) x hx
        unfold ixnWritable at h2
        simp only [Bool.and_eq_true, decide_eq_true_eq] at h2
        exact ⟨h1.1.1, h1.1.2, h1.2, Nat.le_trans (one_le_minAtoms s.1) h2.2⟩
    · simp [hwr] at hw

theorem lex_genParamsHeader (argv : String) (cites : List String) :
    (genParamsHeaderText argv cites).map lexLine = (genParamsHeaderLines argv cites).map normLine := by
  unfold genParamsHeaderText genParamsHeaderLines
  rw [List.map_append, List.map_append, List.map_append, List.map_append, map_lex_comment]
  simp only [List.map_cons, List.map_nil, lexLine_comment, lexLine_nil]; rfl

theorem lex_writeGenParamsText (argv : String) (cites : List String) (moltype : Tok) (m : Mol) (lines : List Line)
    (hw : writeGenParams argv cites moltype m = .ok lines) (htok : tokensOk moltype m = true)
    (hhdr : headersOk m = true) :
    ∃ text, writeGenParamsText argv cites moltype m = .ok text ∧ lexText text = lines.map normLine := by
  unfold writeGenParams at hw
  cases hb : writeItp [] moltype m with
  | error e => simp [hb] at hw
  | ok body =>
    simp only [hb, Except.ok.injEq] at hw
    obtain ⟨text, ht, hl⟩ := lex_writeItpText [] moltype m body hb htok hhdr
    refine ⟨genParamsHeaderText argv cites ++ text, by simp [writeGenParamsText, ht], ?_⟩
    subst hw
    unfold lexText at hl ⊢
    rw [List.map_append, List.map_append, lex_genParamsHeader, hl]

/-- `WF` implies `headersOk` -/
theorem headersOk_of_WF (m : Mol) (hwf : WF m) : headersOk m = true := by
  unfold headersOk
  simp only [List.all_eq_true, Bool.or_eq_true, List.isEmpty_iff, List.contains_eq_mem, decide_eq_true_eq]
  intro s hs
  cases hl : s.2 with
  | nil => exact Or.inl rfl
  | cons x l =>
    right
    have har := hwf.arity s hs x (by rw [hl]; exact List.mem_cons_self)
    unfold arityOk at har
    cases hsp : lookupSplit (headerName s.1) with
    | none => simp [hsp] at har
    | some osp =>
      have hmem := Proofs.ItpIO.lookupSplit_mem hsp
      unfold knownHeaders
      apply List.mem_append_right
      exact List.mem_map.mpr ⟨_, hmem, rfl⟩

/-! ### part 4: the readers do not look at comment texts -/

theorem step_norm (st : RState) (l : Line) : step st (normLine l) = step st l := by
  cases l with
  | data toks c => cases c <;> rfl
  | _ => rfl

theorem readLines_norm (st : RState) (ls : List Line) : readLines st (ls.map normLine) = readLines st ls := by
  induction ls generalizing st with
  | nil => rfl
  | cons l ls ih =>
    simp only [List.map_cons, readLines, step_norm]
    cases step st l with
    | error e => rfl
    | ok st' => exact ih st'

theorem readItp_norm (ls : List Line) : readItp (ls.map normLine) = readItp ls := by
  unfold readItp; rw [readLines_norm]

theorem topCollect_norm (inMol : Bool) (sec : Sec) (ls : List Line) :
    topCollect inMol sec (ls.map normLine) = topCollect inMol sec ls := by
  induction ls generalizing inMol sec with
  | nil => rfl
  | cons l ls ih =>
    cases l with
    | comment t => simp only [List.map_cons, normLine, topCollect]; exact ih _ _
    | blank => simp only [List.map_cons, normLine, topCollect]; exact ih _ _
    | bad t => simp only [List.map_cons, normLine, topCollect]
    | header name =>
      simp only [List.map_cons, normLine, topCollect, ih]
    | pragma toks =>
      simp only [List.map_cons, normLine, topCollect, ih]
    | data toks c =>
      cases c <;> simp only [List.map_cons, normLine, topCollect, ih]

theorem readViaTop_norm (ls : List Line) : readViaTop (ls.map normLine) = readViaTop ls := by
  unfold readViaTop; rw [topCollect_norm]

/-! ### part 5: blank lines, comment lines and padding are invisible to the readers -/

/-- a line of whitespace, optionally followed by a comment, is lexed to a line every reader skips -/
theorem lexLine_skip (ws cmt : List Char) (h : ∀ c ∈ ws, isWs c = true) :
    Proofs.ItpIO.isSkip (lexLine ws) = true ∧ Proofs.ItpIO.isSkip (lexLine (ws ++ ';' :: cmt)) = true := by
  obtain ⟨h1, h2⟩ := tokenize_blank ws cmt h
  unfold TopParse.tokenizeChars at h1 h2
  have w1 : words (stripComment ws) = [] := by simpa using h1
  have w2 : words (stripComment (ws ++ ';' :: cmt)) = [] := by simpa using h2
  constructor
  · unfold lexLine; simp only [w1]; split <;> rfl
  · unfold lexLine; simp only [w2]; split <;> rfl

theorem readLines_insert_skip (st : RState) (a b : List Line) (x : Line) (hx : Proofs.ItpIO.isSkip x = true) :
    readLines st (a ++ x :: b) = readLines st (a ++ b) := by
  rw [Proofs.ItpIO.readLines_append, Proofs.ItpIO.readLines_append]
  cases readLines st a with
  | error e => rfl
  | ok st' =>
    simp only [Except.bind]
    have : step st' x = .ok st' := by
      cases x <;> simp_all [Proofs.ItpIO.isSkip, step]
    simp only [readLines, this]

theorem topCollect_insert_skip (inMol : Bool) (sec : Sec) (a b : List Line) (x : Line)
    (hx : Proofs.ItpIO.isSkip x = true) :
    topCollect inMol sec (a ++ x :: b) = topCollect inMol sec (a ++ b) := by
  induction a generalizing inMol sec with
  | nil =>
    cases x <;> simp_all [Proofs.ItpIO.isSkip, topCollect]
  | cons l a ih =>
    cases l with
    | comment t => simp only [List.cons_append, topCollect]; exact ih _ _
    | blank => simp only [List.cons_append, topCollect]; exact ih _ _
    | bad t => simp only [List.cons_append, topCollect]
    | header name => simp only [List.cons_append, topCollect, ih]
    | pragma toks => simp only [List.cons_append, topCollect, ih]
    | data toks c => simp only [List.cons_append, topCollect, ih]

theorem read_insert_skip (pre post : List (List Char)) (l : List Char)
    (hl : Proofs.ItpIO.isSkip (lexLine l) = true) :
    readItpText (pre ++ l :: post) = readItpText (pre ++ post) ∧
    readViaTopText (pre ++ l :: post) = readViaTopText (pre ++ post) := by
  unfold readItpText readViaTopText lexText readItp readViaTop
  simp only [List.map_append, List.map_cons]
  rw [readLines_insert_skip _ _ _ _ hl, topCollect_insert_skip _ _ _ _ _ hl]
  exact ⟨rfl, rfl⟩

/-- blanks and tabs before and after a line do not change what it is lexed to -/
theorem lexLine_pad (ws l ws' : List Char) (h : ∀ c ∈ ws, isWs c = true) (h' : ∀ c ∈ ws', isWs c = true)
    (hsemi : ';' ∉ l) : lexLine (ws ++ l ++ ws') = lexLine l := by
  have hs' : ';' ∉ ws' := by
    intro hm; have := h' ';' hm; simp [isWs] at this
  have hs : ';' ∉ ws := by
    intro hm; have := h ';' hm; simp [isWs] at this
  have hall : ';' ∉ ws ++ l ++ ws' := by
    simp only [List.mem_append, not_or]; exact ⟨⟨hs, hsemi⟩, hs'⟩
  have sc1 : stripComment (ws ++ l ++ ws') = ws ++ l ++ ws' := stripComment_no_comment _ hall
  have sc0 : stripComment l = l := stripComment_no_comment _ hsemi
  have tok : words (ws ++ l ++ ws') = words l := by
    rw [words_trailing _ ws' h', words_leading ws l h]
  have strip : stripWs (ws ++ l ++ ws') = stripWs l := stripWs_pad ws l ws' h h'
  unfold lexLine
  simp only [headerNameChars, sc1, sc0, tok, strip, hasSemi_false hall, hasSemi_false hsemi, Bool.false_eq_true, if_false]

/-! ### part 6: the file as one character sequence -/

def NoNl (l : List Char) : Prop := '\n' ∉ l

theorem splitLinesGo_line (l rest cur : List Char) (h : NoNl l) :
    splitLinesGo (l ++ '\n' :: rest) cur = (cur ++ l) :: splitLinesGo rest [] := by
  induction l generalizing cur with
  | nil => simp [splitLinesGo]
  | cons c l ih =>
    have hc : c ≠ '\n' := fun e => h (e ▸ List.mem_cons_self)
    have hl : NoNl l := fun e => h (List.mem_cons_of_mem _ e)
    simp only [List.cons_append, splitLinesGo, beq_iff_eq, hc, if_false]
    rw [ih _ hl]
    simp

theorem splitLines_joinLines (ls : List (List Char)) (h : ∀ l ∈ ls, NoNl l) : splitLines (joinLines ls) = ls := by
  unfold splitLines
  induction ls with
  | nil => rfl
  | cons l ls ih =>
    simp only [joinLines]
    rw [splitLinesGo_line l _ [] (h l List.mem_cons_self), ih (fun x hx => h x (List.mem_cons_of_mem _ hx))]
    simp

theorem nonl_joinSp (cells : List (List Char)) (h : ∀ c ∈ cells, NoNl c) : NoNl (joinSp cells) := by
  induction cells with
  | nil => simp [joinSp, NoNl]
  | cons a cells ih =>
    cases cells with
    | nil => simpa [joinSp] using h a List.mem_cons_self
    | cons b rest =>
      have ha := h a List.mem_cons_self
      have hr := ih (fun c hc => h c (List.mem_cons_of_mem _ hc))
      unfold NoNl at *
      simp only [joinSp, List.mem_append, List.mem_cons, not_or]
      exact ⟨ha, by decide, hr⟩

theorem nonl_padL (w : Nat) (t : List Char) (h : NoNl t) : NoNl (padL w t) := by
  unfold NoNl padL at *
  simp only [List.mem_append, not_or]
  exact ⟨not_nl_replicate _, h⟩

theorem nonl_padR (w : Nat) (t : List Char) (h : NoNl t) : NoNl (padR w t) := by
  unfold NoNl padR at *
  simp only [List.mem_append, not_or]
  exact ⟨h, not_nl_replicate _⟩

theorem nonl_tok {t : Tok} (h : cleanTok t = true) : NoNl t.toList := not_nl_of_clean (cleanTok_spec h).2

theorem nonl_natTok (n : Nat) : NoNl (natTok n).toList := not_nl_of_clean (natTok_clean n)

theorem nonl_opt (o : Option Tok) (h : optClean o = true) : NoNl (o.getD "").toList :=
  not_nl_of_clean (tokOf_opt o h).2

theorem nonl_atomTextFrom (W : Widths) (i : Nat) (ns : List Atom)
    (h : ∀ a ∈ ns, cleanTok a.atype = true ∧ cleanTok a.resname = true ∧ cleanTok a.name = true ∧
      optClean a.charge = true ∧ optClean a.mass = true) :
    ∀ l ∈ atomTextFrom W i ns, NoNl l := by
  induction ns generalizing i with
  | nil => intro l hl; simp [atomTextFrom] at hl
  | cons a ns ih =>
    obtain ⟨h1, h2, h3, h4, h5⟩ := h a List.mem_cons_self
    intro l hl
    simp only [atomTextFrom, List.mem_cons] at hl
    rcases hl with rfl | hl
    · unfold atomText atomCells
      apply nonl_joinSp
      intro c hc
      simp only [List.mem_cons, List.not_mem_nil, or_false] at hc
      rcases hc with rfl | rfl | rfl | rfl | rfl | rfl | rfl | rfl
      · exact nonl_padL _ _ (nonl_natTok _)
      · exact nonl_padR _ _ (nonl_tok h1)
      · exact nonl_padL _ _ (nonl_natTok _)
      · exact nonl_padR _ _ (nonl_tok h2)
      · exact nonl_padR _ _ (nonl_tok h3)
      · exact nonl_padL _ _ (nonl_natTok _)
      · exact nonl_padL _ _ (nonl_opt _ h4)
      · exact nonl_padL _ _ (nonl_opt _ h5)
    · exact ih (i + 1) (fun b hb => h b (List.mem_cons_of_mem _ hb)) l hl

def strNoNl (t : String) : Prop := NoNl t.toList

theorem nonl_commentText (t : String) (h : strNoNl t) : NoNl (commentText t) := by
  unfold NoNl commentText strNoNl at *
  simp only [List.mem_cons, not_or]
  exact ⟨by decide, by decide, h⟩

theorem nonl_ixnText (W : Widths) (ns : List Atom) (name : String) (x : Ixn)
    (hp : ∀ p ∈ x.params, cleanTok p = true) (hc : strNoNl (x.comment.getD "")) :
    NoNl (ixnText W ns name x) := by
  have hcells : NoNl (joinSp (ixnCells W ns name x)) := by
    apply nonl_joinSp
    have hatoms : ∀ c ∈ (writtenAtoms ns name x).map (fun n => padL W.idx (natTok n).toList), NoNl c := by
      intro c hc'
      obtain ⟨n, _, rfl⟩ := List.mem_map.mp hc'
      exact nonl_padL _ _ (nonl_natTok n)
    have hpar : NoNl (joinSp (x.params.map String.toList)) := by
      apply nonl_joinSp
      intro c hc'
      obtain ⟨p, hp', rfl⟩ := List.mem_map.mp hc'
      exact nonl_tok (hp p hp')
    intro c hc'
    unfold ixnCells at hc'
    split at hc'
    · simp only [List.mem_append, List.mem_singleton] at hc'
      rcases hc' with (h1 | rfl) | h3
      · exact hatoms c (List.mem_of_mem_take h1)
      · exact hpar
      · exact hatoms c (List.mem_of_mem_drop h3)
    · simp only [List.mem_append, List.mem_singleton] at hc'
      rcases hc' with h1 | rfl
      · exact hatoms c h1
      · exact hpar
  unfold ixnText NoNl at *
  simp only [List.mem_append, not_or]
  refine ⟨hcells, ?_⟩
  cases hx : x.comment with
  | none => simp [commentSuffix]
  | some c =>
    simp only [hx, Option.getD_some, strNoNl, NoNl] at hc
    simp only [commentSuffix, List.mem_cons, not_or]
    exact ⟨by decide, by decide, by decide, hc⟩

/-- what the file level needs from one interaction on top of `IxnOk` -/
def IxnNl (x : Ixn) : Prop := strNoNl (x.group.getD "") ∧ strNoNl (x.comment.getD "")

theorem nonl_groupText (W : Widths) (ns : List Atom) (name : String) (k : GKey) (g : List Ixn)
    (hx : ∀ x ∈ g, (∀ p ∈ x.params, cleanTok p = true) ∧ strNoNl (x.comment.getD ""))
    (hk : ∀ t c, k.cond = some (t, c) → cleanTok t = true) (hg : strNoNl k.group) :
    ∀ l ∈ groupText W ns name k g, NoNl l := by
  intro l hl
  unfold groupText at hl
  simp only [List.mem_append, List.mem_map, List.mem_singleton] at hl
  rcases hl with (((h1 | h2) | ⟨x, hxm, rfl⟩) | h4) | rfl
  · cases hc : k.cond with
    | none => simp [hc] at h1
    | some tc =>
      obtain ⟨t, c⟩ := tc
      simp only [hc, List.mem_singleton] at h1
      subst h1
      have ht := nonl_tok (hk t c hc)
      unfold NoNl at *
      simp only [List.mem_append, List.mem_cons, not_or]
      refine ⟨?_, by decide, ht⟩
      cases c <;> decide
  · by_cases hgr : k.group = ""
    · simp [hgr] at h2
    · simp only [hgr, if_false, List.mem_singleton] at h2
      subst h2; exact nonl_commentText _ hg
  · have := hx x (List.mem_mergeSort.mp hxm)
    exact nonl_ixnText W ns name x this.1 this.2
  · cases hc : k.cond with
    | none => simp [hc] at h4
    | some tc =>
      simp only [hc, List.mem_singleton] at h4
      subst h4; unfold NoNl; decide
  · unfold NoNl; simp

theorem knownHeaders_nonl : ∀ s ∈ knownHeaders, '\n' ∉ headerLineText s := by decide

theorem nonl_sectionText (W : Widths) (ns : List Atom) (s : String × List Ixn)
    (hh : headerName s.1 ∈ knownHeaders) (hx : ∀ x ∈ s.2, IxnOk x ∧ IxnNl x) :
    ∀ l ∈ sectionText W ns s, NoNl l := by
  intro l hl
  unfold sectionText at hl
  simp only [List.mem_cons, List.mem_flatMap] at hl
  rcases hl with rfl | ⟨kg, hkg, hl⟩
  · exact knownHeaders_nonl _ hh
  · have hne := runs_nonempty Ixn.gkey _ kg hkg
    obtain ⟨x0, hx0⟩ := List.exists_mem_of_ne_nil _ hne
    have hkey := Proofs.ItpIO.runs_key Ixn.gkey _ kg hkg x0 hx0
    have h0 := hx x0 (Proofs.ItpIO.mem_sectionGroups hkg hx0)
    apply nonl_groupText W ns s.1 kg.1 kg.2 _ _ _ l hl
    · intro x hxm
      have := hx x (Proofs.ItpIO.mem_sectionGroups hkg hxm)
      exact ⟨this.1.1, this.2.2⟩
    · intro t c hc
      exact gkey_cond_clean x0 h0.1 t c (by rw [hkey]; exact hc)
    · rw [← hkey]; exact h0.2.1

theorem nonl_writeItpText (header : List String) (moltype : Tok) (m : Mol) (text : List (List Char))
    (hw : writeItpText header moltype m = .ok text) (htok : tokensOk moltype m = true)
    (hhdr : headersOk m = true) (hnn : noNewlines header m = true) :
    ∀ l ∈ text, NoNl l := by
  unfold tokensOk at htok
  simp only [Bool.and_eq_true, List.all_eq_true] at htok
  obtain ⟨⟨⟨hm1, _⟩, hat⟩, hsec⟩ := htok
  unfold headersOk at hhdr
  simp only [List.all_eq_true, Bool.or_eq_true, List.isEmpty_iff, List.contains_eq_mem, decide_eq_true_eq] at hhdr
  unfold noNewlines at hnn
  simp only [Bool.and_eq_true, List.all_eq_true, Bool.not_eq_true', List.contains_eq_mem, decide_eq_false_iff_not] at hnn
  obtain ⟨hnh, hns⟩ := hnn
  unfold writeItpText at hw
  by_cases hne : (sortedNodes m).isEmpty = true
  · simp [hne] at hw
  · simp only [hne, Bool.false_eq_true, if_false] at hw
    by_cases hwr : (sortSections m.sections).all (fun s => s.2.all (ixnWritable (sortedNodes m) s.1)) = true
    · simp only [hwr, Bool.not_true, Bool.false_eq_true, if_false, Except.ok.injEq] at hw
      subst hw
      have hsecs : (sortSections m.sections).Perm (m.sections.filter (fun s => !s.2.isEmpty)) :=
        List.mergeSort_perm _ _
      have hatoms : ∀ a ∈ sortedNodes m, cleanTok a.atype = true ∧ cleanTok a.resname = true ∧
          cleanTok a.name = true ∧ optClean a.charge = true ∧ optClean a.mass = true := by
        intro a ha
        have := hat a (List.mem_mergeSort.mp ha)
        obtain ⟨⟨⟨⟨h1, h2⟩, h3⟩, h4⟩, h5⟩ := this
        exact ⟨h1, h2, h3, h4, h5⟩
      intro l hl
      simp only [List.mem_append, List.mem_cons, List.mem_flatMap, List.not_mem_nil, or_false] at hl
      rcases hl with (((hh | hfix) | hatm) | rfl) | ⟨s, hs, hl⟩
      · unfold headerText at hh
        split at hh
        · simp at hh
        · simp only [List.mem_append, List.mem_map, List.mem_singleton] at hh
          rcases hh with ⟨h, hhm, rfl⟩ | rfl
          · exact nonl_commentText _ (hnh h hhm)
          · unfold NoNl; simp
      · rcases hfix with rfl | rfl | rfl | rfl
        · unfold NoNl; decide
        · have h1 := nonl_tok hm1
          have h2 := nonl_natTok m.nrexcl
          unfold NoNl at *
          simp only [List.mem_append, List.mem_cons, not_or]
          exact ⟨h1, by decide, h2⟩
        · unfold NoNl; simp
        · unfold NoNl; decide
      · exact nonl_atomTextFrom _ _ _ hatoms l hatm
      · unfold NoNl; simp
      · have hs' := List.mem_filter.mp (hsecs.mem_iff.mp hs)
        have hsm : s ∈ m.sections := hs'.1
        apply nonl_sectionText _ _ s _ _ l hl
        · rcases hhdr s hsm with h | h
          · simp [h] at hs'
          · exact h
        · intro x hx
          have h1 := hsec s hsm x hx
          have h2 := (List.all_eq_true.mp ((List.all_eq_true.mp hwr) s hs)) x hx
          unfold ixnWritable at h2
          simp only [Bool.and_eq_true, decide_eq_true_eq] at h2
          have h3 := hns s hsm x hx
          exact ⟨⟨h1.1.1, h1.1.2, h1.2, Nat.le_trans (one_le_minAtoms s.1) h2.2⟩, h3.1, h3.2⟩
    · simp [hwr] at hw

end PolyplyVerif.Proofs.C11Lex
