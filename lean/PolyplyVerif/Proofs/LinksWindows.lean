/-
Helper lemmas for `C02_dangling_windows` (Properties/C02.lean): on the chain of `N` one-atom residues
(`Links.chainInput`) the path-shaped link over `k+1` consecutive residues (`Links.pathLink`, what a dangling
interaction of a monomer .itp stands for) is matched exactly at the windows `j, j+1, …, j+k` with
`j + k < N` — for every `N` and `k`.  The induced-match part needs no case split on `N`: the relative-order
check forces the resids to be `m₀, m₀+1, …` (`order_forces_window`), and every window IS an induced match
with unique atoms (`window_isResMatch`, `window_matchAtoms`).  Core Lean only.
-/
import PolyplyVerif.Model.Links
import PolyplyVerif.Proofs.Links

set_option linter.unusedSimpArgs false
set_option linter.unusedVariables false

namespace PolyplyVerif.Links

/-! ### windows: the path-shaped link on the chain -/

def pkey (i : Nat) : String := plusPrefix i ++ "BB"

theorem plusPrefix_length (i : Nat) : (plusPrefix i).length = i := by
  induction i with
  | zero => rfl
  | succ i ih =>
    have h1 : "+".length = 1 := by decide
    simp [plusPrefix, String.length_append, ih, h1]

theorem pkey_inj {i j : Nat} (h : pkey i = pkey j) : i = j := by
  have := congrArg String.length h
  simp [pkey, String.length_append, plusPrefix_length] at this
  exact this

theorem find?_unique {α : Type} (p : α → Bool) (l : List α) (x : α) (hx : x ∈ l) (hp : p x = true)
    (hu : ∀ y ∈ l, p y = true → y = x) : l.find? p = some x := by
  induction l with
  | nil => cases hx
  | cons a l ih =>
    by_cases ha : p a = true
    · rw [List.find?_cons_of_pos ha, hu a List.mem_cons_self ha]
    · rw [List.find?_cons_of_neg ha]
      rcases List.mem_cons.mp hx with rfl | hx
      · exact absurd hp ha
      · exact ih hx (fun y hy => hu y (List.mem_cons_of_mem _ hy))

theorem find?_none_of {α : Type} (p : α → Bool) (l : List α) (h : ∀ y ∈ l, p y = false) : l.find? p = none := by
  rw [List.find?_eq_none]; intro y hy; simp [h y hy]

theorem dedup_of_nodup {α : Type} [BEq α] [LawfulBEq α] (l : List α) (h : l.Nodup) : dedup l = l := by
  induction l with
  | nil => rfl
  | cons x xs ih =>
    rw [List.nodup_cons] at h
    unfold dedup
    rw [ih h.2]
    congr 1
    apply List.filter_eq_self.mpr
    intro y hy
    simp only [Bool.not_eq_true', beq_eq_false_iff_ne, ne_eq]
    intro hyx; exact h.1 (hyx ▸ hy)

theorem commonVal_const {α : Type} [BEq α] [LawfulBEq α] (l : List (Option α)) (v : Option α) (hne : l ≠ [])
    (h : ∀ x ∈ l, x = v) : commonVal l = v := by
  cases l with
  | nil => exact absurd rfl hne
  | cons x xs =>
    simp only [commonVal]
    have hx := h x List.mem_cons_self
    have : xs.all (fun y => y == x) = true := by
      rw [List.all_eq_true]; intro y hy
      rw [h y (List.mem_cons_of_mem _ hy), hx]; simp
    rw [this, if_pos rfl, hx]


def patom (i : Nat) : LAtom := ⟨pkey i, .num i, [("atomname", .eq "s:BB"), ("resname", .eq "s:A")], [], false⟩

theorem pathLink_atoms (k : Nat) : (pathLink k).atoms = (List.range (k + 1)).map patom := rfl
theorem pathLink_edges (k : Nat) : (pathLink k).edges = (List.range k).map (fun i => (pkey i, pkey (i + 1), none)) := rfl

theorem pathLink_atom? (k i : Nat) (hi : i ≤ k) : (pathLink k).atom? (pkey i) = some (patom i) := by
  unfold Link.atom?
  rw [pathLink_atoms]
  apply find?_unique
  · exact List.mem_map.mpr ⟨i, List.mem_range.mpr (by omega), rfl⟩
  · simp [patom]
  · intro y hy hp
    obtain ⟨j, _, rfl⟩ := List.mem_map.mp hy
    have : pkey j = pkey i := by simpa [patom] using hp
    rw [pkey_inj this]

theorem pathLink_orderOf? (k i : Nat) (hi : i ≤ k) : (pathLink k).orderOf? (pkey i) = some (.num i) := by
  unfold Link.orderOf?; rw [pathLink_atom? k i hi]; rfl

theorem num_injective : Function.Injective (fun i : Nat => Order.num (i : Int)) := by
  intro a b h
  have : (a : Int) = b := by injection h
  exact Int.ofNat.inj this

theorem pathLink_orders (k : Nat) : (pathLink k).orders = (List.range (k + 1)).map (fun i : Nat => Order.num (i : Int)) := by
  unfold Link.orders
  rw [pathLink_atoms, List.map_map]
  apply dedup_of_nodup
  unfold List.Nodup
  rw [List.pairwise_map]
  exact List.Pairwise.imp (fun hne h => hne (num_injective h)) List.nodup_range

theorem pathLink_resOf (k i : Nat) (hi : i ≤ k) : (pathLink k).resOf (.num i) = ⟨.num i, some (.eq "s:A")⟩ := by
  unfold Link.resOf
  congr 1
  apply commonVal_const
  · intro h
    have hm : patom i ∈ (pathLink k).atoms.filter (fun a => a.order == Order.num i) := by
      rw [List.mem_filter, pathLink_atoms]
      exact ⟨List.mem_map.mpr ⟨i, List.mem_range.mpr (by omega), rfl⟩, by simp [patom]⟩
    have : patom i ∈ ([] : List LAtom) := by
      have h2 := List.map_eq_nil_iff.mp h
      rw [h2] at hm; exact hm
    cases this
  · intro x hx
    obtain ⟨a, ha, rfl⟩ := List.mem_map.mp hx
    have ha2 := (List.mem_filter.mp ha).1
    rw [pathLink_atoms] at ha2
    obtain ⟨j, _, rfl⟩ := List.mem_map.mp ha2
    rfl

theorem pathLink_resLink (k : Nat) :
    (pathLink k).resLink = (List.range (k + 1)).map (fun i : Nat => (⟨.num (i : Int), some (.eq "s:A")⟩ : LRes)) := by
  unfold Link.resLink
  rw [pathLink_orders, List.map_map]
  apply List.map_congr_left
  intro i hi
  exact pathLink_resOf k i (by have := List.mem_range.mp hi; omega)

def adj (a b : Nat) : Prop := a + 1 = b ∨ b + 1 = a
instance (a b : Nat) : Decidable (adj a b) := by unfold adj; infer_instance

theorem num_beq (a b : Nat) : (Order.num (a : Int) == Order.num (b : Int)) = decide (a = b) := by
  by_cases h : a = b
  · subst h; simp
  · have : Order.num (a : Int) ≠ Order.num (b : Int) := fun hh => h (num_injective hh)
    simp [h, this]

theorem pathLink_crossEdges_none (k : Nat) (o1 o2 : Order) : ∀ t ∈ (pathLink k).crossEdges o1 o2, t = none := by
  intro t ht
  unfold Link.crossEdges at ht
  obtain ⟨e, he, hf⟩ := List.mem_filterMap.mp ht
  rw [pathLink_edges] at he
  obtain ⟨j, _, rfl⟩ := List.mem_map.mp he
  simp only [] at hf
  split at hf
  · split at hf
    · injection hf with hf; exact hf.symm
    · cases hf
  · cases hf

theorem pathLink_resEdge? (k i i' : Nat) (hi : i ≤ k) (hi' : i' ≤ k) (hne : i ≠ i') :
    (pathLink k).resEdge? (.num i) (.num i') = if adj i i' then some none else none := by
  unfold Link.resEdge?
  have h0 : (Order.num (i : Int) == Order.num (i' : Int)) = false := by rw [num_beq]; simp [hne]
  rw [h0]
  simp only [Bool.false_eq_true, if_false]
  by_cases ha : adj i i'
  · rw [if_pos ha]
    -- an edge of the link joins the two residues
    have hmem : (none : Option Val) ∈ (pathLink k).crossEdges (.num i) (.num i') := by
      unfold Link.crossEdges
      rw [List.mem_filterMap]
      rcases ha with h | h
      · refine ⟨(pkey i, pkey (i + 1), none), ?_, ?_⟩
        · rw [pathLink_edges]; exact List.mem_map.mpr ⟨i, List.mem_range.mpr (by omega), rfl⟩
        · simp only []
          rw [pathLink_orderOf? k i hi, pathLink_orderOf? k (i + 1) (by omega)]
          subst h
          simp [num_beq]
      · refine ⟨(pkey i', pkey (i' + 1), none), ?_, ?_⟩
        · rw [pathLink_edges]; exact List.mem_map.mpr ⟨i', List.mem_range.mpr (by omega), rfl⟩
        · simp only []
          rw [pathLink_orderOf? k i' hi', pathLink_orderOf? k (i' + 1) (by omega)]
          subst h
          simp [num_beq]
    cases hc : (pathLink k).crossEdges (.num i) (.num i') with
    | nil => rw [hc] at hmem; cases hmem
    | cons t ts =>
      have ht : t = none := pathLink_crossEdges_none k _ _ t (by rw [hc]; exact List.mem_cons_self)
      simp only [ht]
      split <;> rfl
  · rw [if_neg ha]
    have hnil : (pathLink k).crossEdges (.num i) (.num i') = [] := by
      unfold Link.crossEdges
      rw [List.filterMap_eq_nil_iff]
      intro e he
      rw [pathLink_edges] at he
      obtain ⟨j, hj, rfl⟩ := List.mem_map.mp he
      have hj := List.mem_range.mp hj
      simp only []
      rw [pathLink_orderOf? k j (by omega), pathLink_orderOf? k (j + 1) (by omega)]
      simp only [num_beq]
      have : ¬ ((j = i ∧ j + 1 = i') ∨ (j = i' ∧ j + 1 = i)) := by
        unfold adj at ha; omega
      simp only [Bool.and_eq_true, Bool.or_eq_true, decide_eq_true_eq, this, if_false]
    rw [hnil]

theorem chain_redge? (N : Nat) (links : List Link) (a b : Nat) :
    (chainInput N links).redge? a b =
      if (∃ t, t < N - 1 ∧ ((t = a ∧ t + 1 = b) ∨ (t = b ∧ t + 1 = a))) then some none else none := by
  unfold Input.redge?
  have hred : (chainInput N links).redges = (List.range (N - 1)).map (fun i => (i, i + 1, (none : Option Val))) := rfl
  rw [hred]
  cases hf : List.find? (fun e : Nat × Nat × Option Val => (e.1 == a && e.2.1 == b) || (e.1 == b && e.2.1 == a))
      ((List.range (N - 1)).map (fun i => (i, i + 1, (none : Option Val)))) with
  | none =>
    rw [List.find?_eq_none] at hf
    rw [if_neg]; · rfl
    rintro ⟨t, ht, h⟩
    have := hf (t, t + 1, none) (List.mem_map.mpr ⟨t, List.mem_range.mpr ht, rfl⟩)
    apply this
    simp only [Bool.or_eq_true, Bool.and_eq_true, beq_iff_eq]
    exact h
  | some e =>
    have hmem := List.mem_of_find?_eq_some hf
    have hp := List.find?_some hf
    obtain ⟨t, ht, rfl⟩ := List.mem_map.mp hmem
    simp only [Bool.or_eq_true, Bool.and_eq_true, beq_iff_eq] at hp
    rw [if_pos ⟨t, List.mem_range.mp ht, hp⟩]
    rfl

theorem window_pairOK (N k j i i' : Nat) (links : List Link) (hj : j + k < N) (hi : i ≤ k) (hi' : i' ≤ k) (hne : i ≠ i') :
    pairOK (chainInput N links) (pathLink k) (.num i) (i + j) (.num i') (i' + j) = true := by
  unfold pairOK
  rw [pathLink_resEdge? k i i' hi hi' hne, chain_redge?]
  have hn : (i + j != i' + j) = true := by simp; omega
  rw [hn, Bool.true_and]
  by_cases ha : adj i i'
  · have : ∃ t, t < N - 1 ∧ ((t = i + j ∧ t + 1 = i' + j) ∨ (t = i' + j ∧ t + 1 = i + j)) := by
      rcases ha with h | h
      · exact ⟨i + j, by omega, Or.inl ⟨rfl, by omega⟩⟩
      · exact ⟨i' + j, by omega, Or.inr ⟨rfl, by omega⟩⟩
    rw [if_pos ha, if_pos this]; rfl
  · have : ¬ ∃ t, t < N - 1 ∧ ((t = i + j ∧ t + 1 = i' + j) ∨ (t = i' + j ∧ t + 1 = i + j)) := by
      rintro ⟨t, _, h⟩; apply ha; unfold adj; omega
    rw [if_neg ha, if_neg this]

def cattrs : MAttrs := [("atomname", "s:BB"), ("resname", "s:A")]
def cnode (n : Nat) : ResNode := ⟨n, (n : Int) + 1, [("resname", "s:A")], [(n, cattrs)]⟩

theorem chain_res (N : Nat) (links : List Link) : (chainInput N links).res = (List.range N).map cnode := rfl

theorem chain_resNode? (N : Nat) (links : List Link) (n : Nat) (hn : n < N) :
    (chainInput N links).resNode? n = some (cnode n) := by
  unfold Input.resNode?
  rw [chain_res]
  apply find?_unique
  · exact List.mem_map.mpr ⟨n, List.mem_range.mpr hn, rfl⟩
  · simp [cnode]
  · intro y hy hp
    obtain ⟨t, _, rfl⟩ := List.mem_map.mp hy
    have : t = n := by simpa [cnode] using hp
    rw [this]

theorem chain_mem_res (N : Nat) (links : List Link) (nd : ResNode) (h : nd ∈ (chainInput N links).res) :
    nd.key < N ∧ nd = cnode nd.key := by
  rw [chain_res] at h
  obtain ⟨t, ht, rfl⟩ := List.mem_map.mp h
  exact ⟨List.mem_range.mp ht, rfl⟩

def window (k j : Nat) : List Nat := (List.range (k + 1)).map (· + j)

theorem zip_map_range {α β : Type} (n : Nat) (f : Nat → α) (g : Nat → β) :
    ((List.range n).map f).zip ((List.range n).map g) = (List.range n).map (fun i => (f i, g i)) := by
  generalize List.range n = l
  induction l with
  | nil => rfl
  | cons a l ih => simp [ih]

theorem nodeOK_cnode (o : Order) (n : Nat) : nodeOK ⟨o, some (.eq "s:A")⟩ (cnode n) = true := by
  simp [nodeOK, cnode, Tmpl.matches, MAttrs.get, MAttrs.find, lookupKV]

theorem window_isResMatch (N k j : Nat) (links : List Link) (hj : j + k < N) :
    isResMatch (chainInput N links) (pathLink k) (window k j) := by
  unfold isResMatch
  rw [pathLink_resLink]
  refine ⟨by simp [window], ?_, ?_⟩
  · unfold window
    rw [zip_map_range]
    intro p hp
    obtain ⟨i, hi, rfl⟩ := List.mem_map.mp hp
    have hi := List.mem_range.mp hi
    refine ⟨cnode (i + j), ?_, rfl, ?_⟩
    · rw [chain_res]; exact List.mem_map.mpr ⟨i + j, List.mem_range.mpr (by omega), rfl⟩
    · exact nodeOK_cnode _ _
  · unfold window
    rw [zip_map_range, List.pairwise_map]
    apply List.Pairwise.imp_of_mem (R := fun a b => a < b)
    · intro a b ha hb hlt
      have ha := List.mem_range.mp ha
      have hb := List.mem_range.mp hb
      exact window_pairOK N k j a b links hj (by omega) (by omega) (by omega)
    · exact List.pairwise_lt_range

theorem mapM_option_of_forall {α β : Type} (f : α → Option β) (g : α → β) (l : List α)
    (h : ∀ x ∈ l, f x = some (g x)) : l.mapM f = some (l.map g) := by
  induction l with
  | nil => rfl
  | cons a l ih =>
    rw [List.mapM_cons, h a List.mem_cons_self, ih (fun x hx => h x (List.mem_cons_of_mem _ hx))]
    rfl

theorem window_resOfAtom (k j i : Nat) (hi : i ≤ k) :
    resOfAtom (pathLink k) (window k j) (patom i) = some (i + j) := by
  unfold resOfAtom window
  rw [pathLink_orders, zip_map_range]
  have : List.find? (fun p : Order × Nat => p.1 == (patom i).order)
      ((List.range (k + 1)).map (fun i : Nat => (Order.num (i : Int), i + j))) = some (Order.num (i : Int), i + j) := by
    apply find?_unique
    · exact List.mem_map.mpr ⟨i, List.mem_range.mpr (by omega), rfl⟩
    · simp [patom]
    · intro y hy hp
      obtain ⟨t, _, rfl⟩ := List.mem_map.mp hy
      have : t = i := by
        have h2 : (Order.num (t : Int) == Order.num (i : Int)) = true := hp
        rw [num_beq] at h2; simpa using h2
      rw [this]
  rw [this]; rfl

theorem findAtoms_cnode (n i : Nat) : findAtoms (cnode n) (patom i) = [n] := by
  simp [findAtoms, cnode, patom, cattrs, attrsMatch, matchIgnore, Tmpl.matches, MAttrs.get, MAttrs.find, lookupKV]

def wamap (k j : Nat) : AMap := (List.range (k + 1)).map (fun i => (pkey i, i + j))

theorem wamap_get (k j i : Nat) (hi : i ≤ k) : AMap.get (wamap k j) (pkey i) = i + j := by
  unfold AMap.get AMap.get? wamap
  rw [find?_unique (fun p : String × Nat => p.1 == pkey i) _ (pkey i, i + j)
    (List.mem_map.mpr ⟨i, List.mem_range.mpr (by omega), rfl⟩) (by simp)
    (by
      intro y hy hp
      obtain ⟨t, _, rfl⟩ := List.mem_map.mp hy
      have : pkey t = pkey i := by simpa using hp
      rw [pkey_inj this])]
  rfl

theorem window_matchAtoms (N k j : Nat) (links : List Link) (hj : j + k < N) :
    matchAtoms (chainInput N links) (pathLink k) (window k j) = some (wamap k j) := by
  unfold matchAtoms
  rw [pathLink_atoms]
  refine (mapM_option_of_forall _ (fun a => (a.key, AMap.get (wamap k j) a.key)) _ ?_).trans ?_
  · intro a ha
    obtain ⟨i, hi, rfl⟩ := List.mem_map.mp ha
    have hi := List.mem_range.mp hi
    rw [window_resOfAtom k j i (by omega)]
    simp only []
    rw [chain_resNode? N links (i + j) (by omega)]
    simp only []
    rw [findAtoms_cnode]
    simp only [patom]
    rw [wamap_get k j i (by omega)]
  · congr 1
    rw [List.map_map]
    unfold wamap
    apply List.map_congr_left
    intro i hi
    have hi := List.mem_range.mp hi
    simp only [Function.comp, patom]
    have := wamap_get k j i (by omega)
    unfold wamap at this
    rw [this]

theorem window_atoms_map (k j : Nat) :
    (pathLink k).atoms.map (fun a => AMap.get (wamap k j) a.key) = window k j := by
  rw [pathLink_atoms, List.map_map]
  unfold window
  apply List.map_congr_left
  intro i hi
  have hi := List.mem_range.mp hi
  simp only [Function.comp, patom]
  exact wamap_get k j i (by omega)

/-- resid of a chain node, as `tryCand` reads it -/
def cresid (N : Nat) (links : List Link) (n : Nat) : Int :=
  (((chainInput N links).resNode? n).map (·.resid)).getD 0

theorem cresid_of_lt (N : Nat) (links : List Link) (n : Nat) (hn : n < N) : cresid N links n = (n : Int) + 1 := by
  unfold cresid; rw [chain_resNode? N links n hn]; rfl

theorem window_order (N k j : Nat) (links : List Link) (hj : j + k < N) :
    checkRelativeOrder ((pathLink k).orders.zip ((window k j).map (cresid N links))) = true := by
  rw [checkRelativeOrder_iff_pairwise, pathLink_orders]
  unfold window
  rw [List.map_map, zip_map_range, List.pairwise_map]
  apply List.Pairwise.imp_of_mem (R := fun a b => a < b) _ List.pairwise_lt_range
  intro a b ha hb _
  have ha := List.mem_range.mp ha
  have hb := List.mem_range.mp hb
  simp only [Function.comp]
  rw [cresid_of_lt N links (a + j) (by omega), cresid_of_lt N links (b + j) (by omega), matchOrder_num_num]
  omega

theorem order_forces_window (N k : Nat) (links : List Link) (m : List Nat)
    (hm : isResMatch (chainInput N links) (pathLink k) m)
    (ho : checkRelativeOrder ((pathLink k).orders.zip (m.map (cresid N links))) = true) :
    ∃ j, j + k < N ∧ m = window k j := by
  obtain ⟨hlen, hnodes, _⟩ := hm
  rw [pathLink_resLink, List.length_map, List.length_range] at hlen
  -- every element of `m` is a node of the chain
  have hlt : ∀ x ∈ m, x < N := by
    intro x hx
    obtain ⟨r, hr⟩ := mem_zip_snd_of_length (pathLink k).resLink m
      (by rw [hlen, pathLink_resLink, List.length_map, List.length_range]) x hx
    obtain ⟨nd, hnd, hkey, _⟩ := hnodes (r, x) hr
    have := (chain_mem_res N links nd hnd).1
    simp only [] at hkey
    omega
  rw [checkRelativeOrder_iff_pairwise, pathLink_orders, List.pairwise_iff_getElem] at ho
  have hzl : (((List.range (k + 1)).map (fun i : Nat => Order.num (i : Int))).zip (m.map (cresid N links))).length = k + 1 := by
    simp [hlen]
  have h0 : 0 < m.length := by omega
  have key : ∀ i (hi : i < m.length), m[i] = m[0] + i := by
    intro i hi
    by_cases hi0 : i = 0
    · subst hi0; rfl
    · have h := ho 0 i (by omega) (by omega) (by omega)
      simp only [List.getElem_zip, List.getElem_map, List.getElem_range] at h
      rw [cresid_of_lt N links m[0] (hlt _ (List.getElem_mem _)),
          cresid_of_lt N links m[i] (hlt _ (List.getElem_mem _)), matchOrder_num_num] at h
      omega
  refine ⟨m[0], ?_, ?_⟩
  · have hk := key k (by omega)
    have := hlt m[k] (List.getElem_mem _)
    omega
  · apply List.ext_getElem
    · simp [window, hlen]
    · intro i h1 h2
      rw [key i h1]
      simp [window]
      omega

theorem chain_prefilter (N k : Nat) (links : List Link) (hN : 0 < N) :
    prefilter (chainInput N links) (pathLink k) = true := by
  unfold prefilter
  simp only [Bool.and_eq_true, List.any_eq_true]
  refine ⟨⟨"s:A", ?_, ?_⟩, rfl⟩
  · rw [List.mem_filterMap]
    exact ⟨⟨0, 1, cattrs⟩, List.mem_map.mpr ⟨0, List.mem_range.mpr hN, rfl⟩, by decide⟩
  · rw [List.contains_iff_mem, List.mem_flatMap]
    exact ⟨patom 0, by rw [pathLink_atoms]; exact List.mem_map.mpr ⟨0, List.mem_range.mpr (by omega), rfl⟩, by decide⟩

theorem pathLink_nonEdgesOK (k : Nat) (s : St) (am : AMap) : nonEdgesOK s (pathLink k) am = true := rfl
theorem pathLink_patterns (k : Nat) : (pathLink k).patterns.isEmpty = true := rfl

theorem mem_windows_iff (N k : Nat) (w : List Nat) : w ∈ windows N k ↔ ∃ j, j + k < N ∧ w = window k j := by
  unfold windows window
  rw [List.mem_map]
  constructor
  · rintro ⟨j, hj, rfl⟩; exact ⟨j, by have := List.mem_range.mp hj; omega, rfl⟩
  · rintro ⟨j, hj, rfl⟩; exact ⟨j, List.mem_range.mpr (by omega), rfl⟩

end PolyplyVerif.Links
