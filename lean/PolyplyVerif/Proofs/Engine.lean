/-
Lemmas about `Model/Engine.lean`: the consistency invariant of the four views of the neighbour engine is
preserved by every operation, positions follow the abstract map, and the force computed from the trees
equals the specification's sum over the positioned residues.
-/
import Mathlib.Data.List.Nodup
import Mathlib.Data.List.Perm.Basic
import Mathlib.Tactic.Ring
import Mathlib.Tactic.Linarith
import PolyplyVerif.Model.Engine
import PolyplyVerif.Proofs.Geometry

namespace PolyplyVerif.Proofs.Engine
open PolyplyVerif.Geometry PolyplyVerif.Engine

theorem upd_same {α : Type} (f : Nat → α) (k : Nat) (v : α) : upd f k v k = v := by simp [upd]
theorem upd_other {α : Type} (f : Nat → α) (k i : Nat) (v : α) (h : i ≠ k) : upd f k v i = f i := by
  simp [upd, h]

/-- a positioned residue sits in exactly one tree -/
theorem _root_.PolyplyVerif.Engine.InvP.tree_unique {P : Params} {s : State} {pend : Nat → Prop} (h : InvP P s pend) {g t t' : Nat}
    (ht : t < s.nt) (hg : g ∈ s.defined t) (ht' : t' < s.nt) (hg' : g ∈ s.defined t') : t = t' := by
  have h1 := (h.g2t_iff g t).mpr ⟨ht, hg⟩
  have h2 := (h.g2t_iff g t').mpr ⟨ht', hg'⟩
  rw [h1] at h2
  exact Option.some.inj h2

theorem _root_.PolyplyVerif.Engine.InvP.g2t_none {P : Params} {s : State} {pend : Nat → Prop} (h : InvP P s pend) (g : Nat) :
    s.g2t g = none ↔ s.pos g = none := by
  constructor
  · intro hn
    by_contra hp
    have : (s.pos g).isSome := by
      cases hq : s.pos g with
      | none => exact absurd hq hp
      | some _ => rfl
    obtain ⟨t, ht, hg⟩ := (h.pos_iff g).mp this
    have := (h.g2t_iff g t).mpr ⟨ht, hg⟩
    rw [hn] at this; cases this
  · intro hn
    cases hq : s.g2t g with
    | none => rfl
    | some t =>
      have ⟨ht, hg⟩ := (h.g2t_iff g t).mp hq
      have : (s.pos g).isSome := (h.pos_iff g).mpr ⟨t, ht, hg⟩
      rw [hn] at this; cases this

/-! ### build (`__init__`, `concatenate_trees`) -/

theorem inv_build (P : Params) (pos : Nat → Option V3)
    (hb : ∀ g, (pos g).isSome → g < P.n) (hbox : ∀ g p, pos g = some p → inBox p P.L) :
    Inv P (build P pos) := by
  refine ⟨by simp [build], ?_, ?_, ?_, ?_, hb, hbox⟩
  · intro t ht
    have : t = 0 := by simp [build] at ht; exact ht
    subst this
    simp only [build, if_true]
    exact List.Nodup.filter _ List.nodup_range
  · intro g
    simp only [build]
    constructor
    · intro hg
      exact ⟨0, by simp, by simp [List.mem_filter, hb g hg, hg]⟩
    · rintro ⟨t, ht, hg⟩
      have : t = 0 := by simpa using ht
      subst this
      simp [List.mem_filter] at hg
      exact hg.2
  · intro g t
    simp only [build]
    constructor
    · intro h
      split at h
      · rename_i hc
        cases h
        exact ⟨by simp, by simp [List.mem_filter, hc.1, hc.2]⟩
      · cases h
    · rintro ⟨ht, hg⟩
      have : t = 0 := by simpa using ht
      subst this
      simp [List.mem_filter] at hg
      simp [hg.1, hg.2]
  · intro t ht _
    have : t = 0 := by simp [build] at ht; exact ht
    subst this
    simp [build]

theorem inv_concatenate {P : Params} {s : State} (h : Inv P s) : Inv P (concatenate P s) :=
  inv_build P s.pos h.bound h.box

/-! ### add -/

theorem isSome_upd_some (f : Nat → Option V3) (g : Nat) (p : V3) (g' : Nat) :
    (upd f g (some p) g').isSome ↔ (g' = g ∨ (f g').isSome) := by
  unfold upd
  by_cases hg : g' = g
  · simp [hg]
  · simp [hg]

theorem map_upd_of_not_mem (f : Nat → Option V3) (g : Nat) (v : Option V3) (l : List Nat) (h : g ∉ l) :
    l.map (upd f g v) = l.map f := by
  apply List.map_congr_left
  intro a ha
  have : a ≠ g := fun e => h (e ▸ ha)
  simp [upd, this]

theorem inv_add {P : Params} {s : State} (h : Inv P s) (g : Nat) (p : V3) (start : Bool)
    (hpre : pre P s (.add g p start)) : Inv P (add P s g p start) := by
  obtain ⟨hnone, hgn, hbox⟩ := hpre
  have hnot : ∀ t, t < s.nt → g ∉ s.defined t := by
    intro t ht hg
    have : (s.pos g).isSome := (h.pos_iff g).mpr ⟨t, ht, hg⟩
    rw [hnone] at this; cases this
  have hntpos := h.nt_pos
  unfold add
  dsimp only
  split
  · -- a new tree is opened
    refine ⟨by simp, ?_, ?_, ?_, ?_, ?_, ?_⟩
    · intro t ht
      by_cases e : t = s.nt
      · subst e; simp [upd]
      · have : t < s.nt := by dsimp only at ht; omega
        simp only [upd, e, if_false]; exact h.nodup t this
    · intro g'
      simp only [isSome_upd_some]
      constructor
      · rintro (e | hs)
        · exact ⟨s.nt, by simp, by simp [upd, e]⟩
        · obtain ⟨t, ht, hg⟩ := (h.pos_iff g').mp hs
          exact ⟨t, by omega, by simp only [upd, Nat.ne_of_lt ht, if_false]; exact hg⟩
      · rintro ⟨t, ht, hg⟩
        by_cases e : t = s.nt
        · subst e; simp [upd] at hg; exact Or.inl hg
        · have ht' : t < s.nt := by omega
          simp only [upd, e, if_false] at hg
          exact Or.inr ((h.pos_iff g').mpr ⟨t, ht', hg⟩)
    · intro g' t
      by_cases eg : g' = g
      · subst eg
        simp only [upd, if_true]
        constructor
        · intro e; cases e; exact ⟨by simp, by simp⟩
        · rintro ⟨ht, hg⟩
          by_cases e : t = s.nt
          · rw [e]
          · have ht' : t < s.nt := by omega
            simp only [e, if_false] at hg
            exact absurd hg (hnot t ht')
      · simp only [upd, eg, if_false]
        rw [h.g2t_iff g' t]
        constructor
        · rintro ⟨ht, hg⟩
          exact ⟨by omega, by simp only [Nat.ne_of_lt ht, if_false]; exact hg⟩
        · rintro ⟨ht, hg⟩
          by_cases e : t = s.nt
          · subst e; simp at hg; exact absurd hg eg
          · have ht' : t < s.nt := by omega
            simp only [e, if_false] at hg
            exact ⟨ht', hg⟩
    · intro t ht _
      by_cases e : t = s.nt
      · subst e; simp [upd]
      · have ht' : t < s.nt := by dsimp only at ht; omega
        simp only [upd, e, if_false]
        rw [h.trees_eq t ht' (fun x => x)]
        exact (map_upd_of_not_mem s.pos g (some p) _ (hnot t ht')).symm
    · intro g' hs
      rcases (isSome_upd_some s.pos g p g').mp hs with e | hs'
      · rw [e]; exact hgn
      · exact h.bound g' hs'
    · intro g' q hq
      by_cases e : g' = g
      · subst e; simp [upd] at hq; rw [← hq]; exact hbox
      · simp only [upd, e, if_false] at hq; exact h.box g' q hq
  · -- appended to the last tree
    have hlast : s.nt - 1 < s.nt := by omega
    refine ⟨hntpos, ?_, ?_, ?_, ?_, ?_, ?_⟩
    · intro t ht
      by_cases e : t = s.nt - 1
      · subst e
        simp only [upd, if_true]
        rw [List.nodup_append]
        refine ⟨h.nodup _ hlast, by simp, ?_⟩
        intro a ha b hb
        simp at hb; subst hb
        intro e; subst e; exact hnot _ hlast ha
      · simp only [upd, e, if_false]; exact h.nodup t ht
    · intro g'
      simp only [isSome_upd_some]
      constructor
      · rintro (e | hs)
        · exact ⟨s.nt - 1, hlast, by simp [upd, e]⟩
        · obtain ⟨t, ht, hg⟩ := (h.pos_iff g').mp hs
          refine ⟨t, ht, ?_⟩
          by_cases e : t = s.nt - 1
          · subst e; simp [upd, hg]
          · simp only [upd, e, if_false]; exact hg
      · rintro ⟨t, ht, hg⟩
        by_cases e : t = s.nt - 1
        · subst e
          simp [upd] at hg
          rcases hg with hg | hg
          · exact Or.inr ((h.pos_iff g').mpr ⟨_, hlast, hg⟩)
          · exact Or.inl hg
        · simp only [upd, e, if_false] at hg
          exact Or.inr ((h.pos_iff g').mpr ⟨t, ht, hg⟩)
    · intro g' t
      by_cases eg : g' = g
      · subst eg
        simp only [upd, if_true]
        constructor
        · intro e; cases e; exact ⟨hlast, by simp⟩
        · rintro ⟨ht, hg⟩
          by_cases e : t = s.nt - 1
          · rw [e]
          · simp only [e, if_false] at hg
            exact absurd hg (hnot t ht)
      · simp only [upd, eg, if_false]
        rw [h.g2t_iff g' t]
        constructor
        · rintro ⟨ht, hg⟩
          refine ⟨ht, ?_⟩
          by_cases e : t = s.nt - 1
          · subst e; simp [hg]
          · simp only [e, if_false]; exact hg
        · rintro ⟨ht, hg⟩
          refine ⟨ht, ?_⟩
          by_cases e : t = s.nt - 1
          · subst e
            simp at hg
            rcases hg with hg | hg
            · exact hg
            · exact absurd hg eg
          · simp only [e, if_false] at hg; exact hg
    · intro t ht _
      by_cases e : t = s.nt - 1
      · subst e; simp [upd]
      · simp only [upd, e, if_false]
        rw [h.trees_eq t ht (fun x => x)]
        exact (map_upd_of_not_mem s.pos g (some p) _ (hnot t ht)).symm
    · intro g' hs
      rcases (isSome_upd_some s.pos g p g').mp hs with e | hs'
      · rw [e]; exact hgn
      · exact h.bound g' hs'
    · intro g' q hq
      by_cases e : g' = g
      · subst e; simp [upd] at hq; rw [← hq]; exact hbox
      · simp only [upd, e, if_false] at hq; exact h.box g' q hq

/-! ### remove -/

theorem invP_mono {P : Params} {s : State} {pend pend' : Nat → Prop} (h : InvP P s pend)
    (hp : ∀ t, pend t → pend' t) : InvP P s pend' :=
  { h with trees_eq := fun t ht hn => h.trees_eq t ht (fun hp' => hn (hp t hp')) }

theorem removeOne_pos {P : Params} {pend : Nat → Prop} (acc : State × List Nat) (g : Nat)
    (h : InvP P acc.1 pend) : (removeOne acc g).1.pos = upd acc.1.pos g none := by
  unfold removeOne
  cases hq : acc.1.g2t g with
  | none =>
    have hn := (h.g2t_none g).mp hq
    funext i
    by_cases e : i = g
    · subst e; simp [upd, hn]
    · simp [upd, e]
  | some t => rfl

theorem removeOne_nt (acc : State × List Nat) (g : Nat) : (removeOne acc g).1.nt = acc.1.nt := by
  unfold removeOne
  cases acc.1.g2t g <;> rfl

theorem invP_removeOne {P : Params} (acc : State × List Nat) (g : Nat)
    (h : InvP P acc.1 (· ∈ acc.2)) : InvP P (removeOne acc g).1 (· ∈ (removeOne acc g).2) := by
  unfold removeOne
  cases hq : acc.1.g2t g with
  | none => exact h
  | some t =>
    obtain ⟨ht, hgt⟩ := (h.g2t_iff g t).mp hq
    -- membership in the new index lists
    have mem' : ∀ g' t', t' < acc.1.nt →
        (g' ∈ upd acc.1.defined t ((acc.1.defined t).erase g) t' ↔ g' ≠ g ∧ g' ∈ acc.1.defined t') := by
      intro g' t' ht'
      by_cases e : t' = t
      · subst e
        simp only [upd, if_true]
        exact List.Nodup.mem_erase_iff (h.nodup _ ht)
      · simp only [upd, e, if_false]
        constructor
        · intro hg'
          refine ⟨?_, hg'⟩
          intro eg; subst eg
          exact e (h.tree_unique ht' hg' ht hgt)
        · exact fun hh => hh.2
    refine ⟨h.nt_pos, ?_, ?_, ?_, ?_, ?_, ?_⟩
    · intro t' ht'
      by_cases e : t' = t
      · subst e; simp only [upd, if_true]; exact List.Nodup.erase _ (h.nodup _ ht)
      · simp only [upd, e, if_false]; exact h.nodup t' ht'
    · intro g'
      show (upd acc.1.pos g none g').isSome ↔ ∃ t', t' < acc.1.nt ∧ g' ∈ upd acc.1.defined t _ t'
      by_cases eg : g' = g
      · subst eg
        simp only [upd, if_true]
        constructor
        · intro hh; cases hh
        · rintro ⟨t', ht', hg'⟩
          exact absurd rfl ((mem' _ t' ht').mp hg').1
      · simp only [upd_other _ _ _ _ eg]
        rw [h.pos_iff g']
        constructor
        · rintro ⟨t', ht', hg'⟩; exact ⟨t', ht', (mem' g' t' ht').mpr ⟨eg, hg'⟩⟩
        · rintro ⟨t', ht', hg'⟩; exact ⟨t', ht', ((mem' g' t' ht').mp hg').2⟩
    · intro g' t'
      show upd acc.1.g2t g none g' = some t' ↔ t' < acc.1.nt ∧ g' ∈ upd acc.1.defined t _ t'
      by_cases eg : g' = g
      · subst eg
        simp only [upd, if_true]
        constructor
        · intro hh; cases hh
        · rintro ⟨ht', hg'⟩
          exact absurd rfl ((mem' _ t' ht').mp hg').1
      · simp only [upd_other _ _ _ _ eg]
        rw [h.g2t_iff g' t']
        constructor
        · rintro ⟨ht', hg'⟩; exact ⟨ht', (mem' g' t' ht').mpr ⟨eg, hg'⟩⟩
        · rintro ⟨ht', hg'⟩; exact ⟨ht', ((mem' g' t' ht').mp hg').2⟩
    · intro t' ht' hpend
      have hne : t' ≠ t := by
        intro e; apply hpend; subst e; simp
      have hold : ¬ (t' ∈ acc.2) := by
        intro hm; apply hpend; simp [hm]
      show acc.1.trees t' = (upd acc.1.defined t _ t').map (upd acc.1.pos g none)
      simp only [upd_other _ _ _ _ hne]
      rw [h.trees_eq t' ht' hold]
      have : g ∉ acc.1.defined t' := fun hg' => hne (h.tree_unique ht' hg' ht hgt)
      exact (map_upd_of_not_mem acc.1.pos g none _ this).symm
    · intro g' hs
      show g' < P.n
      have hs' : (upd acc.1.pos g none g').isSome := hs
      by_cases eg : g' = g
      · subst eg; simp [upd] at hs'
      · rw [upd_other _ _ _ _ eg] at hs'; exact h.bound g' hs'
    · intro g' q hq'
      have hq'' : upd acc.1.pos g none g' = some q := hq'
      by_cases eg : g' = g
      · subst eg; simp [upd] at hq''
      · rw [upd_other _ _ _ _ eg] at hq''; exact h.box g' q hq''

theorem invP_removeFold {P : Params} (gs : List Nat) (acc : State × List Nat)
    (h : InvP P acc.1 (· ∈ acc.2)) :
    InvP P (gs.foldl removeOne acc).1 (· ∈ (gs.foldl removeOne acc).2) := by
  induction gs generalizing acc with
  | nil => exact h
  | cons g gs ih => exact ih (removeOne acc g) (invP_removeOne acc g h)

theorem removeFold_pos {P : Params} (gs : List Nat) (acc : State × List Nat)
    (h : InvP P acc.1 (· ∈ acc.2)) (g' : Nat) :
    (gs.foldl removeOne acc).1.pos g' = if g' ∈ gs then none else acc.1.pos g' := by
  induction gs generalizing acc with
  | nil => simp
  | cons g gs ih =>
    simp only [List.foldl_cons]
    rw [ih (removeOne acc g) (invP_removeOne acc g h), removeOne_pos acc g h]
    by_cases e : g' = g
    · subst e; simp [upd]
    · by_cases m : g' ∈ gs
      · simp [m]
      · simp [m, e, upd]

theorem invP_rebuild {P : Params} {s : State} {pend : Nat → Prop} (t : Nat) (h : InvP P s pend) :
    InvP P (rebuild s t) (fun x => pend x ∧ x ≠ t) := by
  refine ⟨h.nt_pos, h.nodup, h.pos_iff, h.g2t_iff, ?_, h.bound, h.box⟩
  intro t' ht' hp
  show upd s.trees t ((s.defined t).map s.pos) t' = (s.defined t').map s.pos
  by_cases e : t' = t
  · subst e; simp [upd]
  · rw [upd_other _ _ _ _ e]
    exact h.trees_eq t' ht' (fun hp' => hp ⟨hp', e⟩)

theorem rebuild_pos (l : List Nat) (s : State) : (l.foldl rebuild s).pos = s.pos := by
  induction l generalizing s with
  | nil => rfl
  | cons t l ih => simp only [List.foldl_cons]; rw [ih]; rfl

theorem invP_rebuildFold {P : Params} (l : List Nat) (s : State) (pend : Nat → Prop)
    (h : InvP P s pend) (hl : ∀ t, pend t → t ∈ l) : Inv P (l.foldl rebuild s) := by
  induction l generalizing s pend with
  | nil => exact invP_mono h (fun t hp => by simpa using hl t hp)
  | cons t l ih =>
    simp only [List.foldl_cons]
    apply ih (rebuild s t) _ (invP_rebuild t h)
    rintro x ⟨hp, hne⟩
    have := hl x hp
    simp at this
    rcases this with e | m
    · exact absurd e hne
    · exact m

theorem inv_remove {P : Params} {s : State} (h : Inv P s) (gs : List Nat) : Inv P (remove s gs) := by
  unfold remove
  have h0 : InvP P (s, ([] : List Nat)).1 (· ∈ (s, ([] : List Nat)).2) :=
    invP_mono h (fun t hp => absurd hp id)
  have h1 := invP_removeFold gs (s, []) h0
  exact invP_rebuildFold _ _ _ h1 (fun t hp => hp)

theorem remove_pos {P : Params} {s : State} (h : Inv P s) (gs : List Nat) (g : Nat) :
    (remove s gs).pos g = if g ∈ gs then none else s.pos g := by
  unfold remove
  have h0 : InvP P (s, ([] : List Nat)).1 (· ∈ (s, ([] : List Nat)).2) :=
    invP_mono h (fun t hp => absurd hp id)
  dsimp only
  rw [rebuild_pos, removeFold_pos gs (s, []) h0 g]

/-! ### every operation, every sequence -/

theorem inv_step {P : Params} {s : State} (h : Inv P s) (op : Op) (hpre : pre P s op) :
    Inv P (step P s op) := by
  cases op with
  | add g p start => exact inv_add h g p start hpre
  | remove gs => exact inv_remove h gs
  | concat => exact inv_concatenate h

theorem inv_run {P : Params} (ops : List Op) {s : State} (h : Inv P s) (hok : okSeq P s ops) :
    Inv P (run P s ops) := by
  induction ops generalizing s with
  | nil => exact h
  | cons op ops ih =>
    obtain ⟨hp, hrest⟩ := hok
    exact ih (inv_step h op hp) hrest

theorem step_pos {P : Params} {s : State} (h : Inv P s) (op : Op) :
    (step P s op).pos = absStep s.pos op := by
  cases op with
  | add g p start =>
    simp only [step, absStep, add]
    split <;> rfl
  | remove gs =>
    funext g
    simp only [step, absStep]
    exact remove_pos h gs g
  | concat => rfl

theorem run_pos {P : Params} (ops : List Op) {s : State} (h : Inv P s) (hok : okSeq P s ops) :
    (run P s ops).pos = absRun s.pos ops := by
  induction ops generalizing s with
  | nil => rfl
  | cons op ops ih =>
    obtain ⟨hp, hrest⟩ := hok
    simp only [run, absRun, List.foldl_cons]
    have := ih (inv_step h op hp) hrest
    simp only [run, absRun] at this
    rw [this, step_pos h op]

/-! ### the force computed from the trees is the specification's sum -/

theorem v3_add_right_comm (a b c : V3) : V3.add (V3.add a b) c = V3.add (V3.add a c) b := by
  cases a; cases b; cases c
  simp only [V3.add]
  congr 1 <;> ring

instance : RightCommutative V3.add := ⟨v3_add_right_comm⟩

theorem v3_sum_perm {l₁ l₂ : List V3} (h : l₁.Perm l₂) : V3.sum l₁ = V3.sum l₂ :=
  List.Perm.foldl_eq h V3.zero

/-- what residue `h` contributes to a query at `point`: `(h, q, d²)` if positioned within the cut-off -/
def nearOf (P : Params) (m : Nat → Option V3) (point : V3) (h : Nat) : Option (Nat × V3 × Rat) :=
  match m h with
  | none => none
  | some q =>
    let d2 := minImageSq point q P.L
    if d2 ≤ P.cut * P.cut then some (h, q, d2) else none

theorem specNear_eq (P : Params) (m : Nat → Option V3) (point : V3) :
    specNear P m point = (List.range P.n).filterMap (nearOf P m point) := rfl

/-- the same from the tree's point of view (distance of the KD-tree) -/
def hitOf (P : Params) (s : State) (point : V3) (h : Nat) : Option (Nat × Rat) :=
  match s.pos h with
  | none => none
  | some q =>
    let d2 := kdDistSq point q P.L
    if d2 ≤ P.cut * P.cut then some (h, d2) else none

def proj (e : Nat × V3 × Rat) : Nat × Rat := (e.1, e.2.2)

theorem zip_map_self {α β : Type} (f : α → β) (l : List α) :
    (l.map f).zip l = l.map (fun h => (f h, h)) := by
  induction l with
  | nil => rfl
  | cons a l ih => simp [ih]

theorem treeHits_eq {P : Params} {s : State} (h : Inv P s) (point : V3) (t : Nat) (ht : t < s.nt) :
    treeHits P s point t = (s.defined t).filterMap (hitOf P s point) := by
  unfold treeHits
  rw [h.trees_eq t ht (fun x => x), zip_map_self, List.filterMap_map]
  apply List.filterMap_congr
  intro x _
  simp only [Function.comp, hitOf]
  cases s.pos x <;> rfl

theorem hitOf_eq {P : Params} {s : State} (h : Inv P s) (hL : boxPos P.L) (point : V3)
    (hp : inBox point P.L) (g : Nat) :
    hitOf P s point g = (nearOf P s.pos point g).map proj := by
  unfold hitOf nearOf
  cases hq : s.pos g with
  | none => rfl
  | some q =>
    have := Proofs.Geometry.kdDistSq_eq_minImageSq point q P.L hL hp (h.box g q hq)
    simp only [this]
    split <;> rfl

theorem nearOf_spec {P : Params} {m : Nat → Option V3} {point : V3} {g : Nat} {e : Nat × V3 × Rat}
    (h : nearOf P m point g = some e) :
    e.1 = g ∧ m g = some e.2.1 ∧ e.2.2 = minImageSq point e.2.1 P.L ∧ e.2.2 ≤ P.cut * P.cut := by
  unfold nearOf at h
  cases hq : m g with
  | none => rw [hq] at h; cases h
  | some q =>
    rw [hq] at h
    dsimp only at h
    split at h
    · rename_i hc
      cases h
      exact ⟨rfl, rfl, rfl, hc⟩
    · cases h

theorem mem_definedList (s : State) (g : Nat) : g ∈ definedList s ↔ ∃ t, t < s.nt ∧ g ∈ s.defined t := by
  simp [definedList, List.mem_flatMap]

theorem nodup_definedList {P : Params} {s : State} (h : Inv P s) : (definedList s).Nodup := by
  unfold definedList
  rw [List.nodup_flatMap]
  refine ⟨fun t ht => h.nodup t (List.mem_range.mp ht), ?_⟩
  apply List.Nodup.pairwise_of_forall_ne List.nodup_range
  intro a ha b hb hab
  simp only [Function.onFun]
  intro x hxa hxb
  exact hab (h.tree_unique (List.mem_range.mp ha) hxa (List.mem_range.mp hb) hxb)

theorem definedList_perm {P : Params} {s : State} (h : Inv P s) :
    (definedList s).Perm ((List.range P.n).filter (fun g => (s.pos g).isSome)) := by
  rw [List.perm_ext_iff_of_nodup (nodup_definedList h) (List.Nodup.filter _ List.nodup_range)]
  intro g
  rw [mem_definedList, ← h.pos_iff g]
  simp only [List.mem_filter, List.mem_range]
  constructor
  · intro hs; exact ⟨h.bound g hs, hs⟩
  · intro hs; exact hs.2

theorem filterMap_filter_of_none {α β : Type} (p : α → Bool) (f : α → Option β) (l : List α)
    (h : ∀ x, p x = false → f x = none) : (l.filter p).filterMap f = l.filterMap f := by
  induction l with
  | nil => rfl
  | cons a l ih =>
    by_cases hp : p a
    · simp [hp, List.filterMap_cons, ih]
    · have : p a = false := by simpa using hp
      simp [this, h a this, ih]

/-- the residues the trees report are, up to order, the specification's list -/
theorem near_perm {P : Params} {s : State} (h : Inv P s) (point : V3) :
    ((definedList s).filterMap (nearOf P s.pos point)).Perm (specNear P s.pos point) := by
  rw [specNear_eq]
  have h1 := List.Perm.filterMap (nearOf P s.pos point) (definedList_perm h)
  rw [filterMap_filter_of_none] at h1
  · exact h1
  · intro x hx
    unfold nearOf
    cases hq : s.pos x with
    | none => rfl
    | some q => rw [hq] at hx; cases hx

theorem hitsAll_eq {P : Params} {s : State} (h : Inv P s) (hL : boxPos P.L) (point : V3)
    (hp : inBox point P.L) :
    (List.range s.nt).flatMap (treeHits P s point)
      = ((definedList s).filterMap (nearOf P s.pos point)).map proj := by
  unfold definedList
  rw [List.map_filterMap, List.filterMap_flatMap]
  apply List.flatMap_congr
  intro t ht
  rw [treeHits_eq h point t (List.mem_range.mp ht)]
  apply List.filterMap_congr
  intro g _
  exact hitOf_eq h hL point hp g

theorem forceLoop_eq (P : Params) (s : State) (point : V3) (g : Nat) (excl : List Nat) (ts : List Nat)
    (acc : V3) :
    forceLoop P s point g excl ts acc =
      if (ts.flatMap (treeHits P s point)).any (tooClose P) then Force.inf
      else Force.vec (((ts.flatMap (treeHits P s point)).filter (fun hd => !excl.contains hd.1)).foldl
        (fun f hd => f + pairTerm P s point g hd) acc) := by
  induction ts generalizing acc with
  | nil => simp [forceLoop]
  | cons t ts ih =>
    unfold forceLoop
    simp only [List.flatMap_cons, List.any_append, List.filter_append, List.foldl_append]
    by_cases hc : (treeHits P s point t).any (tooClose P)
    · simp [hc]
    · have hc' : (treeHits P s point t).any (tooClose P) = false := by simpa using hc
      rw [if_neg hc, ih]
      simp only [hc', Bool.false_or]

/-- the term the loop adds for a reported residue is the specification's pair force -/
theorem pairTerm_eq {P : Params} {s : State} {point : V3} {g : Nat} {e : Nat × V3 × Rat} {k : Nat}
    (he : nearOf P s.pos point k = some e) :
    pairTerm P s point g (proj e) = pairForce (P.inter g e.1).1 (P.inter g e.1).2 point e.2.1 P.L := by
  obtain ⟨h1, h2, h3, _⟩ := nearOf_spec he
  unfold pairTerm proj pairForce
  simp only
  rw [h1, h2, h3]

theorem force_refines {P : Params} {s : State} (h : Inv P s) (hL : boxPos P.L) (point : V3)
    (hp : inBox point P.L) (g : Nat) (excl : List Nat) :
    force P s point g excl = specForce P s.pos point g excl := by
  unfold force specForce
  rw [forceLoop_eq, hitsAll_eq h hL point hp]
  set X := (definedList s).filterMap (nearOf P s.pos point) with hX
  have hperm : X.Perm (specNear P s.pos point) := near_perm h point
  have hmem : ∀ e ∈ X, ∃ k, nearOf P s.pos point k = some e := by
    intro e he
    rw [hX, List.mem_filterMap] at he
    obtain ⟨k, _, hk⟩ := he
    exact ⟨k, hk⟩
  have hany : (X.map proj).any (tooClose P)
      = (specNear P s.pos point).any (fun e => decide (e.2.2 < P.floor * P.floor)) := by
    rw [List.any_map, ← List.Perm.any_eq hperm]
    rfl
  have hsum : ((X.map proj).filter (fun hd => !excl.contains hd.1)).foldl
        (fun f hd => f + pairTerm P s point g hd) V3.zero
      = V3.sum (((specNear P s.pos point).filter (fun e => !excl.contains e.1)).map
          fun e => pairForce (P.inter g e.1).1 (P.inter g e.1).2 point e.2.1 P.L) := by
    rw [List.filter_map, List.foldl_map]
    have hp2 := List.Perm.map (fun e : Nat × V3 × Rat =>
        pairForce (P.inter g e.1).1 (P.inter g e.1).2 point e.2.1 P.L)
      (List.Perm.filter (fun e : Nat × V3 × Rat => !excl.contains e.1) hperm)
    rw [← v3_sum_perm hp2]
    unfold V3.sum
    rw [List.foldl_map]
    apply List.foldl_ext
    intro a e he
    have he' : e ∈ X := (List.mem_filter.mp he).1
    obtain ⟨k, hk⟩ := hmem e he'
    show a + pairTerm P s point g (proj e) = V3.add a _
    rw [pairTerm_eq hk]
    rfl
  simp only [hany, hsum]

/-- the specification's list names each positioned residue within the cut-off exactly once -/
theorem mem_specNear (P : Params) (m : Nat → Option V3) (point : V3) (e : Nat × V3 × Rat) :
    e ∈ specNear P m point ↔
      e.1 < P.n ∧ m e.1 = some e.2.1 ∧ e.2.2 = minImageSq point e.2.1 P.L ∧ e.2.2 ≤ P.cut * P.cut := by
  rw [specNear_eq, List.mem_filterMap]
  constructor
  · rintro ⟨k, hk, he⟩
    obtain ⟨h1, h2, h3, h4⟩ := nearOf_spec he
    rw [h1]
    exact ⟨List.mem_range.mp hk, h1 ▸ h2, h3, h4⟩
  · rintro ⟨h1, h2, h3, h4⟩
    refine ⟨e.1, List.mem_range.mpr h1, ?_⟩
    unfold nearOf
    rw [h2]
    dsimp only
    rw [← h3, if_pos h4]

theorem nodup_specNear (P : Params) (m : Nat → Option V3) (point : V3) :
    ((specNear P m point).map (·.1)).Nodup := by
  rw [specNear_eq, List.map_filterMap]
  have : (List.filterMap (fun x => Option.map (fun e : Nat × V3 × Rat => e.1) (nearOf P m point x)) (List.range P.n))
      = (List.range P.n).filter (fun x => (nearOf P m point x).isSome) := by
    induction (List.range P.n) with
    | nil => rfl
    | cons a l ih =>
      cases hq : nearOf P m point a with
      | none => simp [hq, ih]
      | some e =>
        have := (nearOf_spec hq).1
        simp [hq, ih, this]
  rw [this]
  exact List.Nodup.filter _ List.nodup_range

/-- every positioned residue occurs exactly once in the joined index lists, every other residue not at all -/
theorem count_definedList {P : Params} {s : State} (h : Inv P s) (g : Nat) :
    (definedList s).count g = if (s.pos g).isSome then 1 else 0 := by
  rw [List.Nodup.count (nodup_definedList h)]
  have : g ∈ definedList s ↔ (s.pos g).isSome := by rw [mem_definedList, ← h.pos_iff g]
  by_cases hs : (s.pos g).isSome
  · rw [if_pos (this.mpr hs), if_pos hs]
  · rw [if_neg (fun hm => hs (this.mp hm)), if_neg hs]

/-! ### one placement step (C05) -/

theorem isOverlap_false {P : Params} {W : WalkParams} {s : State} {point : V3} {g : Nat} {excl : List Nat}
    (h : isOverlap P W s point g excl = false) :
    0 ≤ W.maxForce ∧ ∃ f, force P s point g excl = Force.vec f ∧ f.normSq ≤ W.maxForce * W.maxForce := by
  unfold isOverlap at h
  cases hf : force P s point g excl with
  | inf => rw [hf] at h; cases h
  | vec f =>
    rw [hf] at h
    dsimp only at h
    split at h
    · cases h
    · rename_i hneg
      have h2 : ¬ (W.maxForce * W.maxForce < f.normSq) := by simpa using h
      exact ⟨not_lt.mp hneg, f, rfl, not_lt.mp h2⟩

theorem updateLoop_sound {P : Params} {W : WalkParams} {s : State} {other : V3 → Bool} {last : V3}
    {stepLen : Rat} {g : Nat} {excl : List Nat} (choices : List Nat) (bundle : List V3) (count : Nat) {np : V3}
    (h : updateLoop P W s other last stepLen g excl bundle count choices = some np) :
    ∃ v, v ∈ bundle ∧ np = takeStep P.L v stepLen last ∧ other np = true ∧
      isOverlap P W s np g excl = false := by
  induction choices generalizing bundle count with
  | nil => simp [updateLoop] at h
  | cons c cs ih =>
    unfold updateLoop at h
    cases hv : bundle[c % bundle.length]? with
    | none => rw [hv] at h; cases h
    | some v =>
      rw [hv] at h
      dsimp only at h
      have hmem : v ∈ bundle := List.mem_of_getElem? hv
      split at h
      · rename_i hacc
        cases h
        have : other (takeStep P.L v stepLen last) = true ∧
            isOverlap P W s (takeStep P.L v stepLen last) g excl = false := by
          simpa using hacc
        exact ⟨v, hmem, rfl, this.1, this.2⟩
      · split at h
        · cases h
        · obtain ⟨v', hv', rest⟩ := ih _ _ h
          exact ⟨v', List.mem_of_mem_eraseIdx hv', rest⟩

end PolyplyVerif.Proofs.Engine
