/-
Helper lemmas for C01 / C13 about `Model/MapToMol.lean`.
-/
import PolyplyVerif.Model.MapToMol

set_option linter.unusedSectionVars false

namespace PolyplyVerif.Proofs.MapToMol
open PolyplyVerif PolyplyVerif.MapToMol

theorem nodup_map_inj {α β : Type} (f : α → β) : ∀ (l : List α), (l.map f).Nodup →
    ∀ a b, a ∈ l → b ∈ l → f a = f b → a = b := by
  intro l
  induction l with
  | nil => intro _ a b ha; simp at ha
  | cons x xs ih =>
    intro hd a b ha hb hf
    simp only [List.map_cons, List.nodup_cons, List.mem_map, not_exists, not_and] at hd
    rcases List.mem_cons.mp ha with rfl | ha' <;> rcases List.mem_cons.mp hb with rfl | hb'
    · rfl
    · exact absurd hf.symm (hd.1 b hb')
    · exact absurd hf (hd.1 a ha')
    · exact ih hd.2 a b ha' hb' hf

/-! ## `reindex`, `place` -/

theorem reindex_length (s r c : Nat) (as : List BAtom) : (reindex s r c as).length = as.length := by
  induction as generalizing s with
  | nil => rfl
  | cons a rest ih => simp [reindex, ih]

theorem place_length (s r base c : Nat) (as : List BAtom) : (place s r base c as).length = as.length := by
  induction as generalizing s with
  | nil => rfl
  | cons a rest ih => simp [place, ih]

theorem reindex_nodes (s r c : Nat) (as : List BAtom) :
    (reindex s r c as).map (·.node) = List.range' s as.length := by
  induction as generalizing s with
  | nil => rfl
  | cons a rest ih => simp [reindex, ih, List.range'_succ]

/-- adding the offsets read off the previous atom is numbering by the residue id, as long as the resids
inside the block start at 1 -/
theorem reindex_eq_place (s r c : Nat) (as : List BAtom) (h : ∀ a ∈ as, 1 ≤ a.resid) :
    reindex s r c as = place s (r + 1) 1 c as := by
  induction as generalizing s with
  | nil => rfl
  | cons a rest ih =>
    have h1 : 1 ≤ a.resid := h a (by simp)
    have h2 : a.resid + r = r + 1 + (a.resid - 1) := by omega
    simp only [reindex, place, h2]
    rw [ih]
    intro b hb
    exact h b (by simp [hb])

theorem reindex_getLast (s r c : Nat) (as : List BAtom) (a : BAtom) (h : as.getLast? = some a) :
    (reindex s r c as).getLast? = some ⟨s + (as.length - 1), a.resid + r, a.cgrp + c, a.attrs⟩ := by
  induction as generalizing s with
  | nil => simp at h
  | cons b rest ih =>
    cases rest with
    | nil =>
      simp at h
      subst h
      simp [reindex]
    | cons b2 rest2 =>
      have h' : (b2 :: rest2).getLast? = some a := by simpa [List.getLast?_cons_cons] using h
      have := ih (s + 1) h'
      simp only [reindex] at this ⊢
      rw [List.getLast?_cons_cons, this]
      simp only [List.length_cons]
      congr 2
      omega

/-! ## `maxNode`, `refAtom` on a molecule whose nodes are `0 .. n-1` -/

theorem foldl_max_ge (as : List Atom) (acc : Nat) :
    acc ≤ as.foldl (fun acc a => max acc a.node) acc := by
  induction as generalizing acc with
  | nil => simp
  | cons a rest ih =>
    simp only [List.foldl_cons]
    exact Nat.le_trans (Nat.le_max_left _ _) (ih _)

theorem foldl_max_mem (as : List Atom) (acc : Nat) (a : Atom) (h : a ∈ as) :
    a.node ≤ as.foldl (fun acc a => max acc a.node) acc := by
  induction as generalizing acc with
  | nil => simp at h
  | cons b rest ih =>
    simp only [List.foldl_cons]
    rcases List.mem_cons.mp h with rfl | h'
    · exact Nat.le_trans (Nat.le_max_right _ _) (foldl_max_ge _ _)
    · exact ih _ h'

theorem foldl_max_le (as : List Atom) (acc b : Nat) (hacc : acc ≤ b) (h : ∀ a ∈ as, a.node ≤ b) :
    as.foldl (fun acc a => max acc a.node) acc ≤ b := by
  induction as generalizing acc with
  | nil => simpa using hacc
  | cons a rest ih =>
    simp only [List.foldl_cons]
    apply ih
    · exact Nat.max_le.mpr ⟨hacc, h a (by simp)⟩
    · intro x hx
      exact h x (by simp [hx])

/-- "node offset = max node + 1" is the number of atoms when the nodes are `0 .. n-1` -/
theorem maxNode_range (as : List Atom) (hn : as ≠ []) (h : as.map (·.node) = List.range as.length) :
    maxNode as + 1 = as.length := by
  have hlen : 0 < as.length := List.length_pos_iff.mpr hn
  have hle : maxNode as ≤ as.length - 1 := by
    apply foldl_max_le _ _ _ (Nat.zero_le _)
    intro a ha
    have : a.node ∈ as.map (·.node) := List.mem_map.mpr ⟨a, ha, rfl⟩
    rw [h] at this
    have := List.mem_range.mp this
    omega
  have hge : as.length - 1 ≤ maxNode as := by
    have hm : as.length - 1 ∈ as.map (·.node) := by
      rw [h]
      exact List.mem_range.mpr (by omega)
    obtain ⟨a, ha, hnode⟩ := List.mem_map.mp hm
    have := foldl_max_mem as 0 a ha
    simp only [maxNode]
    omega
  omega

theorem refAtom_of_getLast (as : List Atom) (a : Atom) (h : as.getLast? = some a) (hr : a.resid ≠ 0) :
    refAtom as = some a := by
  have hne : as ≠ [] := by
    intro hnil
    simp [hnil] at h
  obtain ⟨init, rfl⟩ : ∃ init, as = init ++ [a] := by
    refine ⟨as.dropLast, ?_⟩
    have h1 := List.dropLast_concat_getLast hne
    have h2 : as.getLast hne = a := by
      have := List.getLast?_eq_some_getLast hne
      rw [this] at h
      exact Option.some.inj h
    rw [h2] at h1
    exact h1.symm
  simp [refAtom, hr]

/-! ## the invariant of the growing molecule -/

/-- nodes are `0 .. n-1`, the molecule is not empty, its last atom has resid `r ≠ 0` and charge group `c` -/
structure Good (m : Mol) (r c : Nat) : Prop where
  nodes : m.atoms.map (·.node) = List.range m.atoms.length
  last : ∃ a, m.atoms.getLast? = some a ∧ a.resid = r ∧ a.cgrp = c
  rpos : r ≠ 0

theorem Good.ne_nil {m : Mol} {r c : Nat} (g : Good m r c) : m.atoms ≠ [] := by
  obtain ⟨a, ha, _⟩ := g.last
  intro h
  simp [h] at ha

/-- `merge_molecule` on a good molecule: node offset = number of atoms, resid offset = resid of the
last atom, charge-group offset likewise; interactions shifted by the node offset -/
theorem mergeMolecule_good (m : Mol) (b : Block) (r c : Nat) (g : Good m r c) :
    mergeMolecule m b =
      (⟨m.atoms ++ reindex m.atoms.length r c b.atoms, m.ixns ++ b.ixns.map (shiftIxn m.atoms.length)⟩,
       (reindex m.atoms.length r c b.atoms).map (·.node)) := by
  obtain ⟨a, ha, har, hac⟩ := g.last
  have href : refAtom m.atoms = some a := refAtom_of_getLast _ _ ha (by rw [har]; exact g.rpos)
  have hmax := maxNode_range m.atoms g.ne_nil g.nodes
  simp only [mergeMolecule, href, hmax, har, hac]

theorem range_append_range' (n k : Nat) : List.range n ++ List.range' n k = List.range (n + k) := by
  rw [List.range_eq_range', List.range_eq_range']
  have := @List.range'_append 0 n k 1
  simpa using this

/-- a good molecule stays good when a non-empty block is merged -/
theorem good_merge (m : Mol) (b : Block) (r c : Nat) (g : Good m r c) (la : BAtom)
    (hla : b.atoms.getLast? = some la) :
    Good (mergeMolecule m b).1 (la.resid + r) (la.cgrp + c) := by
  rw [mergeMolecule_good m b r c g]
  refine ⟨?_, ?_, ?_⟩
  · simp only [List.map_append, g.nodes, reindex_nodes, List.length_append, reindex_length]
    exact range_append_range' _ _
  · refine ⟨⟨m.atoms.length + (b.atoms.length - 1), la.resid + r, la.cgrp + c, la.attrs⟩, ?_, rfl, rfl⟩
    simp only [List.getLast?_append, reindex_getLast _ _ _ _ la hla]
    rfl
  · have := g.rpos
    omega

/-! ## residues that resolve to single-residue blocks -/

section regular
variable {κ : Type} [DecidableEq κ]

/-- a single-residue block: at least one atom, every atom carries resid 1 -/
def SingleBlock (b : Block) : Prop := b.atoms ≠ [] ∧ ∀ a ∈ b.atoms, a.resid = 1

/-- the node is not `from_itp`, `node_to_block` maps it to its residue name, and that name is a
single-residue block of the force field -/
def RegularNode (ff : FF) (t : Tables κ) (n : ResNode κ) : Prop :=
  n.fromItp = none ∧ assocGet? t.blockOf n.key = some n.resname ∧
    ∃ b, ff.block? n.resname = some b ∧ SingleBlock b

theorem multiRes_single (b : Block) (h : SingleBlock b) : b.multiRes = false := by
  obtain ⟨hne, hone⟩ := h
  unfold Block.multiRes
  cases hb : b.atoms with
  | nil => rfl
  | cons a rest =>
    simp only [List.any_eq_false, bne_iff_ne, ne_eq, Decidable.not_not]
    intro x hx
    rw [hone x (by simp [hb, hx]), hone a (by simp [hb])]

theorem blockBase_single (b : Block) (h : SingleBlock b) : blockBase b = 1 := by
  obtain ⟨hne, hone⟩ := h
  unfold blockBase
  cases hb : b.atoms with
  | nil => rfl
  | cons a rest => exact hone a (by simp [hb])

theorem single_getLast (b : Block) (h : SingleBlock b) : ∃ la, b.atoms.getLast? = some la ∧ la.resid = 1 := by
  obtain ⟨hne, hone⟩ := h
  refine ⟨b.atoms.getLast hne, List.getLast?_eq_some_getLast hne, hone _ (List.getLast_mem hne)⟩

theorem lastCg_of_getLast (b : Block) (la : BAtom) (h : b.atoms.getLast? = some la) : lastCg b = la.cgrp := by
  simp [lastCg, h]

theorem stepNode_regular (ff : FF) (t : Tables κ) (st : St κ) (n : ResNode κ) (b : Block)
    (hadd : st.added = []) (hfi : n.fromItp = none)
    (htbl : assocGet? t.blockOf n.key = some n.resname) (hb : ff.block? n.resname = some b)
    (hs : SingleBlock b) :
    stepNode ff t st n = .ok ⟨(mergeMolecule st.mol b).1,
      st.graphs ++ [(n.key, residueOf (mergeMolecule st.mol b).1 (mergeMolecule st.mol b).2 n.resid)],
      st.added, st.corrs⟩ := by
  simp [stepNode, hadd, htbl, hb, hfi, multiRes_single b hs]

/-- the heart of C01: merging the blocks of a resid-sorted, contiguous list of regular residues onto a
good molecule appends exactly the specification's block copies (any number of residues, any sizes) -/
theorem addBlocksFrom_regular (ff : FF) (t : Tables κ) :
    ∀ (rs : List (ResNode κ)) (st : St κ) (r c : Nat),
      Good st.mol r c → st.added = [] → (∀ n ∈ rs, RegularNode ff t n) →
      rs.map (·.resid) = List.range' (r + 1) rs.length →
      ∃ st', addBlocksFrom ff t st rs = .ok st' ∧ st'.added = [] ∧
        st'.mol.atoms = st.mol.atoms ++ (specGo ff st.mol.atoms.length c 0 rs).atoms ∧
        st'.mol.ixns = st.mol.ixns ++ (specGo ff st.mol.atoms.length c 0 rs).ixns := by
  intro rs
  induction rs with
  | nil =>
    intro st r c _ hadd _ _
    exact ⟨st, rfl, hadd, by simp [specGo], by simp [specGo]⟩
  | cons n rest ih =>
    intro st r c g hadd hreg hres
    obtain ⟨hfi, htbl, b, hb, hs⟩ := hreg n (by simp)
    obtain ⟨la, hla, hla1⟩ := single_getLast b hs
    have hstep := stepNode_regular ff t st n b hadd hfi htbl hb hs
    have hnres : n.resid = r + 1 := by
      have := congrArg List.head? hres
      simpa [List.range'_succ] using this
    have hrest : rest.map (·.resid) = List.range' (r + 1 + 1) rest.length := by
      have := congrArg List.tail hres
      simpa [List.range'_succ] using this
    have g1 : Good (mergeMolecule st.mol b).1 (r + 1) (la.cgrp + c) := by
      have := good_merge st.mol b r c g la hla
      rw [hla1] at this
      rw [Nat.add_comm r 1]
      exact this
    have hmerge := mergeMolecule_good st.mol b r c g
    obtain ⟨st', hrun, hadd', hatoms, hixns⟩ :=
      ih ⟨(mergeMolecule st.mol b).1,
          st.graphs ++ [(n.key, residueOf (mergeMolecule st.mol b).1 (mergeMolecule st.mol b).2 n.resid)],
          st.added, st.corrs⟩ (r + 1) (la.cgrp + c) g1 hadd
        (fun m hm => hreg m (by simp [hm])) hrest
    refine ⟨st', ?_, hadd', ?_, ?_⟩
    · simp only [addBlocksFrom, hstep]
      exact hrun
    · rw [hatoms]
      simp only [hmerge, specGo, hfi, Option.getD_none, hb, Option.isSome_none, List.length_append,
        reindex_length, List.append_assoc, hnres, lastCg_of_getLast b la hla, blockBase_single b hs]
      rw [reindex_eq_place _ _ _ _ (fun a ha => by rw [hs.2 a ha]; exact Nat.le_refl 1)]
      simp [Nat.add_comm]
    · rw [hixns]
      simp only [hmerge, specGo, hfi, Option.getD_none, hb, Option.isSome_none, List.length_append,
        reindex_length, List.append_assoc, lastCg_of_getLast b la hla]
      simp [Nat.add_comm]

theorem place_nodes (s r base c : Nat) (as : List BAtom) :
    (place s r base c as).map (·.node) = List.range' s as.length := by
  induction as generalizing s with
  | nil => rfl
  | cons a rest ih => simp [place, ih, List.range'_succ]

theorem place_getLast (s r base c : Nat) (as : List BAtom) (a : BAtom) (h : as.getLast? = some a) :
    (place s r base c as).getLast? = some ⟨s + (as.length - 1), r + (a.resid - base), a.cgrp + c, a.attrs⟩ := by
  induction as generalizing s with
  | nil => simp at h
  | cons b rest ih =>
    cases rest with
    | nil =>
      simp at h
      subst h
      simp [place]
    | cons b2 rest2 =>
      have h' : (b2 :: rest2).getLast? = some a := by simpa [List.getLast?_cons_cons] using h
      have := ih (s + 1) h'
      simp only [place] at this ⊢
      rw [List.getLast?_cons_cons, this]
      simp only [List.length_cons]
      congr 2
      omega

theorem reindex_setResid (s R : Nat) (as : List BAtom) (h : ∀ a ∈ as, a.resid = 1) :
    (reindex s 0 0 as).map (fun a => { a with resid := R }) = place s R 1 0 as := by
  induction as generalizing s with
  | nil => rfl
  | cons a rest ih =>
    have h1 : a.resid = 1 := h a (by simp)
    simp only [reindex, place, List.map_cons, h1]
    rw [ih _ (fun b hb => h b (by simp [hb]))]
    simp

theorem firstNode_regular (ff : FF) (t : Tables κ) (n : ResNode κ) (b : Block)
    (hfi : n.fromItp = none) (htbl : assocGet? t.blockOf n.key = some n.resname)
    (hb : ff.block? n.resname = some b) (hs : SingleBlock b) :
    firstNode ff t n = .ok ⟨⟨place 0 n.resid 1 0 b.atoms, b.ixns.map (shiftIxn 0)⟩,
      [(n.key, (reindex 0 0 0 b.atoms).map (·.node))], [], []⟩ := by
  simp [firstNode, htbl, hb, hfi, multiRes_single b hs, toMolecule, reindex_setResid 0 n.resid b.atoms hs.2]

theorem good_first (b : Block) (R : Nat) (hR : R ≠ 0) (la : BAtom) (hla : b.atoms.getLast? = some la)
    (hla1 : la.resid = 1) (ixns : List Ixn) :
    Good ⟨place 0 R 1 0 b.atoms, ixns⟩ R la.cgrp := by
  refine ⟨?_, ?_, hR⟩
  · simp [place_nodes, place_length, List.range_eq_range']
  · refine ⟨_, place_getLast 0 R 1 0 b.atoms la hla, ?_, ?_⟩ <;> simp [hla1]

/-- `add_blocks` on a resid-sorted list of regular residues with contiguous resids from `start ≥ 1` -/
theorem addBlocksSorted_regular (ff : FF) (t : Tables κ) (rs : List (ResNode κ)) (start : Nat)
    (hne : rs ≠ []) (hstart : 1 ≤ start) (hreg : ∀ n ∈ rs, RegularNode ff t n)
    (hres : rs.map (·.resid) = List.range' start rs.length) :
    ∃ st, addBlocksSorted ff t rs = .ok st ∧ st.mol.atoms = (specGo ff 0 0 0 rs).atoms ∧
      st.mol.ixns = (specGo ff 0 0 0 rs).ixns := by
  cases rs with
  | nil => exact absurd rfl hne
  | cons n rest =>
    obtain ⟨hfi, htbl, b, hb, hs⟩ := hreg n (by simp)
    obtain ⟨la, hla, hla1⟩ := single_getLast b hs
    have hnres : n.resid = start := by
      have := congrArg List.head? hres
      simpa [List.range'_succ] using this
    have hrest : rest.map (·.resid) = List.range' (start + 1) rest.length := by
      have := congrArg List.tail hres
      simpa [List.range'_succ] using this
    have hfirst := firstNode_regular ff t n b hfi htbl hb hs
    have g0 : Good (⟨place 0 n.resid 1 0 b.atoms, b.ixns.map (shiftIxn 0)⟩ : Mol) start la.cgrp := by
      rw [hnres]
      exact good_first b start (by omega) la hla hla1 _
    obtain ⟨st', hrun, _, hatoms, hixns⟩ :=
      addBlocksFrom_regular ff t rest
        ⟨⟨place 0 n.resid 1 0 b.atoms, b.ixns.map (shiftIxn 0)⟩,
          [(n.key, (reindex 0 0 0 b.atoms).map (·.node))], [], []⟩ start la.cgrp g0 rfl
        (fun m hm => hreg m (by simp [hm])) hrest
    refine ⟨st', ?_, ?_, ?_⟩
    · simp only [addBlocksSorted, hfirst]
      exact hrun
    · rw [hatoms]
      simp [specGo, hfi, hb, place_length, lastCg_of_getLast b la hla, blockBase_single b hs]
    · rw [hixns]
      simp [specGo, hfi, hb, place_length, lastCg_of_getLast b la hla]

/-! ## sorting by resid -/

theorem insertByResid_perm (a : ResNode κ) (l : List (ResNode κ)) : (insertByResid a l).Perm (a :: l) := by
  induction l with
  | nil => exact List.Perm.refl _
  | cons b rest ih =>
    unfold insertByResid
    split
    · exact List.Perm.refl _
    · exact (List.Perm.cons b ih).trans (List.Perm.swap a b rest)

theorem insertByResid_sorted (a : ResNode κ) (l : List (ResNode κ))
    (h : l.Pairwise (fun x y => x.resid ≤ y.resid)) :
    (insertByResid a l).Pairwise (fun x y => x.resid ≤ y.resid) := by
  induction l with
  | nil => simp [insertByResid]
  | cons b rest ih =>
    have hb := List.pairwise_cons.mp h
    unfold insertByResid
    split
    · rename_i hlt
      refine List.pairwise_cons.mpr ⟨?_, h⟩
      intro x hx
      rcases List.mem_cons.mp hx with rfl | hx'
      · exact Nat.le_of_lt hlt
      · exact Nat.le_trans (Nat.le_of_lt hlt) (hb.1 x hx')
    · rename_i hge
      refine List.pairwise_cons.mpr ⟨?_, ih hb.2⟩
      intro x hx
      rcases List.mem_cons.mp ((insertByResid_perm a rest).mem_iff.mp hx) with rfl | hx'
      · exact Nat.le_of_not_lt hge
      · exact hb.1 x hx'

theorem sortByResid_perm (ns : List (ResNode κ)) : (sortByResid ns).Perm ns := by
  induction ns with
  | nil => exact List.Perm.refl _
  | cons a rest ih =>
    simp only [sortByResid, List.foldr_cons]
    exact (insertByResid_perm a _).trans (List.Perm.cons a ih)

theorem sortByResid_sorted (ns : List (ResNode κ)) :
    (sortByResid ns).Pairwise (fun a b => a.resid ≤ b.resid) := by
  induction ns with
  | nil => simp [sortByResid]
  | cons a rest ih =>
    simp only [sortByResid, List.foldr_cons]
    exact insertByResid_sorted a _ ih

/-- sorting nodes whose resids are a permutation of `start, start+1, ...` puts them in that order -/
theorem sortByResid_range (ns : List (ResNode κ)) (start : Nat)
    (hperm : (ns.map (·.resid)).Perm (List.range' start ns.length)) :
    (sortByResid ns).map (·.resid) = List.range' start (sortByResid ns).length := by
  have hlen : (sortByResid ns).length = ns.length := (sortByResid_perm ns).length_eq
  rw [hlen]
  apply List.Perm.eq_of_pairwise (le := fun a b : Nat => a ≤ b)
  · intro a b _ _ h1 h2
    exact Nat.le_antisymm h1 h2
  · exact List.Pairwise.map _ (fun _ _ h => h) (sortByResid_sorted ns)
  · exact (List.pairwise_lt_range' (s := start) (n := ns.length) 1).imp (fun h => Nat.le_of_lt h)
  · exact ((sortByResid_perm ns).map _).trans hperm

/-- two node lists that are permutations of each other and have pairwise distinct resids sort to the
same list: Python's `sorted(zip(resids, keys))` never gets to compare two keys -/
theorem sortByResid_of_perm (ns ms : List (ResNode κ)) (hp : ns.Perm ms)
    (hd : (ns.map (·.resid)).Nodup) : sortByResid ns = sortByResid ms := by
  apply List.Perm.eq_of_pairwise (le := fun a b : ResNode κ => a.resid ≤ b.resid)
  · intro a b ha hb h1 h2
    have ha' : a ∈ ns := (sortByResid_perm ns).mem_iff.mp ha
    have hb' : b ∈ ns := hp.mem_iff.mpr ((sortByResid_perm ms).mem_iff.mp hb)
    exact nodup_map_inj _ ns hd a b ha' hb' (Nat.le_antisymm h1 h2)
  · exact sortByResid_sorted ns
  · exact sortByResid_sorted ms
  · exact (sortByResid_perm ns).trans (hp.trans (sortByResid_perm ms).symm)

end regular

/-! ## the `graph` attribute of the residue nodes -/

theorem reindex_resid_const (s r c : Nat) (as : List BAtom) (h : ∀ a ∈ as, a.resid = 1) :
    ∀ a ∈ reindex s r c as, a.resid = 1 + r := by
  induction as generalizing s with
  | nil => intro a ha; simp [reindex] at ha
  | cons b rest ih =>
    intro a ha
    simp only [reindex, List.mem_cons] at ha
    rcases ha with rfl | ha
    · simp [h b (by simp)]
    · exact ih (s + 1) (fun x hx => h x (by simp [hx])) a ha

/-- `_correspondence_to_residue` right after a single-residue block was merged onto a good molecule:
every atom of the new copy is found (its node does not occur earlier) and carries the residue's id -/
theorem residueOf_merge (m : Mol) (b : Block) (r c : Nat) (g : Good m r c) (hs : SingleBlock b) :
    residueOf (mergeMolecule m b).1 (mergeMolecule m b).2 (r + 1) =
      List.range' m.atoms.length b.atoms.length := by
  rw [mergeMolecule_good m b r c g]
  simp only [reindex_nodes]
  unfold residueOf
  apply List.filter_eq_self.mpr
  intro v hv
  have hvr := List.mem_range'_1.mp hv
  simp only [Mol.residOf?, List.find?_append]
  have hnone : List.find? (fun a => a.node == v) m.atoms = none := by
    apply List.find?_eq_none.mpr
    intro a ha
    have : a.node ∈ m.atoms.map (·.node) := List.mem_map.mpr ⟨a, ha, rfl⟩
    rw [g.nodes] at this
    have := List.mem_range.mp this
    simp only [beq_iff_eq, ne_eq]
    omega
  rw [hnone]
  simp only [Option.none_or]
  have hmem : v ∈ (reindex m.atoms.length r c b.atoms).map (·.node) := by
    rw [reindex_nodes]; exact hv
  obtain ⟨a0, ha0, hnode⟩ := List.mem_map.mp hmem
  cases hf : List.find? (fun a => a.node == v) (reindex m.atoms.length r c b.atoms) with
  | none =>
    have := List.find?_eq_none.mp hf a0 ha0
    simp [hnode] at this
  | some a =>
    have ha := List.mem_of_find?_eq_some hf
    have := reindex_resid_const m.atoms.length r c b.atoms hs.2 a ha
    simp [this, Nat.add_comm]

section graphs
variable {κ : Type} [DecidableEq κ]

theorem addBlocksFrom_regular_graphs (ff : FF) (t : Tables κ) :
    ∀ (rs : List (ResNode κ)) (st : St κ) (r c : Nat),
      Good st.mol r c → st.added = [] → (∀ n ∈ rs, RegularNode ff t n) →
      rs.map (·.resid) = List.range' (r + 1) rs.length →
      ∃ st', addBlocksFrom ff t st rs = .ok st' ∧
        st'.graphs = st.graphs ++ specGraphs ff st.mol.atoms.length rs := by
  intro rs
  induction rs with
  | nil =>
    intro st r c _ _ _ _
    exact ⟨st, rfl, by simp [specGraphs]⟩
  | cons n rest ih =>
    intro st r c g hadd hreg hres
    obtain ⟨hfi, htbl, b, hb, hs⟩ := hreg n (by simp)
    obtain ⟨la, hla, hla1⟩ := single_getLast b hs
    have hstep := stepNode_regular ff t st n b hadd hfi htbl hb hs
    have hnres : n.resid = r + 1 := by
      have := congrArg List.head? hres
      simpa [List.range'_succ] using this
    have hrest : rest.map (·.resid) = List.range' (r + 1 + 1) rest.length := by
      have := congrArg List.tail hres
      simpa [List.range'_succ] using this
    have g1 : Good (mergeMolecule st.mol b).1 (r + 1) (la.cgrp + c) := by
      have := good_merge st.mol b r c g la hla
      rw [hla1] at this
      rw [Nat.add_comm r 1]
      exact this
    have hlen : (mergeMolecule st.mol b).1.atoms.length = st.mol.atoms.length + b.atoms.length := by
      rw [mergeMolecule_good st.mol b r c g]
      simp [reindex_length]
    obtain ⟨st', hrun, hgraphs⟩ :=
      ih ⟨(mergeMolecule st.mol b).1,
          st.graphs ++ [(n.key, residueOf (mergeMolecule st.mol b).1 (mergeMolecule st.mol b).2 n.resid)],
          st.added, st.corrs⟩ (r + 1) (la.cgrp + c) g1 hadd
        (fun m hm => hreg m (by simp [hm])) hrest
    refine ⟨st', ?_, ?_⟩
    · simp only [addBlocksFrom, hstep]
      exact hrun
    · rw [hgraphs]
      simp only [specGraphs, hb, hlen, hnres, residueOf_merge st.mol b r c g hs, List.append_assoc,
        List.singleton_append]

/-- after `add_blocks` every residue node's `graph` is exactly the atom range of its block copy -/
theorem addBlocksSorted_regular_graphs (ff : FF) (t : Tables κ) (rs : List (ResNode κ)) (start : Nat)
    (hne : rs ≠ []) (hstart : 1 ≤ start) (hreg : ∀ n ∈ rs, RegularNode ff t n)
    (hres : rs.map (·.resid) = List.range' start rs.length) :
    ∃ st, addBlocksSorted ff t rs = .ok st ∧ st.graphs = specGraphs ff 0 rs := by
  cases rs with
  | nil => exact absurd rfl hne
  | cons n rest =>
    obtain ⟨hfi, htbl, b, hb, hs⟩ := hreg n (by simp)
    obtain ⟨la, hla, hla1⟩ := single_getLast b hs
    have hnres : n.resid = start := by
      have := congrArg List.head? hres
      simpa [List.range'_succ] using this
    have hrest : rest.map (·.resid) = List.range' (start + 1) rest.length := by
      have := congrArg List.tail hres
      simpa [List.range'_succ] using this
    have hfirst := firstNode_regular ff t n b hfi htbl hb hs
    have g0 : Good (⟨place 0 n.resid 1 0 b.atoms, b.ixns.map (shiftIxn 0)⟩ : Mol) start la.cgrp := by
      rw [hnres]
      exact good_first b start (by omega) la hla hla1 _
    obtain ⟨st', hrun, hgraphs⟩ :=
      addBlocksFrom_regular_graphs ff t rest
        ⟨⟨place 0 n.resid 1 0 b.atoms, b.ixns.map (shiftIxn 0)⟩,
          [(n.key, (reindex 0 0 0 b.atoms).map (·.node))], [], []⟩ start la.cgrp g0 rfl
        (fun m hm => hreg m (by simp [hm])) hrest
    refine ⟨st', ?_, ?_⟩
    · simp only [addBlocksSorted, hfirst]
      exact hrun
    · rw [hgraphs]
      simp [specGraphs, hb, place_length, reindex_nodes]

end graphs



/-! ## dictionaries built by repeated assignment (`fold_insert_last` in this model's terms) -/

section assoc
variable {α β ι : Type} [DecidableEq α]

theorem mem_assocSet_self (l : List (α × β)) (k : α) (v : β) : (k, v) ∈ assocSet l k v := by
  induction l with
  | nil => simp [assocSet]
  | cons x xs ih =>
    obtain ⟨k', v'⟩ := x
    by_cases h : k' = k <;> simp [assocSet, h, ih]

theorem mem_assocSet_of_ne (l : List (α × β)) (k k' : α) (v v' : β) (h : (k, v) ∈ l) (hne : k ≠ k') :
    (k, v) ∈ assocSet l k' v' := by
  induction l with
  | nil => simp at h
  | cons x xs ih =>
    obtain ⟨k2, v2⟩ := x
    by_cases h2 : k2 = k'
    · simp only [assocSet, h2, if_true]
      rcases List.mem_cons.mp h with heq | hin
      · have : k = k2 := by injection heq
        exact absurd (this.trans h2) hne
      · exact List.mem_cons_of_mem _ hin
    · simp only [assocSet, h2, if_false]
      rcases List.mem_cons.mp h with heq | hin
      · rw [heq]; exact List.mem_cons_self
      · exact List.mem_cons_of_mem _ (ih hin)

theorem mem_of_mem_assocSet (l : List (α × β)) (k : α) (v : β) (x : α × β) (h : x ∈ assocSet l k v) :
    x ∈ l ∨ x = (k, v) := by
  induction l with
  | nil => simp [assocSet] at h; exact Or.inr h
  | cons y ys ih =>
    obtain ⟨k2, v2⟩ := y
    by_cases h2 : k2 = k
    · simp only [assocSet, h2, if_true] at h
      rcases List.mem_cons.mp h with heq | hin
      · exact Or.inr heq
      · exact Or.inl (List.mem_cons_of_mem _ hin)
    · simp only [assocSet, h2, if_false] at h
      rcases List.mem_cons.mp h with heq | hin
      · exact Or.inl (heq ▸ List.mem_cons_self)
      · rcases ih hin with h3 | h3
        · exact Or.inl (List.mem_cons_of_mem _ h3)
        · exact Or.inr h3

theorem assocSet_keys (l : List (α × β)) (k : α) (v : β) :
    (assocSet l k v).map (·.1) = if k ∈ l.map (·.1) then l.map (·.1) else l.map (·.1) ++ [k] := by
  induction l with
  | nil => simp [assocSet]
  | cons y ys ih =>
    obtain ⟨k2, v2⟩ := y
    by_cases h2 : k2 = k
    · subst h2; simp [assocSet]
    · have h3 : ¬ k = k2 := fun h => h2 h.symm
      simp only [assocSet, h2, if_false, List.map_cons, ih, List.mem_cons, h3, false_or]
      split <;> simp

theorem assocSet_keys_nodup (l : List (α × β)) (k : α) (v : β) (h : (l.map (·.1)).Nodup) :
    ((assocSet l k v).map (·.1)).Nodup := by
  rw [assocSet_keys]
  split
  · exact h
  · rename_i hk
    exact List.nodup_append.mpr ⟨h, by simp, by
      intro a ha b hb
      simp at hb
      subst hb
      intro heq
      exact hk (heq ▸ ha)⟩

theorem assocGet?_assocSet_self (l : List (α × β)) (k : α) (v : β) : assocGet? (assocSet l k v) k = some v := by
  induction l with
  | nil => simp [assocSet, assocGet?]
  | cons x xs ih =>
    obtain ⟨k', v'⟩ := x
    by_cases h : k' = k
    · simp [assocSet, assocGet?, h]
    · unfold assocGet? at ih ⊢
      simp only [assocSet, h, if_false, List.find?_cons, decide_false]
      exact ih

/-- the dictionary after assigning `key x := val x` for every `x` of `l` in order, starting from `acc` -/
def build (key : ι → α) (val : ι → β) (acc : List (α × β)) (l : List ι) : List (α × β) :=
  l.foldl (fun t x => assocSet t (key x) (val x)) acc

theorem build_keys_nodup (key : ι → α) (val : ι → β) (l : List ι) (acc : List (α × β))
    (h : (acc.map (·.1)).Nodup) : ((build key val acc l).map (·.1)).Nodup := by
  induction l generalizing acc with
  | nil => exact h
  | cons x xs ih => exact ih _ (assocSet_keys_nodup acc _ _ h)

theorem build_mem_acc (key : ι → α) (val : ι → β) (l : List ι) (acc : List (α × β)) (k : α) (v : β)
    (h : (k, v) ∈ acc) (hk : k ∉ l.map key) : (k, v) ∈ build key val acc l := by
  induction l generalizing acc with
  | nil => exact h
  | cons x xs ih =>
    simp only [List.map_cons, List.mem_cons, not_or] at hk
    exact ih _ (mem_assocSet_of_ne acc k (key x) v (val x) h hk.1) hk.2

/-- an assignment survives when no later assignment uses the same key -/
theorem build_mem_last (key : ι → α) (val : ι → β) (l1 l2 : List ι) (x : ι) (acc : List (α × β))
    (hk : key x ∉ l2.map key) : (key x, val x) ∈ build key val acc (l1 ++ x :: l2) := by
  unfold build
  rw [List.foldl_append, List.foldl_cons]
  exact build_mem_acc key val l2 _ _ _ (mem_assocSet_self _ _ _) hk

/-- every entry stems from the initial dictionary or from one of the assignments -/
theorem build_mem_inv (key : ι → α) (val : ι → β) (l : List ι) (acc : List (α × β)) (kv : α × β)
    (h : kv ∈ build key val acc l) : kv ∈ acc ∨ ∃ x ∈ l, kv = (key x, val x) := by
  induction l generalizing acc with
  | nil => exact Or.inl h
  | cons x xs ih =>
    rcases ih _ h with h1 | ⟨y, hy, hkv⟩
    · rcases mem_of_mem_assocSet acc _ _ kv h1 with h2 | h2
      · exact Or.inl h2
      · exact Or.inr ⟨x, by simp, h2⟩
    · exact Or.inr ⟨y, by simp [hy], hkv⟩

end assoc

/-! ## `applyLinks`: block interactions carried through link application -/

def insertedIxns (ops : List LinkOp) : List Ixn :=
  ops.filterMap fun | .insert i => some i | _ => none

def replacedNodes (ops : List LinkOp) : List Nat :=
  ops.filterMap fun | .replace n _ => some n | _ => none

def removedNodes (ops : List LinkOp) : List Nat :=
  ops.filterMap fun | .remove n => some n | _ => none

theorem foldl_applyOp_table (ops : List LinkOp) (s : LinkSt) :
    (ops.foldl applyOp s).table = build keyOf id s.table (insertedIxns ops) := by
  induction ops generalizing s with
  | nil => rfl
  | cons op rest ih =>
    cases op <;> simp [applyOp, insertedIxns, ih, build]

theorem foldl_applyOp_removed (ops : List LinkOp) (s : LinkSt) :
    (ops.foldl applyOp s).removed = s.removed ++ removedNodes ops := by
  induction ops generalizing s with
  | nil => simp [removedNodes]
  | cons op rest ih =>
    cases op <;> simp [applyOp, removedNodes, ih]

def proj (a : Atom) : Nat × Nat × Nat := (a.node, a.resid, a.cgrp)

theorem foldl_applyOp_proj (ops : List LinkOp) (s : LinkSt) :
    (ops.foldl applyOp s).atoms.map proj = s.atoms.map proj := by
  induction ops generalizing s with
  | nil => rfl
  | cons op rest ih =>
    cases op with
    | replace n attrs =>
      simp only [List.foldl_cons, applyOp, ih]
      simp only [List.map_map]
      apply List.map_congr_left
      intro a _
      by_cases h : a.node = n <;> simp [h, proj, setAttrs]
    | insert i => simp [applyOp, ih]
    | remove n => simp [applyOp, ih]

theorem foldl_applyOp_untouched (ops : List LinkOp) (s : LinkSt) (a : Atom) (ha : a ∈ s.atoms)
    (hn : a.node ∉ replacedNodes ops) : a ∈ (ops.foldl applyOp s).atoms := by
  induction ops generalizing s with
  | nil => exact ha
  | cons op rest ih =>
    cases op with
    | replace n attrs =>
      simp only [replacedNodes, List.filterMap_cons, List.mem_cons, not_or] at hn
      apply ih
      · simp only [applyOp]
        exact List.mem_map.mpr ⟨a, ha, by simp [hn.1]⟩
      · exact hn.2
    | insert i =>
      apply ih
      · exact ha
      · simpa [replacedNodes] using hn
    | remove n =>
      apply ih
      · exact ha
      · simpa [replacedNodes] using hn

theorem seed_eq_build (ixns : List Ixn) : seed ixns = build keyOf id [] ixns := rfl

theorem build_append {α β ι : Type} [DecidableEq α] (key : ι → α) (val : ι → β) (acc : List (α × β))
    (l1 l2 : List ι) : build key val (build key val acc l1) l2 = build key val acc (l1 ++ l2) := by
  simp [build, List.foldl_append]

theorem nodup_of_map {α β : Type} (f : α → β) (l : List α) (h : (l.map f).Nodup) : l.Nodup := by
  induction l with
  | nil => exact List.nodup_nil
  | cons x xs ih =>
    simp only [List.map_cons, List.nodup_cons] at h ⊢
    exact ⟨fun hx => h.1 (List.mem_map.mpr ⟨x, hx, rfl⟩), ih h.2⟩

theorem filter_const_true {α : Type} (l : List α) : l.filter (fun _ => true) = l := by
  induction l with
  | nil => rfl
  | cons x xs ih => simp [ih]

theorem flush_no_removed (s : LinkSt) (h : s.removed = []) : flush s = s.table.map (·.2) := by
  simp only [flush, h, List.all_nil, filter_const_true]

/-- Frame property of link application, for ANY sequence of link operations without atom removal, on a
molecule whose block interactions have pairwise distinct keys: the result is `core ++ genExcl` where
`core` has no duplicates, contains every block interaction whose key no link writes, and contains
nothing but block interactions and link interactions; atoms keep node, resid and charge group, and
atoms no link `replace`s are unchanged. -/
theorem applyLinks_frame (m : Mol) (ops : List LinkOp) (genExcl : List Ixn)
    (hnodup : (m.ixns.map keyOf).Nodup) (hnorem : removedNodes ops = []) :
    ∃ core, (applyLinks m ops genExcl).ixns = core ++ genExcl ∧ core.Nodup ∧
      (∀ i ∈ m.ixns, keyOf i ∉ (insertedIxns ops).map keyOf → i ∈ core) ∧
      (∀ j ∈ core, j ∈ m.ixns ∨ j ∈ insertedIxns ops) ∧
      (applyLinks m ops genExcl).atoms.map proj = m.atoms.map proj ∧
      (∀ a ∈ m.atoms, a.node ∉ replacedNodes ops → a ∈ (applyLinks m ops genExcl).atoms) := by
  have hrem : (ops.foldl applyOp ⟨m.atoms, seed m.ixns, []⟩).removed = [] := by
    rw [foldl_applyOp_removed, hnorem]
    rfl
  have htab : (ops.foldl applyOp ⟨m.atoms, seed m.ixns, []⟩).table =
      build keyOf id [] (m.ixns ++ insertedIxns ops) := by
    rw [foldl_applyOp_table, seed_eq_build, build_append]
  have hkv : ∀ kv ∈ build keyOf id ([] : List (Key × Ixn)) (m.ixns ++ insertedIxns ops),
      kv.1 = keyOf kv.2 ∧ kv.2 ∈ m.ixns ++ insertedIxns ops := by
    intro kv hin
    rcases build_mem_inv keyOf id _ [] kv hin with h | ⟨x, hx, rfl⟩
    · simp at h
    · exact ⟨rfl, hx⟩
  refine ⟨(build keyOf id [] (m.ixns ++ insertedIxns ops)).map (·.2), ?_, ?_, ?_, ?_, ?_, ?_⟩
  · simp only [applyLinks]
    rw [flush_no_removed _ hrem, htab]
  · apply nodup_of_map keyOf
    have hk := build_keys_nodup keyOf id (m.ixns ++ insertedIxns ops) ([] : List (Key × Ixn)) (by simp)
    have : ((build keyOf id ([] : List (Key × Ixn)) (m.ixns ++ insertedIxns ops)).map (·.2)).map keyOf =
        (build keyOf id ([] : List (Key × Ixn)) (m.ixns ++ insertedIxns ops)).map (·.1) := by
      rw [List.map_map]
      apply List.map_congr_left
      intro kv hin
      exact ((hkv kv hin).1).symm
    rw [this]
    exact hk
  · intro i hi hnot
    obtain ⟨l1, l2, hsplit⟩ := List.append_of_mem hi
    have hl2 : keyOf i ∉ (l2 ++ insertedIxns ops).map keyOf := by
      rw [hsplit] at hnodup
      simp only [List.map_append, List.map_cons] at hnodup
      have h2 := (List.nodup_append.mp hnodup).2.1
      have h3 : keyOf i ∉ l2.map keyOf := (List.nodup_cons.mp h2).1
      simp only [List.map_append, List.mem_append, not_or]
      exact ⟨h3, hnot⟩
    have := build_mem_last keyOf id l1 (l2 ++ insertedIxns ops) i ([] : List (Key × Ixn)) hl2
    have hlist : l1 ++ i :: (l2 ++ insertedIxns ops) = m.ixns ++ insertedIxns ops := by
      rw [hsplit]; simp
    rw [hlist] at this
    exact List.mem_map.mpr ⟨(keyOf i, id i), this, rfl⟩
  · intro j hj
    obtain ⟨kv, hin, rfl⟩ := List.mem_map.mp hj
    exact List.mem_append.mp (hkv kv hin).2
  · simp only [applyLinks]
    rw [hrem]
    simp only [List.not_mem_nil, not_false_eq_true, decide_true, filter_const_true]
    exact foldl_applyOp_proj ops ⟨m.atoms, seed m.ixns, []⟩
  · intro a ha hn
    simp only [applyLinks]
    rw [hrem]
    simp only [List.not_mem_nil, not_false_eq_true, decide_true, filter_const_true]
    exact foldl_applyOp_untouched ops ⟨m.atoms, seed m.ixns, []⟩ a ha hn

/-! ## `applyOneMod`: a modification touches only the atoms it names in its target residue -/

theorem modAtomStep_inv (m : Mol) (md : Modif) (graph : List Nat) :
    ∀ (acc : List Atom × List (String × Nat)),
      ((graph.foldl (modAtomStep m (modAtomsOf md)) acc).1.map proj = acc.1.map proj) ∧
      (∀ a ∈ acc.1, a.node ∉ graph.filter (namedBy m md) →
        a ∈ (graph.foldl (modAtomStep m (modAtomsOf md)) acc).1) ∧
      (∀ kv ∈ (graph.foldl (modAtomStep m (modAtomsOf md)) acc).2,
        kv ∈ acc.2 ∨ kv.2 ∈ graph.filter (namedBy m md)) := by
  induction graph with
  | nil => intro acc; exact ⟨rfl, fun a ha _ => ha, fun kv h => Or.inl h⟩
  | cons v rest ih =>
    intro acc
    simp only [List.foldl_cons]
    cases hname : atomNameOf m v with
    | none =>
      have hstep : modAtomStep m (modAtomsOf md) acc v = acc := by simp [modAtomStep, hname]
      have hnb : namedBy m md v = false := by simp [namedBy, hname]
      rw [hstep]
      obtain ⟨h1, h2, h3⟩ := ih acc
      refine ⟨h1, ?_, ?_⟩
      · intro a ha hn
        exact h2 a ha (by simpa [List.filter_cons, hnb] using hn)
      · intro kv hkv
        rcases h3 kv hkv with h | h
        · exact Or.inl h
        · exact Or.inr (by simpa [List.filter_cons, hnb] using h)
    | some aname =>
      cases hrep : assocGet? (modAtomsOf md) aname with
      | none =>
        have hstep : modAtomStep m (modAtomsOf md) acc v = acc := by simp [modAtomStep, hname, hrep]
        have hnb : namedBy m md v = false := by simp [namedBy, hname, hrep]
        rw [hstep]
        obtain ⟨h1, h2, h3⟩ := ih acc
        refine ⟨h1, ?_, ?_⟩
        · intro a ha hn
          exact h2 a ha (by simpa [List.filter_cons, hnb] using hn)
        · intro kv hkv
          rcases h3 kv hkv with h | h
          · exact Or.inl h
          · exact Or.inr (by simpa [List.filter_cons, hnb] using h)
      | some repl =>
        have hstep : modAtomStep m (modAtomsOf md) acc v =
            (acc.1.map (fun a => if a.node = v then setAttrs a repl else a), assocSet acc.2 aname v) := by
          simp [modAtomStep, hname, hrep]
        have hnb : namedBy m md v = true := by simp [namedBy, hname, hrep]
        rw [hstep]
        obtain ⟨h1, h2, h3⟩ := ih (acc.1.map (fun a => if a.node = v then setAttrs a repl else a), assocSet acc.2 aname v)
        refine ⟨?_, ?_, ?_⟩
        · rw [h1]
          simp only [List.map_map]
          apply List.map_congr_left
          intro a _
          by_cases h : a.node = v <;> simp [h, proj, setAttrs]
        · intro a ha hn
          simp only [List.filter_cons, hnb, if_true, List.mem_cons, not_or] at hn
          apply h2 a
          · exact List.mem_map.mpr ⟨a, ha, by simp [hn.1]⟩
          · exact hn.2
        · intro kv hkv
          rcases h3 kv hkv with h | h
          · rcases mem_of_mem_assocSet _ _ _ kv h with h' | h'
            · exact Or.inl h'
            · refine Or.inr ?_
              simp only [List.filter_cons, hnb, if_true]
              rw [h']
              exact List.mem_cons_self
          · refine Or.inr ?_
            simp only [List.filter_cons, hnb, if_true]
            exact List.mem_cons_of_mem _ h

theorem assocGet?_mem {α β : Type} [DecidableEq α] (l : List (α × β)) (k : α) (v : β)
    (h : assocGet? l k = some v) : (k, v) ∈ l := by
  unfold assocGet? at h
  cases hf : l.find? (fun kv => decide (kv.1 = k)) with
  | none => simp [hf] at h
  | some kv =>
    simp only [hf, Option.map_some, Option.some.injEq] at h
    have hmem := List.mem_of_find?_eq_some hf
    have hk : kv.1 = k := by simpa using List.find?_some hf
    obtain ⟨k', v'⟩ := kv
    simp only at hk h
    subst hk; subst h
    exact hmem

theorem mapM_assoc_mem (anum : List (String × Nat)) : ∀ (names : List String) (vs : List Nat),
    names.mapM (assocGet? anum) = some vs → ∀ v ∈ vs, ∃ nm, (nm, v) ∈ anum := by
  intro names
  induction names with
  | nil =>
    intro vs h v hv
    simp at h
    subst h
    simp at hv
  | cons a rest ih =>
    intro vs h v hv
    simp only [List.mapM_cons, bind, Option.bind] at h
    cases ha : assocGet? anum a with
    | none => simp [ha] at h
    | some va =>
      simp only [ha] at h
      cases hr : rest.mapM (assocGet? anum) with
      | none => simp [hr] at h
      | some vr =>
        simp only [hr, pure, Option.some.injEq] at h
        subst h
        rcases List.mem_cons.mp hv with rfl | hv'
        · exact ⟨a, assocGet?_mem _ _ _ ha⟩
        · exact ih vr hr v hv'

theorem modIxnStep_inv (anum : List (String × Nat)) (ixns : List MIxn) :
    ∀ (mol m' : Mol), ixns.foldlM (modIxnStep anum) mol = .ok m' →
      m'.atoms = mol.atoms ∧ ∃ added, m'.ixns = mol.ixns ++ added ∧
        ∀ j ∈ added, ∀ v ∈ j.atoms, ∃ nm, (nm, v) ∈ anum := by
  induction ixns with
  | nil =>
    intro mol m' h
    simp only [List.foldlM_nil, pure, Except.pure, Except.ok.injEq] at h
    subst h
    exact ⟨rfl, [], by simp, by simp⟩
  | cons j rest ih =>
    intro mol m' h
    simp only [List.foldlM_cons, bind, Except.bind] at h
    cases hstep : modIxnStep anum mol j with
    | error e => simp [hstep] at h
    | ok mol1 =>
      simp only [hstep] at h
      obtain ⟨hat, added, hix, hadded⟩ := ih mol1 m' h
      -- what one step does
      unfold modIxnStep at hstep
      cases hm : j.atoms.mapM (assocGet? anum) with
      | none => simp [hm] at hstep
      | some vs =>
        simp only [hm, Except.ok.injEq] at hstep
        subst hstep
        refine ⟨hat, [Ixn.mk j.sect vs j.params j.info] ++ added, by simp [hix], ?_⟩
        intro j' hj' v hv
        rcases List.mem_append.mp hj' with h' | h'
        · simp only [List.mem_singleton] at h'
          subst h'
          exact mapM_assoc_mem anum j.atoms vs hm v hv
        · exact hadded j' h' v hv

section modframe
variable {κ : Type} [DecidableEq κ]

/-- Frame property of one modification: node, resid and charge group of every atom are unchanged; an
atom the modification does not name in its target residue is unchanged altogether; interactions are only
appended, and only between atoms it names in its target residue. -/
theorem applyOneMod_frame (protein : List String) (ff : FF) (nodes : List (ResNode κ))
    (graphs : List (κ × List Nat)) (m m' : Mol) (t : ModTarget)
    (h : applyOneMod protein ff nodes graphs m t = .ok m') :
    m'.atoms.map proj = m.atoms.map proj ∧
    (∀ a ∈ m.atoms, a.node ∉ namedAtoms protein ff nodes graphs m t → a ∈ m'.atoms) ∧
    ∃ added, m'.ixns = m.ixns ++ added ∧
      ∀ j ∈ added, ∀ v ∈ j.atoms, v ∈ namedAtoms protein ff nodes graphs m t := by
  unfold applyOneMod at h
  unfold namedAtoms
  cases htg : nodes.find? (fun n => decide (n.resid = t.resid)) with
  | none => simp [htg] at h
  | some target =>
    simp only [htg] at h ⊢
    by_cases hprot : protein.contains target.resname = true
    · simp only [hprot, Bool.not_true, Bool.false_eq_true, if_false] at h ⊢
      by_cases hrn : (t.resname.isSome && t.resname != some target.resname) = true
      · simp only [hrn, if_true, Except.ok.injEq] at h ⊢
        subst h
        exact ⟨rfl, fun a ha _ => ha, [], by simp, by simp⟩
      · simp only [hrn, Bool.false_eq_true, if_false] at h ⊢
        cases hmd : ff.mod? t.modName with
        | none => simp [hmd] at h
        | some md =>
          simp only [hmd] at h ⊢
          cases hgr : assocGet? graphs target.key with
          | none => simp [hgr] at h
          | some graph =>
            simp only [hgr] at h ⊢
            obtain ⟨h1, h2, h3⟩ := modAtomStep_inv m md graph (m.atoms, [])
            obtain ⟨hat, added, hix, hadded⟩ := modIxnStep_inv _ md.ixns _ m' h
            refine ⟨?_, ?_, added, ?_, ?_⟩
            · rw [hat]; exact h1
            · intro a ha hn
              rw [hat]
              exact h2 a ha hn
            · simpa using hix
            · intro j hj v hv
              obtain ⟨nm, hnm⟩ := hadded j hj v hv
              rcases h3 (nm, v) hnm with h' | h'
              · simp at h'
              · exact h'
    · have hp : protein.contains target.resname = false := by simpa using hprot
      simp only [hp, Bool.not_false, if_true, Except.ok.injEq] at h ⊢
      subst h
      exact ⟨rfl, fun a ha _ => ha, [], by simp, by simp⟩

/-- the atoms of the residue a `-mods` selection points at -/
def targetGraph (nodes : List (ResNode κ)) (graphs : List (κ × List Nat)) (t : ModTarget) : List Nat :=
  match nodes.find? (fun n => n.resid = t.resid) with
  | none => []
  | some target => (assocGet? graphs target.key).getD []

theorem namedAtoms_subset (protein : List String) (ff : FF) (nodes : List (ResNode κ))
    (graphs : List (κ × List Nat)) (m : Mol) (t : ModTarget) (v : Nat)
    (h : v ∈ namedAtoms protein ff nodes graphs m t) : v ∈ targetGraph nodes graphs t := by
  unfold namedAtoms at h
  unfold targetGraph
  cases htg : nodes.find? (fun n => decide (n.resid = t.resid)) with
  | none => simp [htg] at h
  | some target =>
    simp only [htg] at h ⊢
    by_cases hprot : protein.contains target.resname = true
    · simp only [hprot, Bool.not_true, Bool.false_eq_true, if_false] at h
      by_cases hrn : (t.resname.isSome && t.resname != some target.resname) = true
      · simp only [hrn, if_true, List.not_mem_nil] at h
      · simp only [hrn, Bool.false_eq_true, if_false] at h
        cases hmd : ff.mod? t.modName with
        | none => simp [hmd] at h
        | some md =>
          simp only [hmd] at h
          cases hgr : assocGet? graphs target.key with
          | none => simp [hgr] at h
          | some graph =>
            simp only [hgr] at h ⊢
            exact (List.mem_filter.mp h).1
    · have hp : protein.contains target.resname = false := by simpa using hprot
      simp only [hp, Bool.not_false, if_true, List.not_mem_nil] at h

/-- all selected modifications together: nothing outside the target residues changes, interactions are
only appended inside one target residue each -/
theorem applyTargets_frame (protein : List String) (ff : FF) (nodes : List (ResNode κ))
    (graphs : List (κ × List Nat)) (targets : List ModTarget) :
    ∀ (m m' : Mol), targets.foldlM (applyOneMod protein ff nodes graphs) m = .ok m' →
      m'.atoms.map proj = m.atoms.map proj ∧
      (∀ a ∈ m.atoms, (∀ t ∈ targets, a.node ∉ targetGraph nodes graphs t) → a ∈ m'.atoms) ∧
      ∃ added, m'.ixns = m.ixns ++ added ∧
        ∀ j ∈ added, ∃ t ∈ targets, ∀ v ∈ j.atoms, v ∈ targetGraph nodes graphs t := by
  induction targets with
  | nil =>
    intro m m' h
    simp only [List.foldlM_nil, pure, Except.pure, Except.ok.injEq] at h
    subst h
    exact ⟨rfl, fun a ha _ => ha, [], by simp, by simp⟩
  | cons t rest ih =>
    intro m m' h
    simp only [List.foldlM_cons, bind, Except.bind] at h
    cases hstep : applyOneMod protein ff nodes graphs m t with
    | error e => simp [hstep] at h
    | ok m1 =>
      simp only [hstep] at h
      obtain ⟨p1, u1, added1, hix1, hadd1⟩ := applyOneMod_frame protein ff nodes graphs m m1 t hstep
      obtain ⟨p2, u2, added2, hix2, hadd2⟩ := ih m1 m' h
      refine ⟨p2.trans p1, ?_, added1 ++ added2, by rw [hix2, hix1, List.append_assoc], ?_⟩
      · intro a ha hn
        apply u2 a
        · apply u1 a ha
          intro hin
          exact hn t (by simp) (namedAtoms_subset _ _ _ _ _ _ _ hin)
        · intro t' ht'
          exact hn t' (by simp [ht'])
      · intro j hj
        rcases List.mem_append.mp hj with h' | h'
        · exact ⟨t, by simp, fun v hv => namedAtoms_subset _ _ _ _ _ _ _ (hadd1 j h' v hv)⟩
        · obtain ⟨t', ht', hv'⟩ := hadd2 j h'
          exact ⟨t', by simp [ht'], hv'⟩

end modframe

/-! ## multi-residue blocks (`from_itp`): segments -/

section segments
variable {κ : Type} [DecidableEq κ]

/-- a resid-sorted residue list cut into segments: a regular residue, or the residues covered by one
copy of a multi-residue block (first residue and the following ones) -/
inductive Seg (κ : Type) where
  | single (n : ResNode κ)
  | multi (first : ResNode κ) (others : List (ResNode κ))

def Seg.nodes : Seg κ → List (ResNode κ)
  | .single n => [n]
  | .multi n others => n :: others

def segNodes (segs : List (Seg κ)) : List (ResNode κ) := segs.flatMap Seg.nodes

/-- a multi-residue block: not empty, resids inside the block start at 1 and the last atom carries the
number of residues (resids `1 .. nres` in order) -/
def MultiBlock (b : Block) : Prop :=
  blockBase b = 1 ∧ (∀ a ∈ b.atoms, 1 ≤ a.resid) ∧ ∃ la, b.atoms.getLast? = some la ∧ la.resid = b.nres

/-- the bookkeeping `match_nodes_to_blocks` must have produced for one copy: the copy is some fragment
`f` (any number), the fragment lists exactly the copy's nodes, every node of the copy points at `f` -/
def MultiSeg (ff : FF) (t : Tables κ) (n : ResNode κ) (others : List (ResNode κ)) : Prop :=
  ∃ bn b f, n.fromItp = some bn ∧ ff.block? bn = some b ∧ MultiBlock b ∧ others.length + 1 = b.nres ∧
    assocGet? t.blockOf n.key = some bn ∧ assocGet? t.fragOf n.key = some f ∧
    t.frags[f]? = some (n.key :: others.map (·.key)) ∧ ∀ o ∈ others, assocGet? t.fragOf o.key = some f

/-- every segment is well formed -/
def SegsOK (ff : FF) (t : Tables κ) : List (Seg κ) → Prop
  | [] => True
  | .single n :: rest => RegularNode ff t n ∧ SegsOK ff t rest
  | .multi n others :: rest => MultiSeg ff t n others ∧ SegsOK ff t rest

theorem addBlocksFrom_append_ok (ff : FF) (t : Tables κ) (xs ys : List (ResNode κ)) :
    ∀ (st st1 : St κ), addBlocksFrom ff t st xs = .ok st1 →
      addBlocksFrom ff t st (xs ++ ys) = addBlocksFrom ff t st1 ys := by
  induction xs with
  | nil =>
    intro st st1 h
    simp only [addBlocksFrom, Except.ok.injEq] at h
    subst h; rfl
  | cons x rest ih =>
    intro st st1 h
    simp only [addBlocksFrom, List.cons_append] at h ⊢
    cases hstep : stepNode ff t st x with
    | error e => simp [hstep] at h
    | ok st' =>
      simp only [hstep] at h ⊢
      exact ih st' st1 h

theorem stepNode_regular' (ff : FF) (t : Tables κ) (st : St κ) (n : ResNode κ) (b : Block)
    (hnot : n.key ∉ st.added) (hfi : n.fromItp = none)
    (htbl : assocGet? t.blockOf n.key = some n.resname) (hb : ff.block? n.resname = some b)
    (hs : SingleBlock b) :
    stepNode ff t st n = .ok ⟨(mergeMolecule st.mol b).1,
      st.graphs ++ [(n.key, residueOf (mergeMolecule st.mol b).1 (mergeMolecule st.mol b).2 n.resid)],
      st.added, st.corrs⟩ := by
  simp [stepNode, hnot, htbl, hb, hfi, multiRes_single b hs]

theorem stepNode_multiFirst (ff : FF) (t : Tables κ) (st : St κ) (n : ResNode κ) (bn : String) (b : Block)
    (f : Nat) (frag : List κ) (hnot : n.key ∉ st.added) (hfi : n.fromItp = some bn)
    (htbl : assocGet? t.blockOf n.key = some bn) (hb : ff.block? bn = some b)
    (hf : assocGet? t.fragOf n.key = some f) (hfr : t.frags[f]? = some frag) :
    stepNode ff t st n = .ok ⟨(mergeMolecule st.mol b).1,
      st.graphs ++ [(n.key, residueOf (mergeMolecule st.mol b).1 (mergeMolecule st.mol b).2 n.resid)],
      st.added ++ frag, assocSet st.corrs f (mergeMolecule st.mol b).2⟩ := by
  simp [stepNode, hnot, htbl, hb, hfi, hf, hfr]

theorem stepNode_added (ff : FF) (t : Tables κ) (st : St κ) (n : ResNode κ) (f : Nat) (corr : List Nat)
    (hin : n.key ∈ st.added) (hf : assocGet? t.fragOf n.key = some f) (hc : assocGet? st.corrs f = some corr) :
    stepNode ff t st n =
      .ok { st with graphs := st.graphs ++ [(n.key, residueOf st.mol corr n.resid)] } := by
  simp [stepNode, hin, hf, hc]

/-- the remaining residues of a copy that has been merged only extract their atoms: the molecule, the
added-fragment list and the stored correspondences do not change -/
theorem addBlocksFrom_added (ff : FF) (t : Tables κ) (f : Nat) (corr : List Nat) :
    ∀ (others : List (ResNode κ)) (st : St κ),
      (∀ o ∈ others, o.key ∈ st.added ∧ assocGet? t.fragOf o.key = some f) → assocGet? st.corrs f = some corr →
      ∃ st', addBlocksFrom ff t st others = .ok st' ∧ st'.mol = st.mol ∧ st'.added = st.added ∧
        st'.corrs = st.corrs := by
  intro others
  induction others with
  | nil => intro st _ _; exact ⟨st, rfl, rfl, rfl, rfl⟩
  | cons o rest ih =>
    intro st h hc
    obtain ⟨hin, hf⟩ := h o (by simp)
    have hstep := stepNode_added ff t st o f corr hin hf hc
    obtain ⟨st', hrun, h1, h2, h3⟩ :=
      ih { st with graphs := st.graphs ++ [(o.key, residueOf st.mol corr o.resid)] }
        (fun o' ho' => h o' (by simp [ho'])) hc
    exact ⟨st', by simp only [addBlocksFrom, hstep]; exact hrun, h1, h2, h3⟩

theorem specGo_skip (ff : FF) (off cg : Nat) (xs rest : List (ResNode κ)) :
    specGo ff off cg xs.length (xs ++ rest) = specGo ff off cg 0 rest := by
  induction xs with
  | nil => rfl
  | cons x xs ih => simpa [specGo] using ih

/-- one whole copy of a multi-residue block -/
theorem addBlocksFrom_multiSeg (ff : FF) (t : Tables κ) (st : St κ) (n : ResNode κ)
    (others : List (ResNode κ)) (hnot : n.key ∉ st.added) (hseg : MultiSeg ff t n others) :
    ∃ st' bn b la, n.fromItp = some bn ∧ ff.block? bn = some b ∧ MultiBlock b ∧
      others.length + 1 = b.nres ∧ b.atoms.getLast? = some la ∧ la.resid = b.nres ∧
      addBlocksFrom ff t st (n :: others) = .ok st' ∧
      st'.mol = (mergeMolecule st.mol b).1 ∧ st'.added = st.added ++ (n.key :: others.map (·.key)) := by
  obtain ⟨bn, b, f, hfi, hb, hmb, hlen, htbl, hf, hfr, hoth⟩ := hseg
  obtain ⟨hbase, hres1, la, hla, hlares⟩ := hmb
  have hstep := stepNode_multiFirst ff t st n bn b f _ hnot hfi htbl hb hf hfr
  obtain ⟨st', hrun, h1, h2, _⟩ := addBlocksFrom_added ff t f (mergeMolecule st.mol b).2 others
    ⟨(mergeMolecule st.mol b).1,
      st.graphs ++ [(n.key, residueOf (mergeMolecule st.mol b).1 (mergeMolecule st.mol b).2 n.resid)],
      st.added ++ (n.key :: others.map (·.key)), assocSet st.corrs f (mergeMolecule st.mol b).2⟩
    (fun o ho => ⟨by simp only [List.mem_append, List.mem_cons, List.mem_map]
                     exact Or.inr (Or.inr ⟨o, ho, rfl⟩), hoth o ho⟩)
    (assocGet?_assocSet_self _ _ _)
  refine ⟨st', bn, b, la, hfi, hb, ⟨hbase, hres1, la, hla, hlares⟩, hlen, hla, hlares, ?_, h1, h2⟩
  simp only [addBlocksFrom, hstep]
  exact hrun

/-- the general layout statement: any mix of regular residues and copies of multi-residue blocks, in
resid order with contiguous resids, merged onto a good molecule -/
theorem addBlocksFrom_segs (ff : FF) (t : Tables κ) :
    ∀ (segs : List (Seg κ)) (st : St κ) (r c : Nat),
      Good st.mol r c →
      (∀ n ∈ segNodes segs, n.key ∉ st.added) →
      ((segNodes segs).map (·.key)).Nodup →
      SegsOK ff t segs →
      (segNodes segs).map (·.resid) = List.range' (r + 1) (segNodes segs).length →
      ∃ st', addBlocksFrom ff t st (segNodes segs) = .ok st' ∧
        st'.mol.atoms = st.mol.atoms ++ (specGo ff st.mol.atoms.length c 0 (segNodes segs)).atoms ∧
        st'.mol.ixns = st.mol.ixns ++ (specGo ff st.mol.atoms.length c 0 (segNodes segs)).ixns := by
  intro segs
  induction segs with
  | nil =>
    intro st r c _ _ _ _ _
    exact ⟨st, rfl, by simp [segNodes, specGo], by simp [segNodes, specGo]⟩
  | cons seg rest ih =>
    intro st r c g hnot hnd hok hres
    cases seg with
    | single n =>
      simp only [segNodes, List.flatMap_cons, Seg.nodes, List.singleton_append] at hnot hnd hres ⊢
      obtain ⟨⟨hfi, htbl, b, hb, hs⟩, hokrest⟩ := hok
      obtain ⟨la, hla, hla1⟩ := single_getLast b hs
      have hstep := stepNode_regular' ff t st n b (hnot n (by simp)) hfi htbl hb hs
      have hnres : n.resid = r + 1 := by
        have := congrArg List.head? hres
        simpa [List.range'_succ] using this
      have hrestres : (List.flatMap Seg.nodes rest).map (·.resid) =
          List.range' (r + 1 + 1) (List.flatMap Seg.nodes rest).length := by
        have := congrArg List.tail hres
        simpa [List.range'_succ] using this
      have g1 : Good (mergeMolecule st.mol b).1 (r + 1) (la.cgrp + c) := by
        have := good_merge st.mol b r c g la hla
        rw [hla1] at this
        rw [Nat.add_comm r 1]
        exact this
      have hmerge := mergeMolecule_good st.mol b r c g
      obtain ⟨st', hrun, hatoms, hixns⟩ :=
        ih ⟨(mergeMolecule st.mol b).1,
            st.graphs ++ [(n.key, residueOf (mergeMolecule st.mol b).1 (mergeMolecule st.mol b).2 n.resid)],
            st.added, st.corrs⟩ (r + 1) (la.cgrp + c) g1
          (fun m hm => hnot m (by simp [segNodes] at hm; simp [hm]))
          (by simpa [segNodes] using (List.nodup_cons.mp hnd).2) hokrest
          (by simpa [segNodes] using hrestres)
      refine ⟨st', ?_, ?_, ?_⟩
      · simp only [addBlocksFrom, hstep]
        exact hrun
      · rw [hatoms]
        simp only [hmerge, specGo, hfi, Option.getD_none, hb, Option.isSome_none, List.length_append,
          reindex_length, List.append_assoc, hnres, lastCg_of_getLast b la hla, segNodes, blockBase_single b hs]
        rw [reindex_eq_place _ _ _ _ (fun a ha => by rw [hs.2 a ha]; exact Nat.le_refl 1)]
        simp [Nat.add_comm]
      · rw [hixns]
        simp only [hmerge, specGo, hfi, Option.getD_none, hb, Option.isSome_none, List.length_append,
          reindex_length, List.append_assoc, lastCg_of_getLast b la hla, segNodes]
        simp [Nat.add_comm]
    | multi n others =>
      simp only [segNodes, List.flatMap_cons, Seg.nodes] at hnot hnd hres ⊢
      obtain ⟨hseg, hokrest⟩ := hok
      obtain ⟨st1, bn, b, la, hfi, hb, hmb, hlen, hla, hlares, hrun1, hmol1, hadd1⟩ :=
        addBlocksFrom_multiSeg ff t st n others (hnot n (by simp)) hseg
      have hmerge := mergeMolecule_good st.mol b r c g
      have hnres : n.resid = r + 1 := by
        have := congrArg List.head? hres
        simpa [List.range'_succ] using this
      have hrestres : (List.flatMap Seg.nodes rest).map (·.resid) =
          List.range' (r + b.nres + 1) (List.flatMap Seg.nodes rest).length := by
        have h1 := congrArg (List.drop (others.length + 1)) hres
        simp only [List.cons_append, List.map_cons, List.map_append, List.length_cons, List.length_append] at h1
        rw [List.drop_range'] at h1
        have h2 : List.drop (others.length + 1) (n.resid :: (List.map (·.resid) others ++
            List.map (·.resid) (List.flatMap Seg.nodes rest))) =
            List.map (·.resid) (List.flatMap Seg.nodes rest) := by
          simp
        rw [h2] at h1
        rw [h1, ← hlen]
        congr 1 <;> omega
      have g1 : Good st1.mol (r + b.nres) (la.cgrp + c) := by
        rw [hmol1]
        have := good_merge st.mol b r c g la hla
        rw [hlares, Nat.add_comm b.nres r] at this
        exact this
      have hnot1 : ∀ m ∈ segNodes rest, m.key ∉ st1.added := by
        intro m hm
        rw [hadd1]
        simp only [List.mem_append, not_or]
        refine ⟨hnot m (by simp only [segNodes] at hm; simp [hm]), ?_⟩
        intro hmem
        -- keys are pairwise distinct: a later node cannot be one of the copy's nodes
        have hnd' : ((n :: others).map (·.key) ++ (List.flatMap Seg.nodes rest).map (·.key)).Nodup := by
          simpa [List.map_append] using hnd
        have hdisj := (List.nodup_append.mp hnd').2.2
        have hm' : m.key ∈ (List.flatMap Seg.nodes rest).map (·.key) :=
          List.mem_map.mpr ⟨m, by simpa [segNodes] using hm, rfl⟩
        exact hdisj m.key (by simpa using hmem) m.key hm' rfl
      obtain ⟨st', hrun, hatoms, hixns⟩ :=
        ih st1 (r + b.nres) (la.cgrp + c) g1 hnot1
          (by
            have hnd' : ((n :: others).map (·.key) ++ (List.flatMap Seg.nodes rest).map (·.key)).Nodup := by
              simpa [List.map_append] using hnd
            simpa [segNodes] using (List.nodup_append.mp hnd').2.1)
          hokrest
          (by simpa [segNodes, Nat.add_assoc] using hrestres)
      have happ := addBlocksFrom_append_ok ff t (n :: others) (List.flatMap Seg.nodes rest) st st1 hrun1
      refine ⟨st', ?_, ?_, ?_⟩
      · rw [List.cons_append] at happ ⊢
        rw [happ]
        exact hrun
      · rw [hatoms, hmol1]
        have hskip := specGo_skip ff (st.mol.atoms.length + b.atoms.length) (c + lastCg b) others
          (List.flatMap Seg.nodes rest)
        have hk : b.nres - 1 = others.length := by omega
        simp only [hmerge, specGo, hfi, Option.getD_some, hb, Option.isSome_some, if_true, List.length_append,
          reindex_length, List.append_assoc, hnres, lastCg_of_getLast b la hla, segNodes, List.cons_append, hk,
          hmb.1]
        rw [reindex_eq_place _ _ _ _ hmb.2.1]
        rw [lastCg_of_getLast b la hla] at hskip
        rw [hskip]
        simp [Nat.add_comm]
      · rw [hixns, hmol1]
        have hskip := specGo_skip ff (st.mol.atoms.length + b.atoms.length) (c + lastCg b) others
          (List.flatMap Seg.nodes rest)
        have hk : b.nres - 1 = others.length := by omega
        simp only [hmerge, specGo, hfi, Option.getD_some, hb, Option.isSome_some, if_true, List.length_append,
          reindex_length, List.append_assoc, lastCg_of_getLast b la hla, segNodes, List.cons_append, hk]
        rw [lastCg_of_getLast b la hla] at hskip
        rw [hskip]
        simp [Nat.add_comm]

theorem firstNode_multi (ff : FF) (t : Tables κ) (n : ResNode κ) (bn : String) (b : Block) (f : Nat)
    (frag : List κ) (hfi : n.fromItp = some bn) (htbl : assocGet? t.blockOf n.key = some bn)
    (hb : ff.block? bn = some b) (hf : assocGet? t.fragOf n.key = some f) (hfr : t.frags[f]? = some frag) :
    firstNode ff t n = .ok ⟨toMolecule b,
      [(n.key, residueOf (toMolecule b) ((toMolecule b).atoms.map (·.node)) n.resid)], frag,
      [(f, (toMolecule b).atoms.map (·.node))]⟩ := by
  simp [firstNode, htbl, hb, hfi, hf, hfr]

theorem good_toMolecule (b : Block) (la : BAtom) (hla : b.atoms.getLast? = some la) (hr : la.resid ≠ 0) :
    Good (toMolecule b) la.resid la.cgrp := by
  refine ⟨?_, ?_, hr⟩
  · simp [toMolecule, reindex_nodes, reindex_length, List.range_eq_range']
  · refine ⟨_, reindex_getLast 0 0 0 b.atoms la hla, ?_, ?_⟩ <;> simp

/-- `add_blocks` on a resid-sorted residue list cut into segments.  When the first segment is a copy
of a multi-residue block its resids are NOT re-based by the program, so the statement needs
`start = 1` there (see notes/C01_findings.md, shape multires-first-resid-not-1). -/
theorem addBlocksSorted_segs (ff : FF) (t : Tables κ) (segs : List (Seg κ)) (start : Nat)
    (hne : segs ≠ []) (hstart : 1 ≤ start)
    (hfirst : ∀ n others rest, segs = .multi n others :: rest → start = 1)
    (hnd : ((segNodes segs).map (·.key)).Nodup)
    (hok : SegsOK ff t segs)
    (hres : (segNodes segs).map (·.resid) = List.range' start (segNodes segs).length) :
    ∃ st, addBlocksSorted ff t (segNodes segs) = .ok st ∧
      st.mol.atoms = (specGo ff 0 0 0 (segNodes segs)).atoms ∧
      st.mol.ixns = (specGo ff 0 0 0 (segNodes segs)).ixns := by
  cases segs with
  | nil => exact absurd rfl hne
  | cons seg rest =>
    cases seg with
    | single n =>
      simp only [segNodes, List.flatMap_cons, Seg.nodes, List.singleton_append] at hnd hres ⊢
      obtain ⟨⟨hfi, htbl, b, hb, hs⟩, hokrest⟩ := hok
      obtain ⟨la, hla, hla1⟩ := single_getLast b hs
      have hnres : n.resid = start := by
        have := congrArg List.head? hres
        simpa [List.range'_succ] using this
      have hrestres : (List.flatMap Seg.nodes rest).map (·.resid) =
          List.range' (start + 1) (List.flatMap Seg.nodes rest).length := by
        have := congrArg List.tail hres
        simpa [List.range'_succ] using this
      have hfirstN := firstNode_regular ff t n b hfi htbl hb hs
      have g0 : Good (⟨place 0 n.resid 1 0 b.atoms, b.ixns.map (shiftIxn 0)⟩ : Mol) start la.cgrp := by
        rw [hnres]
        exact good_first b start (by omega) la hla hla1 _
      obtain ⟨st', hrun, hatoms, hixns⟩ :=
        addBlocksFrom_segs ff t rest
          ⟨⟨place 0 n.resid 1 0 b.atoms, b.ixns.map (shiftIxn 0)⟩,
            [(n.key, (reindex 0 0 0 b.atoms).map (·.node))], [], []⟩ start la.cgrp g0
          (fun _ _ => by simp)
          (by simpa [segNodes] using (List.nodup_cons.mp hnd).2) hokrest
          (by simpa [segNodes] using hrestres)
      refine ⟨st', ?_, ?_, ?_⟩
      · simp only [addBlocksSorted, hfirstN]
        exact hrun
      · rw [hatoms]
        simp [specGo, hfi, hb, place_length, lastCg_of_getLast b la hla, segNodes, blockBase_single b hs]
      · rw [hixns]
        simp [specGo, hfi, hb, place_length, lastCg_of_getLast b la hla, segNodes]
    | multi n others =>
      have hs1 : start = 1 := hfirst n others rest rfl
      subst hs1
      simp only [segNodes, List.flatMap_cons, Seg.nodes] at hnd hres ⊢
      obtain ⟨⟨bn, b, f, hfi, hb, hmb, hlen, htbl, hf, hfr, hoth⟩, hokrest⟩ := hok
      obtain ⟨hbase, hres1, la, hla, hlares⟩ := hmb
      have hfirstN := firstNode_multi ff t n bn b f _ hfi htbl hb hf hfr
      have hnres : n.resid = 1 := by
        have := congrArg List.head? hres
        simpa [List.range'_succ] using this
      have g0 : Good (toMolecule b) b.nres la.cgrp := by
        have := good_toMolecule b la hla (by omega)
        rwa [hlares] at this
      -- the other residues of the first copy
      obtain ⟨st1, hrun1, hmol1, hadd1, _⟩ :=
        addBlocksFrom_added ff t f ((toMolecule b).atoms.map (·.node)) others
          ⟨toMolecule b, [(n.key, residueOf (toMolecule b) ((toMolecule b).atoms.map (·.node)) n.resid)],
            n.key :: others.map (·.key), [(f, (toMolecule b).atoms.map (·.node))]⟩
          (fun o ho => ⟨by simp only [List.mem_cons, List.mem_map]; exact Or.inr ⟨o, ho, rfl⟩, hoth o ho⟩)
          (by simp [assocGet?])
      have hrestres : (List.flatMap Seg.nodes rest).map (·.resid) =
          List.range' (b.nres + 1) (List.flatMap Seg.nodes rest).length := by
        have h1 := congrArg (List.drop (others.length + 1)) hres
        simp only [List.cons_append, List.map_cons, List.map_append, List.length_cons, List.length_append] at h1
        rw [List.drop_range'] at h1
        have h2 : List.drop (others.length + 1) (n.resid :: (List.map (·.resid) others ++
            List.map (·.resid) (List.flatMap Seg.nodes rest))) =
            List.map (·.resid) (List.flatMap Seg.nodes rest) := by
          simp
        rw [h2] at h1
        rw [h1, ← hlen]
        congr 1 <;> omega
      have hnd' : ((n :: others).map (·.key) ++ (List.flatMap Seg.nodes rest).map (·.key)).Nodup := by
        simpa [List.map_append] using hnd
      have hnot1 : ∀ m ∈ segNodes rest, m.key ∉ st1.added := by
        intro m hm
        rw [hadd1]
        intro hmem
        have hdisj := (List.nodup_append.mp hnd').2.2
        have hm' : m.key ∈ (List.flatMap Seg.nodes rest).map (·.key) :=
          List.mem_map.mpr ⟨m, by simpa [segNodes] using hm, rfl⟩
        exact hdisj m.key (by simpa using hmem) m.key hm' rfl
      have g1 : Good st1.mol b.nres la.cgrp := by rw [hmol1]; exact g0
      obtain ⟨st', hrun, hatoms, hixns⟩ :=
        addBlocksFrom_segs ff t rest st1 b.nres la.cgrp g1 hnot1
          (by simpa [segNodes] using (List.nodup_append.mp hnd').2.1)
          hokrest
          (by simpa [segNodes] using hrestres)
      have happ := addBlocksFrom_append_ok ff t others (List.flatMap Seg.nodes rest) _ st1 hrun1
      refine ⟨st', ?_, ?_, ?_⟩
      · simp only [addBlocksSorted, List.cons_append, hfirstN]
        rw [happ]
        exact hrun
      · rw [hatoms, hmol1]
        have hskip := specGo_skip ff (0 + b.atoms.length) (0 + lastCg b) others (List.flatMap Seg.nodes rest)
        have hk : b.nres - 1 = others.length := by omega
        simp only [specGo, hfi, Option.getD_some, hb, Option.isSome_some, if_true, List.cons_append, hk, hnres,
          toMolecule, reindex_length, segNodes, hbase]
        rw [reindex_eq_place 0 0 0 _ hres1, hskip, lastCg_of_getLast b la hla]
        simp
      · rw [hixns, hmol1]
        have hskip := specGo_skip ff (0 + b.atoms.length) (0 + lastCg b) others (List.flatMap Seg.nodes rest)
        have hk : b.nres - 1 = others.length := by omega
        simp only [specGo, hfi, Option.getD_some, hb, Option.isSome_some, if_true, List.cons_append, hk,
          toMolecule, reindex_length, segNodes]
        rw [hskip, lastCg_of_getLast b la hla]
        simp

end segments

/-! ## C13: order of definitions (blocks, modifications) -/

theorem find?_perm_of_unique {α : Type} (p : α → Bool) {l l' : List α} (hp : l.Perm l')
    (h : ∀ a ∈ l, ∀ b ∈ l, p a = true → p b = true → a = b) : l.find? p = l'.find? p := by
  induction hp with
  | nil => rfl
  | cons x _ ih =>
    simp only [List.find?_cons]
    cases hx : p x with
    | true => rfl
    | false => exact ih (fun a ha b hb => h a (by simp [ha]) b (by simp [hb]))
  | swap x y l =>
    simp only [List.find?_cons]
    cases hx : p x <;> cases hy : p y <;> simp
    exact h y (by simp) x (by simp) hy hx
  | trans hp1 _ ih1 ih2 =>
    rw [ih1 h]
    exact ih2 (fun a ha b hb => h a (hp1.mem_iff.mpr ha) b (hp1.mem_iff.mpr hb))

/-- the model reads a force field only through these three views -/
def FFEquiv (ff ff' : FF) : Prop :=
  (∀ x, ff.block? x = ff'.block? x) ∧ (∀ x, ff.mod? x = ff'.mod? x) ∧ ff.mods.isEmpty = ff'.mods.isEmpty

/-- any reordering of block and modification definitions with pairwise distinct names -/
theorem ffEquiv_of_perm (ff ff' : FF) (hb : ff.blocks.Perm ff'.blocks) (hm : ff.mods.Perm ff'.mods)
    (hbn : (ff.blocks.map (·.name)).Nodup) (hmn : (ff.mods.map (·.name)).Nodup) : FFEquiv ff ff' := by
  refine ⟨?_, ?_, ?_⟩
  · intro x
    apply find?_perm_of_unique _ hb
    intro a ha b hb' h1 h2
    have h1' : a.name = x := by simpa using h1
    have h2' : b.name = x := by simpa using h2
    exact nodup_map_inj _ _ hbn a b ha hb' (h1'.trans h2'.symm)
  · intro x
    apply find?_perm_of_unique _ hm
    intro a ha b hb' h1 h2
    have h1' : a.name = x := by simpa using h1
    have h2' : b.name = x := by simpa using h2
    exact nodup_map_inj _ _ hmn a b ha hb' (h1'.trans h2'.symm)
  · have := hm.length_eq
    cases h1 : ff.mods <;> cases h2 : ff'.mods <;> simp_all

section congr
variable {κ : Type} [DecidableEq κ]

theorem stepNode_congr (ff ff' : FF) (h : ∀ x, ff.block? x = ff'.block? x) (t : Tables κ) (st : St κ)
    (n : ResNode κ) : stepNode ff t st n = stepNode ff' t st n := by
  unfold stepNode
  simp only [h]

theorem addBlocksFrom_congr (ff ff' : FF) (h : ∀ x, ff.block? x = ff'.block? x) (t : Tables κ)
    (ns : List (ResNode κ)) : ∀ st, addBlocksFrom ff t st ns = addBlocksFrom ff' t st ns := by
  induction ns with
  | nil => intro st; rfl
  | cons n rest ih =>
    intro st
    simp only [addBlocksFrom, stepNode_congr ff ff' h]
    cases stepNode ff' t st n with
    | error e => rfl
    | ok st' => exact ih st'

theorem firstNode_congr (ff ff' : FF) (h : ∀ x, ff.block? x = ff'.block? x) (t : Tables κ)
    (n : ResNode κ) : firstNode ff t n = firstNode ff' t n := by
  unfold firstNode
  simp only [h]

theorem addBlocks_congr (ff ff' : FF) (h : ∀ x, ff.block? x = ff'.block? x) (t : Tables κ)
    (ns : List (ResNode κ)) : addBlocks ff t ns = addBlocks ff' t ns := by
  unfold addBlocks addBlocksSorted
  cases sortByResid ns with
  | nil => rfl
  | cons n rest =>
    simp only [firstNode_congr ff ff' h]
    cases firstNode ff' t n with
    | error e => rfl
    | ok st => exact addBlocksFrom_congr ff ff' h t rest st

theorem addFragment_congr (ff ff' : FF) (h : ∀ x, ff.block? x = ff'.block? x) (g : ResGraph κ) :
    addFragment ff g = addFragment ff' g := by
  funext t comp
  unfold addFragment
  simp only [h]

theorem matchNodesToBlocks_congr (ff ff' : FF) (h : ∀ x, ff.block? x = ff'.block? x) (g : ResGraph κ) :
    matchNodesToBlocks ff g = matchNodesToBlocks ff' g := by
  unfold matchNodesToBlocks
  simp only [addFragment_congr ff ff' h]

/-- permuting the block definitions (distinct names) leaves the generated molecule unchanged -/
theorem mapToMolecule_congr (ff ff' : FF) (h : ∀ x, ff.block? x = ff'.block? x) (g : ResGraph κ) :
    mapToMolecule ff g = mapToMolecule ff' g := by
  unfold mapToMolecule blocksKnown nrexclOf
  simp only [matchNodesToBlocks_congr ff ff' h, addBlocks_congr ff ff' h, h]

theorem applyOneMod_congr (protein : List String) (ff ff' : FF) (h : ∀ x, ff.mod? x = ff'.mod? x)
    (nodes : List (ResNode κ)) (graphs : List (κ × List Nat)) :
    applyOneMod protein ff nodes graphs = applyOneMod protein ff' nodes graphs := by
  funext m t
  unfold applyOneMod
  simp only [h]

theorem applyMods_congr (protein : List String) (ff ff' : FF) (h : FFEquiv ff ff')
    (nodes : List (ResNode κ)) (graphs : List (κ × List Nat)) (m : Mol) (targets : List ModTarget) :
    applyMods protein ff nodes graphs m targets = applyMods protein ff' nodes graphs m targets := by
  unfold applyMods
  simp only [applyOneMod_congr protein ff ff' h.2.1, h.2.2]

theorem specGo_congr (ff ff' : FF) (h : ∀ x, ff.block? x = ff'.block? x) (rs : List (ResNode κ)) :
    ∀ off cg skip, specGo ff off cg skip rs = specGo ff' off cg skip rs := by
  induction rs with
  | nil => intro off cg skip; cases skip <;> rfl
  | cons r rest ih =>
    intro off cg skip
    cases skip with
    | succ k => simp only [specGo]; exact ih off cg k
    | zero =>
      simp only [specGo, h]
      cases ff'.block? (r.fromItp.getD r.resname) with
      | none => rfl
      | some b => simp only [ih]

end congr

/-! ## C13: edge orientation -/

section orient
variable {κ : Type} [DecidableEq κ]

/-- reverse the edges whose flag is `true` -/
def reorient : List Bool → List (κ × κ) → List (κ × κ)
  | _, [] => []
  | [], es => es
  | true :: fs, e :: es => (e.2, e.1) :: reorient fs es
  | false :: fs, e :: es => e :: reorient fs es

theorem adjEntry_swap (k : κ) (e : κ × κ) :
    (if e.2 = k then some e.1 else if e.1 = k then some e.2 else none) =
    (if e.1 = k then some e.2 else if e.2 = k then some e.1 else none) := by
  by_cases h1 : e.1 = k <;> by_cases h2 : e.2 = k <;> simp [h1, h2]

theorem filterMap_reorient (k : κ) (edges : List (κ × κ)) : ∀ flags : List Bool,
    (reorient flags edges).filterMap (fun e => if e.1 = k then some e.2 else if e.2 = k then some e.1 else none) =
    edges.filterMap (fun e => if e.1 = k then some e.2 else if e.2 = k then some e.1 else none) := by
  induction edges with
  | nil => intro flags; cases flags <;> rfl
  | cons e rest ih =>
    intro flags
    cases flags with
    | nil => rfl
    | cons f fs =>
      cases f with
      | false => simp only [reorient, List.filterMap_cons, ih fs]
      | true =>
        simp only [reorient, List.filterMap_cons, ih fs]
        rw [adjEntry_swap k e]

/-- reversing any subset of the residue-graph edges leaves the adjacency lists, hence everything the
model computes from the graph, unchanged -/
theorem adjOfEdges_reorient (keys : List κ) (edges : List (κ × κ)) (flags : List Bool) :
    adjOfEdges keys (reorient flags edges) = adjOfEdges keys edges := by
  unfold adjOfEdges
  apply List.map_congr_left
  intro k _
  rw [filterMap_reorient k edges flags]

end orient

/-! ## C13: relabelling of the residue-graph nodes -/

section relabel
variable {κ κ' : Type} [DecidableEq κ] [DecidableEq κ']

def renameNode (f : κ → κ') (n : ResNode κ) : ResNode κ' := ⟨f n.key, n.resid, n.resname, n.fromItp⟩

def renameAssoc {β : Type} (f : κ → κ') (l : List (κ × β)) : List (κ' × β) := l.map fun kv => (f kv.1, kv.2)

def renameTables (f : κ → κ') (t : Tables κ) : Tables κ' :=
  ⟨renameAssoc f t.blockOf, renameAssoc f t.fragOf, t.frags.map (·.map f)⟩

def renameSt (f : κ → κ') (st : St κ) : St κ' :=
  ⟨st.mol, renameAssoc f st.graphs, st.added.map f, st.corrs⟩

def Injective (f : κ → κ') : Prop := ∀ a b, f a = f b → a = b

theorem assocGet?_rename {β : Type} (f : κ → κ') (hf : Injective f) (l : List (κ × β)) (k : κ) :
    assocGet? (renameAssoc f l) (f k) = assocGet? l k := by
  induction l with
  | nil => rfl
  | cons kv rest ih =>
    unfold assocGet? renameAssoc at ih ⊢
    simp only [List.map_cons, List.find?_cons]
    by_cases h : kv.1 = k
    · simp [h]
    · have h' : ¬ f kv.1 = f k := fun e => h (hf _ _ e)
      simp only [h, h', decide_false]
      exact ih

theorem mem_map_inj (f : κ → κ') (hf : Injective f) (l : List κ) (k : κ) : f k ∈ l.map f ↔ k ∈ l := by
  constructor
  · intro h
    obtain ⟨a, ha, he⟩ := List.mem_map.mp h
    rw [← hf _ _ he]; exact ha
  · intro h; exact List.mem_map.mpr ⟨k, h, rfl⟩

theorem stepNode_rename (f : κ → κ') (hf : Injective f) (ff : FF) (t : Tables κ) (st : St κ) (n : ResNode κ) :
    stepNode ff (renameTables f t) (renameSt f st) (renameNode f n) =
      (stepNode ff t st n).map (renameSt f) := by
  unfold stepNode
  simp only [renameTables, renameSt, renameNode, assocGet?_rename f hf, mem_map_inj f hf, List.getElem?_map]
  by_cases hin : n.key ∈ st.added
  · simp only [hin, if_true]
    cases assocGet? t.fragOf n.key with
    | none => rfl
    | some fr =>
      simp only
      cases assocGet? st.corrs fr with
      | none => rfl
      | some corr => simp [Except.map, renameSt, renameAssoc]
  · simp only [hin, if_false]
    cases assocGet? t.blockOf n.key with
    | none => rfl
    | some bname =>
      simp only
      cases ff.block? bname with
      | none => rfl
      | some block =>
        simp only
        by_cases hm : (n.fromItp.isNone && block.multiRes) = true
        · simp [hm, Except.map]
        · simp only [hm, Bool.false_eq_true, if_false]
          by_cases hfi : n.fromItp.isSome = true
          · simp only [hfi, if_true]
            cases assocGet? t.fragOf n.key with
            | none => rfl
            | some fr =>
              simp only
              cases t.frags[fr]? with
              | none => rfl
              | some frag => simp [Except.map, renameSt, renameAssoc]
          · simp [hfi, Except.map, renameSt, renameAssoc]

theorem addBlocksFrom_rename (f : κ → κ') (hf : Injective f) (ff : FF) (t : Tables κ) (ns : List (ResNode κ)) :
    ∀ st, addBlocksFrom ff (renameTables f t) (renameSt f st) (ns.map (renameNode f)) =
      (addBlocksFrom ff t st ns).map (renameSt f) := by
  induction ns with
  | nil => intro st; rfl
  | cons n rest ih =>
    intro st
    simp only [List.map_cons, addBlocksFrom, stepNode_rename f hf]
    cases stepNode ff t st n with
    | error e => rfl
    | ok st' => simp only [Except.map]; exact ih st'

theorem firstNode_rename (f : κ → κ') (hf : Injective f) (ff : FF) (t : Tables κ) (n : ResNode κ) :
    firstNode ff (renameTables f t) (renameNode f n) = (firstNode ff t n).map (renameSt f) := by
  unfold firstNode
  simp only [renameTables, renameNode, assocGet?_rename f hf, List.getElem?_map]
  cases assocGet? t.blockOf n.key with
  | none => rfl
  | some bname =>
    simp only
    cases ff.block? bname with
    | none => rfl
    | some block =>
      simp only
      by_cases hfi : n.fromItp.isSome = true
      · simp only [hfi, if_true]
        cases assocGet? t.fragOf n.key with
        | none => rfl
        | some fr =>
          simp only
          cases t.frags[fr]? with
          | none => rfl
          | some frag => simp [Except.map, renameSt, renameAssoc]
      · simp only [hfi, Bool.false_eq_true, if_false]
        by_cases hm : block.multiRes = true
        · simp [hm, Except.map]
        · simp [hm, Except.map, renameSt, renameAssoc]

theorem insertByResid_rename (f : κ → κ') (a : ResNode κ) (l : List (ResNode κ)) :
    insertByResid (renameNode f a) (l.map (renameNode f)) = (insertByResid a l).map (renameNode f) := by
  induction l with
  | nil => rfl
  | cons b rest ih =>
    simp only [List.map_cons, insertByResid]
    by_cases h : a.resid < b.resid
    · have h' : (renameNode f a).resid < (renameNode f b).resid := h
      simp [h, h']
    · have h' : ¬ (renameNode f a).resid < (renameNode f b).resid := h
      simp only [h, h', if_false, List.map_cons, ih]

theorem sortByResid_rename (f : κ → κ') (ns : List (ResNode κ)) :
    sortByResid (ns.map (renameNode f)) = (sortByResid ns).map (renameNode f) := by
  induction ns with
  | nil => rfl
  | cons a rest ih =>
    simp only [sortByResid, List.map_cons, List.foldr_cons] at ih ⊢
    rw [ih, insertByResid_rename]

/-- `add_blocks` commutes with every injective renaming of the node keys: the molecule is the same, the
per-residue atom lists are the same under the new names -/
theorem addBlocks_rename (f : κ → κ') (hf : Injective f) (ff : FF) (t : Tables κ) (ns : List (ResNode κ)) :
    addBlocks ff (renameTables f t) (ns.map (renameNode f)) = (addBlocks ff t ns).map (renameSt f) := by
  unfold addBlocks
  rw [sortByResid_rename]
  cases sortByResid ns with
  | nil => rfl
  | cons n rest =>
    simp only [List.map_cons, addBlocksSorted, firstNode_rename f hf]
    cases firstNode ff t n with
    | error e => rfl
    | ok st => simp only [Except.map]; exact addBlocksFrom_rename f hf ff t rest st

theorem find?_resid_rename (f : κ → κ') (nodes : List (ResNode κ)) (r : Nat) :
    (nodes.map (renameNode f)).find? (fun n => n.resid = r) =
      (nodes.find? (fun n => n.resid = r)).map (renameNode f) := by
  rw [List.find?_map]
  rfl

/-- modifications look their target residue up by resid, never by node key -/
theorem applyOneMod_rename (f : κ → κ') (hf : Injective f) (protein : List String) (ff : FF)
    (nodes : List (ResNode κ)) (graphs : List (κ × List Nat)) (m : Mol) (t : ModTarget) :
    applyOneMod protein ff (nodes.map (renameNode f)) (renameAssoc f graphs) m t =
      applyOneMod protein ff nodes graphs m t := by
  unfold applyOneMod
  simp only [find?_resid_rename]
  cases nodes.find? (fun n => decide (n.resid = t.resid)) with
  | none => rfl
  | some target =>
    simp only [Option.map_some, renameNode, assocGet?_rename f hf]

theorem applyMods_rename (f : κ → κ') (hf : Injective f) (protein : List String) (ff : FF)
    (nodes : List (ResNode κ)) (graphs : List (κ × List Nat)) (m : Mol) (targets : List ModTarget) :
    applyMods protein ff (nodes.map (renameNode f)) (renameAssoc f graphs) m targets =
      applyMods protein ff nodes graphs m targets := by
  unfold applyMods
  have : applyOneMod protein ff (nodes.map (renameNode f)) (renameAssoc f graphs) =
      applyOneMod protein ff nodes graphs := by
    funext m t
    exact applyOneMod_rename f hf protein ff nodes graphs m t
  rw [this]

theorem defaultTargets_rename (f : κ → κ') (nodes : List (ResNode κ)) :
    defaultTargets (nodes.map (renameNode f)) = defaultTargets nodes := by
  unfold defaultTargets
  simp [renameNode, List.map_map, Function.comp_def]

end relabel

/-! ## C13: relabelling, the whole of `match_nodes_to_blocks` + `add_blocks` -/

section relabel2
variable {κ κ' : Type} [DecidableEq κ] [DecidableEq κ']

def renameGraph (f : κ → κ') (g : ResGraph κ) : ResGraph κ' :=
  ⟨g.nodes.map (renameNode f), g.adj.map fun kv => (f kv.1, kv.2.map f)⟩

def renameEdge (f : κ → κ') (e : κ × κ) : κ' × κ' := (f e.1, f e.2)

theorem assocGet?_rename_val {β γ : Type} (f : κ → κ') (hf : Injective f) (h : β → γ) (l : List (κ × β)) (k : κ) :
    assocGet? (l.map fun kv => (f kv.1, h kv.2)) (f k) = (assocGet? l k).map h := by
  induction l with
  | nil => rfl
  | cons kv rest ih =>
    unfold assocGet? at ih ⊢
    simp only [List.map_cons, List.find?_cons]
    by_cases hk : kv.1 = k
    · simp [hk]
    · have h' : ¬ f kv.1 = f k := fun e => hk (hf _ _ e)
      simp only [hk, h', decide_false]
      exact ih

theorem neighbors_rename (f : κ → κ') (hf : Injective f) (g : ResGraph κ) (k : κ) :
    (renameGraph f g).neighbors (f k) = (g.neighbors k).map f := by
  unfold ResGraph.neighbors renameGraph
  simp only [assocGet?_rename_val f hf]
  cases assocGet? g.adj k <;> rfl

theorem node?_rename (f : κ → κ') (hf : Injective f) (g : ResGraph κ) (k : κ) :
    (renameGraph f g).node? (f k) = (g.node? k).map (renameNode f) := by
  unfold ResGraph.node? renameGraph
  simp only [List.find?_map]
  have hp : ((fun n : ResNode κ' => decide (n.key = f k)) ∘ renameNode f) =
      fun n : ResNode κ => decide (n.key = k) := by
    funext n
    by_cases h : n.key = k
    · simp [Function.comp, renameNode, h]
    · have h' : ¬ f n.key = f k := fun e => h (hf _ _ e)
      simp [Function.comp, renameNode, h, h']
  rw [hp]

theorem graphEdges_rename (f : κ → κ') (hf : Injective f) (g : ResGraph κ) :
    graphEdges (renameGraph f g) = (graphEdges g).map (renameEdge f) := by
  unfold graphEdges
  have key : ∀ (nodes : List (ResNode κ)) (acc : List κ × List (κ × κ)),
      (nodes.map (renameNode f)).foldl (fun (acc : List κ' × List (κ' × κ')) n =>
          (n.key :: acc.1,
           acc.2 ++ (((renameGraph f g).neighbors n.key).filter (fun v => v ∉ acc.1)).map (fun v => (n.key, v))))
        (acc.1.map f, acc.2.map (renameEdge f)) =
      (((nodes.foldl (fun (acc : List κ × List (κ × κ)) n =>
          (n.key :: acc.1,
           acc.2 ++ ((g.neighbors n.key).filter (fun v => v ∉ acc.1)).map (fun v => (n.key, v)))) acc).1).map f,
       ((nodes.foldl (fun (acc : List κ × List (κ × κ)) n =>
          (n.key :: acc.1,
           acc.2 ++ ((g.neighbors n.key).filter (fun v => v ∉ acc.1)).map (fun v => (n.key, v)))) acc).2).map
          (renameEdge f)) := by
    intro nodes
    induction nodes with
    | nil => intro acc; rfl
    | cons n rest ih =>
      intro acc
      simp only [List.map_cons, List.foldl_cons]
      have hkey : (renameNode f n).key = f n.key := rfl
      have hstep : (f n.key :: acc.1.map f,
            acc.2.map (renameEdge f) ++
              (((renameGraph f g).neighbors (f n.key)).filter (fun v => v ∉ acc.1.map f)).map (fun v => (f n.key, v))) =
          ((n.key :: acc.1).map f,
            (acc.2 ++ ((g.neighbors n.key).filter (fun v => v ∉ acc.1)).map (fun v => (n.key, v))).map (renameEdge f)) := by
        rw [neighbors_rename f hf]
        simp only [List.map_cons, List.map_append, List.filter_map, List.map_map]
        congr 2
        have hp : ((fun v => decide (v ∉ acc.1.map f)) ∘ f) = fun v => decide (v ∉ acc.1) := by
          funext v
          simp only [Function.comp, mem_map_inj f hf]
        rw [hp]
        rfl
      rw [hkey, hstep]
      exact ih (n.key :: acc.1, acc.2 ++ ((g.neighbors n.key).filter (fun v => v ∉ acc.1)).map (fun v => (n.key, v)))
  have := key g.nodes ([], [])
  simp only [List.map_nil] at this
  simp only [renameGraph] at this ⊢
  rw [this]

theorem addNew_rename (f : κ → κ') (hf : Injective f) (l : List κ) (k : κ) :
    addNew (l.map f) (f k) = (addNew l k).map f := by
  unfold addNew
  simp only [mem_map_inj f hf]
  by_cases h : k ∈ l <;> simp [h]

theorem fromItp_rename (f : κ → κ') (hf : Injective f) (g : ResGraph κ) (k : κ) :
    ((renameGraph f g).node? (f k)).bind (·.fromItp) = (g.node? k).bind (·.fromItp) := by
  rw [node?_rename f hf]
  cases g.node? k <;> rfl

theorem classify_rename (f : κ → κ') (hf : Injective f) (g : ResGraph κ) (init : List κ) :
    classify (renameGraph f g) (init.map f) =
      ((classify g init).1.map f, (classify g init).2.map (renameEdge f)) := by
  unfold classify
  rw [graphEdges_rename f hf]
  generalize graphEdges g = edges
  have key : ∀ (edges : List (κ × κ)) (acc : List κ × List (κ × κ)),
      (edges.map (renameEdge f)).foldl (fun (acc : List κ' × List (κ' × κ')) e =>
          match ((renameGraph f g).node? e.1).bind (·.fromItp), ((renameGraph f g).node? e.2).bind (·.fromItp) with
          | some a, some b => if a = b then (acc.1, acc.2 ++ [e]) else acc
          | _, _ => (addNew (addNew acc.1 e.1) e.2, acc.2)) (acc.1.map f, acc.2.map (renameEdge f)) =
      (((edges.foldl (fun (acc : List κ × List (κ × κ)) e =>
          match (g.node? e.1).bind (·.fromItp), (g.node? e.2).bind (·.fromItp) with
          | some a, some b => if a = b then (acc.1, acc.2 ++ [e]) else acc
          | _, _ => (addNew (addNew acc.1 e.1) e.2, acc.2)) acc).1).map f,
       ((edges.foldl (fun (acc : List κ × List (κ × κ)) e =>
          match (g.node? e.1).bind (·.fromItp), (g.node? e.2).bind (·.fromItp) with
          | some a, some b => if a = b then (acc.1, acc.2 ++ [e]) else acc
          | _, _ => (addNew (addNew acc.1 e.1) e.2, acc.2)) acc).2).map (renameEdge f)) := by
    intro edges
    induction edges with
    | nil => intro acc; rfl
    | cons e rest ih =>
      intro acc
      simp only [List.map_cons, List.foldl_cons]
      have h1 : (renameEdge f e).1 = f e.1 := rfl
      have h2 : (renameEdge f e).2 = f e.2 := rfl
      rw [h1, h2, fromItp_rename f hf, fromItp_rename f hf]
      cases ha : (g.node? e.1).bind (·.fromItp) <;> cases hb : (g.node? e.2).bind (·.fromItp)
      · simp only [addNew_rename f hf]; exact ih (addNew (addNew acc.1 e.1) e.2, acc.2)
      · simp only [addNew_rename f hf]; exact ih (addNew (addNew acc.1 e.1) e.2, acc.2)
      · simp only [addNew_rename f hf]; exact ih (addNew (addNew acc.1 e.1) e.2, acc.2)
      · rename_i a b
        by_cases hab : a = b
        · simp only [hab, if_true]
          have := ih (acc.1, acc.2 ++ [e])
          simpa [renameEdge] using this
        · simp only [hab, if_false]
          exact ih acc
  have := key edges (init, [])
  simp only [List.map_nil] at this
  exact this

theorem closureStep_rename (f : κ → κ') (hf : Injective f) (edges : List (κ × κ)) :
    ∀ (seen : List κ),
      (edges.map (renameEdge f)).foldl (fun s e =>
          if e.1 ∈ s ∧ e.2 ∉ s then s ++ [e.2] else if e.2 ∈ s ∧ e.1 ∉ s then s ++ [e.1] else s) (seen.map f) =
      (edges.foldl (fun s e =>
          if e.1 ∈ s ∧ e.2 ∉ s then s ++ [e.2] else if e.2 ∈ s ∧ e.1 ∉ s then s ++ [e.1] else s) seen).map f := by
  induction edges with
  | nil => intro seen; rfl
  | cons e rest ih =>
    intro seen
    simp only [List.map_cons, List.foldl_cons, renameEdge, mem_map_inj f hf]
    by_cases h1 : e.1 ∈ seen ∧ e.2 ∉ seen
    · simp only [h1, and_self, not_false_eq_true, if_true]
      have := ih (seen ++ [e.2])
      simpa using this
    · simp only [h1, if_false]
      by_cases h2 : e.2 ∈ seen ∧ e.1 ∉ seen
      · simp only [h2, and_self, not_false_eq_true, if_true]
        have := ih (seen ++ [e.1])
        simpa using this
      · simp only [h2, if_false]
        exact ih seen

theorem closure_rename (f : κ → κ') (hf : Injective f) (edges : List (κ × κ)) :
    ∀ (fuel : Nat) (seen : List κ),
      closure (edges.map (renameEdge f)) fuel (seen.map f) = (closure edges fuel seen).map f := by
  intro fuel
  induction fuel with
  | zero => intro seen; rfl
  | succ n ih =>
    intro seen
    simp only [closure]
    rw [closureStep_rename f hf edges seen]
    exact ih _

theorem components_rename (f : κ → κ') (hf : Injective f) (keys : List κ) (edges : List (κ × κ)) :
    components (keys.map f) (edges.map (renameEdge f)) = (components keys edges).map (·.map f) := by
  unfold components
  simp only [List.length_map]
  generalize keys.length = fuel
  have key : ∀ (ks : List κ) (comps : List (List κ)),
      (ks.map f).foldl (fun comps k =>
          if comps.any (fun c => k ∈ c) then comps else comps ++ [closure (edges.map (renameEdge f)) fuel [k]])
        (comps.map (·.map f)) =
      (ks.foldl (fun comps k =>
          if comps.any (fun c => k ∈ c) then comps else comps ++ [closure edges fuel [k]]) comps).map (·.map f) := by
    intro ks
    induction ks with
    | nil => intro comps; rfl
    | cons k rest ih =>
      intro comps
      simp only [List.map_cons, List.foldl_cons]
      have hany : ((comps.map (·.map f)).any fun c => decide (f k ∈ c)) = comps.any fun c => decide (k ∈ c) := by
        rw [List.any_map]
        congr 1
        funext c
        simp only [Function.comp, mem_map_inj f hf]
      rw [hany]
      by_cases h : (comps.any fun c => decide (k ∈ c)) = true
      · simp only [h, if_true]
        exact ih comps
      · simp only [h, Bool.false_eq_true, if_false]
        have hc := closure_rename f hf edges fuel [k]
        simp only [List.map_cons, List.map_nil] at hc
        rw [hc]
        have := ih (comps ++ [closure edges fuel [k]])
        simpa using this
  have := key keys []
  simpa using this

theorem slices_map {α β : Type} (h : α → β) : ∀ (n len : Nat) (l : List α),
    slices n len (l.map h) = (slices n len l).map (·.map h) := by
  intro n
  induction n with
  | zero => intro len l; rfl
  | succ k ih =>
    intro len l
    simp only [slices, List.map_cons, List.map_take]
    rw [← List.map_drop, ih]

theorem assocSet_rename {β : Type} (f : κ → κ') (hf : Injective f) (l : List (κ × β)) (k : κ) (v : β) :
    assocSet (renameAssoc f l) (f k) v = renameAssoc f (assocSet l k v) := by
  induction l with
  | nil => rfl
  | cons kv rest ih =>
    unfold renameAssoc at ih ⊢
    simp only [List.map_cons, assocSet]
    by_cases h : kv.1 = k
    · simp [h]
    · have h' : ¬ f kv.1 = f k := fun e => h (hf _ _ e)
      simp only [h, h', if_false, List.map_cons, ih]

theorem foldl_assocSet_rename {β : Type} (f : κ → κ') (hf : Injective f) (v : β) (grp : List κ) :
    ∀ (l : List (κ × β)),
      (grp.map f).foldl (fun b k => assocSet b k v) (renameAssoc f l) =
        renameAssoc f (grp.foldl (fun b k => assocSet b k v) l) := by
  induction grp with
  | nil => intro l; rfl
  | cons k rest ih =>
    intro l
    simp only [List.map_cons, List.foldl_cons, assocSet_rename f hf]
    exact ih _

theorem filterMap_node?_rename (f : κ → κ') (hf : Injective f) (g : ResGraph κ) (comp : List κ) :
    (comp.map f).filterMap (renameGraph f g).node? = (comp.filterMap g.node?).map (renameNode f) := by
  induction comp with
  | nil => rfl
  | cons k rest ih =>
    simp only [List.map_cons, List.filterMap_cons, node?_rename f hf]
    cases g.node? k with
    | none => simpa using ih
    | some n => simp [ih]

theorem addFragment_rename (f : κ → κ') (hf : Injective f) (ff : FF) (g : ResGraph κ) (t : Tables κ)
    (comp : List κ) :
    addFragment ff (renameGraph f g) (renameTables f t) (comp.map f) =
      (addFragment ff g t comp).map (renameTables f) := by
  unfold addFragment
  simp only [filterMap_node?_rename f hf, sortByResid_rename]
  cases hs : sortByResid (comp.filterMap g.node?) with
  | nil => rfl
  | cons first rest =>
    simp only [List.map_cons, renameNode, List.length_cons, List.length_map]
    cases ff.block? (first.fromItp.getD "") with
    | none => rfl
    | some block =>
      simp only
      by_cases h0 : block.nres = 0
      · simp [h0, Except.map]
      · simp only [h0, if_false]
        by_cases h1 : (rest.length + 1) % block.nres ≠ 0
        · simp [h1, Except.map]
        · simp only [h1, if_false, Except.map]
          congr 1
          have hkeys : (f first.key :: List.map (fun n => (renameNode f n).key) rest) =
              (first.key :: rest.map (·.key)).map f := by
            simp [List.map_map, Function.comp_def, renameNode]
          have hmm : List.map (fun x => x.key) (List.map (renameNode f) rest) =
              List.map (fun n => (renameNode f n).key) rest := by
            simp [List.map_map, Function.comp_def]
          simp only [List.map_map] at hmm ⊢
          rw [show (f first.key :: List.map ((fun x => x.key) ∘ renameNode f) rest) =
              (first.key :: rest.map (·.key)).map f from by simp [List.map_map, Function.comp_def, renameNode]]
          rw [slices_map]
          generalize slices ((rest.length + 1) / block.nres) block.nres (first.key :: rest.map (·.key)) = groups
          -- fold over the groups
          have key : ∀ (groups : List (List κ)) (t : Tables κ),
              (groups.map (·.map f)).foldl (fun (t : Tables κ') grp =>
                  { blockOf := grp.foldl (fun b k => assocSet b k (first.fromItp.getD "")) t.blockOf,
                    fragOf := grp.foldl (fun fr k => assocSet fr k t.frags.length) t.fragOf,
                    frags := t.frags ++ [grp] }) (renameTables f t) =
              renameTables f (groups.foldl (fun (t : Tables κ) grp =>
                  { blockOf := grp.foldl (fun b k => assocSet b k (first.fromItp.getD "")) t.blockOf,
                    fragOf := grp.foldl (fun fr k => assocSet fr k t.frags.length) t.fragOf,
                    frags := t.frags ++ [grp] }) t) := by
            intro groups
            induction groups with
            | nil => intro t; rfl
            | cons grp more ih =>
              intro t
              simp only [List.map_cons, List.foldl_cons]
              have := ih { blockOf := grp.foldl (fun b k => assocSet b k (first.fromItp.getD "")) t.blockOf,
                           fragOf := grp.foldl (fun fr k => assocSet fr k t.frags.length) t.fragOf,
                           frags := t.frags ++ [grp] }
              rw [← this]
              congr 1
              simp only [renameTables, foldl_assocSet_rename f hf, List.length_map, List.map_append, List.map_cons,
                List.map_nil]
          exact key groups t

theorem foldlM_addFragment_rename (f : κ → κ') (hf : Injective f) (ff : FF) (g : ResGraph κ)
    (comps : List (List κ)) : ∀ (t : Tables κ),
      (comps.map (·.map f)).foldlM (addFragment ff (renameGraph f g)) (renameTables f t) =
        (comps.foldlM (addFragment ff g) t).map (renameTables f) := by
  induction comps with
  | nil => intro t; rfl
  | cons c rest ih =>
    intro t
    simp only [List.map_cons, List.foldlM_cons, addFragment_rename f hf, bind, Except.bind]
    cases addFragment ff g t c with
    | error e => rfl
    | ok t' => simp only [Except.map]; exact ih t'

theorem regularTable_rename (f : κ → κ') (hf : Injective f) (g : ResGraph κ) (regular : List κ) :
    ∀ (acc : List (κ × String)),
      (regular.map f).foldl (fun b k => assocSet b k (((renameGraph f g).node? k).map (·.resname) |>.getD ""))
          (renameAssoc f acc) =
        renameAssoc f (regular.foldl (fun b k => assocSet b k ((g.node? k).map (·.resname) |>.getD "")) acc) := by
  induction regular with
  | nil => intro acc; rfl
  | cons k rest ih =>
    intro acc
    simp only [List.map_cons, List.foldl_cons, node?_rename f hf]
    have hres : (Option.map (fun x => x.resname) (Option.map (renameNode f) (g.node? k))).getD "" =
        (Option.map (fun x => x.resname) (g.node? k)).getD "" := by
      cases g.node? k <;> rfl
    rw [hres, assocSet_rename f hf]
    exact ih _

theorem matchNodesToBlocks_rename (f : κ → κ') (hf : Injective f) (ff : FF) (g : ResGraph κ) :
    matchNodesToBlocks ff (renameGraph f g) = (matchNodesToBlocks ff g).map (renameTables f) := by
  unfold matchNodesToBlocks
  have hkeys : ((renameGraph f g).nodes.filter (·.fromItp.isSome)).map (·.key) =
      ((g.nodes.filter (·.fromItp.isSome)).map (·.key)).map f := by
    simp only [renameGraph, List.filter_map, List.map_map]
    rfl
  have hinit : (if (renameGraph f g).nodes.length = 1 then (renameGraph f g).nodes.map (·.key) else []) =
      (if g.nodes.length = 1 then g.nodes.map (·.key) else []).map f := by
    simp only [renameGraph, List.length_map, List.map_map]
    split
    · rw [List.map_map]
      apply List.map_congr_left
      intro n _
      rfl
    · rfl
  rw [hkeys, hinit, classify_rename f hf]
  simp only
  rw [components_rename f hf]
  have hreg := regularTable_rename f hf g (classify g (if g.nodes.length = 1 then g.nodes.map (·.key) else [])).1 []
  simp only [renameAssoc, List.map_nil] at hreg
  rw [hreg]
  exact foldlM_addFragment_rename f hf ff g _ ⟨_, [], []⟩

theorem blocksKnown_rename (f : κ → κ') (ff : FF) (t : Tables κ) :
    blocksKnown ff (renameTables f t) = blocksKnown ff t := by
  simp [blocksKnown, renameTables, renameAssoc, List.all_map, Function.comp_def]

theorem nrexclOf_rename (f : κ → κ') (ff : FF) (t : Tables κ) :
    nrexclOf ff (renameTables f t) = nrexclOf ff t := by
  simp [nrexclOf, renameTables, renameAssoc, List.filterMap_map, Function.comp_def]

/-- the whole of `MapToMolecule.run_molecule` commutes with every injective renaming of the node keys -/
theorem mapToMolecule_rename (f : κ → κ') (hf : Injective f) (ff : FF) (g : ResGraph κ) :
    mapToMolecule ff (renameGraph f g) = (mapToMolecule ff g).map (fun r => (renameSt f r.1, r.2)) := by
  unfold mapToMolecule
  rw [matchNodesToBlocks_rename f hf]
  cases matchNodesToBlocks ff g with
  | error e => rfl
  | ok t =>
    simp only [Except.map, blocksKnown_rename, nrexclOf_rename]
    by_cases hk : blocksKnown ff t = true
    · simp only [hk, Bool.not_true, Bool.false_eq_true, if_false]
      have := addBlocks_rename f hf ff t g.nodes
      simp only [renameGraph] at this ⊢
      rw [this]
      cases addBlocks ff t g.nodes with
      | error e => rfl
      | ok st => rfl
    · simp [hk]

end relabel2

/-! ## C13: order of link definitions that do not write the same key -/

/-- which interactions survive link application (no removal): the link interactions, and the block
interactions whose key no link writes -/
theorem applyLinks_core_mem (m : Mol) (ops : List LinkOp)
    (hblock : (m.ixns.map keyOf).Nodup) (hins : ((insertedIxns ops).map keyOf).Nodup)
    (hnorem : removedNodes ops = []) :
    ∃ core, (∀ genExcl, (applyLinks m ops genExcl).ixns = core ++ genExcl) ∧ core.Nodup ∧
      ∀ j, j ∈ core ↔ (j ∈ insertedIxns ops ∨ (j ∈ m.ixns ∧ keyOf j ∉ (insertedIxns ops).map keyOf)) := by
  have hrem : (ops.foldl applyOp ⟨m.atoms, seed m.ixns, []⟩).removed = [] := by
    rw [foldl_applyOp_removed, hnorem]
    rfl
  have htab : (ops.foldl applyOp ⟨m.atoms, seed m.ixns, []⟩).table =
      build keyOf id [] (m.ixns ++ insertedIxns ops) := by
    rw [foldl_applyOp_table, seed_eq_build, build_append]
  have hkv : ∀ kv ∈ build keyOf id ([] : List (Key × Ixn)) (m.ixns ++ insertedIxns ops),
      kv.1 = keyOf kv.2 ∧ kv.2 ∈ m.ixns ++ insertedIxns ops := by
    intro kv hin
    rcases build_mem_inv keyOf id _ [] kv hin with h | ⟨x, hx, rfl⟩
    · simp at h
    · exact ⟨rfl, hx⟩
  have hkeys := build_keys_nodup keyOf id (m.ixns ++ insertedIxns ops) ([] : List (Key × Ixn)) (by simp)
  -- two entries with the same key are the same entry
  have huniq : ∀ kv1 ∈ build keyOf id ([] : List (Key × Ixn)) (m.ixns ++ insertedIxns ops),
      ∀ kv2 ∈ build keyOf id ([] : List (Key × Ixn)) (m.ixns ++ insertedIxns ops),
      kv1.1 = kv2.1 → kv1 = kv2 := fun kv1 h1 kv2 h2 he => nodup_map_inj _ _ hkeys kv1 kv2 h1 h2 he
  refine ⟨(build keyOf id [] (m.ixns ++ insertedIxns ops)).map (·.2), ?_, ?_, ?_⟩
  · intro genExcl
    simp only [applyLinks]
    rw [flush_no_removed _ hrem, htab]
  · apply nodup_of_map keyOf
    have : ((build keyOf id ([] : List (Key × Ixn)) (m.ixns ++ insertedIxns ops)).map (·.2)).map keyOf =
        (build keyOf id ([] : List (Key × Ixn)) (m.ixns ++ insertedIxns ops)).map (·.1) := by
      rw [List.map_map]
      apply List.map_congr_left
      intro kv hin
      exact ((hkv kv hin).1).symm
    rw [this]
    exact hkeys
  · intro j
    constructor
    · intro hj
      obtain ⟨kv, hin, rfl⟩ := List.mem_map.mp hj
      rcases List.mem_append.mp (hkv kv hin).2 with hb | hi
      · by_cases hk : keyOf kv.2 ∈ (insertedIxns ops).map keyOf
        · -- the key is written by a link: the surviving entry is that link interaction
          obtain ⟨i, hi, hik⟩ := List.mem_map.mp hk
          obtain ⟨l1, l2, hsplit⟩ := List.append_of_mem hi
          have hl2 : keyOf i ∉ l2.map keyOf := by
            rw [hsplit] at hins
            simp only [List.map_append, List.map_cons] at hins
            exact (List.nodup_cons.mp (List.nodup_append.mp hins).2.1).1
          have hmem := build_mem_last keyOf id (m.ixns ++ l1) l2 i ([] : List (Key × Ixn)) hl2
          have hlist : m.ixns ++ l1 ++ i :: l2 = m.ixns ++ insertedIxns ops := by
            rw [hsplit]; simp
          rw [hlist] at hmem
          have := huniq kv hin (keyOf i, id i) hmem (by rw [(hkv kv hin).1]; exact hik.symm)
          left
          rw [this]
          exact hi
        · exact Or.inr ⟨hb, hk⟩
      · exact Or.inl hi
    · intro hj
      rcases hj with hi | ⟨hb, hk⟩
      · obtain ⟨l1, l2, hsplit⟩ := List.append_of_mem hi
        have hl2 : keyOf j ∉ l2.map keyOf := by
          rw [hsplit] at hins
          simp only [List.map_append, List.map_cons] at hins
          exact (List.nodup_cons.mp (List.nodup_append.mp hins).2.1).1
        have hmem := build_mem_last keyOf id (m.ixns ++ l1) l2 j ([] : List (Key × Ixn)) hl2
        have hlist : m.ixns ++ l1 ++ j :: l2 = m.ixns ++ insertedIxns ops := by
          rw [hsplit]; simp
        rw [hlist] at hmem
        exact List.mem_map.mpr ⟨_, hmem, rfl⟩
      · obtain ⟨l1, l2, hsplit⟩ := List.append_of_mem hb
        have hl2 : keyOf j ∉ (l2 ++ insertedIxns ops).map keyOf := by
          rw [hsplit] at hblock
          simp only [List.map_append, List.map_cons] at hblock
          have h3 : keyOf j ∉ l2.map keyOf := (List.nodup_cons.mp (List.nodup_append.mp hblock).2.1).1
          simp only [List.map_append, List.mem_append, not_or]
          exact ⟨h3, hk⟩
        have hmem := build_mem_last keyOf id l1 (l2 ++ insertedIxns ops) j ([] : List (Key × Ixn)) hl2
        have hlist : l1 ++ j :: (l2 ++ insertedIxns ops) = m.ixns ++ insertedIxns ops := by
          rw [hsplit]; simp
        rw [hlist] at hmem
        exact List.mem_map.mpr ⟨_, hmem, rfl⟩

theorem insertedIxns_perm {ops ops' : List LinkOp} (hp : ops.Perm ops') :
    (insertedIxns ops).Perm (insertedIxns ops') := hp.filterMap _

theorem removedNodes_perm {ops ops' : List LinkOp} (hp : ops.Perm ops') :
    (removedNodes ops).Perm (removedNodes ops') := hp.filterMap _

/-- Any reordering of link applications whose interactions have pairwise distinct keys gives the same
MULTISET of interactions (the order inside a section may change, which the property allows). -/
theorem applyLinks_perm (m : Mol) (ops ops' : List LinkOp) (genExcl : List Ixn) (hp : ops.Perm ops')
    (hblock : (m.ixns.map keyOf).Nodup) (hins : ((insertedIxns ops).map keyOf).Nodup)
    (hnorem : removedNodes ops = []) :
    (applyLinks m ops genExcl).ixns.Perm (applyLinks m ops' genExcl).ixns := by
  have hpi := insertedIxns_perm hp
  have hins' : ((insertedIxns ops').map keyOf).Nodup := ((hpi.map keyOf).nodup_iff).mp hins
  have hnorem' : removedNodes ops' = [] := by
    have := (removedNodes_perm hp).length_eq
    rw [hnorem] at this
    exact List.length_eq_zero_iff.mp this.symm
  obtain ⟨c1, h1, n1, m1⟩ := applyLinks_core_mem m ops hblock hins hnorem
  obtain ⟨c2, h2, n2, m2⟩ := applyLinks_core_mem m ops' hblock hins' hnorem'
  rw [h1 genExcl, h2 genExcl]
  apply List.Perm.append_right
  rw [List.perm_ext_iff_of_nodup n1 n2]
  intro j
  rw [m1 j, m2 j]
  have hk : ∀ k, k ∈ (insertedIxns ops).map keyOf ↔ k ∈ (insertedIxns ops').map keyOf :=
    fun k => (hpi.map keyOf).mem_iff
  rw [hpi.mem_iff, hk]

/-! ## concrete data for the non-vacuity examples of the property files -/

namespace Example

def gly : Block := ⟨"GLY", 1,
  [⟨1, 1, [("atomname", "BB"), ("atype", "P1"), ("resname", "GLY"), ("charge", "0.5"), ("mass", "72.0")]⟩,
   ⟨1, 2, [("atomname", "SC1"), ("atype", "C1"), ("resname", "GLY"), ("charge", "-0.5")]⟩],
  [⟨"bonds", [0, 1], ["1", "0.3", "5000"], []⟩]⟩

def ala : Block := ⟨"ALA", 1,
  [⟨1, 1, [("atomname", "BB"), ("atype", "P2"), ("resname", "ALA"), ("charge", "0.0")]⟩], []⟩

/-- a two-residue block (residues R1, R2), used through `from_itp` -/
def mr : Block := ⟨"MR", 1,
  [⟨1, 1, [("atomname", "a"), ("resname", "R1")]⟩, ⟨1, 1, [("atomname", "b"), ("resname", "R1")]⟩,
   ⟨2, 2, [("atomname", "a"), ("resname", "R2")]⟩],
  [⟨"bonds", [0, 1], ["1", "0.1", "1"], []⟩, ⟨"bonds", [1, 2], ["1", "0.1", "1"], []⟩]⟩

def nter : Modif := ⟨"N-ter", [("BB", [("atype", "Q5"), ("charge", "1.0")])], []⟩

def ff : FF := ⟨[gly, ala, mr], [nter]⟩

/-- three residues inserted out of order, keys 10/3/5, resids 8/7/9 -/
def nodes : List (ResNode Nat) := [⟨10, 8, "ALA", none⟩, ⟨3, 7, "GLY", none⟩, ⟨5, 9, "GLY", none⟩]

def tbl : Tables Nat := ⟨[(3, "GLY"), (10, "ALA"), (5, "GLY")], [], []⟩

/-- two copies of the two-residue block on node keys 28..31 followed by a regular residue -/
def nodes2 : List (ResNode Nat) :=
  [⟨30, 3, "R1", some "MR"⟩, ⟨28, 1, "R1", some "MR"⟩, ⟨32, 5, "ALA", none⟩, ⟨31, 4, "R2", some "MR"⟩,
   ⟨29, 2, "R2", some "MR"⟩]

def tbl2 : Tables Nat :=
  ⟨[(32, "ALA"), (28, "MR"), (29, "MR"), (30, "MR"), (31, "MR")], [(28, 0), (29, 0), (30, 1), (31, 1)],
   [[28, 29], [30, 31]]⟩

end Example

end PolyplyVerif.Proofs.MapToMol
