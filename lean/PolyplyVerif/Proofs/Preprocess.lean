/-
Helper lemmas for C09 (model: `Model/Preprocess.lean`).

Part 1: the dihedral wildcard search.  Everything is derived from three decidable facts about a pattern
table (`TableFacts`: every pattern is a mask, the table is sorted by wildcard count, every one of the 16
masks occurs in the table up to reversal) plus a generic analysis of the search loop.  The property file
instantiates `TableFacts` for the TRANSLATED table by `decide`.
-/
import PolyplyVerif.Model.Preprocess

namespace PolyplyVerif.Proofs.Preprocess
open PolyplyVerif PolyplyVerif.Preprocess

abbrev Pat := List (Option Nat)

/-- a pattern is a mask: four entries, entry `j` is the wildcard or the index `j` itself -/
def isMask (p : Pat) : Bool :=
  match p with
  | [e0, e1, e2, e3] => (e0 == none || e0 == some 0) && (e1 == none || e1 == some 1) &&
                        (e2 == none || e2 == some 2) && (e3 == none || e3 == some 3)
  | _ => false

def noneCount (p : Pat) : Nat := p.count none

/-- the mask read from the other end -/
def revMask (p : Pat) : Pat :=
  match p with
  | [e0, e1, e2, e3] => [e3.map (fun _ => 0), e2.map (fun _ => 1), e1.map (fun _ => 2), e0.map (fun _ => 3)]
  | _ => p

def bit (b : Bool) (j : Nat) : Option Nat := if b then none else some j

/-- all 16 wildcard masks -/
def allMasks : List Pat :=
  [false, true].flatMap fun b0 => [false, true].flatMap fun b1 => [false, true].flatMap fun b2 =>
    [false, true].map fun b3 => [bit b0 0, bit b1 1, bit b2 2, bit b3 3]

/-- the three facts about a pattern table the theorems need (all decidable) -/
structure TableFacts (P : List Pat) : Prop where
  masks : P.all isMask = true
  sorted : (P.map noneCount).Pairwise (· ≤ ·)
  covers : allMasks.all (fun m => P.contains m || P.contains (revMask m)) = true

theorem mask_mem_allMasks (p : Pat) (h : isMask p = true) : p ∈ allMasks := by
  match p, h with
  | [e0, e1, e2, e3], h =>
    simp only [isMask, Bool.and_eq_true, Bool.or_eq_true, beq_iff_eq] at h
    obtain ⟨⟨⟨h0, h1⟩, h2⟩, h3⟩ := h
    rcases h0 with rfl | rfl <;> rcases h1 with rfl | rfl <;> rcases h2 with rfl | rfl <;>
      rcases h3 with rfl | rfl <;> decide

theorem allMasks_isMask : ∀ m ∈ allMasks, isMask m = true := by decide

theorem revMask_mem : ∀ m ∈ allMasks, revMask m ∈ allMasks := by decide

theorem revMask_noneCount : ∀ m ∈ allMasks, noneCount (revMask m) = noneCount m := by decide

theorem len4 {α} (a : List α) (h : a.length = 4) : ∃ a0 a1 a2 a3, a = [a0, a1, a2, a3] := by
  match a, h with
  | [a0, a1, a2, a3], _ => exact ⟨a0, a1, a2, a3, rfl⟩

/-- reading a key through the reversed mask from the other end -/
theorem wk_revMask (m : Pat) (hm : m ∈ allMasks) (b0 b1 b2 b3 : String) :
    wildcardKey [b0, b1, b2, b3] m = (wildcardKey [b3, b2, b1, b0] (revMask m)).reverse := by
  simp only [allMasks, List.flatMap_cons, List.flatMap_nil, List.map_cons, List.map_nil, List.append_nil,
    List.cons_append, List.nil_append, List.mem_cons, List.not_mem_nil, or_false] at hm
  rcases hm with rfl | rfl | rfl | rfl | rfl | rfl | rfl | rfl | rfl | rfl | rfl | rfl | rfl | rfl | rfl | rfl <;> rfl

/-- a masked key matches the atoms it was made from -/
theorem wk_matches (m : Pat) (hm : m ∈ allMasks) (b0 b1 b2 b3 : String) :
    keyMatches (wildcardKey [b0, b1, b2, b3] m) [b0, b1, b2, b3] = true := by
  simp only [allMasks, List.flatMap_cons, List.flatMap_nil, List.map_cons, List.map_nil, List.append_nil,
    List.cons_append, List.nil_append, List.mem_cons, List.not_mem_nil, or_false] at hm
  rcases hm with rfl | rfl | rfl | rfl | rfl | rfl | rfl | rfl | rfl | rfl | rfl | rfl | rfl | rfl | rfl | rfl <;>
    simp [wildcardKey, keyMatches, bit]

/-! ### wildcard counting position by position (no assumption on the atom-type names) -/

def cx (s : String) : Nat := if s = "X" then 1 else 0
def ne1 (e : Option Nat) : Nat := if e = none then 1 else 0
/-- the key character a mask entry produces -/
def gk (e : Option Nat) (b : String) : String := match e with | none => "X" | some _ => b

theorem w4 (x0 x1 x2 x3 : String) : wildcards [x0, x1, x2, x3] = cx x0 + cx x1 + cx x2 + cx x3 := by
  simp only [wildcards, cx, List.count_cons, List.count_nil, beq_iff_eq]
  omega

theorem n4 (e0 e1 e2 e3 : Option Nat) : noneCount [e0, e1, e2, e3] = ne1 e0 + ne1 e1 + ne1 e2 + ne1 e3 := by
  simp only [noneCount, ne1, List.count_cons, List.count_nil, beq_iff_eq]
  omega

theorem c4 (b0 b1 b2 b3 : String) : List.count "X" [b0, b1, b2, b3] = cx b0 + cx b1 + cx b2 + cx b3 := w4 b0 b1 b2 b3

theorem wk_mask4 (e0 e1 e2 e3 : Option Nat) (b0 b1 b2 b3 : String)
    (h0 : e0 = none ∨ e0 = some 0) (h1 : e1 = none ∨ e1 = some 1) (h2 : e2 = none ∨ e2 = some 2)
    (h3 : e3 = none ∨ e3 = some 3) :
    wildcardKey [b0, b1, b2, b3] [e0, e1, e2, e3] = [gk e0 b0, gk e1 b1, gk e2 b2, gk e3 b3] := by
  rcases h0 with rfl | rfl <;> rcases h1 with rfl | rfl <;> rcases h2 with rfl | rfl <;> rcases h3 with rfl | rfl <;> rfl

theorem isMask_entries (e0 e1 e2 e3 : Option Nat) (h : isMask [e0, e1, e2, e3] = true) :
    (e0 = none ∨ e0 = some 0) ∧ (e1 = none ∨ e1 = some 1) ∧ (e2 = none ∨ e2 = some 2) ∧ (e3 = none ∨ e3 = some 3) := by
  simp only [isMask, Bool.and_eq_true, Bool.or_eq_true, beq_iff_eq] at h
  exact ⟨h.1.1.1, h.1.1.2, h.1.2, h.2⟩

theorem cx_gk_le (e : Option Nat) (b : String) : cx (gk e b) ≤ ne1 e + cx b := by
  cases e with
  | none => simp [gk, cx, ne1]
  | some i => simp [gk, ne1]

/-- a masked key has at most the wildcards of the mask plus the atom types that are themselves called `X` -/
theorem wk_wildcards_le (p : Pat) (hp : isMask p = true) (b0 b1 b2 b3 : String) :
    wildcards (wildcardKey [b0, b1, b2, b3] p) ≤ noneCount p + List.count "X" [b0, b1, b2, b3] := by
  match p, hp with
  | [e0, e1, e2, e3], hp =>
    obtain ⟨h0, h1, h2, h3⟩ := isMask_entries _ _ _ _ hp
    rw [wk_mask4 _ _ _ _ _ _ _ _ h0 h1 h2 h3, w4, n4, c4]
    have := cx_gk_le e0 b0; have := cx_gk_le e1 b1; have := cx_gk_le e2 b2; have := cx_gk_le e3 b3
    omega

/-- mask entry of the smallest mask producing key character `k` from atom type `b` -/
def minBit (k b : String) (j : Nat) : Option Nat := if k = "X" ∧ b ≠ "X" then none else some j

theorem minBit_spec (k b : String) (j : Nat) (h : k = "X" ∨ k = b) :
    (minBit k b j = none ∨ minBit k b j = some j) ∧ gk (minBit k b j) b = k ∧ ne1 (minBit k b j) + cx b = cx k := by
  unfold minBit
  by_cases hk : k = "X"
  · by_cases hb : b = "X"
    · subst hk hb; simp [gk, ne1, cx]
    · subst hk; simp [gk, ne1, cx, hb]
  · have hkb : k = b := by rcases h with h | h; exact absurd h hk; exact h
    subst hkb
    simp [gk, ne1, hk]

/-- a key that matches the atoms is the masked key of its SMALLEST mask, whose wildcard count is the key's
wildcard count minus the atom types called `X` -/
theorem key_of_minmask (k : Key) (b0 b1 b2 b3 : String) (h : keyMatches k [b0, b1, b2, b3] = true) :
    ∃ m, m ∈ allMasks ∧ wildcardKey [b0, b1, b2, b3] m = k ∧
      noneCount m + List.count "X" [b0, b1, b2, b3] = wildcards k := by
  have hl : k.length = 4 := by
    simp only [keyMatches, Bool.and_eq_true, beq_iff_eq] at h
    simpa using h.1
  obtain ⟨k0, k1, k2, k3, rfl⟩ := len4 k hl
  simp only [keyMatches, List.length_cons, List.length_nil, List.zipWith_cons_cons, List.zipWith_nil_left,
    List.all_cons, List.all_nil, Bool.and_eq_true, Bool.or_eq_true, beq_iff_eq, id] at h
  obtain ⟨_, h0, h1, h2, h3, _⟩ := h
  obtain ⟨a0, g0, s0⟩ := minBit_spec k0 b0 0 h0
  obtain ⟨a1, g1, s1⟩ := minBit_spec k1 b1 1 h1
  obtain ⟨a2, g2, s2⟩ := minBit_spec k2 b2 2 h2
  obtain ⟨a3, g3, s3⟩ := minBit_spec k3 b3 3 h3
  refine ⟨[minBit k0 b0 0, minBit k1 b1 1, minBit k2 b2 2, minBit k3 b3 3], ?_, ?_, ?_⟩
  · apply mask_mem_allMasks
    simp only [isMask, Bool.and_eq_true, Bool.or_eq_true, beq_iff_eq]
    exact ⟨⟨⟨a0, a1⟩, a2⟩, a3⟩
  · rw [wk_mask4 _ _ _ _ _ _ _ _ a0 a1 a2 a3, g0, g1, g2, g3]
  · rw [n4, c4, w4]; omega

/-! ### the search loop -/

/-- the keys tried for one pattern, in the order the code tries them -/
def cands (a : Key) (p : Pat) : List Key :=
  [wildcardKey a p, (wildcardKey a p).reverse, wildcardKey a.reverse p, (wildcardKey a.reverse p).reverse]

theorem tryPattern_eq (t : TypeTable) (a : Key) (p : Pat) :
    tryPattern t a p = (cands a p).find? (hasKey t) := by
  simp only [tryPattern, tryKey, cands, List.findSome?_cons, List.findSome?_nil, List.find?_cons, List.find?_nil]
  cases h1 : hasKey t (wildcardKey a p) <;> cases h2 : hasKey t (wildcardKey a p).reverse <;>
    cases h3 : hasKey t (wildcardKey a.reverse p) <;> cases h4 : hasKey t (wildcardKey a.reverse p).reverse <;>
    simp

theorem hasKey_iff (t : TypeTable) (k : Key) : hasKey t k = true ↔ k ∈ t.map (·.1) := by
  simp only [hasKey, tlookup, Option.isSome_map, List.find?_isSome, beq_iff_eq, List.mem_map]

/-- every key tried for a mask matches the atoms in one of the two directions -/
theorem cands_match (m : Pat) (hm : m ∈ allMasks) (a : Key) (ha : a.length = 4) :
    ∀ c ∈ cands a m, matchesEither c a = true := by
  obtain ⟨b0, b1, b2, b3, rfl⟩ := len4 a ha
  have hr : [b0, b1, b2, b3].reverse = [b3, b2, b1, b0] := rfl
  have e1 : (wildcardKey [b0, b1, b2, b3] m).reverse = wildcardKey [b3, b2, b1, b0] (revMask m) := by
    rw [wk_revMask m hm, List.reverse_reverse]
  have e2 : (wildcardKey [b3, b2, b1, b0] m).reverse = wildcardKey [b0, b1, b2, b3] (revMask m) := by
    rw [wk_revMask m hm, List.reverse_reverse]
  intro c hc
  simp only [cands, hr, List.mem_cons, List.not_mem_nil, or_false] at hc
  simp only [matchesEither, hr, Bool.or_eq_true]
  rcases hc with rfl | rfl | rfl | rfl
  · exact Or.inl (wk_matches m hm _ _ _ _)
  · rw [e1]; exact Or.inr (wk_matches _ (revMask_mem m hm) _ _ _ _)
  · exact Or.inr (wk_matches m hm _ _ _ _)
  · rw [e2]; exact Or.inl (wk_matches _ (revMask_mem m hm) _ _ _ _)

theorem cands_wildcards_le (p : Pat) (hp : isMask p = true) (a : Key) (ha : a.length = 4) :
    ∀ c ∈ cands a p, wildcards c ≤ noneCount p + List.count "X" a := by
  obtain ⟨b0, b1, b2, b3, rfl⟩ := len4 a ha
  have hr : [b0, b1, b2, b3].reverse = [b3, b2, b1, b0] := rfl
  have hcr : List.count "X" [b3, b2, b1, b0] = List.count "X" [b0, b1, b2, b3] := by
    rw [← hr, List.count_reverse]
  intro c hc
  simp only [cands, hr, List.mem_cons, List.not_mem_nil, or_false] at hc
  rcases hc with rfl | rfl | rfl | rfl
  · exact wk_wildcards_le p hp _ _ _ _
  · rw [wildcards, List.count_reverse]; exact wk_wildcards_le p hp _ _ _ _
  · rw [← hcr]; exact wk_wildcards_le p hp _ _ _ _
  · rw [wildcards, List.count_reverse, ← hcr]; exact wk_wildcards_le p hp _ _ _ _

/-- a matching key is among the keys tried for its smallest mask and for the reverse of that mask -/
theorem match_in_cands_min (k a : Key) (ha : a.length = 4) (h : matchesEither k a = true) :
    ∃ m ∈ allMasks, noneCount m + List.count "X" a = wildcards k ∧ k ∈ cands a m ∧ k ∈ cands a (revMask m) := by
  obtain ⟨b0, b1, b2, b3, rfl⟩ := len4 a ha
  have hr : [b0, b1, b2, b3].reverse = [b3, b2, b1, b0] := rfl
  have hcr : List.count "X" [b3, b2, b1, b0] = List.count "X" [b0, b1, b2, b3] := by
    rw [← hr, List.count_reverse]
  simp only [matchesEither, hr, Bool.or_eq_true] at h
  rcases h with h | h
  · obtain ⟨m, hm, hk, hn⟩ := key_of_minmask k _ _ _ _ h
    refine ⟨m, hm, hn, ?_, ?_⟩
    · simp [cands, hk]
    · have := wk_revMask _ hm b0 b1 b2 b3
      simp only [cands, hr, List.mem_cons]
      right; right; right; left
      rw [← this, hk]
  · obtain ⟨m, hm, hk, hn⟩ := key_of_minmask k _ _ _ _ h
    refine ⟨m, hm, by rw [← hcr]; exact hn, ?_, ?_⟩
    · simp [cands, hr, hk]
    · have := wk_revMask _ hm b3 b2 b1 b0
      simp only [cands, hr, List.mem_cons]
      right; left
      rw [← this, hk]

/-- What `matchDihedral` returns, for ANY table with the three facts: a key of the type table that
matches the atoms (in one of the two directions) such that no matching key has fewer wildcards. -/
theorem matchDihedral_some (P : List Pat) (F : TableFacts P) (t : TypeTable) (a k : Key) (ha : a.length = 4)
    (h : matchDihedral P a t = some k) :
    k ∈ t.map (·.1) ∧ matchesEither k a = true ∧
      ∀ k' ∈ t.map (·.1), matchesEither k' a = true → wildcards k ≤ wildcards k' := by
  obtain ⟨l1, p, l2, hP, hp, hbefore⟩ := List.findSome?_eq_some_iff.mp h
  rw [tryPattern_eq] at hp
  have hpk : hasKey t k = true := by simpa using List.find?_some hp
  have hkc : k ∈ cands a p := List.mem_of_find?_eq_some hp
  have hpP : p ∈ P := by rw [hP]; simp
  have hpmask : isMask p = true := List.all_eq_true.mp F.masks p hpP
  have hpm : p ∈ allMasks := mask_mem_allMasks p hpmask
  refine ⟨(hasKey_iff t k).mp hpk, cands_match p hpm a ha k hkc, ?_⟩
  intro k' hk' hmatch
  obtain ⟨m, hm, hn, hc1, hc2⟩ := match_in_cands_min k' a ha hmatch
  -- the smallest mask of k' (or its reverse) is in the table
  have hcov := List.all_eq_true.mp F.covers m hm
  simp only [Bool.or_eq_true, List.contains_iff_mem] at hcov
  have key : ∀ q ∈ P, k' ∈ cands a q → noneCount q + List.count "X" a = wildcards k' → wildcards k ≤ wildcards k' := by
    intro q hq hkq hnq
    -- q cannot come before p: the search would have stopped there
    have hnot : q ∉ l1 := by
      intro hq1
      have := hbefore q hq1
      rw [tryPattern_eq, List.find?_eq_none] at this
      exact this k' hkq ((hasKey_iff t k').mpr hk')
    have hsorted := F.sorted
    rw [hP, List.map_append, List.map_cons, List.pairwise_append] at hsorted
    have hle : noneCount p ≤ noneCount q := by
      rw [hP] at hq
      rcases List.mem_append.mp hq with hq | hq
      · exact absurd hq hnot
      · rcases List.mem_cons.mp hq with rfl | hq
        · exact Nat.le_refl _
        · exact (List.pairwise_cons.mp hsorted.2.1).1 _ (List.mem_map_of_mem hq)
    have := cands_wildcards_le p hpmask a ha k hkc
    omega
  rcases hcov with hq | hq
  · exact key m hq hc1 hn
  · exact key (revMask m) hq hc2 (by rw [revMask_noneCount m hm, hn])

/-- the search fails exactly when no key of the table matches -/
theorem matchDihedral_none_iff (P : List Pat) (F : TableFacts P) (t : TypeTable) (a : Key) (ha : a.length = 4) :
    matchDihedral P a t = none ↔ ∀ k' ∈ t.map (·.1), matchesEither k' a = false := by
  constructor
  · intro h k' hk'
    cases hmatch : matchesEither k' a with
    | false => rfl
    | true =>
      obtain ⟨m, hm, _, hc1, hc2⟩ := match_in_cands_min k' a ha hmatch
      have hcov := List.all_eq_true.mp F.covers m hm
      simp only [Bool.or_eq_true, List.contains_iff_mem] at hcov
      have hnone := List.findSome?_eq_none_iff.mp h
      rcases hcov with hq | hq
      · have := hnone m hq
        rw [tryPattern_eq, List.find?_eq_none] at this
        exact absurd ((hasKey_iff t k').mpr hk') (this k' hc1)
      · have := hnone _ hq
        rw [tryPattern_eq, List.find?_eq_none] at this
        exact absurd ((hasKey_iff t k').mpr hk') (this k' hc2)
  · intro h
    apply List.findSome?_eq_none_iff.mpr
    intro p hp
    rw [tryPattern_eq, List.find?_eq_none]
    intro c hc hkey
    have hpm : p ∈ allMasks := mask_mem_allMasks p (List.all_eq_true.mp F.masks p hp)
    have := cands_match p hpm a ha c hc
    rw [h c ((hasKey_iff t c).mp hkey)] at this
    exact Bool.false_ne_true this

theorem keyMatches_self (a : Key) : keyMatches a a = true := by
  simp only [keyMatches, beq_self_eq_true, Bool.true_and]
  induction a with
  | nil => rfl
  | cons x rest _ => simp

theorem matchesEither_reverse (k a : Key) : matchesEither k a.reverse = matchesEither k a := by
  simp [matchesEither, Bool.or_comm]

/-- direction independence: listing the atoms the other way round changes neither whether a type is found
nor how many wildcards the found key has; if the least-wildcarded matching key is unique, it is the same key. -/
theorem matchDihedral_symm (P : List Pat) (F : TableFacts P) (t : TypeTable) (a : Key) (ha : a.length = 4) :
    ((matchDihedral P a t).isSome = (matchDihedral P a.reverse t).isSome) ∧
    (∀ k1 k2, matchDihedral P a t = some k1 → matchDihedral P a.reverse t = some k2 →
      wildcards k1 = wildcards k2 ∧
      ((∀ k k' : Key, k ∈ t.map (·.1) → k' ∈ t.map (·.1) → matchesEither k a = true → matchesEither k' a = true →
          wildcards k = wildcards k' → k = k') → k1 = k2)) := by
  have har : a.reverse.length = 4 := by simpa using ha
  constructor
  · cases h1 : matchDihedral P a t with
    | none =>
      cases h2 : matchDihedral P a.reverse t with
      | none => rfl
      | some k2 =>
        obtain ⟨hk, hm, _⟩ := matchDihedral_some P F t _ k2 har h2
        rw [matchesEither_reverse] at hm
        have := (matchDihedral_none_iff P F t a ha).mp h1 k2 hk
        rw [this] at hm; exact absurd hm Bool.false_ne_true
    | some k1 =>
      cases h2 : matchDihedral P a.reverse t with
      | some k2 => rfl
      | none =>
        obtain ⟨hk, hm, _⟩ := matchDihedral_some P F t _ k1 ha h1
        have := (matchDihedral_none_iff P F t _ har).mp h2 k1 hk
        rw [matchesEither_reverse] at this
        rw [this] at hm; exact absurd hm Bool.false_ne_true
  · intro k1 k2 h1 h2
    obtain ⟨hk1, hm1, hmin1⟩ := matchDihedral_some P F t _ k1 ha h1
    obtain ⟨hk2, hm2, hmin2⟩ := matchDihedral_some P F t _ k2 har h2
    rw [matchesEither_reverse] at hm2
    have hw : wildcards k1 = wildcards k2 := by
      have := hmin1 k2 hk2 hm2
      have := hmin2 k1 hk1 (by rw [matchesEither_reverse]; exact hm1)
      omega
    exact ⟨hw, fun huniq => huniq k1 k2 hk1 hk2 hm1 hm2 hw⟩

/-! ## Part 2: exact / reversed lookup, macros, multi-term expansion -/

theorem lookupType_nondihedral (P : List Pat) (it : String) (a : Key) (t : TypeTable) (h : dihLike it = false) :
    lookupType P it a t = (match tlookup t a with | some e => some e | none => tlookup t a.reverse) := by
  unfold lookupType
  cases tlookup t a with
  | some e => rfl
  | none =>
    cases tlookup t a.reverse with
    | some e => rfl
    | none => simp [h]

theorem lookupType_exact (P : List Pat) (it : String) (a : Key) (t : TypeTable) (e : List TypeEntry)
    (h : tlookup t a = some e) : lookupType P it a t = some e := by
  unfold lookupType; rw [h]

theorem lookupType_reversed (P : List Pat) (it : String) (a : Key) (t : TypeTable) (e : List TypeEntry)
    (h0 : tlookup t a = none) (h : tlookup t a.reverse = some e) : lookupType P it a t = some e := by
  unfold lookupType; rw [h0, h]

/-- the macro value a parameter token stands for -/
def expandToken (d : Defines) (p : String) : List String :=
  match dlookup d p with
  | some (.vals l) => l
  | _ => [p]

theorem replaceParams_ok (d : Defines) (ps : List String) (h : ∀ p ∈ ps, dlookup d p ≠ some .flag) :
    replaceParams d ps = .ok (ps.flatMap (expandToken d)) := by
  induction ps with
  | nil => rfl
  | cons p rest ih =>
    have ih' := ih (fun q hq => h q (List.mem_cons_of_mem _ hq))
    have hp := h p List.mem_cons_self
    unfold replaceParams
    cases hd : dlookup d p with
    | none => simp [ih', expandToken, hd, Except.map]
    | some v =>
      cases v with
      | flag => exact absurd hd hp
      | vals l => simp [ih', expandToken, hd, Except.map]

theorem replaceParams_error (d : Defines) (ps : List String) (p : String) (hp : p ∈ ps)
    (h : dlookup d p = some .flag) : ∃ e, replaceParams d ps = .error e := by
  induction ps with
  | nil => cases hp
  | cons q rest ih =>
    unfold replaceParams
    rcases List.mem_cons.mp hp with rfl | hin
    · rw [h]; exact ⟨_, rfl⟩
    · obtain ⟨e, he⟩ := ih hin
      cases hd : dlookup d q with
      | none => exact ⟨e, by simp [he, Except.map]⟩
      | some v =>
        cases v with
        | flag => exact ⟨_, rfl⟩
        | vals l => exact ⟨e, by simp [he, Except.map]⟩

theorem flatMap_expand_untouched (d : Defines) (ps : List String) (h : ∀ p ∈ ps, dlookup d p = none) :
    ps.flatMap (expandToken d) = ps := by
  induction ps with
  | nil => rfl
  | cons p rest ih =>
    simp only [List.flatMap_cons, expandToken, h p List.mem_cons_self]
    rw [ih (fun q hq => h q (List.mem_cons_of_mem _ hq))]
    rfl

/-! ### multi-term expansion -/

/-- the type entries found for an interaction -/
def termsFor (P : List Pat) (opls : Bool) (ats : List AtomType) (b : Block) (it : String) (t : TypeTable)
    (i : Ixn) : Option (List TypeEntry) :=
  (ixnKey opls ats b i).bind fun key => lookupType P it key t

/-- what happens to the interaction itself -/
def upd (P : List Pat) (opls : Bool) (ats : List AtomType) (b : Block) (it : String) (t : TypeTable) (i : Ixn) : Ixn :=
  if i.params.length == paramlessLen then
    match termsFor P opls ats b it t i with
    | some (e :: _) => firstTerm i e
    | _ => i
  else i

/-- the interactions added for it -/
def ext (P : List Pat) (opls : Bool) (ats : List AtomType) (b : Block) (it : String) (t : TypeTable) (i : Ixn) : List Ixn :=
  if i.params.length == paramlessLen then
    match termsFor P opls ats b it t i with
    | some (_ :: es) => extraTerms i es
    | _ => []
  else []

theorem resolveIxn_ok (P : List Pat) (opls : Bool) (ats : List AtomType) (b : Block) (it : String) (t : TypeTable)
    (i i' : Ixn) (add : List Ixn) (h : resolveIxn P opls ats b it t i = .ok (i', add)) :
    i' = upd P opls ats b it t i ∧ add = ext P opls ats b it t i := by
  unfold resolveIxn at h
  unfold upd ext termsFor
  by_cases hl : (i.params.length == paramlessLen) = true
  · simp only [hl, if_true] at h ⊢
    cases hk : ixnKey opls ats b i with
    | none => simp [hk] at h
    | some key =>
      simp only [hk, Option.bind_some] at h ⊢
      cases hlk : lookupType P it key t with
      | none => simp [hlk] at h
      | some es =>
        cases es with
        | nil => simp [hlk] at h; obtain ⟨h1, h2⟩ := h; subst h1 h2; exact ⟨rfl, rfl⟩
        | cons e es => simp [hlk] at h; obtain ⟨h1, h2⟩ := h; subst h1 h2; exact ⟨rfl, rfl⟩
  · simp only [hl] at h ⊢
    simp at h
    obtain ⟨h1, h2⟩ := h; subst h1 h2; exact ⟨rfl, rfl⟩

theorem resolveList_ok (P : List Pat) (opls : Bool) (ats : List AtomType) (b : Block) (it : String) (t : TypeTable)
    (l l' add : List Ixn) (h : resolveList P opls ats b it t l = .ok (l', add)) :
    l' = l.map (upd P opls ats b it t) ∧ add = l.flatMap (ext P opls ats b it t) := by
  induction l generalizing l' add with
  | nil => simp [resolveList] at h; obtain ⟨h1, h2⟩ := h; subst h1 h2; exact ⟨rfl, rfl⟩
  | cons i rest ih =>
    unfold resolveList at h
    cases hi : resolveIxn P opls ats b it t i with
    | error e => simp [hi] at h
    | ok r =>
      obtain ⟨i', a1⟩ := r
      cases hr : resolveList P opls ats b it t rest with
      | error e => simp [hi, hr] at h
      | ok r2 =>
        obtain ⟨l2, a2⟩ := r2
        simp [hi, hr] at h
        obtain ⟨e1, e2⟩ := resolveIxn_ok P opls ats b it t i i' a1 hi
        obtain ⟨e3, e4⟩ := ih l2 a2 hr
        subst e1 e2 e3 e4
        exact ⟨h.1.symm, by simp [← h.2]⟩

/-- a section after `gen_bonded_interactions`, as every instance carries it -/
def expandSection (P : List Pat) (opls : Bool) (ats : List AtomType) (b : Block) (types : Types)
    (s : String × List Ixn) : String × List Ixn :=
  if untyped.contains s.1 then s
  else (s.1, s.2.map (upd P opls ats b s.1 (typesOf types s.1)) ++ s.2.flatMap (ext P opls ats b s.1 (typesOf types s.1)))

theorem resolveSections_ok (P : List Pat) (opls : Bool) (ats : List AtomType) (b : Block) (types : Types)
    (s s' : List (String × List Ixn)) (h : resolveSections P opls ats b types s = .ok s') :
    s' = s.map (expandSection P opls ats b types) := by
  induction s generalizing s' with
  | nil => simp [resolveSections] at h; subst h; rfl
  | cons hd rest ih =>
    obtain ⟨nm, l⟩ := hd
    unfold resolveSections at h
    by_cases hu : untyped.contains nm = true
    · simp only [hu, if_true] at h
      cases hr : resolveSections P opls ats b types rest with
      | error e => simp [hr, Except.map] at h
      | ok r =>
        simp [hr, Except.map] at h
        have hu' : nm ∈ untyped := by simpa using hu
        rw [← h, ih r hr]
        simp [expandSection, hu']
    · simp only [hu] at h
      cases hl : resolveList P opls ats b nm (typesOf types nm) l with
      | error e => simp [hl] at h
      | ok r1 =>
        obtain ⟨l', add⟩ := r1
        cases hr : resolveSections P opls ats b types rest with
        | error e => simp [hl, hr, Except.map] at h
        | ok r =>
          simp [hl, hr, Except.map] at h
          obtain ⟨e1, e2⟩ := resolveList_ok P opls ats b nm _ l l' add hl
          have hu' : nm ∉ untyped := by simpa using hu
          rw [← h, ih r hr, e1, e2]
          simp [expandSection, hu']

theorem upd_atoms (P : List Pat) (opls : Bool) (ats : List AtomType) (b : Block) (it : String) (t : TypeTable)
    (i : Ixn) : (upd P opls ats b it t i).atoms = i.atoms := by
  unfold upd
  split
  · split <;> simp [firstTerm]
  · rfl

theorem ext_atoms (P : List Pat) (opls : Bool) (ats : List AtomType) (b : Block) (it : String) (t : TypeTable)
    (i : Ixn) : ∀ j ∈ ext P opls ats b it t i, j.atoms = i.atoms := by
  unfold ext
  split
  · split
    · intro j hj; simp [extraTerms] at hj; obtain ⟨e, _, rfl⟩ := hj; rfl
    · intro j hj; cases hj
  · intro j hj; cases hj

/-- the interactions on the atoms `a` in an expanded section come from the interactions on `a` -/
theorem expand_filter (f : Ixn → Ixn) (g : Ixn → List Ixn) (hf : ∀ i, (f i).atoms = i.atoms)
    (hg : ∀ i, ∀ j ∈ g i, j.atoms = i.atoms) (a : List Nat) (l : List Ixn) :
    (l.map f ++ l.flatMap g).filter (fun j => j.atoms == a) =
      (l.filter (fun j => j.atoms == a)).map f ++ (l.filter (fun j => j.atoms == a)).flatMap g := by
  rw [List.filter_append]
  congr 1
  · induction l with
    | nil => rfl
    | cons i rest ih =>
      simp only [List.map_cons, List.filter_cons, hf]
      split <;> simp [ih]
  · induction l with
    | nil => rfl
    | cons i rest ih =>
      simp only [List.flatMap_cons, List.filter_append, List.filter_cons]
      by_cases hi : (i.atoms == a) = true
      · have : (g i).filter (fun j => j.atoms == a) = g i := by
          apply List.filter_eq_self.mpr
          intro j hj; rw [hg i j hj]; exact hi
        simp [hi, this, ih]
      · have : (g i).filter (fun j => j.atoms == a) = [] := by
          apply List.filter_eq_nil_iff.mpr
          intro j hj; rw [hg i j hj]; exact hi
        simp [hi, this, ih]

/-! ## Part 3: non-bonded pairs -/

theorem samePair_comm (a b c d : String) : samePair a b c d = samePair a b d c := by
  simp only [samePair]
  rw [Bool.or_comm]

theorem samePair_trans (x y a b c d : String) (h : samePair a b c d = true) :
    samePair x y a b = samePair x y c d := by
  simp only [samePair, Bool.or_eq_true, Bool.and_eq_true, beq_iff_eq] at h
  rcases h with ⟨rfl, rfl⟩ | ⟨rfl, rfl⟩
  · rfl
  · exact samePair_comm x y _ _

theorem nbLookup_comm (t : List NbEntry) (a b : String) : nbLookup t a b = nbLookup t b a := by
  unfold nbLookup
  congr 1
  funext e
  exact samePair_comm _ _ _ _

theorem nbLookup_congr (t : List NbEntry) (a b c d : String) (h : samePair a b c d = true) :
    nbLookup t a b = nbLookup t c d := by
  unfold nbLookup
  congr 1
  funext e
  exact samePair_trans _ _ _ _ _ _ h

/-- lookup after a run of "add unless present" steps: the old entry, else the first new entry for the pair -/
theorem nbLookup_foldl (es : List NbEntry) (t : List NbEntry) (a b : String) :
    nbLookup (es.foldl addIfAbsent t) a b =
      (match nbLookup t a b with
       | some e => some e
       | none => es.find? (fun e => samePair e.a e.b a b)) := by
  induction es generalizing t with
  | nil => simp only [List.foldl_nil, List.find?_nil]; cases nbLookup t a b <;> rfl
  | cons e es ih =>
    rw [List.foldl_cons, ih]
    unfold addIfAbsent
    by_cases hp : (nbLookup t e.a e.b).isSome = true
    · simp only [hp, if_true]
      cases hl : nbLookup t a b with
      | some x => rfl
      | none =>
        simp only [List.find?_cons]
        cases hs : samePair e.a e.b a b with
        | false => rfl
        | true =>
          rw [nbLookup_congr t e.a e.b a b hs, hl] at hp
          exact absurd hp (by simp)
    · simp only [hp]
      have happ : nbLookup (t ++ [e]) a b =
          (match nbLookup t a b with | some x => some x | none => if samePair e.a e.b a b then some e else none) := by
        unfold nbLookup
        rw [List.find?_append]
        cases List.find? (fun e => samePair e.a e.b a b) t with
        | some x => rfl
        | none => simp only [List.find?_cons, List.find?_nil]; cases samePair e.a e.b a b <;> rfl
      simp only [Bool.false_eq_true, if_false]
      rw [happ]
      cases hl : nbLookup t a b with
      | some x => rfl
      | none =>
        simp only [List.find?_cons]
        cases hs : samePair e.a e.b a b <;> simp

theorem mem_combinations2_ne (l : List String) (hn : l.Nodup) : ∀ p ∈ combinations2 l, p.1 ≠ p.2 ∧ p.1 ∈ l ∧ p.2 ∈ l := by
  induction l with
  | nil => intro p hp; cases hp
  | cons x rest ih =>
    intro p hp
    simp only [combinations2, List.mem_append, List.mem_map] at hp
    have hx := (List.nodup_cons.mp hn)
    rcases hp with ⟨y, hy, rfl⟩ | hp
    · refine ⟨fun h => hx.1 ?_, List.mem_cons_self, List.mem_cons_of_mem _ hy⟩
      simp only at h; rw [h]; exact hy
    · obtain ⟨h1, h2, h3⟩ := ih hx.2 p hp
      exact ⟨h1, List.mem_cons_of_mem _ h2, List.mem_cons_of_mem _ h3⟩

theorem combinations2_complete (l : List String) (a b : String) (ha : a ∈ l) (hb : b ∈ l) (hne : a ≠ b) :
    (a, b) ∈ combinations2 l ∨ (b, a) ∈ combinations2 l := by
  induction l with
  | nil => cases ha
  | cons x rest ih =>
    simp only [combinations2, List.mem_append, List.mem_map]
    rcases List.mem_cons.mp ha with rfl | ha'
    · rcases List.mem_cons.mp hb with rfl | hb'
      · exact absurd rfl hne
      · exact Or.inl (Or.inl ⟨b, hb', rfl⟩)
    · rcases List.mem_cons.mp hb with rfl | hb'
      · exact Or.inr (Or.inl ⟨a, ha', rfl⟩)
      · rcases ih ha' hb' with h | h
        · exact Or.inl (Or.inr h)
        · exact Or.inr (Or.inr h)

/-- the three layers of `gen_pairs`: explicit entry, else generated cross term, else self term -/
theorem genPairs_lookup (yes : Bool) (ats : List AtomType) (expl : List NbEntry) (a b : String) :
    nbLookup (genPairs yes ats expl) a b =
      (match nbLookup expl a b with
       | some e => some e
       | none =>
         match (if yes then ((combinations2 (ats.map (·.name))).map fun p => (⟨p.1, p.2, .generated, none⟩ : NbEntry)).find?
                      (fun e => samePair e.a e.b a b) else none) with
         | some e => some e
         | none => (ats.map fun x => (⟨x.name, x.name, .self, some (x.nb1, x.nb2)⟩ : NbEntry)).find?
                      (fun e => samePair e.a e.b a b)) := by
  unfold genPairs genSelf
  rw [nbLookup_foldl]
  cases yes with
  | false => simp only [Bool.false_eq_true, if_false]
  | true =>
    simp only [if_true]
    unfold genCross
    rw [nbLookup_foldl]
    cases nbLookup expl a b <;> rfl

/-! ## Part 4: the whole of `preprocess` -/

theorem mapBlocksM_mem {α} (f : Block → Except String α) (l : List Block) (out : List α)
    (h : mapBlocksM f l = .ok out) : ∀ x ∈ out, ∃ b ∈ l, f b = .ok x := by
  induction l generalizing out with
  | nil => simp [mapBlocksM] at h; subst h; intro x hx; cases hx
  | cons b rest ih =>
    unfold mapBlocksM at h
    cases hb : f b with
    | error e => simp [hb] at h
    | ok y =>
      cases hr : mapBlocksM f rest with
      | error e => simp [hb, hr, Except.map] at h
      | ok ys =>
        simp [hb, hr, Except.map] at h
        subst h
        intro x hx
        rcases List.mem_cons.mp hx with rfl | hx
        · exact ⟨b, List.mem_cons_self, hb⟩
        · obtain ⟨b', hb', hf⟩ := ih ys hr x hx
          exact ⟨b', List.mem_cons_of_mem _ hb', hf⟩

theorem mapBlocksM_map {α β} (f : Block → Except String α) (g : α → β) (g' : Block → β)
    (hg : ∀ b x, f b = .ok x → g x = g' b) (l : List Block) (out : List α)
    (h : mapBlocksM f l = .ok out) : out.map g = l.map g' := by
  induction l generalizing out with
  | nil => simp [mapBlocksM] at h; subst h; rfl
  | cons b rest ih =>
    unfold mapBlocksM at h
    cases hb : f b with
    | error e => simp [hb] at h
    | ok y =>
      cases hr : mapBlocksM f rest with
      | error e => simp [hb, hr, Except.map] at h
      | ok ys =>
        simp [hb, hr, Except.map] at h
        subst h
        simp [hg b y hb, ih ys hr]

theorem replaceDefinesBlock_name (d : Defines) (b b' : Block) (h : replaceDefinesBlock d b = .ok b') :
    b'.name = b.name := by
  unfold replaceDefinesBlock at h
  cases hs : replaceSections d b.ixns with
  | error e => simp [hs, Except.map] at h
  | ok s => simp [hs, Except.map] at h; subst h; rfl

theorem find_isSome_names {β} (l : List (String × β)) (nm : String) :
    (l.find? (fun e => e.1 == nm)).isSome = ((l.map (·.1)).any (· == nm)) := by
  induction l with
  | nil => rfl
  | cons x xs ihx =>
    simp only [List.find?_cons, List.map_cons, List.any_cons]
    cases hx : x.1 == nm <;> simp [ihx]

/-- Every molecule instance of a successfully preprocessed topology carries, section by section, the
expansion of its (macro-substituted) block; and every `[molecules]` entry that names a block is there. -/
theorem preprocess_instances (P : List Pat) (cf : List (Nat × String)) (tp : Topo) (r : Result)
    (h : preprocess P cf tp = .ok r) :
    (∀ inst ∈ r.instances, ∃ b ∈ tp.blocks, ∃ b', replaceDefinesBlock tp.defines b = .ok b' ∧ b.name = inst.1 ∧
        inst.2 = b'.ixns.map (expandSection P (oplsOf tp.defines) tp.atomTypes b' tp.types)) ∧
    r.instances.map (·.1) = tp.molecules.filter (fun nm => tp.blocks.any (fun b => b.name == nm)) := by
  unfold preprocess at h
  cases hc : tp.combRule with
  | none => simp [hc] at h
  | some rule =>
    simp only [hc] at h
    split at h
    · cases h
    · cases hb : mapBlocksM (replaceDefinesBlock tp.defines) tp.blocks with
      | error e => simp [hb] at h
      | ok blocks =>
        simp only [hb] at h
        cases hr : mapBlocksM (fun b => (resolveBlock P (oplsOf tp.defines) tp.atomTypes tp.types b).map fun s => (b.name, s)) blocks with
        | error e => simp [hr] at h
        | ok resolved =>
          simp only [hr] at h
          injection h with h
          subst h
          have names1 : blocks.map (·.name) = tp.blocks.map (·.name) :=
            mapBlocksM_map _ (·.name) (·.name) (fun b x hx => replaceDefinesBlock_name _ b x hx) _ _ hb
          have names2 : resolved.map (·.1) = blocks.map (·.name) := by
            apply mapBlocksM_map _ (·.1) (·.name) _ _ _ hr
            intro b x hx
            cases hs : resolveBlock P (oplsOf tp.defines) tp.atomTypes tp.types b with
            | error e => simp [hs, Except.map] at hx
            | ok s => simp [hs, Except.map] at hx; subst hx; rfl
          constructor
          · intro inst hinst
            simp only [List.mem_filterMap] at hinst
            obtain ⟨nm, _, hfind⟩ := hinst
            cases hf : resolved.find? (fun e => e.1 == nm) with
            | none => simp [hf] at hfind
            | some e =>
              simp [hf] at hfind
              subst hfind
              have he := List.mem_of_find?_eq_some hf
              have hname : e.1 = nm := by simpa using List.find?_some hf
              obtain ⟨b', hb', hres⟩ := mapBlocksM_mem _ _ _ hr e he
              obtain ⟨b, hbm, hrep⟩ := mapBlocksM_mem _ _ _ hb b' hb'
              refine ⟨b, hbm, b', hrep, ?_, ?_⟩
              · cases hs : resolveBlock P (oplsOf tp.defines) tp.atomTypes tp.types b' with
                | error e' => simp [hs, Except.map] at hres
                | ok s' =>
                  simp [hs, Except.map] at hres
                  rw [← replaceDefinesBlock_name _ _ _ hrep, ← hname, ← hres]
              · cases hs : resolveBlock P (oplsOf tp.defines) tp.atomTypes tp.types b' with
                | error e' => simp [hs, Except.map] at hres
                | ok s' =>
                  simp [hs, Except.map] at hres
                  rw [← hres]
                  exact resolveSections_ok P _ _ b' _ _ _ hs
          · have hany : ∀ nm, (tp.blocks.any fun b => b.name == nm) = (resolved.find? (fun e => e.1 == nm)).isSome := by
              intro nm
              have := find_isSome_names resolved nm
              rw [this, names2, names1, List.any_map]
              rfl
            generalize tp.molecules = mols
            induction mols with
            | nil => rfl
            | cons nm rest ihm =>
              simp only [List.filterMap_cons, List.filter_cons, hany nm]
              cases hf : resolved.find? (fun e => e.1 == nm) with
              | none => simpa using ihm
              | some e => simpa using ihm

/-! ## Part 5: the valued pair table (`genPairsV`) refines the provenance table (`genPairs`) -/

theorem combs2_names (ats : List AtomType) :
    (combs2 ats).map (fun p => (p.1.name, p.2.name)) = combinations2 (ats.map (·.name)) := by
  induction ats with
  | nil => rfl
  | cons x rest ih =>
    simp only [combs2, combinations2, List.map_append, List.map_map, List.map_cons, ih]
    rfl

theorem mem_combs2 {α : Type} (l : List α) : ∀ p ∈ combs2 l, p.1 ∈ l ∧ p.2 ∈ l := by
  induction l with
  | nil => intro p hp; cases hp
  | cons x rest ih =>
    intro p hp
    simp only [combs2, List.mem_append, List.mem_map] at hp
    rcases hp with ⟨y, hy, rfl⟩ | hp
    · exact ⟨List.mem_cons_self, List.mem_cons_of_mem _ hy⟩
    · exact ⟨List.mem_cons_of_mem _ (ih p hp).1, List.mem_cons_of_mem _ (ih p hp).2⟩

theorem name_inj (l : List AtomType) (hn : (l.map (·.name)).Nodup) (x y : AtomType) (hx : x ∈ l) (hy : y ∈ l)
    (h : x.name = y.name) : x = y := by
  induction l with
  | nil => cases hx
  | cons z rest ih =>
    have hn' : (z.name :: rest.map (·.name)).Nodup := hn
    obtain ⟨hz, hrest⟩ := List.nodup_cons.mp hn'
    rcases List.mem_cons.mp hx with rfl | hx' <;> rcases List.mem_cons.mp hy with rfl | hy'
    · rfl
    · exact absurd (h ▸ List.mem_map_of_mem (f := (·.name)) hy') hz
    · exact absurd (h ▸ List.mem_map_of_mem (f := (·.name)) hx') hz
    · exact ih hrest hx' hy'

theorem nbLookupV_erase (t : List NbV) (a b : String) :
    nbLookup (t.map NbV.erase) a b = (nbLookupV t a b).map NbV.erase := by
  unfold nbLookup nbLookupV
  rw [List.find?_map]
  rfl

theorem addIfAbsentV_erase (t : List NbV) (e : NbV) :
    (addIfAbsentV t e).map NbV.erase = addIfAbsent (t.map NbV.erase) e.erase := by
  unfold addIfAbsentV addIfAbsent
  have : (nbLookup (t.map NbV.erase) e.erase.a e.erase.b).isSome = (nbLookupV t e.a e.b).isSome := by
    rw [nbLookupV_erase]; simp [NbV.erase]
  rw [this]
  split <;> simp

theorem foldlV_erase (es t : List NbV) :
    (es.foldl addIfAbsentV t).map NbV.erase = (es.map NbV.erase).foldl addIfAbsent (t.map NbV.erase) := by
  induction es generalizing t with
  | nil => rfl
  | cons e es ih => rw [List.foldl_cons, ih, addIfAbsentV_erase, List.map_cons, List.foldl_cons]

/-- forgetting the values of `genPairsV` gives exactly `genPairs` -/
theorem genPairsV_erase (f : CombFn) (yes : Bool) (ats : List AtomType) (t : List NbV) :
    (genPairsV f yes ats t).map NbV.erase = genPairs yes ats (t.map NbV.erase) := by
  unfold genPairsV genPairs genSelfV genSelf
  rw [foldlV_erase]
  have hself : (ats.map fun a => (⟨a.name, a.name, .self, .exact a.nb1, .exact a.nb2⟩ : NbV)).map NbV.erase
      = ats.map fun a => (⟨a.name, a.name, .self, some (a.nb1, a.nb2)⟩ : NbEntry) := by
    rw [List.map_map]; rfl
  rw [hself]
  cases yes with
  | false => rfl
  | true =>
    simp only [if_true]
    unfold genCrossV genCross
    rw [foldlV_erase]
    have hcross : ((combs2 ats).map fun p => (⟨p.1.name, p.2.name, .generated, (combValues f p.1 p.2).1,
          (combValues f p.1 p.2).2⟩ : NbV)).map NbV.erase
        = (combinations2 (ats.map (·.name))).map fun p => (⟨p.1, p.2, .generated, none⟩ : NbEntry) := by
      rw [← combs2_names, List.map_map, List.map_map]; rfl
    rw [hcross]

theorem nbLookupV_comm (t : List NbV) (a b : String) : nbLookupV t a b = nbLookupV t b a := by
  unfold nbLookupV
  congr 1
  funext e
  exact samePair_comm _ _ _ _

theorem nbLookupV_congr (t : List NbV) (a b c d : String) (h : samePair a b c d = true) :
    nbLookupV t a b = nbLookupV t c d := by
  unfold nbLookupV
  congr 1
  funext e
  exact samePair_trans _ _ _ _ _ _ h

theorem nbLookupV_foldl (es : List NbV) (t : List NbV) (a b : String) :
    nbLookupV (es.foldl addIfAbsentV t) a b =
      (match nbLookupV t a b with
       | some e => some e
       | none => es.find? (fun e => samePair e.a e.b a b)) := by
  induction es generalizing t with
  | nil => simp only [List.foldl_nil, List.find?_nil]; cases nbLookupV t a b <;> rfl
  | cons e es ih =>
    rw [List.foldl_cons, ih]
    unfold addIfAbsentV
    by_cases hp : (nbLookupV t e.a e.b).isSome = true
    · simp only [hp, if_true]
      cases hl : nbLookupV t a b with
      | some x => rfl
      | none =>
        simp only [List.find?_cons]
        cases hs : samePair e.a e.b a b with
        | false => rfl
        | true =>
          rw [nbLookupV_congr t e.a e.b a b hs, hl] at hp
          exact absurd hp (by simp)
    · simp only [hp]
      have happ : nbLookupV (t ++ [e]) a b =
          (match nbLookupV t a b with | some x => some x | none => if samePair e.a e.b a b then some e else none) := by
        unfold nbLookupV
        rw [List.find?_append]
        cases List.find? (fun e => samePair e.a e.b a b) t with
        | some x => rfl
        | none => simp only [List.find?_cons, List.find?_nil]; cases samePair e.a e.b a b <;> rfl
      simp only [Bool.false_eq_true, if_false]
      rw [happ]
      cases hl : nbLookupV t a b with
      | some x => rfl
      | none =>
        simp only [List.find?_cons]
        cases hs : samePair e.a e.b a b <;> simp

/-- the three layers of `gen_pairs` with values -/
theorem genPairsV_lookup (f : CombFn) (yes : Bool) (ats : List AtomType) (expl : List NbV) (a b : String) :
    nbLookupV (genPairsV f yes ats expl) a b =
      (match nbLookupV expl a b with
       | some e => some e
       | none =>
         match (if yes then ((combs2 ats).map fun p => (⟨p.1.name, p.2.name, .generated, (combValues f p.1 p.2).1,
                        (combValues f p.1 p.2).2⟩ : NbV)).find? (fun e => samePair e.a e.b a b) else none) with
         | some e => some e
         | none => (ats.map fun x => (⟨x.name, x.name, .self, .exact x.nb1, .exact x.nb2⟩ : NbV)).find?
                      (fun e => samePair e.a e.b a b)) := by
  unfold genPairsV genSelfV
  rw [nbLookupV_foldl]
  cases yes with
  | false => simp only [Bool.false_eq_true, if_false]
  | true =>
    simp only [if_true]
    unfold genCrossV
    rw [nbLookupV_foldl]
    cases nbLookupV expl a b <;> rfl

/-- both combination rules are symmetric under exchanging the two atom types -/
theorem combValues_comm (f : CombFn) (x y : AtomType) : combValues f x y = combValues f y x := by
  cases f <;>
    simp only [combValues, CombFn.apply, lorentzBerthelot, geometric, Rat.add_comm x.nb1 y.nb1,
      Rat.mul_comm x.nb1 y.nb1, Rat.mul_comm x.nb2 y.nb2]

/-- the generated entry of a pair of different atom types carries the combination-rule values -/
theorem genPairsV_generated (f : CombFn) (ats : List AtomType) (expl : List NbV)
    (hn : (ats.map (·.name)).Nodup) (x y : AtomType) (hx : x ∈ ats) (hy : y ∈ ats) (hne : x.name ≠ y.name)
    (hnone : nbLookupV expl x.name y.name = none) :
    ∃ e, nbLookupV (genPairsV f true ats expl) x.name y.name = some e ∧ e.src = .generated ∧
      (e.nb1, e.nb2) = combValues f x y := by
  rw [genPairsV_lookup, hnone]
  simp only [if_true]
  have hfound : (((combs2 ats).map fun p => (⟨p.1.name, p.2.name, .generated, (combValues f p.1 p.2).1,
      (combValues f p.1 p.2).2⟩ : NbV)).find? (fun e => samePair e.a e.b x.name y.name)).isSome = true := by
    rw [List.find?_isSome]
    have hc := combinations2_complete (ats.map (·.name)) x.name y.name (List.mem_map_of_mem hx)
      (List.mem_map_of_mem hy) hne
    rw [← combs2_names] at hc
    simp only [List.mem_map] at hc
    rcases hc with ⟨p, hp, hpe⟩ | ⟨p, hp, hpe⟩
    · refine ⟨_, List.mem_map_of_mem hp, ?_⟩
      simp only [Prod.mk.injEq] at hpe
      simp [samePair, hpe.1, hpe.2]
    · refine ⟨_, List.mem_map_of_mem hp, ?_⟩
      simp only [Prod.mk.injEq] at hpe
      simp [samePair, hpe.1, hpe.2]
  cases hf : ((combs2 ats).map fun p => (⟨p.1.name, p.2.name, .generated, (combValues f p.1 p.2).1,
      (combValues f p.1 p.2).2⟩ : NbV)).find? (fun e => samePair e.a e.b x.name y.name) with
  | none => rw [hf] at hfound; cases hfound
  | some e =>
    refine ⟨e, rfl, ?_⟩
    have hmem := List.mem_of_find?_eq_some hf
    have hsp := List.find?_some hf
    simp only [List.mem_map] at hmem
    obtain ⟨p, hp, rfl⟩ := hmem
    obtain ⟨hp1, hp2⟩ := mem_combs2 ats p hp
    refine ⟨rfl, ?_⟩
    simp only [samePair, Bool.or_eq_true, Bool.and_eq_true, beq_iff_eq] at hsp
    rcases hsp with ⟨h1, h2⟩ | ⟨h1, h2⟩
    · rw [name_inj ats hn p.1 x hp1 hx h1, name_inj ats hn p.2 y hp2 hy h2]
    · rw [name_inj ats hn p.1 y hp1 hy h1, name_inj ats hn p.2 x hp2 hx h2, combValues_comm]

/-! ### `convertEntry`: outcomes -/

theorem convertEntry_pos (nb1 nb2 : Rat) (h1 : nb1 ≠ 0) (h2 : nb2 ≠ 0) (hr : ¬ nb2 / nb1 < 0) :
    convertEntry nb1 nb2 = .ok (.root 6 (nb2 / nb1), nb1 ^ 2 / (4 * nb2)) := by
  have h4 : 4 * nb2 ≠ 0 := by
    intro h
    rcases Rat.mul_eq_zero.mp h with h | h
    · exact absurd h (by decide)
    · exact h2 h
  simp [convertEntry, rootVal, h1, h2, h4, hr]

theorem convertEntry_zero : convertEntry 0 0 = .ok (.exact 0, 0) := by simp [convertEntry]

theorem convertEntry_left_zero (nb2 : Rat) (h2 : nb2 ≠ 0) : convertEntry 0 nb2 = .error "ZeroDivisionError" := by
  simp [convertEntry, h2]

theorem convertEntry_right_zero (nb1 : Rat) (h1 : nb1 ≠ 0) : convertEntry nb1 0 = .error "ZeroDivisionError" := by
  simp [convertEntry, h1]

end PolyplyVerif.Proofs.Preprocess
