import PolyplyVerif.Model.Output

/-! Helper lemmas for C20 (filesystem map, backup search, deferred writer). Core Lean only. -/

namespace PolyplyVerif.Proofs.Output
open PolyplyVerif.Output

/-! ### the finite map -/

theorem get_erase_same (fs : FS) (p : Path) : get (erase fs p) p = none := by
  induction fs with
  | nil => simp [erase, get]
  | cons e r ih =>
    obtain ⟨q, c⟩ := e
    by_cases h : q = p
    · simpa [erase, h] using ih
    · simpa [erase, h, get] using ih

theorem get_erase_ne (fs : FS) (p q : Path) (h : q ≠ p) : get (erase fs p) q = get fs q := by
  induction fs with
  | nil => simp [erase, get]
  | cons e r ih =>
    obtain ⟨x, c⟩ := e
    by_cases hx : x = p
    · have : x ≠ q := by intro e; exact h (e ▸ hx)
      simpa [erase, hx, get, this, hx ▸ this] using ih
    · by_cases hq : x = q
      · simp [erase, hx, get, hq]
      · simpa [erase, hx, get, hq] using ih

theorem get_set_same (fs : FS) (p : Path) (c : String) : get (set fs p c) p = some c := by
  simp [set, get]

theorem get_set_ne (fs : FS) (p q : Path) (c : String) (h : q ≠ p) : get (set fs p c) q = get fs q := by
  have : p ≠ q := fun e => h e.symm
  simp [set, get, this, get_erase_ne fs p q h]

theorem length_erase_le (fs : FS) (p : Path) : (erase fs p).length ≤ fs.length := by
  simpa [erase] using List.length_filter_le _ fs

theorem length_erase_lt (fs : FS) (p : Path) (h : get fs p ≠ none) : (erase fs p).length < fs.length := by
  induction fs with
  | nil => simp [get] at h
  | cons e r ih =>
    obtain ⟨q, c⟩ := e
    by_cases hq : q = p
    · have := length_erase_le r p
      simp [erase, hq] at this ⊢
      omega
    · have h' : get r p ≠ none := by simpa [get, hq] using h
      have := ih h'
      simp [erase, hq] at this ⊢
      omega

theorem get_eq_none_of_not_mem_keys (fs : FS) (p : Path) (h : p ∉ keys fs) : get fs p = none := by
  induction fs with
  | nil => simp [get]
  | cons e r ih =>
    obtain ⟨q, c⟩ := e
    simp [keys] at h
    have hq : q ≠ p := fun e => h.1 e.symm
    simp [get, hq]
    apply ih
    simpa [keys] using h.2

/-! ### `shutil.move` -/

theorem get_move_dst (fs : FS) (src dst : Path) (c : String) (h : get fs src = some c) :
    get (move fs src dst) dst = some c := by
  simp [move, h, get_set_same]

theorem get_move_src (fs : FS) (src dst : Path) (c : String) (h : get fs src = some c) (hne : src ≠ dst) :
    get (move fs src dst) src = none := by
  simp [move, h]
  rw [get_set_ne _ _ _ _ hne, get_erase_same]

theorem get_move_other (fs : FS) (src dst p : Path) (h1 : p ≠ src) (h2 : p ≠ dst) :
    get (move fs src dst) p = get fs p := by
  unfold move
  cases h : get fs src with
  | none => rfl
  | some c => simp; rw [get_set_ne _ _ _ _ h2, get_erase_ne _ _ _ h1]

/-! ### the backup search -/

/-- pigeonhole: `n` distinct occupied backup names need `n` entries -/
theorem occupied_le_length (name : String) (n : Nat) : ∀ fs : FS,
    (∀ j, 1 ≤ j → j ≤ n → get fs (.backup name j) ≠ none) → n ≤ fs.length := by
  induction n with
  | zero => intro fs _; omega
  | succ n ih =>
    intro fs h
    have hlt := length_erase_lt fs (.backup name (n + 1)) (h (n + 1) (by omega) (by omega))
    have := ih (erase fs (.backup name (n + 1))) (by
      intro j h1 h2
      rw [get_erase_ne]
      · exact h j h1 (by omega)
      · intro e
        injection e with _ e2
        omega)
    omega

theorem findFreeFrom_spec (fs : FS) (name : String) : ∀ fuel s,
    s ≤ findFreeFrom fs name fuel s ∧
    (∀ j, s ≤ j → j < findFreeFrom fs name fuel s → get fs (.backup name j) ≠ none) ∧
    (get fs (.backup name (findFreeFrom fs name fuel s)) = none ∨ findFreeFrom fs name fuel s = s + fuel) := by
  intro fuel
  induction fuel with
  | zero => intro s; simp [findFreeFrom]; intro j h1 h2; omega
  | succ fuel ih =>
    intro s
    unfold findFreeFrom
    by_cases h : (get fs (.backup name s)).isNone
    · simp [h]
      refine ⟨?_, ?_⟩
      · intro j h1 h2; omega
      · left; simpa using h
    · simp [h]
      obtain ⟨a, b, c⟩ := ih (s + 1)
      refine ⟨by omega, ?_, ?_⟩
      · intro j h1 h2
        by_cases hj : j = s
        · subst hj; simpa using h
        · exact b j (by omega) h2
      · cases c with
        | inl c => left; exact c
        | inr c => right; omega

/-- the name found is the first free `#name.k#`, k ≥ 1 -/
theorem findFree_spec (fs : FS) (name : String) :
    1 ≤ findFree fs name ∧ get fs (.backup name (findFree fs name)) = none ∧
    ∀ j, 1 ≤ j → j < findFree fs name → get fs (.backup name j) ≠ none := by
  obtain ⟨a, b, c⟩ := findFreeFrom_spec fs name fs.length 1
  refine ⟨a, ?_, b⟩
  cases c with
  | inl c => exact c
  | inr c =>
    -- all of 1 .. length are occupied; were length+1 occupied too, length+1 names would need length+1 entries
    cases hg : get fs (.backup name (findFree fs name)) with
    | none => rfl
    | some x =>
      exfalso
      have := occupied_le_length name (fs.length + 1) fs (by
        intro j h1 h2
        by_cases hj : j = fs.length + 1
        · have e : findFree fs name = j := by unfold findFree; omega
          rw [← e, hg]; simp
        · exact b j h1 (by show j < findFreeFrom fs name fs.length 1; omega))
      omega

/-- "first free index" determines the index -/
theorem least_free_unique (g : Nat → Option String) (k k' : Nat)
    (h1 : g k = none) (h2 : ∀ j, 1 ≤ j → j < k → g j ≠ none) (hk : 1 ≤ k)
    (h1' : g k' = none) (h2' : ∀ j, 1 ≤ j → j < k' → g j ≠ none) (hk' : 1 ≤ k') : k = k' := by
  rcases Nat.lt_trichotomy k k' with h | h | h
  · exact absurd h1 (h2' k hk h)
  · exact h
  · exact absurd h1' (h2 k' hk' h)

/-! ### `_write_file` -/

theorem writeFile_out (fs : FS) (t : Nat) (name c : String) (ht : get fs (.tmp t) = some c) :
    get (writeFile fs t name) (.file name) = some c := by
  unfold writeFile
  apply get_move_dst
  cases h : get fs (.file name) with
  | none => simpa using ht
  | some old =>
    simp
    rw [get_move_other _ _ _ _ (by simp) (by simp)]
    exact ht

theorem writeFile_tmp (fs : FS) (t : Nat) (name c : String) (ht : get fs (.tmp t) = some c) :
    get (writeFile fs t name) (.tmp t) = none := by
  unfold writeFile
  cases h : get fs (.file name) with
  | none => simp; exact get_move_src _ _ _ c ht (by simp)
  | some old =>
    simp
    apply get_move_src _ _ _ c _ (by simp)
    rw [get_move_other _ _ _ _ (by simp) (by simp)]
    exact ht

theorem writeFile_backup (fs : FS) (t : Nat) (name old : String) (h : get fs (.file name) = some old) :
    get (writeFile fs t name) (.backup name (findFree fs name)) = some old := by
  unfold writeFile
  simp [h]
  rw [get_move_other _ _ _ _ (by simp) (by simp)]
  exact get_move_dst _ _ _ _ h

theorem writeFile_other_none (fs : FS) (t : Nat) (name : String) (h : get fs (.file name) = none)
    (p : Path) (h1 : p ≠ .tmp t) (h2 : p ≠ .file name) :
    get (writeFile fs t name) p = get fs p := by
  unfold writeFile
  simp [h]
  exact get_move_other _ _ _ _ h1 h2

theorem writeFile_other_some (fs : FS) (t : Nat) (name old : String) (h : get fs (.file name) = some old)
    (p : Path) (h1 : p ≠ .tmp t) (h2 : p ≠ .file name) (h3 : p ≠ .backup name (findFree fs name)) :
    get (writeFile fs t name) p = get fs p := by
  unfold writeFile
  simp [h]
  rw [get_move_other _ _ _ _ h1 h2]
  exact get_move_other _ _ _ _ h2 h3

/-! ### runs -/

theorem user_ne_tmp (p : Path) (h : p.user = true) (t : Nat) : p ≠ .tmp t := by
  intro e; subst e; simp [Path.user] at h

theorem step_deferred_user (st : St) (s : Stage) (hs : s.deferredOnly = true) (p : Path) (hp : p.user = true) :
    get (step st s).fs p = get st.fs p := by
  cases s with
  | compute l => rfl
  | openDeferred l out =>
    unfold step
    cases h : queued st.queue out with
    | none => simp; exact get_set_ne _ _ _ _ (user_ne_tmp p hp _)
    | some t => simp; exact get_set_ne _ _ _ _ (user_ne_tmp p hp _)
  | writeDeferred l out d =>
    unfold step
    cases h : queued st.queue out with
    | none => simp
    | some t => simp; exact get_set_ne _ _ _ _ (user_ne_tmp p hp _)
  | flush l => simp [Stage.deferredOnly] at hs
  | openDirect l o => simp [Stage.deferredOnly] at hs
  | writeDirect l o d => simp [Stage.deferredOnly] at hs

theorem run_deferred_user (stages : List Stage) : ∀ st : St, (∀ s ∈ stages, s.deferredOnly = true) →
    ∀ p : Path, p.user = true → get (run stages st).fs p = get st.fs p := by
  induction stages with
  | nil => intro st _ p _; rfl
  | cons s rest ih =>
    intro st h p hp
    have : run (s :: rest) st = run rest (step st s) := rfl
    rw [this, ih (step st s) (fun x hx => h x (List.mem_cons_of_mem _ hx)) p hp]
    exact step_deferred_user st s (h s List.mem_cons_self) p hp

theorem run_pure (stages : List Stage) : ∀ st : St, (∀ s ∈ stages, s.pure = true) → run stages st = st := by
  induction stages with
  | nil => intro st _; rfl
  | cons s rest ih =>
    intro st h
    have hs := h s List.mem_cons_self
    have : run (s :: rest) st = run rest (step st s) := rfl
    rw [this]
    cases s with
    | compute l => exact ih st (fun x hx => h x (List.mem_cons_of_mem _ hx))
    | openDeferred l out => simp [Stage.pure] at hs
    | writeDeferred l out d => simp [Stage.pure] at hs
    | flush l => simp [Stage.pure] at hs
    | openDirect l o => simp [Stage.pure] at hs
    | writeDirect l o d => simp [Stage.pure] at hs

theorem run_append (a b : List Stage) (st : St) : run (a ++ b) st = run b (run a st) := by
  simp [run, List.foldl_append]

/-- state of the writer while only `out` is written through it -/
def InvQ (out : String) (st : St) : Option String → Prop
  | none => st.queue = []
  | some c => ∃ t, st.queue = [(t, out)] ∧ get st.fs (.tmp t) = some c

theorem step_invQ (out : String) (st : St) (s : Stage) (hs : s.onlyOut out = true) (acc : Option String)
    (h : InvQ out st acc) : InvQ out (step st s) (pending out [s] acc) := by
  cases s with
  | compute l => simpa [pending, step] using h
  | openDeferred l o =>
    have ho : o = out := by simpa [Stage.onlyOut] using hs
    subst ho
    cases acc with
    | none =>
      have hq : st.queue = [] := h
      simp [pending, step, hq, queued, InvQ, get_set_same]
    | some c =>
      obtain ⟨t, hq, _⟩ := h
      simp [pending, step, hq, queued, InvQ, get_set_same]
  | writeDeferred l o d =>
    have ho : o = out := by simpa [Stage.onlyOut] using hs
    subst ho
    cases acc with
    | none =>
      have hq : st.queue = [] := h
      simp [pending, step, hq, queued, InvQ]
    | some c =>
      obtain ⟨t, hq, hc⟩ := h
      simp [pending, step, hq, queued, InvQ, get_set_same, hc]
  | flush l => simp [Stage.onlyOut] at hs
  | openDirect l o => simp [Stage.onlyOut] at hs
  | writeDirect l o d => simp [Stage.onlyOut] at hs

theorem pending_cons (out : String) (s : Stage) (rest : List Stage) (acc : Option String) :
    pending out (s :: rest) acc = pending out rest (pending out [s] acc) := by
  cases s <;> simp [pending]

theorem run_invQ (out : String) (stages : List Stage) : ∀ (st : St) (acc : Option String),
    (∀ s ∈ stages, s.onlyOut out = true) → InvQ out st acc →
    InvQ out (run stages st) (pending out stages acc) := by
  induction stages with
  | nil => intro st acc _ h; simpa [run, pending] using h
  | cons s rest ih =>
    intro st acc hs h
    have : run (s :: rest) st = run rest (step st s) := rfl
    rw [this, pending_cons]
    exact ih _ _ (fun x hx => hs x (List.mem_cons_of_mem _ hx))
      (step_invQ out st s (hs s List.mem_cons_self) acc h)

theorem onlyOut_deferredOnly (out : String) (s : Stage) (h : s.onlyOut out = true) : s.deferredOnly = true := by
  cases s <;> simp [Stage.onlyOut, Stage.deferredOnly] at h ⊢

/-! ### executable specifications -/

theorem specUnchangedB_iff (fs fs' : FS) : specUnchangedB fs fs' = true ↔ SpecUnchanged fs fs' := by
  unfold specUnchangedB SpecUnchanged
  constructor
  · intro h p hp
    by_cases hm : p ∈ keys fs ++ keys fs'
    · have := (List.all_eq_true.mp h) p hm
      simpa [hp] using this
    · simp at hm
      rw [get_eq_none_of_not_mem_keys fs p hm.1, get_eq_none_of_not_mem_keys fs' p hm.2]
  · intro h
    apply List.all_eq_true.mpr
    intro p _
    cases hp : p.user with
    | false => simp
    | true => simp [h p hp]

theorem all_keys_iff (fs fs' : FS) (ex : Path → Bool) :
    (keys fs ++ keys fs').all (fun p => !p.user || ex p || get fs' p == get fs p) = true ↔
    ∀ p : Path, p.user = true → ex p = false → get fs' p = get fs p := by
  constructor
  · intro h p hp he
    by_cases hm : p ∈ keys fs ++ keys fs'
    · have := (List.all_eq_true.mp h) p hm
      simpa [hp, he] using this
    · simp at hm
      rw [get_eq_none_of_not_mem_keys fs p hm.1, get_eq_none_of_not_mem_keys fs' p hm.2]
  · intro h
    apply List.all_eq_true.mpr
    intro p _
    cases hp : p.user with
    | false => simp
    | true =>
      cases he : ex p with
      | true => simp
      | false => simp [h p hp he]

theorem specSuccessB_iff (fs fs' : FS) (out content : String) :
    specSuccessB fs fs' out content = true ↔ SpecSuccess fs fs' out content := by
  unfold specSuccessB SpecSuccess
  cases hold : get fs (.file out) with
  | none =>
    simp only [Bool.and_eq_true, beq_iff_eq]
    have := all_keys_iff fs fs' (fun p => p == Path.file out)
    simp only [Bool.or_assoc] at this ⊢
    rw [this]
    simp
  | some old =>
    obtain ⟨f1, f2, f3⟩ := findFree_spec fs out
    simp only [Bool.and_eq_true, beq_iff_eq]
    have := all_keys_iff fs fs' (fun p => p == Path.file out || p == Path.backup out (findFree fs out))
    simp only [Bool.or_assoc] at this ⊢
    rw [this]
    constructor
    · rintro ⟨h1, h2, h3⟩
      refine ⟨h1, findFree fs out, f1, f2, f3, h2, ?_⟩
      intro p hp n1 n2
      exact h3 p hp (by simp [n1, n2])
    · rintro ⟨h1, k, k1, k2, k3, k4, k5⟩
      have e : k = findFree fs out :=
        least_free_unique (fun j => get fs (.backup out j)) k (findFree fs out) k2 k3 k1 f2 f3 f1
      subst e
      refine ⟨h1, k4, ?_⟩
      intro p hp he
      simp at he
      exact k5 p hp he.1 he.2

end PolyplyVerif.Proofs.Output
