import PolyplyVerif.Model.Output

/-! Helper lemmas for C20 (filesystem map, backup search, deferred writer). Core Lean only. -/

namespace PolyplyVerif.Proofs.Output
open PolyplyVerif.Output

/-! ### the finite map -/

theorem look_erase_same (fs : FS) (p : Path) : look (erase fs p) p = none := by
  induction fs with
  | nil => simp [erase, look]
  | cons e r ih =>
    obtain ⟨q, c⟩ := e
    by_cases h : q = p
    · simpa [erase, h] using ih
    · simpa [erase, h, look] using ih

theorem look_erase_ne (fs : FS) (p q : Path) (h : q ≠ p) : look (erase fs p) q = look fs q := by
  induction fs with
  | nil => simp [erase, look]
  | cons e r ih =>
    obtain ⟨x, c⟩ := e
    by_cases hx : x = p
    · have : x ≠ q := by intro e; exact h (e ▸ hx)
      simpa [erase, hx, look, this, hx ▸ this] using ih
    · by_cases hq : x = q
      · subst hq
        simp [erase, hx, look]
      · simpa [erase, hx, look, hq] using ih

theorem look_put_same (fs : FS) (p : Path) (c : String) : look (put fs p c) p = some c := by
  simp [put, look]

theorem look_put_ne (fs : FS) (p q : Path) (c : String) (h : q ≠ p) : look (put fs p c) q = look fs q := by
  have : p ≠ q := fun e => h e.symm
  simp [put, look, this, look_erase_ne fs p q h]

theorem length_erase_le (fs : FS) (p : Path) : (erase fs p).length ≤ fs.length := by
  simpa [erase] using List.length_filter_le _ fs

theorem length_erase_lt (fs : FS) (p : Path) (h : look fs p ≠ none) : (erase fs p).length < fs.length := by
  induction fs with
  | nil => simp [look] at h
  | cons e r ih =>
    obtain ⟨q, c⟩ := e
    by_cases hq : q = p
    · have := length_erase_le r p
      simp [erase, hq] at this ⊢
      omega
    · have h' : look r p ≠ none := by simpa [look, hq] using h
      have := ih h'
      simp [erase, hq] at this ⊢
      omega

theorem look_eq_none_of_not_mem_keys (fs : FS) (p : Path) (h : p ∉ keys fs) : look fs p = none := by
  induction fs with
  | nil => simp [look]
  | cons e r ih =>
    obtain ⟨q, c⟩ := e
    simp [keys] at h
    have hq : q ≠ p := fun e => h.1 e.symm
    simp [look, hq]
    apply ih
    simpa [keys] using h.2

/-! ### `shutil.move` -/

theorem look_move_dst (fs : FS) (src dst : Path) (c : String) (h : look fs src = some c) :
    look (move fs src dst) dst = some c := by
  simp [move, h, look_put_same]

theorem look_move_src (fs : FS) (src dst : Path) (c : String) (h : look fs src = some c) (hne : src ≠ dst) :
    look (move fs src dst) src = none := by
  simp [move, h]
  rw [look_put_ne _ _ _ _ hne, look_erase_same]

theorem look_move_other (fs : FS) (src dst p : Path) (h1 : p ≠ src) (h2 : p ≠ dst) :
    look (move fs src dst) p = look fs p := by
  unfold move
  cases h : look fs src with
  | none => rfl
  | some c => simp; rw [look_put_ne _ _ _ _ h2, look_erase_ne _ _ _ h1]

/-! ### the backup search -/

/-- pigeonhole: `n` distinct occupied backup names need `n` entries -/
theorem occupied_le_length (name : String) (n : Nat) : ∀ fs : FS,
    (∀ j, 1 ≤ j → j ≤ n → look fs (.backup name j) ≠ none) → n ≤ fs.length := by
  induction n with
  | zero => intro fs _; omega
  | succ n ih =>
    intro fs h
    have hlt := length_erase_lt fs (.backup name (n + 1)) (h (n + 1) (by omega) (by omega))
    have := ih (erase fs (.backup name (n + 1))) (by
      intro j h1 h2
      rw [look_erase_ne]
      · exact h j h1 (by omega)
      · intro e
        injection e with _ e2
        omega)
    omega

theorem findFreeFrom_spec (fs : FS) (name : String) : ∀ fuel s,
    s ≤ findFreeFrom fs name fuel s ∧
    (∀ j, s ≤ j → j < findFreeFrom fs name fuel s → look fs (.backup name j) ≠ none) ∧
    (look fs (.backup name (findFreeFrom fs name fuel s)) = none ∨ findFreeFrom fs name fuel s = s + fuel) := by
  intro fuel
  induction fuel with
  | zero => intro s; simp [findFreeFrom]; intro j h1 h2; omega
  | succ fuel ih =>
    intro s
    unfold findFreeFrom
    by_cases h : (look fs (.backup name s)).isNone
    · simp [h]
      refine ⟨?_, ?_⟩
      · intro j h1 h2; omega
      · simpa using h
    · simp [h]
      obtain ⟨a, b, c⟩ := ih (s + 1)
      refine ⟨by omega, ?_, ?_⟩
      · intro j h1 h2
        by_cases hj : j = s
        · subst hj; simpa using h
        · exact b j (by omega) h2
      · cases c with
        | inl c => left; exact c
        | inr c => right; omega

/-- the name found is the first free `#name.k#`, k ≥ 1 -/
theorem findFree_spec (fs : FS) (name : String) :
    1 ≤ findFree fs name ∧ look fs (.backup name (findFree fs name)) = none ∧
    ∀ j, 1 ≤ j → j < findFree fs name → look fs (.backup name j) ≠ none := by
  obtain ⟨a, b, c⟩ := findFreeFrom_spec fs name fs.length 1
  refine ⟨a, ?_, b⟩
  cases c with
  | inl c => exact c
  | inr c =>
    -- all of 1 .. length are occupied; were length+1 occupied too, length+1 names would need length+1 entries
    cases hg : look fs (.backup name (findFree fs name)) with
    | none => rfl
    | some x =>
      exfalso
      have := occupied_le_length name (fs.length + 1) fs (by
        intro j h1 h2
        by_cases hj : j = fs.length + 1
        · have e : findFree fs name = j := by unfold findFree; omega
          rw [← e, hg]; simp
        · exact b j h1 (by show j < findFreeFrom fs name fs.length 1; omega))
      omega

/-- "first free index" determines the index -/
theorem least_free_unique (g : Nat → Option String) (k k' : Nat)
    (h1 : g k = none) (h2 : ∀ j, 1 ≤ j → j < k → g j ≠ none) (hk : 1 ≤ k)
    (h1' : g k' = none) (h2' : ∀ j, 1 ≤ j → j < k' → g j ≠ none) (hk' : 1 ≤ k') : k = k' := by
  rcases Nat.lt_trichotomy k k' with h | h | h
  · exact absurd h1 (h2' k hk h)
  · exact h
  · exact absurd h1' (h2 k' hk' h)

/-! ### `_write_file` -/

theorem writeFile_out (fs : FS) (t : Nat) (name c : String) (ht : look fs (.tmp t) = some c) :
    look (writeFile fs t name) (.file name) = some c := by
  unfold writeFile
  apply look_move_dst
  cases h : look fs (.file name) with
  | none => simpa using ht
  | some old =>
    simp
    rw [look_move_other _ _ _ _ (by simp) (by simp)]
    exact ht

theorem writeFile_tmp (fs : FS) (t : Nat) (name c : String) (ht : look fs (.tmp t) = some c) :
    look (writeFile fs t name) (.tmp t) = none := by
  unfold writeFile
  cases h : look fs (.file name) with
  | none => simp; exact look_move_src _ _ _ c ht (by simp)
  | some old =>
    simp
    apply look_move_src _ _ _ c _ (by simp)
    rw [look_move_other _ _ _ _ (by simp) (by simp)]
    exact ht

theorem writeFile_backup (fs : FS) (t : Nat) (name old : String) (h : look fs (.file name) = some old) :
    look (writeFile fs t name) (.backup name (findFree fs name)) = some old := by
  unfold writeFile
  simp [h]
  rw [look_move_other _ _ _ _ (by simp) (by simp)]
  exact look_move_dst _ _ _ _ h

theorem writeFile_other_none (fs : FS) (t : Nat) (name : String) (h : look fs (.file name) = none)
    (p : Path) (h1 : p ≠ .tmp t) (h2 : p ≠ .file name) :
    look (writeFile fs t name) p = look fs p := by
  unfold writeFile
  simp [h]
  exact look_move_other _ _ _ _ h1 h2

theorem writeFile_other_some (fs : FS) (t : Nat) (name old : String) (h : look fs (.file name) = some old)
    (p : Path) (h1 : p ≠ .tmp t) (h2 : p ≠ .file name) (h3 : p ≠ .backup name (findFree fs name)) :
    look (writeFile fs t name) p = look fs p := by
  unfold writeFile
  simp [h]
  rw [look_move_other _ _ _ _ h1 h2]
  exact look_move_other _ _ _ _ h2 h3

/-! ### runs -/

theorem user_ne_tmp (p : Path) (h : p.user = true) (t : Nat) : p ≠ .tmp t := by
  intro e; subst e; simp [Path.user] at h

theorem step_deferred_user (st : St) (s : Stage) (hs : s.deferredOnly = true) (p : Path) (hp : p.user = true) :
    look (step st s).fs p = look st.fs p := by
  cases s with
  | compute l => rfl
  | openDeferred l out =>
    simp only [step]
    split <;> exact look_put_ne _ _ _ _ (user_ne_tmp p hp _)
  | writeDeferred l out d =>
    simp only [step]
    split
    · exact look_put_ne _ _ _ _ (user_ne_tmp p hp _)
    · rfl
  | flush l => simp [Stage.deferredOnly] at hs
  | openDirect l o => simp [Stage.deferredOnly] at hs
  | writeDirect l o d => simp [Stage.deferredOnly] at hs

theorem run_deferred_user (stages : List Stage) : ∀ st : St, (∀ s ∈ stages, s.deferredOnly = true) →
    ∀ p : Path, p.user = true → look (run stages st).fs p = look st.fs p := by
  induction stages with
  | nil => intro st _ p _; rfl
  | cons s rest ih =>
    intro st h p hp
    have : run (s :: rest) st = run rest (step st s) := rfl
    rw [this, ih (step st s) (fun x hx => h x (List.mem_cons_of_mem _ hx)) p hp]
    exact step_deferred_user st s (h s List.mem_cons_self) p hp

theorem run_pure (stages : List Stage) : ∀ st : St, (∀ s ∈ stages, s.pure = true) → run stages st = st := by
  induction stages with
  | nil => intro st _; rfl
  | cons s rest ih =>
    intro st h
    have hs := h s List.mem_cons_self
    have : run (s :: rest) st = run rest (step st s) := rfl
    rw [this]
    cases s with
    | compute l => exact ih st (fun x hx => h x (List.mem_cons_of_mem _ hx))
    | openDeferred l out => simp [Stage.pure] at hs
    | writeDeferred l out d => simp [Stage.pure] at hs
    | flush l => simp [Stage.pure] at hs
    | openDirect l o => simp [Stage.pure] at hs
    | writeDirect l o d => simp [Stage.pure] at hs

theorem run_append (a b : List Stage) (st : St) : run (a ++ b) st = run b (run a st) := by
  simp [run, List.foldl_append]

/-- state of the writer while only `out` is written through it -/
def InvQ (out : String) (st : St) : Option String → Prop
  | none => st.queue = []
  | some c => ∃ t, st.queue = [(t, out)] ∧ look st.fs (.tmp t) = some c

theorem step_invQ (out : String) (st : St) (s : Stage) (hs : s.onlyOut out = true) (acc : Option String)
    (h : InvQ out st acc) : InvQ out (step st s) (pending out [s] acc) := by
  cases s with
  | compute l => simpa [pending, step] using h
  | openDeferred l o =>
    have ho : o = out := by simpa [Stage.onlyOut] using hs
    subst ho
    cases acc with
    | none =>
      have hq : st.queue = [] := h
      simp [pending, step, hq, queued, InvQ, look_put_same]
    | some c =>
      obtain ⟨t, hq, _⟩ := h
      simp [pending, step, hq, queued, InvQ, look_put_same]
  | writeDeferred l o d =>
    have ho : o = out := by simpa [Stage.onlyOut] using hs
    subst ho
    cases acc with
    | none =>
      have hq : st.queue = [] := h
      simp [pending, step, hq, queued, InvQ]
    | some c =>
      obtain ⟨t, hq, hc⟩ := h
      simp [pending, step, hq, queued, InvQ, look_put_same, hc]
  | flush l => simp [Stage.onlyOut] at hs
  | openDirect l o => simp [Stage.onlyOut] at hs
  | writeDirect l o d => simp [Stage.onlyOut] at hs

theorem pending_cons (out : String) (s : Stage) (rest : List Stage) (acc : Option String) :
    pending out (s :: rest) acc = pending out rest (pending out [s] acc) := by
  cases s <;> simp [pending]

theorem run_invQ (out : String) (stages : List Stage) : ∀ (st : St) (acc : Option String),
    (∀ s ∈ stages, s.onlyOut out = true) → InvQ out st acc →
    InvQ out (run stages st) (pending out stages acc) := by
  induction stages with
  | nil => intro st acc _ h; simpa [run, pending] using h
  | cons s rest ih =>
    intro st acc hs h
    have : run (s :: rest) st = run rest (step st s) := rfl
    rw [this, pending_cons]
    exact ih _ _ (fun x hx => hs x (List.mem_cons_of_mem _ hx))
      (step_invQ out st s (hs s List.mem_cons_self) acc h)

theorem onlyOut_deferredOnly (out : String) (s : Stage) (h : s.onlyOut out = true) : s.deferredOnly = true := by
  cases s <;> simp [Stage.onlyOut, Stage.deferredOnly] at h ⊢

/-! ### executable specifications -/

theorem specUnchangedB_iff (fs fs' : FS) : specUnchangedB fs fs' = true ↔ SpecUnchanged fs fs' := by
  unfold specUnchangedB SpecUnchanged
  constructor
  · intro h p hp
    by_cases hm : p ∈ keys fs ++ keys fs'
    · have := (List.all_eq_true.mp h) p hm
      simpa [hp] using this
    · simp at hm
      rw [look_eq_none_of_not_mem_keys fs p hm.1, look_eq_none_of_not_mem_keys fs' p hm.2]
  · intro h
    apply List.all_eq_true.mpr
    intro p _
    cases hp : p.user with
    | false => simp
    | true => simp [h p hp]

theorem all_keys_iff (fs fs' : FS) (ex : Path → Bool) :
    (keys fs ++ keys fs').all (fun p => !p.user || ex p || look fs' p == look fs p) = true ↔
    ∀ p : Path, p.user = true → ex p = false → look fs' p = look fs p := by
  constructor
  · intro h p hp he
    by_cases hm : p ∈ keys fs ++ keys fs'
    · have := (List.all_eq_true.mp h) p hm
      simpa [hp, he] using this
    · simp at hm
      rw [look_eq_none_of_not_mem_keys fs p hm.1, look_eq_none_of_not_mem_keys fs' p hm.2]
  · intro h
    apply List.all_eq_true.mpr
    intro p _
    cases hp : p.user with
    | false => simp
    | true =>
      cases he : ex p with
      | true => simp
      | false => simp [h p hp he]

theorem specSuccessB_iff (fs fs' : FS) (out content : String) :
    specSuccessB fs fs' out content = true ↔ SpecSuccess fs fs' out content := by
  unfold specSuccessB SpecSuccess
  cases hold : look fs (.file out) with
  | none =>
    simp only [Bool.and_eq_true, beq_iff_eq]
    have := all_keys_iff fs fs' (fun p => p == Path.file out)
    simp only [Bool.or_assoc] at this ⊢
    rw [this]
    simp
  | some old =>
    obtain ⟨f1, f2, f3⟩ := findFree_spec fs out
    simp only [Bool.and_eq_true, beq_iff_eq]
    have := all_keys_iff fs fs' (fun p => p == Path.file out || p == Path.backup out (findFree fs out))
    simp only [Bool.or_assoc] at this ⊢
    rw [this]
    constructor
    · rintro ⟨h1, h2, h3⟩
      refine ⟨h1, findFree fs out, f1, f2, f3, h2, ?_⟩
      intro p hp n1 n2
      exact h3 p hp (by simp [n1, n2])
    · rintro ⟨h1, k, k1, k2, k3, k4, k5⟩
      have e : k = findFree fs out :=
        least_free_unique (fun j => look fs (.backup out j)) k (findFree fs out) k2 k3 k1 f2 f3 f1
      subst e
      refine ⟨h1, k4, ?_⟩
      intro p hp he
      simp at he
      exact k5 p hp he.1 he.2

/-! ### a successful run of a program that writes `out` through the deferred writer -/

theorem success_core (pre : List Stage) (l out content : String) (st : St) (hq : st.queue = [])
    (hpre : ∀ s ∈ pre, s.onlyOut out = true) (hp : pending out pre none = some content) :
    SpecSuccess st.fs (run (pre ++ [.flush l]) st).fs out content ∧
    (run (pre ++ [.flush l]) st).queue = [] ∧
    ∃ t, look (run pre st).fs (.tmp t) = some content ∧ look (run (pre ++ [.flush l]) st).fs (.tmp t) = none := by
  have hinv := run_invQ out pre st none hpre (by simpa [InvQ] using hq)
  rw [hp] at hinv
  obtain ⟨t, hqueue, htmp⟩ := hinv
  have huser : ∀ p : Path, p.user = true → look (run pre st).fs p = look st.fs p :=
    run_deferred_user pre st (fun s hs => onlyOut_deferredOnly out s (hpre s hs))
  have hrun : (run (pre ++ [.flush l]) st).fs = writeFile (run pre st).fs t out := by
    rw [run_append]
    show flushQueue (run pre st).fs (run pre st).queue = _
    rw [hqueue]; rfl
  have hrunq : (run (pre ++ [.flush l]) st).queue = [] := by
    rw [run_append]; rfl
  refine ⟨?_, hrunq, t, htmp, ?_⟩
  · rw [hrun]
    unfold SpecSuccess
    refine ⟨writeFile_out _ _ _ _ htmp, ?_⟩
    have hfile := huser (.file out) rfl
    cases hold : look st.fs (.file out) with
    | none =>
      intro p hp hne
      rw [hold] at hfile
      rw [writeFile_other_none _ _ _ hfile p (user_ne_tmp p hp t) hne]
      exact huser p hp
    | some old =>
      rw [hold] at hfile
      obtain ⟨f1, f2, f3⟩ := findFree_spec (run pre st).fs out
      refine ⟨findFree (run pre st).fs out, f1, ?_, ?_, writeFile_backup _ _ _ _ hfile, ?_⟩
      · rw [← huser _ rfl]; exact f2
      · intro j h1 h2
        rw [← huser _ rfl]; exact f3 j h1 h2
      · intro p hp n1 n2
        rw [writeFile_other_some _ _ _ _ hfile p (user_ne_tmp p hp t) n1 n2]
        exact huser p hp
  · rw [hrun]; exact writeFile_tmp _ _ _ _ htmp

theorem pending_computes (out : String) (labels : List String) (acc : Option String) :
    pending out (computes labels) acc = acc := by
  induction labels with
  | nil => rfl
  | cons a r ih => simpa [computes, pending] using ih

theorem pending_append (out : String) (a b : List Stage) : ∀ acc,
    pending out (a ++ b) acc = pending out b (pending out a acc) := by
  induction a with
  | nil => intro acc; rfl
  | cons s r ih =>
    intro acc
    rw [List.cons_append, pending_cons, ih, ← pending_cons]

theorem pending_chunks (l out : String) (chunks : List String) : ∀ a : String,
    pending out (chunks.map (Stage.writeDeferred l out)) (some a) = some (chunks.foldl (· ++ ·) a) := by
  induction chunks with
  | nil => intro a; rfl
  | cons c r ih => intro a; simp [pending, ih]

theorem onlyOut_computes (out : String) (labels : List String) : ∀ s ∈ computes labels, s.onlyOut out = true := by
  intro s hs
  simp [computes] at hs
  obtain ⟨a, _, rfl⟩ := hs
  rfl

theorem onlyOut_chunks (l out : String) (chunks : List String) :
    ∀ s ∈ chunks.map (Stage.writeDeferred l out), s.onlyOut out = true := by
  intro s hs
  simp at hs
  obtain ⟨a, _, rfl⟩ := hs
  simp [Stage.onlyOut]

theorem pure_computes (labels : List String) : ∀ s ∈ computes labels, s.pure = true := by
  intro s hs
  simp [computes] at hs
  obtain ⟨a, _, rfl⟩ := hs
  rfl

/-! ### order of the stage labels in the source -/

theorem orderedFrom_sound (calls : List CallRow) : ∀ (labels : List String) (lo : Nat),
    orderedFrom calls lo labels = true →
    ∀ (a b : Nat) (la lb : String) (ia ib : Nat), a < b → labels[a]? = some la → labels[b]? = some lb →
      findCall calls la = some ia → findCall calls lb = some ib → lo ≤ ia ∧ ia < ib := by
  -- auxiliary: every found label of the list lies at or above `lo`
  have lower : ∀ (labels : List String) (lo : Nat), orderedFrom calls lo labels = true →
      ∀ (b : Nat) (lb : String) (ib : Nat), labels[b]? = some lb → findCall calls lb = some ib → lo ≤ ib := by
    intro labels
    induction labels with
    | nil => intro lo _ b lb ib hb; simp at hb
    | cons l rest ih =>
      intro lo h b lb ib hb hf
      simp only [orderedFrom] at h
      cases b with
      | zero =>
        simp at hb; subst hb
        rw [hf] at h
        simp only [Bool.and_eq_true, decide_eq_true_eq] at h
        exact h.1
      | succ b =>
        simp at hb
        cases hl : findCall calls l with
        | none => rw [hl] at h; exact ih lo h b lb ib hb hf
        | some i =>
          rw [hl] at h
          simp only [Bool.and_eq_true, decide_eq_true_eq] at h
          have := ih (i + 1) h.2 b lb ib hb hf
          omega
  intro labels
  induction labels with
  | nil => intro lo _ a b la lb ia ib _ ha; simp at ha
  | cons l rest ih =>
    intro lo h a b la lb ia ib hab ha hb hfa hfb
    simp only [orderedFrom] at h
    cases b with
    | zero => omega
    | succ b =>
      simp at hb
      cases a with
      | zero =>
        simp at ha; subst ha
        rw [hfa] at h
        simp only [Bool.and_eq_true, decide_eq_true_eq] at h
        have := lower rest (ia + 1) h.2 b lb ib hb hfb
        exact ⟨h.1, by omega⟩
      | succ a =>
        simp at ha
        cases hl : findCall calls l with
        | none => rw [hl] at h; exact ih lo h a b la lb ia ib (by omega) ha hb hfa hfb
        | some i =>
          rw [hl] at h
          simp only [Bool.and_eq_true, decide_eq_true_eq] at h
          have := ih (i + 1) h.2 a b la lb ia ib (by omega) ha hb hfa hfb
          exact ⟨by omega, this.2⟩

theorem orderedFrom_mono (calls : List CallRow) : ∀ (labels : List String) (lo lo' : Nat), lo' ≤ lo →
    orderedFrom calls lo labels = true → orderedFrom calls lo' labels = true := by
  intro labels
  induction labels with
  | nil => intro lo lo' _ _; rfl
  | cons l rest ih =>
    intro lo lo' hle h
    simp only [orderedFrom] at h ⊢
    cases hl : findCall calls l with
    | none => rw [hl] at h; exact ih lo lo' hle h
    | some i =>
      rw [hl] at h
      simp only [Bool.and_eq_true, decide_eq_true_eq] at h ⊢
      exact ⟨by omega, h.2⟩

/-- a stage list that is ordered like the source stays so when stages are left out (option variants) -/
theorem orderedFrom_sublist (calls : List CallRow) {l₁ l₂ : List String} (hs : l₁.Sublist l₂) :
    ∀ lo, orderedFrom calls lo l₂ = true → orderedFrom calls lo l₁ = true := by
  induction hs with
  | slnil => intro lo h; exact h
  | cons a _ ih =>
    intro lo h
    simp only [orderedFrom] at h
    cases hl : findCall calls a with
    | none => rw [hl] at h; exact ih lo h
    | some i =>
      rw [hl] at h
      simp only [Bool.and_eq_true, decide_eq_true_eq] at h
      exact orderedFrom_mono calls _ (i + 1) lo (by omega) (ih (i + 1) h.2)
  | cons_cons a _ ih =>
    intro lo h
    simp only [orderedFrom] at h ⊢
    cases hl : findCall calls a with
    | none => rw [hl] at h; exact ih lo h
    | some i =>
      rw [hl] at h
      simp only [Bool.and_eq_true, decide_eq_true_eq] at h ⊢
      exact ⟨h.1, ih (i + 1) h.2⟩

end PolyplyVerif.Proofs.Output
