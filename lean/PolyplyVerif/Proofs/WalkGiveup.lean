/-
Helper lemmas for the give-up branch of `BuildSystem._handle_random_walk` (`Walk.stepG`, C17 / C04 / C03):
the machine with `step_count` and the log of return values projects onto the machine `Walk.step`, for every
`BuildSystem.maxiter`; the molecules for which `True` was returned followed by the molecules still to do
are always the work list; `step_count` never exceeds `maxiter` (so the test `==` cannot be jumped over).
-/
import PolyplyVerif.Model.Walk

namespace PolyplyVerif.Proofs.WalkGiveup
open PolyplyVerif PolyplyVerif.Walk

theorem beginAttempt_todo (mols : List Mol) (eng : Engine) (ctr : Nat) (todo : List Nat) :
    (beginAttempt mols eng ctr todo).todo = todo := by
  unfold beginAttempt
  split
  · rfl
  · split
    · rfl
    · split
      · split <;> rfl
      · rfl

theorem failAttemptG_sys (bm : Nat) (mols : List Mol) (eng : Engine) (ctr i : Nat) (rest : List Nat) (m : Mol)
    (sc : Nat) (rets : List (Nat × Bool)) :
    (failAttemptG bm mols eng ctr i rest m sc rets).sys = failAttempt mols eng ctr i rest m := by
  unfold failAttemptG failAttempt
  split <;> rfl

theorem afterTrialG_sys (bm : Nat) (mols : List Mol) (eng : Engine) (ctr i : Nat) (rest : List Nat) (m : Mol)
    (w : WState) (ok : Bool) (sc : Nat) (rets : List (Nat × Bool)) :
    (afterTrialG bm mols eng ctr i rest m w ok sc rets).sys = afterTrial mols eng ctr i rest m w ok := by
  unfold afterTrialG afterTrial
  split
  · rfl
  · split
    · rfl
    · exact failAttemptG_sys ..

/-- **both branches of the give-up test are the one transition of the machine** -/
theorem stepG_sys (cfg : Cfg) (bm : Nat) (mols : List Mol) (g : GSys) (b : Bool) :
    (stepG cfg bm mols g b).sys = step cfg mols g.sys b := by
  unfold stepG step
  simp only
  split
  · split
    · rfl
    · split
      · exact afterTrialG_sys ..
      · exact failAttemptG_sys ..
  · split
    · rfl
    · split
      · rfl
      · split
        · exact afterTrialG_sys ..
        · split
          · exact afterTrialG_sys ..
          · exact failAttemptG_sys ..
  · rfl

theorem runG_sys (cfg : Cfg) (bm : Nat) (mols : List Mol) (sched : List Bool) :
    ∀ g : GSys, (runG cfg bm mols sched g).sys = run cfg mols sched g.sys := by
  induction sched with
  | nil => intro g; rfl
  | cons b rest ih =>
    intro g
    show (runG cfg bm mols rest (stepG cfg bm mols g b)).sys = run cfg mols rest (step cfg mols g.sys b)
    rw [ih, stepG_sys]

/-- bookkeeping invariant of the calls of `_handle_random_walk` -/
structure GInv (bm : Nat) (mols : List Mol) (g : GSys) : Prop where
  /-- `True` was returned exactly for the molecules that left the work list, in order; a `False` never
  removes a molecule from the list -/
  split : g.completed ++ g.sys.todo = work mols
  /-- the local `step_count` stays within `maxiter` -/
  bound : g.stepCount ≤ bm

theorem completed_false (rets : List (Nat × Bool)) (i : Nat) :
    ((rets ++ [(i, false)]).filter (·.2)).map (·.1) = (rets.filter (·.2)).map (·.1) := by
  simp

theorem completed_true (rets : List (Nat × Bool)) (i : Nat) :
    ((rets ++ [(i, true)]).filter (·.2)).map (·.1) = (rets.filter (·.2)).map (·.1) ++ [i] := by
  simp

theorem ginv_fail {bm : Nat} {mols : List Mol} (eng : Engine) (ctr i : Nat) (rest : List Nat) (m : Mol)
    (sc : Nat) (rets : List (Nat × Bool)) (h1 : (rets.filter (·.2)).map (·.1) ++ (i :: rest) = work mols)
    (h2 : sc ≤ bm) : GInv bm mols (failAttemptG bm mols eng ctr i rest m sc rets) := by
  unfold failAttemptG
  split
  · exact ⟨by simp only [GSys.completed, beginAttempt_todo, completed_false]; exact h1, Nat.zero_le _⟩
  · rename_i hne
    exact ⟨by simp only [GSys.completed, beginAttempt_todo]; exact h1, by show sc + 1 ≤ bm; omega⟩

theorem ginv_after {bm : Nat} {mols : List Mol} (eng : Engine) (ctr i : Nat) (rest : List Nat) (m : Mol)
    (w : WState) (ok : Bool) (sc : Nat) (rets : List (Nat × Bool))
    (h1 : (rets.filter (·.2)).map (·.1) ++ (i :: rest) = work mols) (h2 : sc ≤ bm) :
    GInv bm mols (afterTrialG bm mols eng ctr i rest m w ok sc rets) := by
  unfold afterTrialG
  split
  · exact ⟨h1, h2⟩
  · split
    · refine ⟨?_, Nat.zero_le _⟩
      simp only [GSys.completed, beginAttempt_todo, completed_true]
      rw [List.append_assoc]; exact h1
    · exact ginv_fail eng ctr i rest m sc rets h1 h2

theorem ginv_step {cfg : Cfg} {bm : Nat} {mols : List Mol} {g : GSys} (inv : GInv bm mols g) (b : Bool) :
    GInv bm mols (stepG cfg bm mols g b) := by
  obtain ⟨h1, h2⟩ := inv
  unfold stepG
  simp only
  split
  · rename_i i rest hp ht
    rw [ht] at h1
    split
    · exact ⟨by rw [ht]; exact h1, h2⟩
    · split
      · exact ginv_after _ _ i rest _ _ _ _ _ h1 h2
      · exact ginv_fail _ _ i rest _ _ _ h1 h2
  · rename_i w i rest hp ht
    rw [ht] at h1
    split
    · exact ⟨by rw [ht]; exact h1, h2⟩
    · split
      · exact ⟨by rw [ht]; exact h1, h2⟩
      · split
        · exact ginv_after _ _ i rest _ _ _ _ _ h1 h2
        · split
          · exact ginv_after _ _ i rest _ _ _ _ _ h1 h2
          · exact ginv_fail _ _ i rest _ _ _ h1 h2
  · exact ⟨h1, h2⟩

theorem ginv_init (bm : Nat) (mols : List Mol) : GInv bm mols (initG mols) := by
  refine ⟨?_, Nat.zero_le _⟩
  simp [initG, init, GSys.completed, beginAttempt_todo]

theorem ginv_run {cfg : Cfg} {bm : Nat} {mols : List Mol} (sched : List Bool) :
    ∀ g : GSys, GInv bm mols g → GInv bm mols (runG cfg bm mols sched g) := by
  induction sched with
  | nil => intro g h; exact h
  | cons b rest ih => intro g h; exact ih _ (ginv_step h b)

end PolyplyVerif.Proofs.WalkGiveup
