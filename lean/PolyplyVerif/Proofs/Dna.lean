import PolyplyVerif.Model.Dna

namespace PolyplyVerif.Proofs.Dna
open PolyplyVerif PolyplyVerif.Dna

theorem mapM_some_iff {α β} (f : α → Option β) (l : List α) :
    (l.mapM f).isSome ↔ ∀ a ∈ l, (f a).isSome := by
  induction l with
  | nil => simp
  | cons a l ih =>
    simp only [List.mapM_cons, List.mem_cons, forall_eq_or_imp]
    cases h : f a with
    | none => simp
    | some b =>
      cases h2 : l.mapM f with
      | none => simp [h2] at ih ⊢; exact ih
      | some bs => simp [h2] at ih ⊢; exact ih

theorem specGraph_isSome_iff (tbl : List (String × String)) (names : List String) (labels : List Attrs)
    (circ : Option Attrs) :
    (specGraph tbl names labels circ).isSome ↔ ∀ nm ∈ names, (lookup tbl nm).isSome := by
  unfold specGraph
  have h := mapM_some_iff (lookup tbl) names.reverse
  cases hm : names.reverse.mapM (lookup tbl) with
  | none => simp [hm] at h ⊢; exact h
  | some c => simp [hm] at h ⊢; exact h

theorem mapM_eq_some_map {α β} (f : α → Option β) (l : List α) (r : List β)
    (h : l.mapM f = some r) : r.length = l.length ∧ ∀ i (hi : i < l.length) (hr : i < r.length), f l[i] = some r[i] := by
  induction l generalizing r with
  | nil => simp at h; subst h; simp
  | cons a l ih =>
    simp only [List.mapM_cons] at h
    cases ha : f a with
    | none => simp [ha] at h
    | some b =>
      cases hl : l.mapM f with
      | none => simp [ha, hl] at h
      | some bs =>
        simp [ha, hl] at h
        subst h
        obtain ⟨h1, h2⟩ := ih bs hl
        refine ⟨by simp [h1], ?_⟩
        intro i hi hr
        cases i with
        | zero => simpa using ha
        | succ i => simpa using h2 i (by simpa using hi) (by simpa using hr)

theorem mapM_reverse_involutive (tbl : List (String × String))
    (hinv : ∀ kv ∈ tbl, lookup tbl kv.2 = some kv.1)
    (names comps comps2 : List String)
    (h1 : names.reverse.mapM (lookup tbl) = some comps)
    (h2 : comps.reverse.mapM (lookup tbl) = some comps2) : comps2 = names := by
  obtain ⟨l1, e1⟩ := mapM_eq_some_map _ _ _ h1
  obtain ⟨l2, e2⟩ := mapM_eq_some_map _ _ _ h2
  have back : ∀ a b, lookup tbl a = some b → lookup tbl b = some a := by
    intro a b hab
    unfold lookup at hab
    cases hf : tbl.find? (fun kv => kv.1 == a) with
    | none => simp [hf] at hab
    | some kv =>
      simp [hf] at hab
      have hmem := List.mem_of_find?_eq_some hf
      have hk := List.find?_some hf
      simp at hk
      have := hinv kv hmem
      rw [hab, hk] at this
      exact this
  apply List.ext_getElem
  · simp [l2, l1]
  · intro i hi hi'
    have len1 : comps.length = names.length := by simpa using l1
    have len2 : comps2.length = names.length := by simpa [len1] using l2
    have a := e2 i (by simp [len1]; omega) hi
    -- comps.reverse[i] = comps[n-1-i]
    have hj : names.length - 1 - i < names.reverse.length := by simp; omega
    have hj' : names.length - 1 - i < comps.length := by omega
    have b := e1 (names.length - 1 - i) hj hj'
    have rc : comps.reverse[i]'(by simp [len1]; omega) = comps[names.length - 1 - i] := by
      simp [List.getElem_reverse, len1]
    have rn : names.reverse[names.length - 1 - i]'hj = names[i] := by
      simp [List.getElem_reverse]
      congr 1; omega
    rw [rc] at a
    rw [rn] at b
    have := back _ _ b
    rw [this] at a
    exact (Option.some.inj a).symm


/-! generic list lemmas -/
theorem findSome?_filterMap' {α β γ} (f : α → Option β) (g : β → Option γ) (l : List α) :
    (l.filterMap f).findSome? g = l.findSome? (fun a => (f a).bind g) := by
  induction l with
  | nil => rfl
  | cons a l ih =>
    cases h : f a with
    | none => simp [h, ih]
    | some b => simp [h, ih, List.findSome?_cons]

theorem find?_map_range {α} (p : α → Bool) (g : Nat → α) (m i0 : Nat) (h0 : i0 < m)
    (hp : p (g i0) = true) (hnot : ∀ i, i < i0 → p (g i) = false) :
    ((List.range m).map g).find? p = some (g i0) := by
  rw [List.find?_eq_some_iff_getElem]
  refine ⟨hp, i0, by simpa using h0, by simp, ?_⟩
  intro j hj
  simp [hnot j hj]

theorem find?_map_range_none {α} (p : α → Bool) (g : Nat → α) (m : Nat)
    (hnot : ∀ i, i < m → p (g i) = false) :
    ((List.range m).map g).find? p = none := by
  rw [List.find?_eq_none]
  intro x hx
  simp at hx
  obtain ⟨i, hi, rfl⟩ := hx
  simp [hnot i hi]

theorem findSome?_map_range {α β} (f : α → Option β) (g : Nat → α) (m i0 : Nat) (x : β) (h0 : i0 < m)
    (hp : f (g i0) = some x) (hnot : ∀ i, i < i0 → f (g i) = none) :
    ((List.range m).map g).findSome? f = some x := by
  induction m with
  | zero => omega
  | succ m ih =>
    rw [List.range_succ, List.map_append, List.findSome?_append]
    by_cases h : i0 < m
    · rw [ih h]; rfl
    · have : i0 = m := by omega
      subst this
      have : ((List.range i0).map g).findSome? f = none := by
        rw [List.findSome?_eq_none_iff]
        intro y hy
        simp at hy
        obtain ⟨i, hi, rfl⟩ := hy
        exact hnot i hi
      rw [this]; simp [hp]

theorem findSome?_map_range_none {α β} (f : α → Option β) (g : Nat → α) (m : Nat)
    (hnot : ∀ i, i < m → f (g i) = none) :
    ((List.range m).map g).findSome? f = none := by
  rw [List.findSome?_eq_none_iff]
  intro y hy
  simp at hy
  obtain ⟨i, hi, rfl⟩ := hy
  exact hnot i hi

theorem find?_key (l : List RNode) (k : Nat) (hk : k < l.length)
    (hkeys : ∀ i (h : i < l.length), (l[i]).key = i) :
    l.find? (fun n => n.key == k) = some l[k] := by
  rw [List.find?_eq_some_iff_getElem]
  refine ⟨by simp [hkeys k hk], k, hk, rfl, ?_⟩
  intro j hj
  have := hkeys j (by omega)
  simp [this]; omega

/-! attribute dictionaries -/
theorem Attrs.set_not_mem (a : Attrs) (k v : String) (h : k ∉ a.map (·.1)) :
    Attrs.set a k v = a ++ [(k, v)] := by
  induction a with
  | nil => rfl
  | cons x a ih =>
    obtain ⟨k', v'⟩ := x
    simp at h
    have h1 : ¬ k' = k := fun e => h.1 e.symm
    simp [Attrs.set, h1]
    apply ih; simpa using h.2

theorem Attrs.update_append_nodup (d a : Attrs) (h : (d.map (·.1) ++ a.map (·.1)).Nodup) :
    Attrs.update d a = d ++ a := by
  induction a generalizing d with
  | nil => simp [Attrs.update]
  | cons x a ih =>
    obtain ⟨k, v⟩ := x
    have hk : k ∉ d.map (·.1) := by
      intro hm
      rw [List.nodup_append] at h
      exact h.2.2 k hm k (by simp) rfl
    unfold Attrs.update
    simp only [List.foldl_cons]
    rw [Attrs.set_not_mem d k v hk]
    have := ih (d ++ [(k, v)]) (by simpa [List.append_assoc] using h)
    unfold Attrs.update at this
    rw [this]; simp

theorem normAttrs_nodup (a : Attrs) (h : (a.map (·.1)).Nodup) : normAttrs a = a := by
  unfold normAttrs
  simpa using Attrs.update_append_nodup [] a (by simpa using h)

theorem Attrs.set_mem_pair (a : Attrs) (k v : String) (h : (k, v) ∈ a) (hn : (a.map (·.1)).Nodup) :
    Attrs.set a k v = a := by
  induction a with
  | nil => simp at h
  | cons x a ih =>
    obtain ⟨k', v'⟩ := x
    simp only [Attrs.set]
    by_cases hk : k' = k
    · subst hk
      simp
      simp at h hn
      rcases h with h | h
      · exact h
      · exact absurd h (hn.1 v)
    · simp [hk]
      simp at h hn
      rcases h with h | h
      · exact absurd h.1.symm hk
      · exact ih h hn.2

theorem Attrs.update_sub (d a : Attrs) (hd : (d.map (·.1)).Nodup) (h : ∀ x ∈ a, x ∈ d) :
    Attrs.update d a = d := by
  induction a with
  | nil => rfl
  | cons x a ih =>
    obtain ⟨k, v⟩ := x
    unfold Attrs.update
    simp only [List.foldl_cons]
    rw [Attrs.set_mem_pair d k v (h _ (by simp)) hd]
    exact ih (fun x hx => h x (by simp [hx]))

theorem Attrs.update_self (a : Attrs) (h : (a.map (·.1)).Nodup) : Attrs.update a a = a :=
  Attrs.update_sub a a h (fun _ hx => hx)

end PolyplyVerif.Proofs.Dna
