/-
Helper lemmas for C19 (model: `Model/Dna.lean`).  Core Lean only, no Mathlib.

Road map of the unbounded proof of `complement = specGraph` (`complement_eq_final`, `specGraph_eq_final`)
and of the rejection theorem (`complement_reject`):

* `stAt j` / `gAt j` : the explicit loop state after `j` turns of the interleaved iterator/body loop —
  graph = strand graph ++ `j+1` complement nodes ++ `j` new edges, `corr = [(n-1-i, n+i) | i ≤ j]`,
  `total = n+j`; the current source node is `n-1-j`.
* `gAt_node?/resid?/resname?`, `gAt_edge?_down`, `gAt_edges_shape`, `gAt_no_new_edge`,
  `gAt_no_closing_edge` : what `node?`, `resid?`, `edge?` answer on the intermediate graph.
* `iterStep_gAt` : one iterator turn = `findSome?` of an arithmetic function (`hf`) over the edge list in
  adjacency order; `iterStep_gAt_pos` (inside the strand: go to `src-1`), `iterStep_gAt_zero_circ`
  (residue 0 of a circle: closing edge), `iterStep_gAt_zero_lin` (residue 0 of a linear strand: stop —
  except n = 2, where residue 1 is a higher-resid neighbour *and* the first node: a closing edge).
* `body_step`, `loop_step`, `loop_step_err`, `loop_prefix` (the induction), `loop_end_lin`,
  `loop_end_circ`, `loop_end_lin2` (the n = 2 quirk; needs `Attrs.update_update_self`).
* `finalGraph` and its read-off lemmas (`final_*`) for the corollary in `Properties/C19.lean`.
* node keys starting at `k0` (`strandGraphFrom`, `specGraphFrom`): `complement_shift` — the model commutes
  with renaming the keys `x ↦ x + k` of *any* residue graph — plus `strandGraphFrom_eq_shift`,
  `specGraphFrom_eq_shift` give `complement_offset` / `complement_reject_offset` from the k0 = 0 theorems.
* resids starting at `r0` (`strandGraphAt`, `specGraphAt`): `complement_shiftResids` — the model commutes
  with renumbering the resids `r ↦ r + d` of any residue graph — and `shiftResids_injective` (to go DOWN
  from resid 1 to resid 0 first) give `complement_at` / `complement_reject_at`.
* `genParams_dsdna`: the `gen_params -dsdna` pipeline up to `MapToMolecule`, both strand sources.
-/
import PolyplyVerif.Model.Dna

namespace PolyplyVerif.Proofs.Dna
open PolyplyVerif PolyplyVerif.Dna

theorem mapM_some_iff {α β} (f : α → Option β) (l : List α) :
    (l.mapM f).isSome ↔ ∀ a ∈ l, (f a).isSome := by
  induction l with
  | nil => simp
  | cons a l ih =>
    simp only [List.mapM_cons, List.mem_cons, forall_eq_or_imp]
    cases h : f a with
    | none => simp
    | some b =>
      cases h2 : l.mapM f with
      | none => simp [h2] at ih ⊢; exact ih
      | some bs => simp [h2] at ih ⊢; exact ih

theorem specGraph_isSome_iff (tbl : List (String × String)) (names : List String) (labels : List Attrs)
    (circ : Option Attrs) :
    (specGraph tbl names labels circ).isSome ↔ ∀ nm ∈ names, (lookup tbl nm).isSome := by
  unfold specGraph
  have h := mapM_some_iff (lookup tbl) names.reverse
  cases hm : names.reverse.mapM (lookup tbl) with
  | none => simp [hm] at h ⊢; exact h
  | some c => simp [hm] at h ⊢; exact h

theorem mapM_eq_some_map {α β} (f : α → Option β) (l : List α) (r : List β)
    (h : l.mapM f = some r) : r.length = l.length ∧ ∀ i (hi : i < l.length) (hr : i < r.length), f l[i] = some r[i] := by
  induction l generalizing r with
  | nil => simp at h; subst h; simp
  | cons a l ih =>
    simp only [List.mapM_cons] at h
    cases ha : f a with
    | none => simp [ha] at h
    | some b =>
      cases hl : l.mapM f with
      | none => simp [ha, hl] at h
      | some bs =>
        simp [ha, hl] at h
        subst h
        obtain ⟨h1, h2⟩ := ih bs hl
        refine ⟨by simp [h1], ?_⟩
        intro i hi hr
        cases i with
        | zero => simpa using ha
        | succ i => simpa using h2 i (by simpa using hi) (by simpa using hr)

theorem mapM_reverse_involutive (tbl : List (String × String))
    (hinv : ∀ kv ∈ tbl, lookup tbl kv.2 = some kv.1)
    (names comps comps2 : List String)
    (h1 : names.reverse.mapM (lookup tbl) = some comps)
    (h2 : comps.reverse.mapM (lookup tbl) = some comps2) : comps2 = names := by
  obtain ⟨l1, e1⟩ := mapM_eq_some_map _ _ _ h1
  obtain ⟨l2, e2⟩ := mapM_eq_some_map _ _ _ h2
  have back : ∀ a b, lookup tbl a = some b → lookup tbl b = some a := by
    intro a b hab
    unfold lookup at hab
    cases hf : tbl.find? (fun kv => kv.1 == a) with
    | none => simp [hf] at hab
    | some kv =>
      simp [hf] at hab
      have hmem := List.mem_of_find?_eq_some hf
      have hk := List.find?_some hf
      simp at hk
      have := hinv kv hmem
      rw [hab, hk] at this
      exact this
  apply List.ext_getElem
  · simp [l2, l1]
  · intro i hi hi'
    have len1 : comps.length = names.length := by simpa using l1
    have len2 : comps2.length = names.length := by simpa [len1] using l2
    have a := e2 i (by simp [len1]; omega) hi
    -- comps.reverse[i] = comps[n-1-i]
    have hj : names.length - 1 - i < names.reverse.length := by simp; omega
    have hj' : names.length - 1 - i < comps.length := by omega
    have b := e1 (names.length - 1 - i) hj hj'
    have rc : comps.reverse[i]'(by simp [len1]; omega) = comps[names.length - 1 - i] := by
      simp [List.getElem_reverse, len1]
    have rn : names.reverse[names.length - 1 - i]'hj = names[i] := by
      simp [List.getElem_reverse]
      congr 1; omega
    rw [rc] at a
    rw [rn] at b
    have := back _ _ b
    rw [this] at a
    exact (Option.some.inj a).symm


/-! generic list lemmas -/
theorem findSome?_filterMap' {α β γ} (f : α → Option β) (g : β → Option γ) (l : List α) :
    (l.filterMap f).findSome? g = l.findSome? (fun a => (f a).bind g) := by
  induction l with
  | nil => rfl
  | cons a l ih =>
    cases h : f a with
    | none => simp [h, ih]
    | some b => simp [h, ih, List.findSome?_cons]

theorem find?_map_range {α} (p : α → Bool) (g : Nat → α) (m i0 : Nat) (h0 : i0 < m)
    (hp : p (g i0) = true) (hnot : ∀ i, i < i0 → p (g i) = false) :
    ((List.range m).map g).find? p = some (g i0) := by
  rw [List.find?_eq_some_iff_getElem]
  refine ⟨hp, i0, by simpa using h0, by simp, ?_⟩
  intro j hj
  simp [hnot j hj]

theorem find?_map_range_none {α} (p : α → Bool) (g : Nat → α) (m : Nat)
    (hnot : ∀ i, i < m → p (g i) = false) :
    ((List.range m).map g).find? p = none := by
  rw [List.find?_eq_none]
  intro x hx
  simp at hx
  obtain ⟨i, hi, rfl⟩ := hx
  simp [hnot i hi]

theorem findSome?_map_range {α β} (f : α → Option β) (g : Nat → α) (m i0 : Nat) (x : β) (h0 : i0 < m)
    (hp : f (g i0) = some x) (hnot : ∀ i, i < i0 → f (g i) = none) :
    ((List.range m).map g).findSome? f = some x := by
  induction m with
  | zero => omega
  | succ m ih =>
    rw [List.range_succ, List.map_append, List.findSome?_append]
    by_cases h : i0 < m
    · rw [ih h]; rfl
    · have : i0 = m := by omega
      subst this
      have : ((List.range i0).map g).findSome? f = none := by
        rw [List.findSome?_eq_none_iff]
        intro y hy
        simp at hy
        obtain ⟨i, hi, rfl⟩ := hy
        exact hnot i hi
      rw [this]; simp [hp]

theorem findSome?_map_range_none {α β} (f : α → Option β) (g : Nat → α) (m : Nat)
    (hnot : ∀ i, i < m → f (g i) = none) :
    ((List.range m).map g).findSome? f = none := by
  rw [List.findSome?_eq_none_iff]
  intro y hy
  simp at hy
  obtain ⟨i, hi, rfl⟩ := hy
  exact hnot i hi

theorem find?_key (l : List RNode) (k : Nat) (hk : k < l.length)
    (hkeys : ∀ i (h : i < l.length), (l[i]).key = i) :
    l.find? (fun n => n.key == k) = some l[k] := by
  rw [List.find?_eq_some_iff_getElem]
  refine ⟨by simp [hkeys k hk], k, hk, rfl, ?_⟩
  intro j hj
  have := hkeys j (by omega)
  simp [this]; omega

/-! attribute dictionaries -/
theorem Attrs.set_not_mem (a : Attrs) (k v : String) (h : k ∉ a.map (·.1)) :
    Attrs.set a k v = a ++ [(k, v)] := by
  induction a with
  | nil => rfl
  | cons x a ih =>
    obtain ⟨k', v'⟩ := x
    simp at h
    have h1 : ¬ k' = k := fun e => h.1 e.symm
    simp [Attrs.set, h1]
    apply ih; simpa using h.2

theorem Attrs.update_append_nodup (d a : Attrs) (h : (d.map (·.1) ++ a.map (·.1)).Nodup) :
    Attrs.update d a = d ++ a := by
  induction a generalizing d with
  | nil => simp [Attrs.update]
  | cons x a ih =>
    obtain ⟨k, v⟩ := x
    have hk : k ∉ d.map (·.1) := by
      intro hm
      rw [List.nodup_append] at h
      exact h.2.2 k hm k (by simp) rfl
    unfold Attrs.update
    simp only [List.foldl_cons]
    rw [Attrs.set_not_mem d k v hk]
    have := ih (d ++ [(k, v)]) (by simpa [List.append_assoc] using h)
    unfold Attrs.update at this
    rw [this]; simp

theorem normAttrs_nodup (a : Attrs) (h : (a.map (·.1)).Nodup) : normAttrs a = a := by
  unfold normAttrs
  simpa using Attrs.update_append_nodup [] a (by simpa using h)

theorem Attrs.set_mem_pair (a : Attrs) (k v : String) (h : (k, v) ∈ a) (hn : (a.map (·.1)).Nodup) :
    Attrs.set a k v = a := by
  induction a with
  | nil => simp at h
  | cons x a ih =>
    obtain ⟨k', v'⟩ := x
    simp only [Attrs.set]
    by_cases hk : k' = k
    · subst hk
      simp
      simp at h hn
      rcases h with h | h
      · exact h
      · exact absurd h (hn.1 v)
    · simp [hk]
      simp at h hn
      rcases h with h | h
      · exact absurd h.1.symm hk
      · exact ih h hn.2

theorem Attrs.update_sub (d a : Attrs) (hd : (d.map (·.1)).Nodup) (h : ∀ x ∈ a, x ∈ d) :
    Attrs.update d a = d := by
  induction a with
  | nil => rfl
  | cons x a ih =>
    obtain ⟨k, v⟩ := x
    unfold Attrs.update
    simp only [List.foldl_cons]
    rw [Attrs.set_mem_pair d k v (h _ (by simp)) hd]
    exact ih (fun x hx => h x (by simp [hx]))

theorem Attrs.update_self (a : Attrs) (h : (a.map (·.1)).Nodup) : Attrs.update a a = a :=
  Attrs.update_sub a a h (fun _ hx => hx)

theorem Attrs.set_set_same (X : Attrs) (k w v : String) :
    Attrs.set (Attrs.set X k w) k v = Attrs.set X k v := by
  induction X with
  | nil => simp [Attrs.set]
  | cons x X ih =>
    obtain ⟨k', v'⟩ := x
    by_cases h : k' = k
    · simp [Attrs.set, h]
    · simp [Attrs.set, h, ih]

theorem Attrs.set_comm (X : Attrs) (k w k1 v1 : String) (hne : k ≠ k1) (hmem : k1 ∈ X.map (·.1)) :
    Attrs.set (Attrs.set X k w) k1 v1 = Attrs.set (Attrs.set X k1 v1) k w := by
  induction X with
  | nil => simp at hmem
  | cons x X ih =>
    obtain ⟨k', v'⟩ := x
    by_cases h : k' = k
    · subst h
      simp [Attrs.set, hne]
    · by_cases h1 : k' = k1
      · subst h1
        simp [Attrs.set, h]
      · have hm : k1 ∈ X.map (·.1) := by
          simp at hmem
          rcases hmem with hm | hm
          · exact absurd hm.symm h1
          · simpa using hm
        simp [Attrs.set, h, h1, ih hm]

theorem Attrs.mem_keys_set (X : Attrs) (k v x : String) (h : x ∈ X.map (·.1)) :
    x ∈ (Attrs.set X k v).map (·.1) := by
  induction X with
  | nil => simp at h
  | cons y X ih =>
    obtain ⟨k', v'⟩ := y
    by_cases hk : k' = k
    · subst hk; simpa [Attrs.set] using h
    · simp [Attrs.set, hk] at h ⊢
      rcases h with h | h
      · exact Or.inl h
      · exact Or.inr (by simpa using ih (by simpa using h))

theorem Attrs.key_mem_set (X : Attrs) (k v : String) : k ∈ (Attrs.set X k v).map (·.1) := by
  induction X with
  | nil => simp [Attrs.set]
  | cons y X ih =>
    obtain ⟨k', v'⟩ := y
    by_cases hk : k' = k
    · simp [Attrs.set, hk]
    · simp [Attrs.set, hk]; right; simpa using ih

theorem Attrs.update_cons (X : Attrs) (k v : String) (a : Attrs) :
    Attrs.update X ((k, v) :: a) = Attrs.update (Attrs.set X k v) a := rfl

theorem Attrs.update_snoc (X : Attrs) (a : Attrs) (k v : String) :
    Attrs.update X (a ++ [(k, v)]) = Attrs.set (Attrs.update X a) k v := by
  simp [Attrs.update, List.foldl_append]

theorem Attrs.mem_keys_update (X a : Attrs) (x : String) (h : x ∈ X.map (·.1) ∨ x ∈ a.map (·.1)) :
    x ∈ (Attrs.update X a).map (·.1) := by
  induction a generalizing X with
  | nil => simpa [Attrs.update] using h
  | cons y a ih =>
    obtain ⟨k, v⟩ := y
    rw [Attrs.update_cons]
    apply ih
    rcases h with h | h
    · exact Or.inl (Attrs.mem_keys_set X k v x h)
    · simp at h
      rcases h with h | h
      · subst h; exact Or.inl (Attrs.key_mem_set X x v)
      · exact Or.inr (by simpa using h)

theorem Attrs.set_update_set (X a : Attrs) (k w v : String) (hsub : ∀ x ∈ a.map (·.1), x ∈ X.map (·.1)) :
    Attrs.set (Attrs.update (Attrs.set X k w) a) k v = Attrs.set (Attrs.update X a) k v := by
  induction a generalizing X w with
  | nil => simp [Attrs.update, Attrs.set_set_same]
  | cons y a ih =>
    obtain ⟨k1, v1⟩ := y
    rw [Attrs.update_cons, Attrs.update_cons]
    by_cases h : k = k1
    · subst h
      rw [Attrs.set_set_same]
    · rw [Attrs.set_comm X k w k1 v1 h (hsub k1 (by simp))]
      apply ih
      intro x hx
      exact Attrs.mem_keys_set X k1 v1 x (hsub x (by simp at hx ⊢; exact Or.inr hx))

theorem Attrs.update_update_self_rev (X r : Attrs) :
    Attrs.update (Attrs.update X r.reverse) r.reverse = Attrs.update X r.reverse := by
  induction r with
  | nil => rfl
  | cons y r ih =>
    obtain ⟨k, v⟩ := y
    rw [List.reverse_cons, Attrs.update_snoc X r.reverse k v, Attrs.update_snoc]
    rw [Attrs.set_update_set _ r.reverse k v v
      (fun x hx => Attrs.mem_keys_update X r.reverse x (Or.inr hx)), ih]

/-- re-assigning the items of a dictionary literal to the dictionary built from it changes nothing -/
theorem Attrs.update_update_self (X a : Attrs) :
    Attrs.update (Attrs.update X a) a = Attrs.update X a := by
  have := Attrs.update_update_self_rev X a.reverse
  rwa [List.reverse_reverse] at this

theorem normAttrs_update_self (a : Attrs) : Attrs.update (normAttrs a) a = normAttrs a :=
  Attrs.update_update_self [] a



/-! ### the loop invariant -/

/-- totalised table lookup (only used where the name is known) -/
def cmp (tbl : List (String × String)) (nm : String) : String := (lookup tbl nm).getD ""

def compNode (tbl : List (String × String)) (names : List String) (k : Nat) : RNode :=
  ⟨names.length + k, names.length + k + 1, cmp tbl (names.getD (names.length - 1 - k) "")⟩

def newEdge (names : List String) (labels : List Attrs) (k : Nat) : REdge :=
  ⟨names.length + k, names.length + k + 1, normAttrs (labels.getD (names.length - 2 - k) [])⟩

/-- graph after `j` turns of the loop -/
def gAt (tbl : List (String × String)) (names : List String) (labels : List Attrs) (circ : Option Attrs)
    (j : Nat) : RGraph :=
  { nodes := (strandGraph names labels circ).nodes ++ (List.range (j + 1)).map (compNode tbl names),
    edges := (strandGraph names labels circ).edges ++ (List.range j).map (newEdge names labels),
    maxResid := names.length + j + 1 }

/-- loop state after `j` turns -/
def stAt (tbl : List (String × String)) (names : List String) (labels : List Attrs) (circ : Option Attrs)
    (j : Nat) : St :=
  { g := gAt tbl names labels circ j,
    corr := (List.range (j + 1)).map (fun i => (names.length - 1 - i, names.length + i)),
    total := names.length + j }

section
variable (tbl : List (String × String)) (names : List String) (labels : List Attrs) (circ : Option Attrs)

theorem gAt_nodes_length (j : Nat) : (gAt tbl names labels circ j).nodes.length = names.length + j + 1 := by
  simp [gAt, strandGraph]; omega

theorem gAt_nodes_getElem (j i : Nat) (h : i < (gAt tbl names labels circ j).nodes.length) :
    (gAt tbl names labels circ j).nodes[i] =
      if i < names.length then ⟨i, i + 1, names.getD i ""⟩ else compNode tbl names (i - names.length) := by
  simp only [gAt, strandGraph]
  rw [List.getElem_append]
  split
  · rename_i h1
    simp at h1
    simp [h1]
  · rename_i h1
    simp at h1
    have : ¬ i < names.length := by omega
    simp [this]

theorem gAt_node? (j k : Nat) (hk : k < names.length + j + 1) :
    (gAt tbl names labels circ j).node? k =
      some (if k < names.length then ⟨k, k + 1, names.getD k ""⟩ else compNode tbl names (k - names.length)) := by
  unfold RGraph.node?
  have hl := gAt_nodes_length tbl names labels circ j
  rw [find?_key _ k (by omega), gAt_nodes_getElem]
  intro i h
  rw [gAt_nodes_getElem]
  split
  · rfl
  · simp [compNode]; omega

theorem gAt_resid? (j k : Nat) (hk : k < names.length + j + 1) :
    (gAt tbl names labels circ j).resid? k = some (k + 1) := by
  unfold RGraph.resid?
  rw [gAt_node? _ _ _ _ _ _ hk]
  split
  · rfl
  · simp [compNode]; omega

theorem gAt_resname? (j k : Nat) (hk : k < names.length) :
    (gAt tbl names labels circ j).resname? k = some (names.getD k "") := by
  unfold RGraph.resname?
  rw [gAt_node? _ _ _ _ _ _ (by omega)]
  simp [hk]

end

theorem findSome?_congr' {α β} (f g : α → Option β) (l : List α) (h : ∀ x ∈ l, f x = g x) :
    l.findSome? f = l.findSome? g := by
  induction l with
  | nil => rfl
  | cons a l ih =>
    simp only [List.findSome?_cons, h a (by simp)]
    rw [ih (fun x hx => h x (by simp [hx]))]

/-- what `_dna_edge_iterator` decides on seeing neighbour `nn` of `src` when resid = key + 1 -/
def kf (n src nn : Nat) : Option (Nat × Bool) :=
  if src = nn + 1 then some (nn, false)
  else if src < nn ∧ nn = n - 1 then some (nn, true) else none

def hf (n src : Nat) (e : REdge) : Option (Nat × Bool) :=
  if e.u = src then kf n src e.v else if e.v = src then kf n src e.u else none

theorem iterStep_eq_findSome (g : RGraph) (first src rs : Nat) (h : g.resid? src = some rs) :
    iterStep g first src = g.edges.findSome? (fun e =>
      (if e.u == src then some e.v else if e.v == src then some e.u else none).bind fun nn =>
        match g.resid? nn with
        | none => none
        | some rn =>
          if rs = rn + 1 then some (nn, false)
          else if rn > rs && nn == first then some (nn, true)
          else none) := by
  unfold iterStep RGraph.neighbors
  rw [h]
  simp only
  rw [findSome?_filterMap']
  rfl

section
variable (tbl : List (String × String)) (names : List String) (labels : List Attrs) (circ : Option Attrs)

theorem gAt_edges_bound (j : Nat) (hn : 1 ≤ names.length) (hc : circ.isSome → 3 ≤ names.length) :
    ∀ e ∈ (gAt tbl names labels circ j).edges,
      e.u < names.length + j + 1 ∧ e.v < names.length + j + 1 := by
  intro e he
  simp only [gAt, strandGraph, List.mem_append, List.mem_map, List.mem_range] at he
  rcases he with ((he | he) | he) | he
  · split at he
    · simp at he; subst he; simp; omega
    · simp at he
  · cases circ with
    | none => simp at he
    | some a => simp at he; subst he; simp; omega
  · obtain ⟨i, hi, rfl⟩ := he; simp; omega
  · obtain ⟨i, hi, rfl⟩ := he; simp [newEdge]; omega

theorem iterStep_gAt (j src : Nat) (hn : 1 ≤ names.length) (hc : circ.isSome → 3 ≤ names.length)
    (hs : src < names.length) :
    iterStep (gAt tbl names labels circ j) (names.length - 1) src =
      (gAt tbl names labels circ j).edges.findSome? (hf names.length src) := by
  rw [iterStep_eq_findSome _ _ _ _ (gAt_resid? tbl names labels circ j src (by omega))]
  apply findSome?_congr'
  intro e he
  obtain ⟨hu, hv⟩ := gAt_edges_bound tbl names labels circ j hn hc e he
  unfold hf kf
  by_cases h1 : e.u = src
  · simp [h1, gAt_resid? tbl names labels circ j e.v hv]
  · by_cases h2 : e.v = src
    · simp [h1, h2, gAt_resid? tbl names labels circ j e.u hu]
    · simp [h1, h2]

end

section
variable (tbl : List (String × String)) (names : List String) (labels : List Attrs) (circ : Option Attrs)

theorem hf_new_none (j src : Nat) (hs : src < names.length) :
    ((List.range j).map (newEdge names labels)).findSome? (hf names.length src) = none := by
  apply findSome?_map_range_none
  intro i _
  have h1 : ¬ (names.length + i = src) := by omega
  have h2 : ¬ (names.length + i + 1 = src) := by omega
  simp [hf, newEdge, h1, h2]

theorem hf_range_pos (src m : Nat) (h2 : 2 ≤ src) (hm : src - 2 < m) (n : Nat) (lab : Nat → Attrs) :
    ((List.range m).map (fun i => (⟨i + 1, i + 2, lab i⟩ : REdge))).findSome? (hf n src)
      = some (src - 1, false) := by
  apply findSome?_map_range _ _ m (src - 2) _ hm
  · simp [hf, kf]
    have : ¬ (src - 2 + 1 = src) := by omega
    have h3 : src - 2 + 2 = src := by omega
    simp [this, h3]
    omega
  · intro i hi
    have : ¬ (i + 1 = src) := by omega
    have h3 : ¬ (i + 2 = src) := by omega
    simp [hf, this, h3]

theorem hf_range_zero (m n : Nat) (lab : Nat → Attrs) :
    ((List.range m).map (fun i => (⟨i + 1, i + 2, lab i⟩ : REdge))).findSome? (hf n 0) = none := by
  apply findSome?_map_range_none
  intro i _
  simp [hf]

/-- inside the strand the walk goes to the residue with the next lower resid -/
theorem iterStep_gAt_pos (j src : Nat) (hc : circ.isSome → 3 ≤ names.length)
    (h1 : 1 ≤ src) (hs : src < names.length) :
    iterStep (gAt tbl names labels circ j) (names.length - 1) src = some (src - 1, false) := by
  rw [iterStep_gAt tbl names labels circ j src (by omega) hc hs]
  have hn2 : 2 ≤ names.length := by omega
  by_cases h2 : 2 ≤ src
  · have h3 : ¬ (1 = src) := by omega
    have h4 : ¬ (0 = src) := by omega
    cases circ with
    | none =>
      simp only [gAt, strandGraph, List.findSome?_append, hn2, if_true]
      rw [hf_range_pos src (names.length - 2) h2 (by omega)]
      simp [hf, h3, h4]
    | some a =>
      have := hc rfl
      simp only [gAt, strandGraph, List.findSome?_append, hn2, if_true]
      rw [hf_range_pos src (names.length - 2) h2 (by omega)]
      have h5 : ¬ (src = 1) := by omega
      simp [hf, kf, h3, h4, h5]
  · have : src = 1 := by omega
    subst this
    simp [gAt, strandGraph, hn2, hf, kf]

/-- at residue 0 of a circular strand the walk closes the circle -/
theorem iterStep_gAt_zero_circ (j : Nat) (a : Attrs) (hn : 3 ≤ names.length) :
    iterStep (gAt tbl names labels (some a) j) (names.length - 1) 0 = some (names.length - 1, true) := by
  rw [iterStep_gAt tbl names labels (some a) j 0 (by omega) (fun _ => hn) (by omega)]
  have hn2 : 2 ≤ names.length := by omega
  simp only [gAt, strandGraph, List.findSome?_append, hn2, if_true]
  rw [hf_range_zero, hf_new_none names labels j 0 (by omega)]
  have h5 : ¬ (names.length - 1 = 1) := by omega
  have h6 : ¬ (1 = names.length - 1) := by omega
  have h7 : 0 < names.length - 1 := by omega
  simp [hf, kf, h6, h7]

/-- at residue 0 of a linear strand the walk ends — except for n = 2, where residue 1 is both a
neighbour with a higher resid and the first node, so the iterator yields a closing edge -/
theorem iterStep_gAt_zero_lin (j : Nat) (hn : 1 ≤ names.length) :
    iterStep (gAt tbl names labels none j) (names.length - 1) 0 =
      if names.length = 2 then some (1, true) else none := by
  rw [iterStep_gAt tbl names labels none j 0 hn (by simp) (by omega)]
  simp only [gAt, strandGraph, List.findSome?_append]
  rw [hf_range_zero, hf_new_none names labels j 0 (by omega)]
  by_cases h2 : names.length = 2
  · simp [h2, hf, kf]
  · by_cases h1 : 2 ≤ names.length
    · have h6 : ¬ (1 = names.length - 1) := by omega
      simp [h1, h2, hf, kf, h6]
    · simp [h1, h2]

end

section
variable (tbl : List (String × String)) (names : List String) (labels : List Attrs) (circ : Option Attrs)

theorem corrOf_stAt (j i0 : Nat) (hi : i0 ≤ j) (hj : j < names.length) :
    corrOf (stAt tbl names labels circ j).corr (names.length - 1 - i0) = some (names.length + i0) := by
  unfold corrOf stAt
  simp only
  rw [find?_map_range _ _ (j + 1) i0 (by omega) (by simp)]
  · rfl
  · intro i hi'
    simp; omega

theorem corrOf_stAt_none (j k : Nat) (hk : k + 1 + j < names.length) :
    corrOf (stAt tbl names labels circ j).corr k = none := by
  unfold corrOf stAt
  simp only
  rw [find?_map_range_none]
  · rfl
  · intro i hi'
    simp; omega

/-- shape of every edge of the intermediate graph -/
theorem gAt_edges_shape (j : Nat) (hc : circ.isSome → 3 ≤ names.length) :
    ∀ e ∈ (gAt tbl names labels circ j).edges,
      (e.u = 0 ∧ e.v = names.length - 1 ∧ 3 ≤ names.length) ∨ (e.v = e.u + 1 ∧ e.v < names.length) ∨
      (e.v = e.u + 1 ∧ names.length ≤ e.u ∧ e.u < names.length + j) := by
  intro e he
  simp only [gAt, strandGraph, List.mem_append, List.mem_map, List.mem_range] at he
  rcases he with ((he | he) | he) | he
  · split at he
    · simp at he; subst he; simp; omega
    · simp at he
  · cases circ with
    | none => simp at he
    | some a => simp at he; subst he; left; exact ⟨rfl, rfl, hc rfl⟩
  · obtain ⟨i, hi, rfl⟩ := he; simp; omega
  · obtain ⟨i, hi, rfl⟩ := he; simp [newEdge]; omega

theorem joins_false_of (e : REdge) (a b : Nat) (h : ¬ (e.u = a ∧ e.v = b) ∧ ¬ (e.u = b ∧ e.v = a)) :
    e.joins a b = false := by
  unfold REdge.joins
  simp
  constructor
  · intro h1 h2; exact h.1 ⟨h1, h2⟩
  · intro h1 h2; exact h.2 ⟨h1, h2⟩

/-- no edge yet between the last complement node and the node about to be created -/
theorem gAt_no_new_edge (j : Nat) (hc : circ.isSome → 3 ≤ names.length) :
    ∀ e ∈ (gAt tbl names labels circ j).edges, e.joins (names.length + j) (names.length + j + 1) = false := by
  intro e he
  apply joins_false_of
  rcases gAt_edges_shape tbl names labels circ j hc e he with h | h | h <;> omega

/-- no edge yet between the two ends of the complement (n ≥ 3) -/
theorem gAt_no_closing_edge (j : Nat) (hc : circ.isSome → 3 ≤ names.length) (hn : 3 ≤ names.length) :
    ∀ e ∈ (gAt tbl names labels circ j).edges, e.joins (2 * names.length - 1) names.length = false := by
  intro e he
  apply joins_false_of
  rcases gAt_edges_shape tbl names labels circ j hc e he with h | h | h <;> omega

theorem edge?_none_of (g : RGraph) (a b : Nat) (h : ∀ e ∈ g.edges, e.joins a b = false) :
    g.edge? a b = none := by
  unfold RGraph.edge?
  rw [List.find?_eq_none]
  intro e he
  simp [h e he]

theorem map_update_none (l : List REdge) (a b : Nat) (at' : Attrs) (h : ∀ e ∈ l, e.joins a b = false) :
    l.map (fun e => if e.joins a b then { e with attrs := e.attrs.update at' } else e) = l := by
  induction l with
  | nil => rfl
  | cons x l ih =>
    simp only [List.map_cons, h x (by simp)]
    rw [ih (fun e he => h e (by simp [he]))]
    simp

/-- the strand edge below `src` and its label -/
theorem gAt_edge?_down (j src : Nat) (hc : circ.isSome → 3 ≤ names.length)
    (h1 : 1 ≤ src) (hs : src < names.length) :
    (gAt tbl names labels circ j).edge? src (src - 1) = some ⟨src - 1, src, labels.getD (src - 1) []⟩ := by
  unfold RGraph.edge?
  have hn2 : 2 ≤ names.length := by omega
  by_cases h2 : 2 ≤ src
  · have hR : ((List.range (names.length - 2)).map
        (fun i => (⟨i + 1, i + 2, labels.getD (i + 1) []⟩ : REdge))).find? (fun e => e.joins src (src - 1))
        = some ⟨src - 2 + 1, src - 2 + 2, labels.getD (src - 2 + 1) []⟩ := by
      apply find?_map_range _ _ _ (src - 2) (by omega)
      · simp [REdge.joins]; omega
      · intro i hi
        apply joins_false_of; simp; omega
    have e1 : src - 2 + 1 = src - 1 := by omega
    have e2 : src - 2 + 2 = src := by omega
    rw [e1, e2] at hR
    have hA : ∀ x, (⟨0, 1, x⟩ : REdge).joins src (src - 1) = false := by
      intro x
      apply joins_false_of; simp; omega
    cases circ with
    | none =>
      simp only [gAt, strandGraph, List.find?_append, hn2, if_true]
      rw [hR]
      simp [hA]
    | some a =>
      have := hc rfl
      have hC : (⟨0, names.length - 1, a⟩ : REdge).joins src (src - 1) = false := by
        apply joins_false_of; simp; omega
      simp only [gAt, strandGraph, List.find?_append, hn2, if_true]
      rw [hR]
      simp [hA, hC]
  · have : src = 1 := by omega
    subst this
    simp [gAt, strandGraph, hn2, REdge.joins]

end

theorem joins_self (a b : Nat) (x : Attrs) : (⟨a, b, x⟩ : REdge).joins a b = true := by
  simp [REdge.joins]

/-- `add_edge` of a fresh edge followed by the attribute copy -/
theorem addEdge_update_fresh (g : RGraph) (a b : Nat) (at' : Attrs)
    (h : ∀ e ∈ g.edges, e.joins a b = false) :
    (g.addEdge a b).updateEdgeAttrs a b at' =
      { g with edges := g.edges ++ [⟨a, b, normAttrs at'⟩] } := by
  have hne : g.hasEdge a b = false := by
    unfold RGraph.hasEdge; rw [edge?_none_of g a b h]; rfl
  unfold RGraph.addEdge RGraph.updateEdgeAttrs
  simp only [hne, Bool.false_eq_true, if_false, List.map_append, List.map_cons, List.map_nil, joins_self, if_true]
  rw [map_update_none _ _ _ _ h]
  rfl

section
variable (tbl : List (String × String)) (names : List String) (labels : List Attrs) (circ : Option Attrs)

theorem body_step (j : Nat) (hj : j + 2 ≤ names.length) (hc : circ.isSome → 3 ≤ names.length)
    (c : String) (hk : lookup tbl (names.getD (names.length - 2 - j) "") = some c) :
    body tbl (stAt tbl names labels circ j) (names.length - 1 - j) (names.length - 2 - j) =
      .ok (stAt tbl names labels circ (j + 1)) := by
  unfold body
  have e0 : (stAt tbl names labels circ j).g = gAt tbl names labels circ j := rfl
  have e1 : (stAt tbl names labels circ j).total = names.length + j := rfl
  rw [e0, e1, gAt_resname? tbl names labels circ j (names.length - 2 - j) (by omega)]
  simp only [hk]
  rw [corrOf_stAt tbl names labels circ j j (Nat.le_refl _) (by omega)]
  simp only
  have e2 : names.length - 2 - j = names.length - 1 - j - 1 := by omega
  rw [e2, gAt_edge?_down tbl names labels circ j (names.length - 1 - j) hc (by omega) (by omega)]
  rw [← e2, corrOf_stAt_none tbl names labels circ j (names.length - 2 - j) (by omega)]
  simp only
  have hfresh : ∀ e ∈ ((gAt tbl names labels circ j).addNode (names.length + j + 1) c).edges,
      e.joins (names.length + j) (names.length + j + 1) = false :=
    gAt_no_new_edge tbl names labels circ j hc
  rw [addEdge_update_fresh _ _ _ _ hfresh]
  have e3 : names.length - 1 - (j + 1) = names.length - 2 - j := by omega
  have hcmp : cmp tbl (names.getD (names.length - 2 - j) "") = c := by unfold cmp; rw [hk]; rfl
  congr 1
  simp only [stAt, gAt, RGraph.addNode, List.range_succ (n := j + 1), List.range_succ (n := j),
    List.map_append, List.map_cons, List.map_nil, compNode, newEdge, e3, hcmp]
  simp [Nat.add_assoc]

end

section
variable (tbl : List (String × String)) (names : List String) (labels : List Attrs) (circ : Option Attrs)

theorem loop_step (j fuel : Nat) (hj : j + 2 ≤ names.length) (hc : circ.isSome → 3 ≤ names.length)
    (hk : (lookup tbl (names.getD (names.length - 2 - j) "")).isSome) :
    loop tbl (names.length - 1) (fuel + 1) (names.length - 1 - j) (stAt tbl names labels circ j) =
      loop tbl (names.length - 1) fuel (names.length - 2 - j) (stAt tbl names labels circ (j + 1)) := by
  obtain ⟨c, hc'⟩ := Option.isSome_iff_exists.mp hk
  rw [loop]
  have e0 : (stAt tbl names labels circ j).g = gAt tbl names labels circ j := rfl
  rw [e0, iterStep_gAt_pos tbl names labels circ j _ hc (by omega) (by omega)]
  simp only
  have e2 : names.length - 1 - j - 1 = names.length - 2 - j := by omega
  rw [e2, body_step tbl names labels circ j hj hc c hc']
  simp

theorem loop_step_err (j fuel : Nat) (hj : j + 2 ≤ names.length) (hc : circ.isSome → 3 ≤ names.length)
    (hk : lookup tbl (names.getD (names.length - 2 - j) "") = none) :
    loop tbl (names.length - 1) (fuel + 1) (names.length - 1 - j) (stAt tbl names labels circ j) =
      .error "unknown-resname" := by
  rw [loop]
  have e0 : (stAt tbl names labels circ j).g = gAt tbl names labels circ j := rfl
  rw [e0, iterStep_gAt_pos tbl names labels circ j _ hc (by omega) (by omega)]
  simp only
  have e2 : names.length - 1 - j - 1 = names.length - 2 - j := by omega
  rw [e2]
  unfold body
  rw [e0, gAt_resname? tbl names labels circ j (names.length - 2 - j) (by omega)]
  simp only [hk]

/-- the loop invariant: after `j` turns the state is `stAt j` -/
theorem loop_prefix (hc : circ.isSome → 3 ≤ names.length) (j : Nat) (hj : j + 1 ≤ names.length)
    (hk : ∀ k, 1 ≤ k → k ≤ j → (lookup tbl (names.getD (names.length - 1 - k) "")).isSome) :
    loop tbl (names.length - 1) (names.length + 1) (names.length - 1) (stAt tbl names labels circ 0) =
      loop tbl (names.length - 1) (names.length + 1 - j) (names.length - 1 - j)
        (stAt tbl names labels circ j) := by
  induction j with
  | zero => rfl
  | succ j ih =>
    rw [ih (by omega) (fun k h1 h2 => hk k h1 (by omega))]
    have e1 : names.length + 1 - j = (names.length + 1 - (j + 1)) + 1 := by omega
    have e2 : names.length - 1 - (j + 1) = names.length - 2 - j := by omega
    rw [e1, e2]
    apply loop_step tbl names labels circ j _ (by omega) hc
    have := hk (j + 1) (by omega) (Nat.le_refl _)
    rwa [e2] at this

end

section
variable (tbl : List (String × String)) (names : List String) (labels : List Attrs)

/-- end of the walk on a linear strand, n ≠ 2: the iterator is exhausted -/
theorem loop_end_lin (fuel : Nat) (hn : 1 ≤ names.length) (h2 : names.length ≠ 2) :
    loop tbl (names.length - 1) fuel 0 (stAt tbl names labels none (names.length - 1)) =
      .ok (stAt tbl names labels none (names.length - 1)) := by
  cases fuel with
  | zero => rfl
  | succ fuel =>
    rw [loop]
    have e0 : (stAt tbl names labels none (names.length - 1)).g = gAt tbl names labels none (names.length - 1) := rfl
    rw [e0, iterStep_gAt_zero_lin tbl names labels _ hn]
    simp [h2]

/-- end of the walk on a circular strand: one more turn, which closes the complement -/
theorem loop_end_circ (fuel : Nat) (a : Attrs) (hn : 3 ≤ names.length)
    (hk : (lookup tbl (names.getD (names.length - 1) "")).isSome) :
    ∃ s, loop tbl (names.length - 1) (fuel + 1) 0 (stAt tbl names labels (some a) (names.length - 1)) = .ok s ∧
      s.g = { gAt tbl names labels (some a) (names.length - 1) with
              edges := (gAt tbl names labels (some a) (names.length - 1)).edges ++
                [⟨2 * names.length - 1, names.length, normAttrs a⟩] } := by
  obtain ⟨c, hc'⟩ := Option.isSome_iff_exists.mp hk
  rw [loop]
  have e0 : (stAt tbl names labels (some a) (names.length - 1)).g = gAt tbl names labels (some a) (names.length - 1) := rfl
  rw [e0, iterStep_gAt_zero_circ tbl names labels _ a hn]
  simp only
  unfold body
  rw [e0, gAt_resname? tbl names labels (some a) _ (names.length - 1) (by omega)]
  simp only [hc']
  have c0 := corrOf_stAt tbl names labels (some a) (names.length - 1) (names.length - 1) (Nat.le_refl _) (by omega)
  have e1 : names.length - 1 - (names.length - 1) = 0 := by omega
  rw [e1] at c0
  rw [c0]
  simp only
  have c1 := corrOf_stAt tbl names labels (some a) (names.length - 1) 0 (by omega) (by omega)
  rw [Nat.sub_zero] at c1
  rw [c1]
  simp only
  have e2 : names.length + (names.length - 1) = 2 * names.length - 1 := by omega
  rw [e2, Nat.add_zero]
  have hfresh := gAt_no_closing_edge tbl names labels (some a) (names.length - 1) (fun _ => hn) hn
  have hedge : (gAt tbl names labels (some a) (names.length - 1)).edge? 0 (names.length - 1) =
      some ⟨0, names.length - 1, a⟩ := by
    have hn2 : 2 ≤ names.length := by omega
    have h1 : ¬ (1 = names.length - 1) := by omega
    simp [RGraph.edge?, gAt, strandGraph, hn2, REdge.joins, h1]
  rw [hedge]
  simp only
  rw [addEdge_update_fresh _ _ _ _ hfresh]
  simp

/-- the n = 2 quirk of a linear strand: the iterator yields the closing edge (0,1); the body re-adds the
existing complement edge (3,2) and re-assigns its attributes, which changes nothing
(`Attrs.update_update_self`, true for arbitrary item lists) -/
theorem loop_end_lin2 (fuel : Nat) (hn : names.length = 2)
    (hk : (lookup tbl (names.getD 1 "")).isSome) :
    ∃ s, loop tbl (names.length - 1) (fuel + 1) 0 (stAt tbl names labels none (names.length - 1)) = .ok s ∧
      s.g = gAt tbl names labels none (names.length - 1) := by
  obtain ⟨c, hc'⟩ := Option.isSome_iff_exists.mp hk
  have e3 : names.length - 1 = 1 := by omega
  rw [e3, loop]
  have e0 : (stAt tbl names labels none 1).g = gAt tbl names labels none 1 := rfl
  have i0 := iterStep_gAt_zero_lin tbl names labels 1 (by omega)
  rw [e3] at i0
  rw [e0, i0]
  simp only [hn, if_true]
  unfold body
  rw [e0]
  have r1 := gAt_resname? tbl names labels none 1 1 (by omega)
  rw [r1]
  simp only [hc']
  have c0 := corrOf_stAt tbl names labels none 1 1 (Nat.le_refl _) (by omega)
  have c1 := corrOf_stAt tbl names labels none 1 0 (by omega) (by omega)
  rw [hn] at c0 c1
  have e4 : 2 - 1 - 1 = 0 := rfl
  have e5 : 2 - 1 - 0 = 1 := rfl
  rw [e4] at c0
  rw [e5] at c1
  rw [c0, c1]
  simp only
  have hg : gAt tbl names labels none 1 =
      ⟨(gAt tbl names labels none 1).nodes,
       [⟨0, 1, labels.getD 0 []⟩, ⟨2, 3, normAttrs (labels.getD 0 [])⟩], 4⟩ := by
    simp [gAt, strandGraph, hn, newEdge, List.range_succ]
  have hedge : (gAt tbl names labels none 1).edge? 0 1 = some ⟨0, 1, labels.getD 0 []⟩ := by
    rw [hg]; simp [RGraph.edge?, REdge.joins]
  rw [hedge]
  refine ⟨_, rfl, ?_⟩
  simp only
  rw [hg]
  simp [RGraph.addEdge, RGraph.hasEdge, RGraph.edge?, REdge.joins, RGraph.updateEdgeAttrs]
  exact normAttrs_update_self _

end

section
variable (tbl : List (String × String)) (names : List String) (labels : List Attrs) (circ : Option Attrs)

theorem strand_getLast? (hn : 1 ≤ names.length) :
    (strandGraph names labels circ).nodes.getLast? =
      some ⟨names.length - 1, names.length, names.getD (names.length - 1) ""⟩ := by
  rw [List.getLast?_eq_getElem?]
  have hl : (strandGraph names labels circ).nodes.length = names.length := by simp [strandGraph]
  rw [hl, List.getElem?_eq_getElem (by omega)]
  have h : names.length - 1 < names.length := by omega
  simp [strandGraph, h]
  omega

theorem complement_first_unknown (hn : 1 ≤ names.length)
    (hk : lookup tbl (names.getD (names.length - 1) "") = none) :
    complement tbl (strandGraph names labels circ) = .error "unknown-resname" := by
  unfold complement
  rw [strand_getLast? names labels circ hn]
  simp only [hk]

theorem complement_unfold (hn : 1 ≤ names.length)
    (hk : (lookup tbl (names.getD (names.length - 1) "")).isSome) :
    complement tbl (strandGraph names labels circ) =
      match loop tbl (names.length - 1) (names.length + 1) (names.length - 1)
              (stAt tbl names labels circ 0) with
      | .error e => .error e
      | .ok s => .ok s.g := by
  obtain ⟨c, hc'⟩ := Option.isSome_iff_exists.mp hk
  unfold complement
  rw [strand_getLast? names labels circ hn]
  simp only [hc']
  have hl : (strandGraph names labels circ).nodes.length = names.length := by simp [strandGraph]
  have e1 : names.length - 1 + 1 = names.length := by omega
  have hcmp : cmp tbl (names.getD (names.length - 1) "") = c := by unfold cmp; rw [hc']; rfl
  have hs : ({ g := (strandGraph names labels circ).addNode (names.length - 1 + 1) c,
               corr := [(names.length - 1, names.length - 1 + 1)],
               total := names.length - 1 + 1 } : St) = stAt tbl names labels circ 0 := by
    subst hcmp
    simp [stAt, gAt, RGraph.addNode, compNode, e1, strandGraph]
  rw [hl, hs]
  rfl

/-- the graph the loop ends with -/
def finalGraph : RGraph :=
  { nodes := (strandGraph names labels circ).nodes ++ (List.range names.length).map (compNode tbl names),
    edges := (strandGraph names labels circ).edges
             ++ (List.range (names.length - 1)).map (newEdge names labels)
             ++ (match circ with | some a => [⟨2 * names.length - 1, names.length, normAttrs a⟩] | none => []),
    maxResid := 2 * names.length }

theorem known_of_mem (hk : ∀ nm ∈ names, (lookup tbl nm).isSome) (i : Nat) (hi : i < names.length) :
    (lookup tbl (names.getD i "")).isSome := by
  apply hk
  simp [hi]

/-- Goal 1 at the level of the explicit final graph -/
theorem complement_eq_final (hn : 1 ≤ names.length) (hc : circ.isSome → 3 ≤ names.length)
    (hk : ∀ nm ∈ names, (lookup tbl nm).isSome) :
    complement tbl (strandGraph names labels circ) = .ok (finalGraph tbl names labels circ) := by
  have kn := known_of_mem tbl names hk
  rw [complement_unfold tbl names labels circ hn (kn _ (by omega))]
  rw [loop_prefix tbl names labels circ hc (names.length - 1) (by omega)
        (fun k _ _ => kn _ (by omega))]
  have e1 : names.length + 1 - (names.length - 1) = 1 + 1 := by omega
  have e2 : names.length - 1 - (names.length - 1) = 0 := by omega
  have e3 : names.length - 1 + 1 = names.length := by omega
  have e4 : names.length + (names.length - 1) + 1 = 2 * names.length := by omega
  rw [e1, e2]
  cases circ with
  | some a =>
    have h3 := hc rfl
    obtain ⟨s, h1, h2⟩ := loop_end_circ tbl names labels 1 a h3 (kn _ (by omega))
    rw [h1]
    simp only [h2]
    simp [gAt, finalGraph, e3, e4]
  | none =>
    by_cases h2 : names.length = 2
    · have k1 : (lookup tbl (names.getD 1 "")).isSome := kn 1 (by omega)
      obtain ⟨s, h1, h2'⟩ := loop_end_lin2 tbl names labels 1 h2 k1
      rw [h1]
      simp only [h2']
      simp [gAt, finalGraph, e3, e4]
    · rw [loop_end_lin tbl names labels _ hn h2]
      simp [stAt, gAt, finalGraph, e3, e4]

theorem specGraph_eq_final (hk : ∀ nm ∈ names, (lookup tbl nm).isSome) :
    specGraph tbl names labels circ = some (finalGraph tbl names labels circ) := by
  have hs := (specGraph_isSome_iff tbl names labels circ).mpr hk
  unfold specGraph at hs ⊢
  cases hm : names.reverse.mapM (lookup tbl) with
  | none => simp [hm] at hs
  | some comps =>
    obtain ⟨hlen, hget⟩ := mapM_eq_some_map _ _ _ hm
    simp only
    have hnodes : comps.zipIdx.map (fun (x : String × Nat) => (⟨names.length + x.2, names.length + x.2 + 1, x.1⟩ : RNode))
        = (List.range names.length).map (compNode tbl names) := by
      apply List.ext_getElem
      · simpa using hlen
      · intro i h1 h2
        simp at h1 h2
        have hh := hget i (by simpa using h2) h1
        simp only [List.getElem_map, List.getElem_zipIdx, List.getElem_range, compNode, Nat.zero_add]
        congr 1
        have : names.reverse[i]'(by simpa using h2) = names.getD (names.length - 1 - i) "" := by
          have : names.length - 1 - i < names.length := by omega
          simp [List.getElem_reverse, this]
        rw [this] at hh
        unfold cmp
        rw [hh]; rfl
    have hnodes' : comps.zipIdx.map (fun x => match x with
          | (nm, k) => (⟨names.length + k, names.length + k + 1, nm⟩ : RNode))
        = (List.range names.length).map (compNode tbl names) := hnodes
    rw [hnodes']
    rfl

/-- Goal 2 -/
theorem reject_aux (hc : circ.isSome → 3 ≤ names.length) (j : Nat) (hj : j + 1 ≤ names.length)
    (hbad : ∃ k, 1 ≤ k ∧ k ≤ j ∧ lookup tbl (names.getD (names.length - 1 - k) "") = none) :
    loop tbl (names.length - 1) (names.length + 1) (names.length - 1) (stAt tbl names labels circ 0) =
      .error "unknown-resname" := by
  induction j with
  | zero => obtain ⟨k, h1, h2, _⟩ := hbad; omega
  | succ j ih =>
    by_cases h : ∃ k, 1 ≤ k ∧ k ≤ j ∧ lookup tbl (names.getD (names.length - 1 - k) "") = none
    · exact ih (by omega) h
    · have hall : ∀ k, 1 ≤ k → k ≤ j → (lookup tbl (names.getD (names.length - 1 - k) "")).isSome := by
        intro k h1 h2
        cases hl : lookup tbl (names.getD (names.length - 1 - k) "") with
        | none => exact absurd ⟨k, h1, h2, hl⟩ h
        | some _ => rfl
      obtain ⟨k, h1, h2, h3⟩ := hbad
      have hkj : k = j + 1 := by
        cases hl : lookup tbl (names.getD (names.length - 1 - k) "") with
        | none =>
          by_cases hle : k ≤ j
          · exact absurd ⟨k, h1, hle, hl⟩ h
          · omega
        | some _ => rw [hl] at h3; cases h3
      subst hkj
      rw [loop_prefix tbl names labels circ hc j (by omega) hall]
      have e1 : names.length + 1 - j = (names.length - j) + 1 := by omega
      have e2 : names.length - 1 - (j + 1) = names.length - 2 - j := by omega
      rw [e1]
      rw [e2] at h3
      exact loop_step_err tbl names labels circ j _ (by omega) hc h3

theorem complement_reject (hn : 1 ≤ names.length) (hc : circ.isSome → 3 ≤ names.length)
    (hbad : ∃ nm ∈ names, lookup tbl nm = none) :
    complement tbl (strandGraph names labels circ) = .error "unknown-resname" := by
  cases hlast : lookup tbl (names.getD (names.length - 1) "") with
  | none => exact complement_first_unknown tbl names labels circ hn hlast
  | some c =>
    rw [complement_unfold tbl names labels circ hn (by rw [hlast]; rfl)]
    obtain ⟨nm, hmem, hnone⟩ := hbad
    obtain ⟨i, hi, rfl⟩ := List.getElem_of_mem hmem
    have hik : i ≠ names.length - 1 := by
      intro e
      subst e
      have : names.getD (names.length - 1) "" = names[names.length - 1] := by simp [hi]
      rw [this, hnone] at hlast
      cases hlast
    have := reject_aux tbl names labels circ hc (names.length - 1) (by omega)
      ⟨names.length - 1 - i, by omega, by omega, by
        have e : names.length - 1 - (names.length - 1 - i) = i := by omega
        rw [e]
        have : names.getD i "" = names[i] := by simp [hi]
        rw [this]; exact hnone⟩
    rw [this]

end

section
variable (tbl : List (String × String)) (names : List String) (labels : List Attrs) (circ : Option Attrs)

theorem strand_nodes_length : (strandGraph names labels circ).nodes.length = names.length := by
  simp [strandGraph]

theorem final_nodes_take :
    (finalGraph tbl names labels circ).nodes.take names.length = (strandGraph names labels circ).nodes := by
  unfold finalGraph
  simp only
  rw [List.take_left' (strand_nodes_length names labels circ)]

theorem final_nodes_drop :
    (finalGraph tbl names labels circ).nodes.drop names.length =
      (List.range names.length).map (compNode tbl names) := by
  unfold finalGraph
  simp only
  rw [List.drop_left' (strand_nodes_length names labels circ)]

theorem final_second_names (hk : ∀ nm ∈ names, (lookup tbl nm).isSome) :
    ((finalGraph tbl names labels circ).nodes.drop names.length).map (fun x => some x.resname) =
      names.reverse.map (lookup tbl) := by
  rw [final_nodes_drop]
  apply List.ext_getElem
  · simp
  · intro i h1 h2
    simp at h1 h2
    have h3 : names.length - 1 - i < names.length := by omega
    simp only [List.getElem_map, List.getElem_range, compNode, cmp, List.getElem_reverse]
    have : names.getD (names.length - 1 - i) "" = names[names.length - 1 - i] := by simp [h3]
    rw [this]
    have := hk names[names.length - 1 - i] (List.getElem_mem _)
    obtain ⟨c, hc⟩ := Option.isSome_iff_exists.mp this
    rw [hc]; rfl

theorem final_second_keys :
    ((finalGraph tbl names labels circ).nodes.drop names.length).map (·.key) =
      (List.range names.length).map (names.length + ·) := by
  rw [final_nodes_drop]; simp [compNode]

theorem final_second_resids :
    ((finalGraph tbl names labels circ).nodes.drop names.length).map (·.resid) =
      (List.range names.length).map (names.length + · + 1) := by
  rw [final_nodes_drop]; simp [compNode]

theorem getD_nodup (hl : ∀ l ∈ labels, (l.map (·.1)).Nodup) (i : Nat) :
    ((labels.getD i []).map (·.1)).Nodup := by
  by_cases h : i < labels.length
  · have : labels.getD i [] = labels[i] := by simp [h]
    rw [this]; exact hl _ (List.getElem_mem _)
  · have : labels.getD i [] = [] := by
      rw [List.getD_eq_getElem?_getD, List.getElem?_eq_none (by omega)]; rfl
    rw [this]; simp

/-- with real dictionaries the copied labels are literally the mirrored labels -/
theorem final_edges_nodup (hl : ∀ l ∈ labels, (l.map (·.1)).Nodup)
    (hcn : ∀ a, circ = some a → (a.map (·.1)).Nodup) :
    (finalGraph tbl names labels circ).edges =
      (strandGraph names labels circ).edges
      ++ (List.range (names.length - 1)).map
          (fun k => (⟨names.length + k, names.length + k + 1, labels.getD (names.length - 2 - k) []⟩ : REdge))
      ++ (circ.map (fun a => (⟨2 * names.length - 1, names.length, a⟩ : REdge))).toList := by
  unfold finalGraph
  simp only
  congr 1
  · congr 1
    apply List.map_congr_left
    intro k _
    simp only [newEdge]
    rw [normAttrs_nodup _ (getD_nodup labels hl _)]
  · cases circ with
    | none => rfl
    | some a => simp only [Option.map_some, Option.toList_some]; rw [normAttrs_nodup _ (hcn a rfl)]

/-- no edge between the two strands -/
theorem final_no_cross (hn : 1 ≤ names.length) (hc : circ.isSome → 3 ≤ names.length) :
    ∀ e ∈ (finalGraph tbl names labels circ).edges,
      (e.u < names.length ∧ e.v < names.length) ∨ (names.length ≤ e.u ∧ names.length ≤ e.v) := by
  intro e he
  unfold finalGraph at he
  simp only [List.mem_append] at he
  rcases he with he | he
  · have hs := gAt_edges_shape tbl names labels circ (names.length - 1) hc e (by
      simp only [gAt, List.mem_append]; exact he)
    omega
  · cases circ with
    | none => simp at he
    | some a => simp at he; subst he; simp; omega

theorem final_edges_drop_length :
    ((finalGraph tbl names labels circ).edges.drop (strandGraph names labels circ).edges.length).length =
      names.length - 1 + (if circ.isSome then 1 else 0) := by
  unfold finalGraph
  simp only [List.append_assoc]
  rw [List.drop_left]
  cases circ <;> simp

theorem lookup_mem (t : List (String × String)) (nm c : String) (h : lookup t nm = some c) :
    (nm, c) ∈ t := by
  unfold lookup at h
  cases hf : t.find? (fun kv => kv.1 == nm) with
  | none => simp [hf] at h
  | some kv =>
    simp [hf] at h
    have hmem := List.mem_of_find?_eq_some hf
    have hk := List.find?_some hf
    simp at hk
    obtain ⟨a, b⟩ := kv
    simp at h hk
    subst h; subst hk
    exact hmem

/-- two tables that agree on the entries of the first answer the same on every name known to the first -/
theorem map_lookup_congr (t1 t2 : List (String × String))
    (h12 : ∀ kv ∈ t1, lookup t2 kv.1 = some kv.2) (l : List String)
    (hk : ∀ nm ∈ l, (lookup t1 nm).isSome) : l.map (lookup t1) = l.map (lookup t2) := by
  apply List.map_congr_left
  intro nm hm
  obtain ⟨c, hc⟩ := Option.isSome_iff_exists.mp (hk nm hm)
  rw [hc]
  exact (h12 _ (lookup_mem t1 nm c hc)).symm

end

theorem specGraph_congr (t1 t2 : List (String × String)) (h : ∀ nm, lookup t1 nm = lookup t2 nm)
    (names : List String) (labels : List Attrs) (circ : Option Attrs) :
    specGraph t1 names labels circ = specGraph t2 names labels circ := by
  have : lookup t1 = lookup t2 := funext h
  unfold specGraph
  rw [this]

/-- two tables with the same entries answer every query alike -/
theorem lookup_eq_of_tables (t1 t2 : List (String × String))
    (h12 : ∀ kv ∈ t1, lookup t2 kv.1 = some kv.2) (h21 : ∀ kv ∈ t2, lookup t1 kv.1 = some kv.2)
    (nm : String) : lookup t1 nm = lookup t2 nm := by
  cases h1 : lookup t1 nm with
  | some c => exact (h12 _ (lookup_mem t1 nm c h1)).symm
  | none =>
    cases h2 : lookup t2 nm with
    | none => rfl
    | some c =>
      have := h21 _ (lookup_mem t2 nm c h2)
      simp only at this
      rw [h1] at this
      cases this

/-- for n ≥ 3 the complement has an edge between its two ends iff the input is circular -/
theorem final_hasEdge_closing (tbl : List (String × String)) (names : List String) (labels : List Attrs)
    (circ : Option Attrs) (hc : circ.isSome → 3 ≤ names.length) (hn : 3 ≤ names.length) :
    (finalGraph tbl names labels circ).hasEdge (2 * names.length - 1) names.length = circ.isSome := by
  have hfresh := gAt_no_closing_edge tbl names labels circ (names.length - 1) hc hn
  have hnone := edge?_none_of _ _ _ hfresh
  unfold RGraph.edge? at hnone
  simp only [gAt] at hnone
  unfold RGraph.hasEdge RGraph.edge? finalGraph
  simp only [List.find?_append, hnone]
  cases circ with
  | none => simp
  | some a => simp [REdge.joins]


theorem mapM_eq_some_of_map {α β} (f : α → Option β) (l : List α) (r : List β)
    (h : l.map f = r.map some) : l.mapM f = some r := by
  induction l generalizing r with
  | nil =>
    cases r with
    | nil => rfl
    | cons _ _ => simp at h
  | cons a l ih =>
    cases r with
    | nil => simp at h
    | cons b r =>
      simp only [List.map_cons, List.cons.injEq] at h
      simp [List.mapM_cons, h.1, ih r h.2]

theorem lookup_back (tbl : List (String × String))
    (hinv : ∀ kv ∈ tbl, lookup tbl kv.2 = some kv.1) (a b : String) (hab : lookup tbl a = some b) :
    lookup tbl b = some a :=
  hinv (a, b) (lookup_mem tbl a b hab)

/-- model-level involution: the names of the second strand are all known, and complementing a strand
made of them (any labels, linear or circular) gives back the original names as the new second strand -/
theorem complement_involutive (tbl : List (String × String))
    (hinv : ∀ kv ∈ tbl, lookup tbl kv.2 = some kv.1)
    (names : List String) (labels : List Attrs) (circ : Option Attrs)
    (hn : 1 ≤ names.length) (hc : circ.isSome → 3 ≤ names.length)
    (hk : ∀ nm ∈ names, (lookup tbl nm).isSome) :
    ∃ g, complement tbl (strandGraph names labels circ) = .ok g ∧
      ∀ (labels2 : List Attrs) (circ2 : Option Attrs), (circ2.isSome → 3 ≤ names.length) →
        ∃ g2, complement tbl
            (strandGraph ((g.nodes.drop names.length).map (·.resname)) labels2 circ2) = .ok g2 ∧
          (g2.nodes.drop names.length).map (·.resname) = names := by
  refine ⟨finalGraph tbl names labels circ, complement_eq_final tbl names labels circ hn hc hk, ?_⟩
  intro labels2 circ2 hc2
  have hmap := final_second_names tbl names labels circ hk
  generalize hcomps : ((finalGraph tbl names labels circ).nodes.drop names.length).map (·.resname) = comps
  have hmap' : names.reverse.map (lookup tbl) = comps.map some := by
    rw [← hmap, ← hcomps, List.map_map]; rfl
  have hlen : comps.length = names.length := by
    have := congrArg List.length hmap'
    simpa using this.symm
  have hm1 := mapM_eq_some_of_map _ _ _ hmap'
  obtain ⟨_, hget⟩ := mapM_eq_some_map _ _ _ hm1
  have hk2 : ∀ c ∈ comps, (lookup tbl c).isSome := by
    intro c hcm
    obtain ⟨i, hi, rfl⟩ := List.getElem_of_mem hcm
    have := hget i (by simp; omega) hi
    rw [lookup_back tbl hinv _ _ this]; rfl
  refine ⟨finalGraph tbl comps labels2 circ2,
    complement_eq_final tbl comps labels2 circ2 (by omega) (by rw [hlen]; exact hc2) hk2, ?_⟩
  have hmap2 := final_second_names tbl comps labels2 circ2 hk2
  rw [hlen] at hmap2
  generalize hn2 : ((finalGraph tbl comps labels2 circ2).nodes.drop names.length).map (·.resname) = names2
  have hmap2' : comps.reverse.map (lookup tbl) = names2.map some := by
    rw [← hmap2, ← hn2, List.map_map]; rfl
  have hm2 := mapM_eq_some_of_map _ _ _ hmap2'
  exact mapM_reverse_involutive tbl hinv names comps names2 hm1 hm2


/-! ### equivariance of the model under renaming the node keys `x ↦ x + k` -/

def shiftNode (k : Nat) (n : RNode) : RNode := { n with key := n.key + k }
def shiftEdge (k : Nat) (e : REdge) : REdge := { e with u := e.u + k, v := e.v + k }

theorem shiftKeys_eq (g : RGraph) (k : Nat) :
    g.shiftKeys k = ⟨g.nodes.map (shiftNode k), g.edges.map (shiftEdge k), g.maxResid⟩ := rfl

theorem beq_add_right (a b k : Nat) : (a + k == b + k) = (a == b) := by
  rw [Bool.eq_iff_iff]
  simp

theorem node?_shift (g : RGraph) (k x : Nat) :
    (g.shiftKeys k).node? (x + k) = (g.node? x).map (shiftNode k) := by
  unfold RGraph.node?
  rw [shiftKeys_eq]
  simp only [List.find?_map]
  have : ((fun n : RNode => n.key == x + k) ∘ shiftNode k) = (fun n => n.key == x) := by
    funext n; simp [shiftNode, beq_add_right]
  rw [this]

theorem resid?_shift (g : RGraph) (k x : Nat) :
    (g.shiftKeys k).resid? (x + k) = g.resid? x := by
  unfold RGraph.resid?
  rw [node?_shift]
  cases g.node? x <;> simp [shiftNode]

theorem resname?_shift (g : RGraph) (k x : Nat) :
    (g.shiftKeys k).resname? (x + k) = g.resname? x := by
  unfold RGraph.resname?
  rw [node?_shift]
  cases g.node? x <;> simp [shiftNode]

theorem joins_shift (e : REdge) (k a b : Nat) : (shiftEdge k e).joins (a + k) (b + k) = e.joins a b := by
  simp [REdge.joins, shiftEdge, beq_add_right]

theorem edge?_shift (g : RGraph) (k a b : Nat) :
    (g.shiftKeys k).edge? (a + k) (b + k) = (g.edge? a b).map (shiftEdge k) := by
  unfold RGraph.edge?
  rw [shiftKeys_eq]
  simp only [List.find?_map]
  have : ((fun e : REdge => e.joins (a + k) (b + k)) ∘ shiftEdge k) = (fun e => e.joins a b) := by
    funext e; simp [joins_shift]
  rw [this]

theorem hasEdge_shift (g : RGraph) (k a b : Nat) :
    (g.shiftKeys k).hasEdge (a + k) (b + k) = g.hasEdge a b := by
  unfold RGraph.hasEdge
  rw [edge?_shift]
  cases g.edge? a b <;> rfl

theorem neighbors_shift (g : RGraph) (k x : Nat) :
    (g.shiftKeys k).neighbors (x + k) = (g.neighbors x).map (· + k) := by
  unfold RGraph.neighbors
  rw [shiftKeys_eq]
  simp only [List.filterMap_map, List.map_filterMap]
  congr 1
  funext e
  simp only [Function.comp, shiftEdge, beq_add_right]
  by_cases h1 : e.u == x
  · simp [h1]
  · by_cases h2 : e.v == x
    · simp [h1, h2]
    · simp [h1, h2]

theorem addNode_shift (g : RGraph) (k x : Nat) (nm : String) :
    (g.shiftKeys k).addNode (x + k) nm = (g.addNode x nm).shiftKeys k := by
  simp [RGraph.addNode, RGraph.shiftKeys]

theorem addEdge_shift (g : RGraph) (k a b : Nat) :
    (g.shiftKeys k).addEdge (a + k) (b + k) = (g.addEdge a b).shiftKeys k := by
  unfold RGraph.addEdge
  rw [hasEdge_shift]
  by_cases h : g.hasEdge a b
  · simp [h]
  · simp [h, RGraph.shiftKeys]

theorem updateEdgeAttrs_shift (g : RGraph) (k a b : Nat) (at' : Attrs) :
    (g.shiftKeys k).updateEdgeAttrs (a + k) (b + k) at' = (g.updateEdgeAttrs a b at').shiftKeys k := by
  unfold RGraph.updateEdgeAttrs
  rw [shiftKeys_eq, shiftKeys_eq]
  simp only [List.map_map, RGraph.mk.injEq, and_true, true_and]
  apply List.map_congr_left
  intro e _
  simp only [Function.comp, joins_shift]
  by_cases h : e.joins a b
  · simp [h, shiftEdge]
  · simp [h]


def shiftSt (k : Nat) (s : St) : St :=
  { g := s.g.shiftKeys k, corr := s.corr.map (fun p => (p.1 + k, p.2 + k)), total := s.total + k }

theorem findSome?_map_result {α β γ} (f : α → Option β) (h : β → γ) (l : List α) :
    l.findSome? (fun a => (f a).map h) = (l.findSome? f).map h := by
  induction l with
  | nil => rfl
  | cons a l ih =>
    simp only [List.findSome?_cons]
    cases f a with
    | none => simpa using ih
    | some b => simp

theorem iterStep_shift (g : RGraph) (k first src : Nat) :
    iterStep (g.shiftKeys k) (first + k) (src + k) =
      (iterStep g first src).map (fun p => (p.1 + k, p.2)) := by
  unfold iterStep
  rw [resid?_shift]
  cases g.resid? src with
  | none => rfl
  | some rs =>
    simp only
    rw [neighbors_shift, List.findSome?_map, ← findSome?_map_result]
    congr 1
    funext nn
    simp only [Function.comp, resid?_shift, beq_add_right]
    cases g.resid? nn with
    | none => rfl
    | some rn =>
      simp only
      split
      · rfl
      · split <;> rfl

theorem corrOf_shift (c : List (Nat × Nat)) (k x : Nat) :
    corrOf (c.map (fun p => (p.1 + k, p.2 + k))) (x + k) = (corrOf c x).map (· + k) := by
  unfold corrOf
  simp only [List.find?_map]
  have : ((fun p : Nat × Nat => p.1 == x + k) ∘ fun (p : Nat × Nat) => (p.1 + k, p.2 + k)) = (fun p => p.1 == x) := by
    funext p; simp [beq_add_right]
  rw [this]
  cases c.find? (fun p => p.1 == x) <;> rfl

theorem body_shift_tail (s : St) (k next : Nat) (comp : String)
    (cprev : Nat) (attrs : Attrs) :
    (match Option.map (fun x => x + k) (corrOf s.corr next) with
      | none =>
        (Except.ok
          { g := (((s.g.shiftKeys k).addNode (s.total + k + 1) comp).addEdge (cprev + k)
                    (s.total + k + 1)).updateEdgeAttrs (cprev + k) (s.total + k + 1) attrs,
            corr := List.map (fun p => (p.fst + k, p.snd + k)) s.corr ++ [(next + k, s.total + k + 1)],
            total := s.total + k + 1 } : Except String St)
      | some cnext =>
        Except.ok
          { g := ((s.g.shiftKeys k).addEdge (cprev + k) cnext).updateEdgeAttrs (cprev + k) cnext attrs,
            corr := List.map (fun p => (p.fst + k, p.snd + k)) s.corr, total := s.total + k + 1 }) =
      Except.map (shiftSt k)
        (match corrOf s.corr next with
        | none =>
          Except.ok
            { g := ((s.g.addNode (s.total + 1) comp).addEdge cprev (s.total + 1)).updateEdgeAttrs cprev
                      (s.total + 1) attrs,
              corr := s.corr ++ [(next, s.total + 1)], total := s.total + 1 }
        | some cnext =>
          Except.ok
            { g := (s.g.addEdge cprev cnext).updateEdgeAttrs cprev cnext attrs,
              corr := s.corr, total := s.total + 1 }) := by
  have e1 : s.total + k + 1 = s.total + 1 + k := by omega
  cases corrOf s.corr next with
  | none =>
    simp only [Option.map_none, Except.map]
    rw [e1, addNode_shift, addEdge_shift, updateEdgeAttrs_shift]
    simp [shiftSt]
  | some cnext =>
    simp only [Option.map_some, Except.map]
    rw [addEdge_shift, updateEdgeAttrs_shift, e1]
    rfl

theorem body_shift (tbl : List (String × String)) (s : St) (k prev next : Nat) :
    body tbl (shiftSt k s) (prev + k) (next + k) = (body tbl s prev next).map (shiftSt k) := by
  unfold body
  simp only [shiftSt, resname?_shift, corrOf_shift, edge?_shift]
  cases s.g.resname? next with
  | none => rfl
  | some rn =>
    simp only
    cases lookup tbl rn with
    | none => rfl
    | some comp =>
      simp only
      cases corrOf s.corr prev with
      | none => rfl
      | some cprev =>
        simp only [Option.map_some]
        cases s.g.edge? prev next with
        | none => exact body_shift_tail s k next comp cprev []
        | some e => exact body_shift_tail s k next comp cprev e.attrs

theorem loop_shift (tbl : List (String × String)) (k first fuel src : Nat) (s : St) :
    loop tbl (first + k) fuel (src + k) (shiftSt k s) = (loop tbl first fuel src s).map (shiftSt k) := by
  induction fuel generalizing src s with
  | zero => rfl
  | succ fuel ih =>
    rw [loop, loop]
    have e0 : (shiftSt k s).g = s.g.shiftKeys k := rfl
    rw [e0, iterStep_shift]
    cases iterStep s.g first src with
    | none => rfl
    | some p =>
      obtain ⟨nn, stop⟩ := p
      simp only [Option.map_some]
      rw [body_shift]
      cases body tbl s src nn with
      | error e => rfl
      | ok s' =>
        simp only [Except.map]
        cases stop with
        | true => rfl
        | false => exact ih nn s'

/-- **Equivariance**: renaming the node keys of *any* residue graph by `x ↦ x + k` commutes with the
model of `complement_dsDNA` (the code compares resids, looks names up and computes new keys as
`last key + 1, + 2, …`; it never looks at the absolute value of a key). -/
theorem complement_shift (tbl : List (String × String)) (g : RGraph) (k : Nat) :
    complement tbl (g.shiftKeys k) = (complement tbl g).map (·.shiftKeys k) := by
  unfold complement
  have hl : (g.shiftKeys k).nodes.getLast? = g.nodes.getLast?.map (shiftNode k) := by
    rw [shiftKeys_eq]; simp [List.getLast?_map]
  rw [hl]
  cases g.nodes.getLast? with
  | none => rfl
  | some last =>
    simp only [Option.map_some, shiftNode]
    cases lookup tbl last.resname with
    | none => rfl
    | some comp =>
      simp only
      have e1 : last.key + k + 1 = last.key + 1 + k := by omega
      have hs : ({ g := (g.shiftKeys k).addNode (last.key + k + 1) comp,
                   corr := [(last.key + k, last.key + k + 1)], total := last.key + k + 1 } : St) =
          shiftSt k { g := g.addNode (last.key + 1) comp, corr := [(last.key, last.key + 1)],
                      total := last.key + 1 } := by
        simp [shiftSt, e1, addNode_shift]
      have hlen : (g.shiftKeys k).nodes.length = g.nodes.length := by simp [RGraph.shiftKeys]
      rw [hs, hlen, loop_shift]
      cases loop tbl last.key (g.nodes.length + 1) last.key
          { g := g.addNode (last.key + 1) comp, corr := [(last.key, last.key + 1)], total := last.key + 1 } with
      | error e => rfl
      | ok s => rfl


theorem strandGraphFrom_eq_shift (k0 : Nat) (names : List String) (labels : List Attrs) (circ : Option Attrs) :
    strandGraphFrom k0 names labels circ = (strandGraph names labels circ).shiftKeys k0 := by
  unfold strandGraphFrom strandGraph RGraph.shiftKeys
  simp only [List.map_append, List.map_map, RGraph.mk.injEq, and_true]
  constructor
  · apply List.map_congr_left
    intro p _
    simp [Nat.add_comm]
  · congr 1
    · congr 1
      · split <;> simp [Nat.add_comm]
      · cases circ <;> simp [Nat.add_comm]
    · apply List.map_congr_left
      intro i _
      simp [Nat.add_comm]

theorem strandGraphFrom_zero (names : List String) (labels : List Attrs) (circ : Option Attrs) :
    strandGraphFrom 0 names labels circ = strandGraph names labels circ := by
  unfold strandGraphFrom strandGraph
  simp

theorem specGraphFrom_eq_shift (k0 : Nat) (tbl : List (String × String)) (names : List String)
    (labels : List Attrs) (circ : Option Attrs) :
    specGraphFrom k0 tbl names labels circ = (specGraph tbl names labels circ).map (·.shiftKeys k0) := by
  unfold specGraphFrom specGraph
  cases names.reverse.mapM (lookup tbl) with
  | none => rfl
  | some comps =>
    simp only [Option.map_some, Option.some.injEq]
    rw [strandGraphFrom_eq_shift]
    unfold RGraph.shiftKeys
    simp only [List.map_append, List.map_map, RGraph.mk.injEq, and_true]
    constructor
    · congr 1
      apply List.map_congr_left
      intro p _
      simp [Nat.add_comm]
    · congr 1
      · congr 1
        apply List.map_congr_left
        intro i _
        simp; omega
      · cases circ <;> simp [Nat.add_comm]

theorem specGraphFrom_zero (tbl : List (String × String)) (names : List String)
    (labels : List Attrs) (circ : Option Attrs) :
    specGraphFrom 0 tbl names labels circ = specGraph tbl names labels circ := by
  unfold specGraphFrom specGraph
  rw [strandGraphFrom_zero]
  simp

/-- Goal 1 for node keys starting at any `k0` -/
theorem complement_offset (k0 : Nat) (tbl : List (String × String)) (names : List String)
    (labels : List Attrs) (circ : Option Attrs)
    (hn : 1 ≤ names.length) (hc : circ.isSome → 3 ≤ names.length)
    (hk : ∀ nm ∈ names, (lookup tbl nm).isSome) :
    ∃ g, specGraphFrom k0 tbl names labels circ = some g ∧
      complement tbl (strandGraphFrom k0 names labels circ) = .ok g := by
  refine ⟨(finalGraph tbl names labels circ).shiftKeys k0, ?_, ?_⟩
  · rw [specGraphFrom_eq_shift, specGraph_eq_final tbl names labels circ hk]; rfl
  · rw [strandGraphFrom_eq_shift, complement_shift, complement_eq_final tbl names labels circ hn hc hk]; rfl

/-- Goal 2 for node keys starting at any `k0` -/
theorem complement_reject_offset (k0 : Nat) (tbl : List (String × String)) (names : List String)
    (labels : List Attrs) (circ : Option Attrs)
    (hn : 1 ≤ names.length) (hc : circ.isSome → 3 ≤ names.length)
    (hbad : ∃ nm ∈ names, lookup tbl nm = none) :
    complement tbl (strandGraphFrom k0 names labels circ) = .error "unknown-resname" := by
  rw [strandGraphFrom_eq_shift, complement_shift, complement_reject tbl names labels circ hn hc hbad]; rfl

theorem specGraphFrom_congr (k0 : Nat) (t1 t2 : List (String × String))
    (h : ∀ nm, lookup t1 nm = lookup t2 nm)
    (names : List String) (labels : List Attrs) (circ : Option Attrs) :
    specGraphFrom k0 t1 names labels circ = specGraphFrom k0 t2 names labels circ := by
  rw [specGraphFrom_eq_shift, specGraphFrom_eq_shift, specGraph_congr t1 t2 h]



/-! ### equivariance of the model under renumbering the resids `r ↦ r + d` -/

def shiftRNode (d : Nat) (n : RNode) : RNode := { n with resid := n.resid + d }

theorem shiftResids_eq (g : RGraph) (d : Nat) :
    g.shiftResids d = ⟨g.nodes.map (shiftRNode d), g.edges, g.maxResid + d⟩ := rfl

theorem node?_shiftR (g : RGraph) (d x : Nat) :
    (g.shiftResids d).node? x = (g.node? x).map (shiftRNode d) := by
  unfold RGraph.node?
  rw [shiftResids_eq]
  simp only [List.find?_map]
  rfl

theorem resid?_shiftR (g : RGraph) (d x : Nat) :
    (g.shiftResids d).resid? x = (g.resid? x).map (· + d) := by
  unfold RGraph.resid?
  rw [node?_shiftR]
  cases g.node? x <;> simp [shiftRNode]

theorem resname?_shiftR (g : RGraph) (d x : Nat) :
    (g.shiftResids d).resname? x = g.resname? x := by
  unfold RGraph.resname?
  rw [node?_shiftR]
  cases g.node? x <;> simp [shiftRNode]

theorem edge?_shiftR (g : RGraph) (d a b : Nat) : (g.shiftResids d).edge? a b = g.edge? a b := rfl
theorem neighbors_shiftR (g : RGraph) (d x : Nat) : (g.shiftResids d).neighbors x = g.neighbors x := rfl

theorem addNode_shiftR (g : RGraph) (d x : Nat) (nm : String) :
    (g.shiftResids d).addNode x nm = (g.addNode x nm).shiftResids d := by
  simp [RGraph.addNode, RGraph.shiftResids]; omega

theorem addEdge_shiftR (g : RGraph) (d a b : Nat) :
    (g.shiftResids d).addEdge a b = (g.addEdge a b).shiftResids d := by
  unfold RGraph.addEdge
  have : (g.shiftResids d).hasEdge a b = g.hasEdge a b := rfl
  rw [this]
  by_cases h : g.hasEdge a b
  · simp [h]
  · simp [h, RGraph.shiftResids]

theorem updateEdgeAttrs_shiftR (g : RGraph) (d a b : Nat) (at' : Attrs) :
    (g.shiftResids d).updateEdgeAttrs a b at' = (g.updateEdgeAttrs a b at').shiftResids d := rfl

theorem iterStep_shiftR (g : RGraph) (d first src : Nat) :
    iterStep (g.shiftResids d) first src = iterStep g first src := by
  unfold iterStep
  rw [resid?_shiftR, neighbors_shiftR]
  cases g.resid? src with
  | none => rfl
  | some rs =>
    simp only [Option.map_some]
    congr 1
    funext nn
    rw [resid?_shiftR]
    cases g.resid? nn with
    | none => rfl
    | some rn =>
      simp only [Option.map_some]
      have e1 : (rs + d = rn + d + 1) = (rs = rn + 1) := by
        apply propext; constructor <;> intro h <;> omega
      have e2 : (rn + d > rs + d) = (rn > rs) := by
        apply propext; constructor <;> intro h <;> omega
      simp only [e1, e2]

def shiftRSt (d : Nat) (s : St) : St := { s with g := s.g.shiftResids d }

theorem body_shiftR (tbl : List (String × String)) (s : St) (d prev next : Nat) :
    body tbl (shiftRSt d s) prev next = (body tbl s prev next).map (shiftRSt d) := by
  unfold body
  simp only [shiftRSt, resname?_shiftR, edge?_shiftR]
  cases s.g.resname? next with
  | none => rfl
  | some rn =>
    simp only
    cases lookup tbl rn with
    | none => rfl
    | some comp =>
      simp only
      cases corrOf s.corr prev with
      | none => rfl
      | some cprev =>
        simp only
        cases corrOf s.corr next with
        | none =>
          simp only [Except.map]
          rw [addNode_shiftR, addEdge_shiftR, updateEdgeAttrs_shiftR]
          rfl
        | some cnext =>
          simp only [Except.map]
          rw [addEdge_shiftR, updateEdgeAttrs_shiftR]
          rfl

theorem loop_shiftR (tbl : List (String × String)) (d first fuel src : Nat) (s : St) :
    loop tbl first fuel src (shiftRSt d s) = (loop tbl first fuel src s).map (shiftRSt d) := by
  induction fuel generalizing src s with
  | zero => rfl
  | succ fuel ih =>
    rw [loop, loop]
    have e0 : (shiftRSt d s).g = s.g.shiftResids d := rfl
    rw [e0, iterStep_shiftR]
    cases iterStep s.g first src with
    | none => rfl
    | some p =>
      obtain ⟨nn, stop⟩ := p
      simp only
      rw [body_shiftR]
      cases body tbl s src nn with
      | error e => rfl
      | ok s' =>
        simp only [Except.map]
        cases stop with
        | true => rfl
        | false => exact ih nn s'

/-- **Equivariance in the resids**: renumbering the residues of *any* residue graph by `r ↦ r + d`
commutes with the model of `complement_dsDNA` (the code only compares resids with each other and
numbers new residues after `max_resid`). -/
theorem complement_shiftResids (tbl : List (String × String)) (g : RGraph) (d : Nat) :
    complement tbl (g.shiftResids d) = (complement tbl g).map (·.shiftResids d) := by
  unfold complement
  have hl : (g.shiftResids d).nodes.getLast? = g.nodes.getLast?.map (shiftRNode d) := by
    rw [shiftResids_eq]; simp [List.getLast?_map]
  rw [hl]
  cases g.nodes.getLast? with
  | none => rfl
  | some last =>
    simp only [Option.map_some, shiftRNode]
    cases lookup tbl last.resname with
    | none => rfl
    | some comp =>
      simp only
      have hs : ({ g := (g.shiftResids d).addNode (last.key + 1) comp,
                   corr := [(last.key, last.key + 1)], total := last.key + 1 } : St) =
          shiftRSt d { g := g.addNode (last.key + 1) comp, corr := [(last.key, last.key + 1)],
                       total := last.key + 1 } := by
        simp [shiftRSt, addNode_shiftR]
      have hlen : (g.shiftResids d).nodes.length = g.nodes.length := by simp [RGraph.shiftResids]
      rw [hs, hlen, loop_shiftR]
      cases loop tbl last.key (g.nodes.length + 1) last.key
          { g := g.addNode (last.key + 1) comp, corr := [(last.key, last.key + 1)], total := last.key + 1 } with
      | error e => rfl
      | ok s => rfl

theorem map_inj_of_injective {α β} (f : α → β) (hf : Function.Injective f) (l1 l2 : List α)
    (h : l1.map f = l2.map f) : l1 = l2 := by
  induction l1 generalizing l2 with
  | nil => cases l2 with
    | nil => rfl
    | cons _ _ => simp at h
  | cons a l1 ih =>
    cases l2 with
    | nil => simp at h
    | cons b l2 =>
      simp only [List.map_cons, List.cons.injEq] at h
      rw [hf h.1, ih l2 h.2]

theorem shiftResids_injective (a b : RGraph) (d : Nat) (h : a.shiftResids d = b.shiftResids d) : a = b := by
  obtain ⟨an, ae, am⟩ := a
  obtain ⟨bn, be, bm⟩ := b
  simp only [RGraph.shiftResids, RGraph.mk.injEq] at h
  obtain ⟨h1, h2, h3⟩ := h
  have hinj : Function.Injective (fun n : RNode => ({ n with resid := n.resid + d } : RNode)) := by
    intro x y hxy
    obtain ⟨xk, xr, xn⟩ := x
    obtain ⟨yk, yr, yn⟩ := y
    simp only [RNode.mk.injEq] at hxy ⊢
    exact ⟨hxy.1, by omega, hxy.2.2⟩
  have := map_inj_of_injective _ hinj an bn h1
  subst this; subst h2
  have : am = bm := by omega
  subst this; rfl

theorem except_map_ok {ε α β} (f : α → β) (x : Except ε α) (y : β) (h : x.map f = .ok y) :
    ∃ x', x = .ok x' ∧ f x' = y := by
  cases x with
  | error e => cases h
  | ok a => exact ⟨a, rfl, by simpa [Except.map] using h⟩

theorem except_map_error {ε α β} (f : α → β) (x : Except ε α) (e : ε) (h : x.map f = .error e) :
    x = .error e := by
  cases x with
  | error e' => simpa [Except.map] using h
  | ok a => cases h


theorem strandGraphAt_shift (k0 r0 : Nat) (names : List String) (labels : List Attrs) (circ : Option Attrs)
    (hn : 1 ≤ names.length) :
    strandGraphAt k0 r0 names labels circ = (strandGraphAt k0 0 names labels circ).shiftResids r0 := by
  unfold strandGraphAt RGraph.shiftResids
  simp only [List.map_map, RGraph.mk.injEq, true_and]
  constructor
  · apply List.map_congr_left
    intro p _
    simp [Nat.add_comm]
  · omega

theorem strandGraphAt_one (k0 : Nat) (names : List String) (labels : List Attrs) (circ : Option Attrs) :
    strandGraphAt k0 1 names labels circ = strandGraphFrom k0 names labels circ := by
  unfold strandGraphAt
  simp only [strandGraphFrom, RGraph.mk.injEq, true_and]
  constructor
  · apply List.map_congr_left
    intro p _
    simp [Nat.add_comm]
  · omega

theorem specGraphAt_shift (k0 r0 : Nat) (tbl : List (String × String)) (names : List String)
    (labels : List Attrs) (circ : Option Attrs) (hn : 1 ≤ names.length) :
    specGraphAt k0 r0 tbl names labels circ =
      (specGraphAt k0 0 tbl names labels circ).map (·.shiftResids r0) := by
  unfold specGraphAt
  cases names.reverse.mapM (lookup tbl) with
  | none => rfl
  | some comps =>
    simp only [Option.map_some, Option.some.injEq]
    rw [strandGraphAt_shift k0 r0 names labels circ hn]
    unfold RGraph.shiftResids
    simp only [List.map_append, List.map_map, RGraph.mk.injEq, true_and]
    refine ⟨?_, by omega⟩
    congr 1
    apply List.map_congr_left
    intro p _
    simp [Nat.add_comm]

theorem specGraphAt_one (k0 : Nat) (tbl : List (String × String)) (names : List String)
    (labels : List Attrs) (circ : Option Attrs) :
    specGraphAt k0 1 tbl names labels circ = specGraphFrom k0 tbl names labels circ := by
  unfold specGraphAt specGraphFrom
  cases names.reverse.mapM (lookup tbl) with
  | none => rfl
  | some comps =>
    simp only [Option.some.injEq]
    rw [strandGraphAt_one]
    simp only [RGraph.mk.injEq, true_and]
    refine ⟨?_, by omega⟩
    congr 1
    apply List.map_congr_left
    intro p _
    simp [Nat.add_comm]

/-- Goal 1 for node keys from `k0` and resids from `r0` -/
theorem complement_at (k0 r0 : Nat) (tbl : List (String × String)) (names : List String)
    (labels : List Attrs) (circ : Option Attrs)
    (hn : 1 ≤ names.length) (hc : circ.isSome → 3 ≤ names.length)
    (hk : ∀ nm ∈ names, (lookup tbl nm).isSome) :
    ∃ g, specGraphAt k0 r0 tbl names labels circ = some g ∧
      complement tbl (strandGraphAt k0 r0 names labels circ) = .ok g := by
  obtain ⟨G, hspec, hcomp⟩ := complement_offset k0 tbl names labels circ hn hc hk
  rw [← strandGraphAt_one, strandGraphAt_shift k0 1 names labels circ hn, complement_shiftResids] at hcomp
  obtain ⟨g0, hg0, hg0G⟩ := except_map_ok _ _ _ hcomp
  rw [← specGraphAt_one, specGraphAt_shift k0 1 tbl names labels circ hn] at hspec
  cases hs0 : specGraphAt k0 0 tbl names labels circ with
  | none => rw [hs0] at hspec; cases hspec
  | some s0 =>
    rw [hs0] at hspec
    simp only [Option.map_some, Option.some.injEq] at hspec
    have : g0 = s0 := shiftResids_injective g0 s0 1 (by rw [hg0G, hspec])
    subst this
    refine ⟨g0.shiftResids r0, ?_, ?_⟩
    · rw [specGraphAt_shift k0 r0 tbl names labels circ hn, hs0]; rfl
    · rw [strandGraphAt_shift k0 r0 names labels circ hn, complement_shiftResids, hg0]; rfl

/-- Goal 2 for node keys from `k0` and resids from `r0` -/
theorem complement_reject_at (k0 r0 : Nat) (tbl : List (String × String)) (names : List String)
    (labels : List Attrs) (circ : Option Attrs)
    (hn : 1 ≤ names.length) (hc : circ.isSome → 3 ≤ names.length)
    (hbad : ∃ nm ∈ names, lookup tbl nm = none) :
    complement tbl (strandGraphAt k0 r0 names labels circ) = .error "unknown-resname" := by
  have h := complement_reject_offset k0 tbl names labels circ hn hc hbad
  rw [← strandGraphAt_one, strandGraphAt_shift k0 1 names labels circ hn, complement_shiftResids] at h
  have h0 := except_map_error _ _ _ h
  rw [strandGraphAt_shift k0 r0 names labels circ hn, complement_shiftResids, h0]; rfl

theorem specGraphAt_congr (k0 r0 : Nat) (t1 t2 : List (String × String))
    (h : ∀ nm, lookup t1 nm = lookup t2 nm)
    (names : List String) (labels : List Attrs) (circ : Option Attrs) :
    specGraphAt k0 r0 t1 names labels circ = specGraphAt k0 r0 t2 names labels circ := by
  have : lookup t1 = lookup t2 := funext h
  unfold specGraphAt
  rw [this]


theorem map_of_mapM_eq_some {α β} (f : α → Option β) (l : List α) (r : List β)
    (h : l.mapM f = some r) : l.map f = r.map some := by
  obtain ⟨hlen, hget⟩ := mapM_eq_some_map f l r h
  apply List.ext_getElem
  · simp [hlen]
  · intro i h1 h2
    simp at h1 h2
    simp [hget i h1 h2]

theorem strandGraphAt_resnames (k0 r0 : Nat) (names : List String) (labels : List Attrs) (circ : Option Attrs) :
    (strandGraphAt k0 r0 names labels circ).nodes.map (·.resname) = names := by
  apply List.ext_getElem
  · simp [strandGraphAt]
  · intro i h1 h2
    simp [strandGraphAt]

theorem specGraphAt_resnames (k0 r0 : Nat) (tbl : List (String × String)) (names : List String)
    (labels : List Attrs) (circ : Option Attrs) (g : RGraph)
    (h : specGraphAt k0 r0 tbl names labels circ = some g) :
    g.nodes.map (fun x => some x.resname) = names.map some ++ names.reverse.map (lookup tbl) := by
  unfold specGraphAt at h
  cases hm : names.reverse.mapM (lookup tbl) with
  | none => rw [hm] at h; cases h
  | some comps =>
    rw [hm] at h
    simp only [Option.some.injEq] at h
    subst h
    simp only [List.map_append, List.map_map]
    congr 1
    · have := strandGraphAt_resnames k0 r0 names labels circ
      rw [← this, List.map_map]
      rw [this]; rfl
    · rw [map_of_mapM_eq_some _ _ _ hm]
      apply List.ext_getElem
      · simp
      · intro i h1 h2
        simp

/-- `gen_params … -dsdna`: whichever way the strand was given, the residue graph handed to
`MapToMolecule` carries the names `names ++ map comp (reverse names)`; without `-dsdna`, `names`. -/
theorem genParams_dsdna (tbl : List (String × String)) (inp : SeqInput)
    (hn : 1 ≤ inp.names.length) (hc : inp.circ.isSome → 3 ≤ inp.names.length)
    (hk : ∀ nm ∈ inp.names, (lookup tbl nm).isSome) :
    (∃ g, genParamsDsdna tbl inp true = .ok g ∧
        g.nodes.map (fun x => some x.resname) = inp.names.map some ++ inp.names.reverse.map (lookup tbl)) ∧
    (∃ g, genParamsDsdna tbl inp false = .ok g ∧ g.nodes.map (·.resname) = inp.names) := by
  have key : ∀ (k0 r0 : Nat) (names : List String) (labels : List Attrs) (circ : Option Attrs),
      1 ≤ names.length → (circ.isSome → 3 ≤ names.length) → (∀ nm ∈ names, (lookup tbl nm).isSome) →
      ∃ g, complement tbl (strandGraphAt k0 r0 names labels circ) = .ok g ∧
        g.nodes.map (fun x => some x.resname) = names.map some ++ names.reverse.map (lookup tbl) := by
    intro k0 r0 names labels circ hn hc hk
    obtain ⟨g, hs, hcm⟩ := complement_at k0 r0 tbl names labels circ hn hc hk
    exact ⟨g, hcm, specGraphAt_resnames k0 r0 tbl names labels circ g hs⟩
  cases inp with
  | seq names =>
    simp only [SeqInput.names, SeqInput.circ] at hn hc hk
    constructor
    · obtain ⟨g, h1, h2⟩ := key 0 1 names [] none hn hc hk
      refine ⟨g, ?_, h2⟩
      simp only [genParamsDsdna, SeqInput.graph, if_true]
      rw [← strandGraphAt_one]; exact h1
    · refine ⟨_, rfl, ?_⟩
      simp only [SeqInput.graph, SeqInput.names]
      rw [← strandGraphAt_one]
      exact strandGraphAt_resnames 0 1 names [] none
  | seqFile k0 r0 names labels circ =>
    simp only [SeqInput.names, SeqInput.circ] at hn hc hk
    constructor
    · obtain ⟨g, h1, h2⟩ := key k0 r0 names labels circ hn hc hk
      exact ⟨g, by simpa [genParamsDsdna, SeqInput.graph] using h1, h2⟩
    · exact ⟨_, rfl, strandGraphAt_resnames k0 r0 names labels circ⟩

end PolyplyVerif.Proofs.Dna
