import PolyplyVerif.Model.Dna

namespace PolyplyVerif.Proofs.Dna
open PolyplyVerif PolyplyVerif.Dna

theorem mapM_some_iff {α β} (f : α → Option β) (l : List α) :
    (l.mapM f).isSome ↔ ∀ a ∈ l, (f a).isSome := by
  induction l with
  | nil => simp
  | cons a l ih =>
    simp only [List.mapM_cons, List.mem_cons, forall_eq_or_imp]
    cases h : f a with
    | none => simp
    | some b =>
      cases h2 : l.mapM f with
      | none => simp [h2] at ih ⊢; exact ih
      | some bs => simp [h2] at ih ⊢; exact ih

theorem specGraph_isSome_iff (tbl : List (String × String)) (names : List String) (labels : List Attrs)
    (circ : Option Attrs) :
    (specGraph tbl names labels circ).isSome ↔ ∀ nm ∈ names, (lookup tbl nm).isSome := by
  unfold specGraph
  have h := mapM_some_iff (lookup tbl) names.reverse
  cases hm : names.reverse.mapM (lookup tbl) with
  | none => simp [hm] at h ⊢; exact h
  | some c => simp [hm] at h ⊢; exact h

theorem mapM_eq_some_map {α β} (f : α → Option β) (l : List α) (r : List β)
    (h : l.mapM f = some r) : r.length = l.length ∧ ∀ i (hi : i < l.length) (hr : i < r.length), f l[i] = some r[i] := by
  induction l generalizing r with
  | nil => simp at h; subst h; simp
  | cons a l ih =>
    simp only [List.mapM_cons] at h
    cases ha : f a with
    | none => simp [ha] at h
    | some b =>
      cases hl : l.mapM f with
      | none => simp [ha, hl] at h
      | some bs =>
        simp [ha, hl] at h
        subst h
        obtain ⟨h1, h2⟩ := ih bs hl
        refine ⟨by simp [h1], ?_⟩
        intro i hi hr
        cases i with
        | zero => simpa using ha
        | succ i => simpa using h2 i (by simpa using hi) (by simpa using hr)

theorem mapM_reverse_involutive (tbl : List (String × String))
    (hinv : ∀ kv ∈ tbl, lookup tbl kv.2 = some kv.1)
    (names comps comps2 : List String)
    (h1 : names.reverse.mapM (lookup tbl) = some comps)
    (h2 : comps.reverse.mapM (lookup tbl) = some comps2) : comps2 = names := by
  obtain ⟨l1, e1⟩ := mapM_eq_some_map _ _ _ h1
  obtain ⟨l2, e2⟩ := mapM_eq_some_map _ _ _ h2
  have back : ∀ a b, lookup tbl a = some b → lookup tbl b = some a := by
    intro a b hab
    unfold lookup at hab
    cases hf : tbl.find? (fun kv => kv.1 == a) with
    | none => simp [hf] at hab
    | some kv =>
      simp [hf] at hab
      have hmem := List.mem_of_find?_eq_some hf
      have hk := List.find?_some hf
      simp at hk
      have := hinv kv hmem
      rw [hab, hk] at this
      exact this
  apply List.ext_getElem
  · simp [l2, l1]
  · intro i hi hi'
    have len1 : comps.length = names.length := by simpa using l1
    have len2 : comps2.length = names.length := by simpa [len1] using l2
    have a := e2 i (by simp [len1]; omega) hi
    -- comps.reverse[i] = comps[n-1-i]
    have hj : names.length - 1 - i < names.reverse.length := by simp; omega
    have hj' : names.length - 1 - i < comps.length := by omega
    have b := e1 (names.length - 1 - i) hj hj'
    have rc : comps.reverse[i]'(by simp [len1]; omega) = comps[names.length - 1 - i] := by
      simp [List.getElem_reverse, len1]
    have rn : names.reverse[names.length - 1 - i]'hj = names[i] := by
      simp [List.getElem_reverse]
      congr 1; omega
    rw [rc] at a
    rw [rn] at b
    have := back _ _ b
    rw [this] at a
    exact (Option.some.inj a).symm

end PolyplyVerif.Proofs.Dna
