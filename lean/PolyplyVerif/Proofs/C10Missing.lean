/-
Helper lemmas for C10: the degree filter of `find_connecting_edges` never hides an inter-residue edge.
-/
import PolyplyVerif.Model.C10Missing

set_option linter.unusedSimpArgs false
set_option linter.unusedVariables false

namespace PolyplyVerif.C10M

/-- canonical edge lists: each edge once, oriented `u < v` (so no self-loops) -/
def Canon (es : List (Nat × Nat)) : Prop := es.Nodup ∧ ∀ e ∈ es, e.1 < e.2

/-- the fragment graph stored on a residue node is a subgraph of the molecule on the residue's atoms -/
def FragOK (inp : Input) (A : RNode) : Prop :=
  A.fedges.Nodup ∧ ∀ e ∈ A.fedges, e ∈ inp.medges ∧ e.1 ∈ A.frag ∧ e.2 ∈ A.frag

theorem selfloops_nil (es : List (Nat × Nat)) (h : ∀ e ∈ es, e.1 < e.2) (a : Nat) :
    es.filter (fun e => e.1 == a && e.2 == a) = [] := by
  rw [List.filter_eq_nil_iff]
  intro e he
  have := h e he
  simp only [Bool.and_eq_true, beq_iff_eq, not_and]
  omega

theorem hasEdge_iff (es : List (Nat × Nat)) (a b : Nat) :
    hasEdge es a b = true ↔ (a, b) ∈ es ∨ (b, a) ∈ es := by
  unfold hasEdge
  simp only [List.any_eq_true, Bool.or_eq_true, Bool.and_eq_true, beq_iff_eq]
  constructor
  · rintro ⟨e, he, h | h⟩
    · left; obtain ⟨x, y⟩ := e; simp only at h; rw [← h.1, ← h.2]; exact he
    · right; obtain ⟨x, y⟩ := e; simp only at h; rw [← h.1, ← h.2]; exact he
  · rintro (h | h)
    · exact ⟨(a, b), h, Or.inl ⟨rfl, rfl⟩⟩
    · exact ⟨(b, a), h, Or.inr ⟨rfl, rfl⟩⟩

/-- **filter lemma**: an edge of the molecule that leaves the residue raises the molecule degree of its
end inside the residue above the degree in the residue's fragment graph -/
theorem degree_lt_of_cross (inp : Input) (A : RNode) (hM : Canon inp.medges) (hA : FragOK inp A)
    (a b : Nat) (ha : a ∈ A.frag) (hb : b ∉ A.frag) (hab : hasEdge inp.medges a b = true) :
    degree A.fedges a < degree inp.medges a := by
  obtain ⟨hMn, hMc⟩ := hM
  obtain ⟨hAn, hAs⟩ := hA
  unfold degree
  rw [selfloops_nil inp.medges hMc a, selfloops_nil A.fedges (fun e he => hMc e (hAs e he).1) a]
  simp only [List.length_nil, Nat.add_zero]
  -- the crossing edge
  obtain ⟨e0, he0, hinc, hends⟩ : ∃ e0 ∈ inp.medges, incident e0 a = true ∧ (e0.1 = b ∨ e0.2 = b) := by
    rcases (hasEdge_iff _ _ _).mp hab with h | h
    · exact ⟨(a, b), h, by simp [incident], Or.inr rfl⟩
    · exact ⟨(b, a), h, by simp [incident], Or.inl rfl⟩
  have hnot : e0 ∉ A.fedges := by
    intro h
    obtain ⟨_, h1, h2⟩ := hAs e0 h
    rcases hends with h' | h'
    · exact hb (h' ▸ h1)
    · exact hb (h' ▸ h2)
  have hnd : (e0 :: A.fedges.filter (fun e => incident e a)).Nodup := by
    rw [List.nodup_cons]
    exact ⟨fun h => hnot (List.mem_filter.mp h).1, List.Nodup.sublist List.filter_sublist hAn⟩
  have hsub : (e0 :: A.fedges.filter (fun e => incident e a)) ⊆ inp.medges.filter (fun e => incident e a) := by
    intro e he
    rcases List.mem_cons.mp he with h | h
    · rw [h]; exact List.mem_filter.mpr ⟨he0, hinc⟩
    · obtain ⟨h1, h2⟩ := List.mem_filter.mp h
      exact List.mem_filter.mpr ⟨(hAs e h1).1, h2⟩
  have := List.Nodup.length_le_of_subset hnd hsub
  simp only [List.length_cons] at this
  omega

theorem mem_allowed_of_cross (inp : Input) (A : RNode) (hM : Canon inp.medges) (hA : FragOK inp A)
    (a b : Nat) (ha : a ∈ A.frag) (hb : b ∉ A.frag) (hab : hasEdge inp.medges a b = true) :
    a ∈ allowed inp A := by
  unfold allowed
  refine List.mem_filter.mpr ⟨ha, ?_⟩
  have := degree_lt_of_cross inp A hM hA a b ha hb hab
  simp only [bne_iff_ne, ne_eq]
  omega

theorem hasEdge_symm (es : List (Nat × Nat)) (a b : Nat) : hasEdge es a b = hasEdge es b a := by
  rw [Bool.eq_iff_iff, hasEdge_iff, hasEdge_iff]
  exact Or.comm

/-- the connecting edges found are empty exactly when no atom of `A` is adjacent to an atom of `B` -/
theorem connecting_isEmpty_iff (inp : Input) (A B : RNode) (hM : Canon inp.medges)
    (hA : FragOK inp A) (hB : FragOK inp B) (hdisj : ∀ a ∈ A.frag, a ∉ B.frag) :
    (findConnectingEdges inp A B).isEmpty = !joined inp A B := by
  rw [Bool.eq_iff_iff]
  simp only [List.isEmpty_iff, Bool.not_eq_true']
  constructor
  · intro h
    rw [Bool.eq_false_iff]
    intro hj
    unfold joined at hj
    simp only [List.any_eq_true] at hj
    obtain ⟨a, ha, b, hb, hab⟩ := hj
    have ha' := mem_allowed_of_cross inp A hM hA a b ha (fun hbA => hdisj b hbA hb) hab
    have hb' := mem_allowed_of_cross inp B hM hB b a hb (hdisj a ha) (by rw [hasEdge_symm]; exact hab)
    have : (a, b) ∈ findConnectingEdges inp A B := by
      unfold findConnectingEdges
      exact List.mem_flatMap.mpr ⟨a, ha', List.mem_map.mpr ⟨b, List.mem_filter.mpr ⟨hb', hab⟩, rfl⟩⟩
    rw [h] at this
    cases this
  · intro hj
    rw [List.eq_nil_iff_forall_not_mem]
    intro e he
    unfold findConnectingEdges at he
    obtain ⟨a, ha, hm⟩ := List.mem_flatMap.mp he
    obtain ⟨b, hb, _⟩ := List.mem_map.mp hm
    obtain ⟨hb1, hab⟩ := List.mem_filter.mp hb
    have haf : a ∈ A.frag := (List.mem_filter.mp ha).1
    have hbf : b ∈ B.frag := (List.mem_filter.mp hb1).1
    have : joined inp A B = true := by
      unfold joined
      exact List.any_eq_true.mpr ⟨a, haf, List.any_eq_true.mpr ⟨b, hbf, hab⟩⟩
    rw [hj] at this
    cases this

end PolyplyVerif.C10M

namespace PolyplyVerif.C10M

/-- `b` is reached from `a` by a walk of at most `k` edges -/
inductive WalkLe (es : List (Nat × Nat)) (a : Nat) : Nat → Nat → Prop
  | refl (k : Nat) : WalkLe es a a k
  | step {c c' k : Nat} : WalkLe es a c k → c' ∈ neighbors es c → WalkLe es a c' (k + 1)

theorem WalkLe.mono {es : List (Nat × Nat)} {a b k : Nat} (h : WalkLe es a b k) : WalkLe es a b (k + 1) := by
  induction h with
  | refl k => exact WalkLe.refl (k + 1)
  | step _ hn ih => exact WalkLe.step ih hn

theorem mem_dedup {α : Type} [BEq α] [LawfulBEq α] (l : List α) (x : α) : x ∈ dedup l ↔ x ∈ l := by
  induction l with
  | nil => simp [dedup]
  | cons y ys ih =>
    simp only [dedup, List.mem_cons, List.mem_filter, ih, Bool.not_eq_true', beq_eq_false_iff_ne, ne_eq]
    constructor
    · rintro (h | ⟨h, _⟩)
      · exact Or.inl h
      · exact Or.inr h
    · rintro (h | h)
      · exact Or.inl h
      · by_cases hxy : x = y
        · exact Or.inl hxy
        · exact Or.inr ⟨h, hxy⟩

theorem mem_within_iff (es : List (Nat × Nat)) (a b k : Nat) : b ∈ within es a k ↔ WalkLe es a b k := by
  induction k generalizing b with
  | zero =>
    simp only [within, List.mem_singleton]
    constructor
    · intro h; rw [h]; exact WalkLe.refl 0
    · intro h; cases h; rfl
  | succ k ih =>
    simp only [within, mem_dedup, List.mem_append, List.mem_flatMap]
    constructor
    · rintro (h | ⟨c, hc, hn⟩)
      · exact ((ih b).mp h).mono
      · exact WalkLe.step ((ih c).mp hc) hn
    · intro h
      cases h with
      | refl => left; exact (ih a).mpr (WalkLe.refl k)
      | step hw hn => right; exact ⟨_, (ih _).mpr hw, hn⟩

end PolyplyVerif.C10M

namespace PolyplyVerif.C10M

/-! ### breadth-first levels are complete; walks project onto the residue graph -/

theorem dedup_nodup {α : Type} [BEq α] [LawfulBEq α] (l : List α) : (dedup l).Nodup := by
  induction l with
  | nil => simp [dedup]
  | cons x xs ih =>
    simp only [dedup, List.nodup_cons]
    refine ⟨?_, List.Nodup.sublist List.filter_sublist ih⟩
    intro h
    have := (List.mem_filter.mp h).2
    simp at this

theorem within_nodup (es : List (Nat × Nat)) (a k : Nat) : (within es a k).Nodup := by
  cases k with
  | zero => simp [within]
  | succ k => exact dedup_nodup _

theorem within_subset_succ (es : List (Nat × Nat)) (a k : Nat) : within es a k ⊆ within es a (k + 1) := by
  intro x hx
  exact (mem_within_iff es a x (k + 1)).mpr ((mem_within_iff es a x k).mp hx).mono

theorem within_mono (es : List (Nat × Nat)) (a j k : Nat) (h : j ≤ k) : within es a j ⊆ within es a k := by
  induction h with
  | refl => exact fun x hx => hx
  | step _ ih => exact fun x hx => within_subset_succ es a _ (ih hx)

/-- a level that adds nothing is closed: it contains everything reachable by any walk -/
theorem closed_contains_all (es : List (Nat × Nat)) (a j : Nat) (hclosed : within es a (j + 1) ⊆ within es a j)
    (b k : Nat) (hw : WalkLe es a b k) : b ∈ within es a j := by
  induction hw with
  | refl k => exact within_mono es a 0 j (Nat.zero_le j) (by simp [within])
  | step _ hn ih =>
    apply hclosed
    exact (mem_within_iff es a _ (j + 1)).mpr (WalkLe.step ((mem_within_iff es a _ j).mp ih) hn)

theorem grow_or_closed (es : List (Nat × Nat)) (a k : Nat) :
    (∃ j, j ≤ k ∧ within es a (j + 1) ⊆ within es a j) ∨ k + 1 ≤ (within es a k).length := by
  induction k with
  | zero => right; simp [within]
  | succ k ih =>
    rcases ih with ⟨j, hj, hc⟩ | hlen
    · exact Or.inl ⟨j, Nat.le_succ_of_le hj, hc⟩
    · by_cases hsub : within es a (k + 1) ⊆ within es a k
      · exact Or.inl ⟨k, Nat.le_succ k, hsub⟩
      · right
        -- some x is new at level k+1
        have : ∃ x, x ∈ within es a (k + 1) ∧ x ∉ within es a k := by
          apply Classical.byContradiction
          intro hno
          apply hsub
          intro x hx
          apply Classical.byContradiction
          intro hx'
          exact hno ⟨x, hx, hx'⟩
        obtain ⟨x, hx1, hx2⟩ := this
        have hnd : (x :: within es a k).Nodup := List.nodup_cons.mpr ⟨hx2, within_nodup es a k⟩
        have hss : (x :: within es a k) ⊆ within es a (k + 1) := by
          intro y hy
          rcases List.mem_cons.mp hy with h | h
          · rw [h]; exact hx1
          · exact within_subset_succ es a k h
        have := List.Nodup.length_le_of_subset hnd hss
        simp only [List.length_cons] at this
        omega

theorem within_subset_nodes (nodes : List Nat) (es : List (Nat × Nat)) (a : Nat) (ha : a ∈ nodes)
    (hes : ∀ e ∈ es, e.1 ∈ nodes ∧ e.2 ∈ nodes) (k : Nat) : within es a k ⊆ nodes := by
  intro x hx
  have hw := (mem_within_iff es a x k).mp hx
  clear hx
  induction hw with
  | refl k => exact ha
  | @step c c' k' _ hn _ =>
    unfold neighbors at hn
    obtain ⟨e, he, h⟩ := List.mem_filterMap.mp hn
    by_cases h1 : e.1 == c
    · simp only [h1, if_true, Option.some.injEq] at h; rw [← h]; exact (hes e he).2
    · simp only [h1, Bool.false_eq_true, if_false] at h
      by_cases h2 : e.2 == c
      · simp only [h2, if_true, Option.some.injEq] at h; rw [← h]; exact (hes e he).1
      · simp [h2] at h

/-- **BFS levels are complete**: with `n` nodes, whatever is reachable by a walk of any length is
reached within `n` levels. -/
theorem within_complete (nodes : List Nat) (es : List (Nat × Nat)) (a : Nat) (ha : a ∈ nodes)
    (hes : ∀ e ∈ es, e.1 ∈ nodes ∧ e.2 ∈ nodes) (b k : Nat) (hw : WalkLe es a b k) :
    b ∈ within es a nodes.length := by
  rcases grow_or_closed es a nodes.length with ⟨j, hj, hc⟩ | hlen
  · exact within_mono es a j nodes.length hj (closed_contains_all es a j hc b k hw)
  · have := List.Nodup.length_le_of_subset (within_nodup es a nodes.length) (within_subset_nodes nodes es a ha hes nodes.length)
    omega

/-- `isConnected` says what `nx.is_connected` says: the graph has a node and every node is reachable from the first one -/
theorem isConnected_iff (nodes : List Nat) (es : List (Nat × Nat)) (hes : ∀ e ∈ es, e.1 ∈ nodes ∧ e.2 ∈ nodes) :
    isConnected nodes es = true ↔ ∃ a rest, nodes = a :: rest ∧ ∀ b ∈ nodes, ∃ k, WalkLe es a b k := by
  cases nodes with
  | nil => simp [isConnected]
  | cons a rest =>
    simp only [isConnected, List.all_eq_true, List.contains_iff_mem]
    constructor
    · intro h
      exact ⟨a, rest, rfl, fun b hb => ⟨_, (mem_within_iff es a b _).mp (h b hb)⟩⟩
    · rintro ⟨a', rest', heq, h⟩ b hb
      obtain ⟨h1, h2⟩ := List.cons.inj heq
      subst h1
      obtain ⟨k, hk⟩ := h b hb
      exact within_complete (a :: rest) es a List.mem_cons_self hes b k hk


theorem resOf_mem_residues (m : Mol) (a : Nat) (r : Int × String) (h : m.resOf a = some r) : r ∈ m.residues := by
  unfold Mol.resOf at h
  simp only [Option.map_eq_some_iff] at h
  obtain ⟨x, hx, hr⟩ := h
  unfold Mol.residues
  rw [mem_dedup]
  exact List.mem_map.mpr ⟨x, List.mem_of_find?_eq_some hx, hr⟩

theorem mem_neighbors_of_edge (es : List (Nat × Nat)) (u v : Nat) (h : (u, v) ∈ es) :
    v ∈ neighbors es u ∧ u ∈ neighbors es v := by
  unfold neighbors
  constructor
  · exact List.mem_filterMap.mpr ⟨(u, v), h, by simp⟩
  · refine List.mem_filterMap.mpr ⟨(u, v), h, ?_⟩
    by_cases huv : u == v
    · have : u = v := eq_of_beq huv
      simp [this]
    · simp [huv]

/-- an atom-level step is a residue-level step or stays inside a residue -/
theorem res_step (m : Mol) (c c' : Nat) (rc rc' : Int × String) (hn : c' ∈ neighbors m.edges c)
    (hc : m.resOf c = some rc) (hc' : m.resOf c' = some rc') :
    rc = rc' ∨ m.residues.idxOf rc' ∈ neighbors m.resEdges (m.residues.idxOf rc) := by
  by_cases heq : rc = rc'
  · exact Or.inl heq
  · right
    unfold neighbors at hn
    obtain ⟨e, he, h⟩ := List.mem_filterMap.mp hn
    have hne : (rc == rc') = false := by simpa using heq
    have hne' : (rc' == rc) = false := by simpa using (fun h => heq h.symm)
    by_cases h1 : e.1 == c
    · simp only [h1, if_true, Option.some.injEq] at h
      have e1 : e.1 = c := eq_of_beq h1
      have hmem : (m.residues.idxOf rc, m.residues.idxOf rc') ∈ m.resEdges := by
        unfold Mol.resEdges
        refine List.mem_filterMap.mpr ⟨e, he, ?_⟩
        rw [e1, h, hc, hc']
        simp [hne]
      exact (mem_neighbors_of_edge _ _ _ hmem).1
    · simp only [h1, Bool.false_eq_true, if_false] at h
      by_cases h2 : e.2 == c
      · simp only [h2, if_true, Option.some.injEq] at h
        have e2 : e.2 = c := eq_of_beq h2
        have hmem : (m.residues.idxOf rc', m.residues.idxOf rc) ∈ m.resEdges := by
          unfold Mol.resEdges
          refine List.mem_filterMap.mpr ⟨e, he, ?_⟩
          rw [e2, h, hc, hc']
          simp [hne']
        exact (mem_neighbors_of_edge _ _ _ hmem).2
      · simp [h2] at h

/-- an atom-level walk projects to a residue-level walk that is not longer -/
theorem res_walk_of_atom_walk (m : Mol) (hall : ∀ e ∈ m.edges, (m.resOf e.1).isSome ∧ (m.resOf e.2).isSome)
    (a b k : Nat) (ra : Int × String) (ha : m.resOf a = some ra) (hw : WalkLe m.edges a b k) :
    ∃ rb, m.resOf b = some rb ∧ WalkLe m.resEdges (m.residues.idxOf ra) (m.residues.idxOf rb) k := by
  induction hw with
  | refl k => exact ⟨ra, ha, WalkLe.refl k⟩
  | @step c c' k' _ hn ih =>
    obtain ⟨rc, hrc, hwc⟩ := ih
    -- c' is an endpoint of an edge, so it has a residue
    have hc' : (m.resOf c').isSome := by
      unfold neighbors at hn
      obtain ⟨e, he, h⟩ := List.mem_filterMap.mp hn
      by_cases h1 : e.1 == c
      · simp only [h1, if_true, Option.some.injEq] at h; rw [← h]; exact (hall e he).2
      · simp only [h1, Bool.false_eq_true, if_false] at h
        by_cases h2 : e.2 == c
        · simp only [h2, if_true, Option.some.injEq] at h; rw [← h]; exact (hall e he).1
        · simp [h2] at h
    obtain ⟨rc', hrc'⟩ := Option.isSome_iff_exists.mp hc'
    refine ⟨rc', hrc', ?_⟩
    rcases res_step m c c' rc rc' hn hrc hrc' with h | h
    · rw [← h]; exact hwc.mono
    · exact WalkLe.step hwc h


/-- well-formed molecule: atom keys are distinct and every edge joins two atoms of the molecule -/
def Mol.WF (m : Mol) : Prop :=
  (m.atoms.map (·.1)).Nodup ∧ ∀ e ∈ m.edges, e.1 ∈ m.atoms.map (·.1) ∧ e.2 ∈ m.atoms.map (·.1)

theorem resOf_of_mem (m : Mol) (hnd : (m.atoms.map (·.1)).Nodup) (x : Nat × Int × String) (hx : x ∈ m.atoms) :
    m.resOf x.1 = some x.2 := by
  unfold Mol.resOf
  generalize m.atoms = l at hnd hx
  induction l with
  | nil => cases hx
  | cons y ys ih =>
    simp only [List.map_cons, List.nodup_cons] at hnd
    rcases List.mem_cons.mp hx with h | h
    · subst h; simp
    · have hne : (y.1 == x.1) = false := by
        rw [beq_eq_false_iff_ne]
        intro heq
        exact hnd.1 (heq ▸ List.mem_map.mpr ⟨x, h, rfl⟩)
      simp only [List.find?_cons, hne]
      exact ih hnd.2 h

theorem resEdges_in_range (m : Mol) : ∀ e ∈ m.resEdges, e.1 ∈ List.range m.residues.length ∧ e.2 ∈ List.range m.residues.length := by
  intro e he
  unfold Mol.resEdges at he
  obtain ⟨ae, _, h⟩ := List.mem_filterMap.mp he
  cases h1 : m.resOf ae.1 with
  | none => simp [h1] at h
  | some r1 =>
    cases h2 : m.resOf ae.2 with
    | none => simp [h1, h2] at h
    | some r2 =>
      simp only [h1, h2] at h
      by_cases hr : r1 == r2
      · simp [hr] at h
      · simp only [hr, Bool.false_eq_true, if_false, Option.some.injEq] at h
        rw [← h]
        exact ⟨List.mem_range.mpr (List.idxOf_lt_length_of_mem (resOf_mem_residues m _ _ h1)),
               List.mem_range.mpr (List.idxOf_lt_length_of_mem (resOf_mem_residues m _ _ h2))⟩

/-- **the gate is sound**: if all atoms of a (well-formed, non-empty) molecule are connected, so is its
residue graph — `_check_molecules` never refuses a molecule whose atoms are all connected. -/
theorem resConnected_of_atomConnected (m : Mol) (hwf : m.WF)
    (h : isConnected (m.atoms.map (·.1)) m.edges = true) :
    isConnected (List.range m.residues.length) m.resEdges = true := by
  obtain ⟨hnd, hedges⟩ := hwf
  obtain ⟨a, rest, hatoms, hreach⟩ := (isConnected_iff _ _ hedges).mp h
  -- the first atom and its residue
  cases hm : m.atoms with
  | nil => rw [hm] at hatoms; cases hatoms
  | cons x xs =>
    have hax : a = x.1 := by rw [hm] at hatoms; simp only [List.map_cons, List.cons.injEq] at hatoms; exact hatoms.1.symm
    have hxmem : x ∈ m.atoms := by rw [hm]; exact List.mem_cons_self
    have hrx : m.resOf a = some x.2 := by rw [hax]; exact resOf_of_mem m hnd x hxmem
    have hres : m.residues = x.2 :: (dedup (xs.map (·.2))).filter (fun y => !(y == x.2)) := by
      unfold Mol.residues; rw [hm]; rfl
    have hidx0 : m.residues.idxOf x.2 = 0 := by rw [hres]; exact List.idxOf_cons_self
    have hlen : 0 < m.residues.length := by rw [hres]; simp
    have hall : ∀ e ∈ m.edges, (m.resOf e.1).isSome ∧ (m.resOf e.2).isSome := by
      intro e he
      obtain ⟨h1, h2⟩ := hedges e he
      obtain ⟨y1, hy1, hk1⟩ := List.mem_map.mp h1
      obtain ⟨y2, hy2, hk2⟩ := List.mem_map.mp h2
      exact ⟨by rw [← hk1, resOf_of_mem m hnd y1 hy1]; rfl, by rw [← hk2, resOf_of_mem m hnd y2 hy2]; rfl⟩
    apply (isConnected_iff _ _ (resEdges_in_range m)).mpr
    have hrange : List.range m.residues.length = 0 :: (List.range (m.residues.length - 1)).map (· + 1) := by
      obtain ⟨n, hn⟩ : ∃ n, m.residues.length = n + 1 := ⟨m.residues.length - 1, by omega⟩
      rw [hn, List.range_succ_eq_map]
      simp
    refine ⟨0, _, hrange, ?_⟩
    intro i hi
    have hi' : i < m.residues.length := List.mem_range.mp hi
    -- an atom of residue i
    have hrmem : m.residues[i] ∈ m.residues := List.getElem_mem hi'
    have : m.residues[i] ∈ m.atoms.map (·.2) := by
      unfold Mol.residues at hrmem; exact (mem_dedup _ _).mp hrmem
    obtain ⟨y, hy, hyr⟩ := List.mem_map.mp this
    obtain ⟨k, hk⟩ := hreach y.1 (List.mem_map.mpr ⟨y, hy, rfl⟩)
    obtain ⟨rb, hrb, hwalk⟩ := res_walk_of_atom_walk m hall a y.1 k x.2 hrx hk
    have : rb = m.residues[i] := by
      rw [resOf_of_mem m hnd y hy] at hrb
      rw [← hyr]; exact (Option.some.inj hrb).symm
    have hnodup : m.residues.Nodup := by unfold Mol.residues; exact dedup_nodup _
    rw [this, hidx0, List.Nodup.idxOf_getElem hnodup i hi'] at hwalk
    exact ⟨k, hwalk⟩


end PolyplyVerif.C10M
