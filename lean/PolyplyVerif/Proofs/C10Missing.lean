/-
Helper lemmas for C10: the degree filter of `find_connecting_edges` never hides an inter-residue edge.
-/
import PolyplyVerif.Model.C10Missing

set_option linter.unusedSimpArgs false
set_option linter.unusedVariables false

namespace PolyplyVerif.C10M

/-- canonical edge lists: each edge once, oriented `u < v` (so no self-loops) -/
def Canon (es : List (Nat × Nat)) : Prop := es.Nodup ∧ ∀ e ∈ es, e.1 < e.2

/-- the fragment graph stored on a residue node is a subgraph of the molecule on the residue's atoms -/
def FragOK (inp : Input) (A : RNode) : Prop :=
  A.fedges.Nodup ∧ ∀ e ∈ A.fedges, e ∈ inp.medges ∧ e.1 ∈ A.frag ∧ e.2 ∈ A.frag

theorem selfloops_nil (es : List (Nat × Nat)) (h : ∀ e ∈ es, e.1 < e.2) (a : Nat) :
    es.filter (fun e => e.1 == a && e.2 == a) = [] := by
  rw [List.filter_eq_nil_iff]
  intro e he
  have := h e he
  simp only [Bool.and_eq_true, beq_iff_eq, not_and]
  omega

theorem hasEdge_iff (es : List (Nat × Nat)) (a b : Nat) :
    hasEdge es a b = true ↔ (a, b) ∈ es ∨ (b, a) ∈ es := by
  unfold hasEdge
  simp only [List.any_eq_true, Bool.or_eq_true, Bool.and_eq_true, beq_iff_eq]
  constructor
  · rintro ⟨e, he, h | h⟩
    · left; obtain ⟨x, y⟩ := e; simp only at h; rw [← h.1, ← h.2]; exact he
    · right; obtain ⟨x, y⟩ := e; simp only at h; rw [← h.1, ← h.2]; exact he
  · rintro (h | h)
    · exact ⟨(a, b), h, Or.inl ⟨rfl, rfl⟩⟩
    · exact ⟨(b, a), h, Or.inr ⟨rfl, rfl⟩⟩

/-- **filter lemma**: an edge of the molecule that leaves the residue raises the molecule degree of its
end inside the residue above the degree in the residue's fragment graph -/
theorem degree_lt_of_cross (inp : Input) (A : RNode) (hM : Canon inp.medges) (hA : FragOK inp A)
    (a b : Nat) (ha : a ∈ A.frag) (hb : b ∉ A.frag) (hab : hasEdge inp.medges a b = true) :
    degree A.fedges a < degree inp.medges a := by
  obtain ⟨hMn, hMc⟩ := hM
  obtain ⟨hAn, hAs⟩ := hA
  unfold degree
  rw [selfloops_nil inp.medges hMc a, selfloops_nil A.fedges (fun e he => hMc e (hAs e he).1) a]
  simp only [List.length_nil, Nat.add_zero]
  -- the crossing edge
  obtain ⟨e0, he0, hinc, hends⟩ : ∃ e0 ∈ inp.medges, incident e0 a = true ∧ (e0.1 = b ∨ e0.2 = b) := by
    rcases (hasEdge_iff _ _ _).mp hab with h | h
    · exact ⟨(a, b), h, by simp [incident], Or.inr rfl⟩
    · exact ⟨(b, a), h, by simp [incident], Or.inl rfl⟩
  have hnot : e0 ∉ A.fedges := by
    intro h
    obtain ⟨_, h1, h2⟩ := hAs e0 h
    rcases hends with h' | h'
    · exact hb (h' ▸ h1)
    · exact hb (h' ▸ h2)
  have hnd : (e0 :: A.fedges.filter (fun e => incident e a)).Nodup := by
    rw [List.nodup_cons]
    exact ⟨fun h => hnot (List.mem_filter.mp h).1, List.Nodup.sublist List.filter_sublist hAn⟩
  have hsub : (e0 :: A.fedges.filter (fun e => incident e a)) ⊆ inp.medges.filter (fun e => incident e a) := by
    intro e he
    rcases List.mem_cons.mp he with h | h
    · rw [h]; exact List.mem_filter.mpr ⟨he0, hinc⟩
    · obtain ⟨h1, h2⟩ := List.mem_filter.mp h
      exact List.mem_filter.mpr ⟨(hAs e h1).1, h2⟩
  have := List.Nodup.length_le_of_subset hnd hsub
  simp only [List.length_cons] at this
  omega

theorem mem_allowed_of_cross (inp : Input) (A : RNode) (hM : Canon inp.medges) (hA : FragOK inp A)
    (a b : Nat) (ha : a ∈ A.frag) (hb : b ∉ A.frag) (hab : hasEdge inp.medges a b = true) :
    a ∈ allowed inp A := by
  unfold allowed
  refine List.mem_filter.mpr ⟨ha, ?_⟩
  have := degree_lt_of_cross inp A hM hA a b ha hb hab
  simp only [bne_iff_ne, ne_eq]
  omega

theorem hasEdge_symm (es : List (Nat × Nat)) (a b : Nat) : hasEdge es a b = hasEdge es b a := by
  rw [Bool.eq_iff_iff, hasEdge_iff, hasEdge_iff]
  exact Or.comm

/-- the connecting edges found are empty exactly when no atom of `A` is adjacent to an atom of `B` -/
theorem connecting_isEmpty_iff (inp : Input) (A B : RNode) (hM : Canon inp.medges)
    (hA : FragOK inp A) (hB : FragOK inp B) (hdisj : ∀ a ∈ A.frag, a ∉ B.frag) :
    (findConnectingEdges inp A B).isEmpty = !joined inp A B := by
  rw [Bool.eq_iff_iff]
  simp only [List.isEmpty_iff, Bool.not_eq_true']
  constructor
  · intro h
    rw [Bool.eq_false_iff]
    intro hj
    unfold joined at hj
    simp only [List.any_eq_true] at hj
    obtain ⟨a, ha, b, hb, hab⟩ := hj
    have ha' := mem_allowed_of_cross inp A hM hA a b ha (fun hbA => hdisj b hbA hb) hab
    have hb' := mem_allowed_of_cross inp B hM hB b a hb (hdisj a ha) (by rw [hasEdge_symm]; exact hab)
    have : (a, b) ∈ findConnectingEdges inp A B := by
      unfold findConnectingEdges
      exact List.mem_flatMap.mpr ⟨a, ha', List.mem_map.mpr ⟨b, List.mem_filter.mpr ⟨hb', hab⟩, rfl⟩⟩
    rw [h] at this
    cases this
  · intro hj
    rw [List.eq_nil_iff_forall_not_mem]
    intro e he
    unfold findConnectingEdges at he
    obtain ⟨a, ha, hm⟩ := List.mem_flatMap.mp he
    obtain ⟨b, hb, _⟩ := List.mem_map.mp hm
    obtain ⟨hb1, hab⟩ := List.mem_filter.mp hb
    have haf : a ∈ A.frag := (List.mem_filter.mp ha).1
    have hbf : b ∈ B.frag := (List.mem_filter.mp hb1).1
    have : joined inp A B = true := by
      unfold joined
      exact List.any_eq_true.mpr ⟨a, haf, List.any_eq_true.mpr ⟨b, hbf, hab⟩⟩
    rw [hj] at this
    cases this

end PolyplyVerif.C10M

namespace PolyplyVerif.C10M

/-- `b` is reached from `a` by a walk of at most `k` edges -/
inductive WalkLe (es : List (Nat × Nat)) (a : Nat) : Nat → Nat → Prop
  | refl (k : Nat) : WalkLe es a a k
  | step {c c' k : Nat} : WalkLe es a c k → c' ∈ neighbors es c → WalkLe es a c' (k + 1)

theorem WalkLe.mono {es : List (Nat × Nat)} {a b k : Nat} (h : WalkLe es a b k) : WalkLe es a b (k + 1) := by
  induction h with
  | refl k => exact WalkLe.refl (k + 1)
  | step _ hn ih => exact WalkLe.step ih hn

theorem mem_dedup {α : Type} [BEq α] [LawfulBEq α] (l : List α) (x : α) : x ∈ dedup l ↔ x ∈ l := by
  induction l with
  | nil => simp [dedup]
  | cons y ys ih =>
    simp only [dedup, List.mem_cons, List.mem_filter, ih, Bool.not_eq_true', beq_eq_false_iff_ne, ne_eq]
    constructor
    · rintro (h | ⟨h, _⟩)
      · exact Or.inl h
      · exact Or.inr h
    · rintro (h | h)
      · exact Or.inl h
      · by_cases hxy : x = y
        · exact Or.inl hxy
        · exact Or.inr ⟨h, hxy⟩

theorem mem_within_iff (es : List (Nat × Nat)) (a b k : Nat) : b ∈ within es a k ↔ WalkLe es a b k := by
  induction k generalizing b with
  | zero =>
    simp only [within, List.mem_singleton]
    constructor
    · intro h; rw [h]; exact WalkLe.refl 0
    · intro h; cases h; rfl
  | succ k ih =>
    simp only [within, mem_dedup, List.mem_append, List.mem_flatMap]
    constructor
    · rintro (h | ⟨c, hc, hn⟩)
      · exact ((ih b).mp h).mono
      · exact WalkLe.step ((ih c).mp hc) hn
    · intro h
      cases h with
      | refl => left; exact (ih a).mpr (WalkLe.refl k)
      | step hw hn => right; exact ⟨_, (ih _).mpr hw, hn⟩

end PolyplyVerif.C10M
