/-
Helper lemmas for the load_library part of C13 (Properties/C13.lean): which files `read_options_from_files`
parses, in which order, when it fails; the storage after the parse calls; invariance under permutations of
the files.  Core Lean only.
-/
import PolyplyVerif.Model.LoadLibrary
import PolyplyVerif.Proofs.Links
import PolyplyVerif.Proofs.LinksWindows

set_option linter.unusedSimpArgs false
set_option linter.unusedVariables false

namespace PolyplyVerif.LoadLibrary
open PolyplyVerif.LibraryTables PolyplyVerif.Links

/-- what one file contributes to the parse calls -/
def callOf (parsers : List (String × String)) (f : File) : Option (String × String) :=
  (lookup parsers (extension f)).map (fun p => (p, f.path))

/-- a file that ends the run: not a library file and no parser for its suffix -/
def Rejected (parsers : List (String × String)) (paths : List File × List File) (f : File) : Prop :=
  lookup parsers (extension f) = none ∧ isLib paths f = false

theorem getParser_parser_iff (parsers : List (String × String)) (ext : String) (isLib : Bool) (p : String) :
    getParser parsers ext isLib = .parser p ↔ lookup parsers ext = some p := by
  unfold getParser
  cases h : lookup parsers ext with
  | some q => simp
  | none =>
    simp only []
    constructor
    · intro hc; split at hc; · cases hc
      split at hc <;> cases hc
    · intro hc; cases hc

theorem getParser_reject_iff (parsers : List (String × String)) (ext : String) (isLib : Bool) :
    getParser parsers ext isLib = .reject ↔ lookup parsers ext = none ∧ isLib = false := by
  unfold getParser
  cases h : lookup parsers ext with
  | some q => simp
  | none =>
    cases isLib
    · simp
    · simp only [Bool.not_true, Bool.false_eq_true, if_false]
      constructor
      · intro hc; split at hc <;> cases hc
      · rintro ⟨_, hc⟩; cases hc

theorem readCalls_ok (parsers : List (String × String)) (paths : List File × List File) (fs : List File)
    (h : ∀ f ∈ fs, ¬ Rejected parsers paths f) :
    readCalls parsers paths fs = .ok (fs.filterMap (callOf parsers)) := by
  induction fs with
  | nil => rfl
  | cons f rest ih =>
    have ihr := ih (fun g hg => h g (List.mem_cons_of_mem _ hg))
    unfold readCalls
    cases hg : getParser parsers (extension f) (isLib paths f) with
    | parser p =>
      have := (getParser_parser_iff _ _ _ _).mp hg
      simp only [ihr, List.filterMap_cons, callOf, this, Option.map_some]
    | reject =>
      exact absurd ((getParser_reject_iff _ _ _).mp hg) (h f List.mem_cons_self)
    | skipWarn =>
      have hl : lookup parsers (extension f) = none := by
        cases hl : lookup parsers (extension f) with
        | none => rfl
        | some p => rw [(getParser_parser_iff _ _ _ p).mpr hl] at hg; cases hg
      simp only [ihr, List.filterMap_cons, callOf, hl, Option.map_none]
    | skipSilent =>
      have hl : lookup parsers (extension f) = none := by
        cases hl : lookup parsers (extension f) with
        | none => rfl
        | some p => rw [(getParser_parser_iff _ _ _ p).mpr hl] at hg; cases hg
      simp only [ihr, List.filterMap_cons, callOf, hl, Option.map_none]

theorem readCalls_error (parsers : List (String × String)) (paths : List File × List File) (fs : List File)
    (f : File) (hf : f ∈ fs) (hr : Rejected parsers paths f) :
    ∃ g ∈ fs, Rejected parsers paths g ∧ readCalls parsers paths fs = .error g.path := by
  induction fs with
  | nil => cases hf
  | cons a rest ih =>
    by_cases ha : Rejected parsers paths a
    · refine ⟨a, List.mem_cons_self, ha, ?_⟩
      unfold readCalls
      rw [(getParser_reject_iff _ _ _).mpr ha]
    · have hfr : f ∈ rest := by
        rcases List.mem_cons.mp hf with rfl | h
        · exact absurd hr ha
        · exact h
      obtain ⟨g, hg, hgr, he⟩ := ih hfr
      refine ⟨g, List.mem_cons_of_mem _ hg, hgr, ?_⟩
      unfold readCalls
      cases hgp : getParser parsers (extension a) (isLib paths a) with
      | parser p => simp only [he]
      | reject => exact absurd ((getParser_reject_iff _ _ _).mp hgp) ha
      | skipWarn => simp only [he]
      | skipSilent => simp only [he]

theorem visitOrder_eq (lib user : List File) : visitOrder (lib, user) = user ++ lib := by
  simp [visitOrder, unpack, readOrder, pathsUnpack]

theorem isLib_eq (lib user : List File) (f : File) : isLib (lib, user) f = lib.contains f := by
  simp [isLib, unpack, pathsUnpack]


/-- `read_options_from_files` as a whole: it fails iff some file (user files first, then library files) is
rejected; otherwise its parse calls are those of the user files followed by those of the library files -/
theorem readOptions_ok (parsers : List (String × String)) (lib user : List File)
    (h : ∀ f ∈ user ++ lib, ¬ Rejected parsers (lib, user) f) :
    readOptions parsers (lib, user) = .ok ((user ++ lib).filterMap (callOf parsers)) := by
  unfold readOptions
  rw [visitOrder_eq]
  exact readCalls_ok parsers (lib, user) (user ++ lib) h

theorem readOptions_error (parsers : List (String × String)) (lib user : List File) (f : File)
    (hf : f ∈ user ++ lib) (hr : Rejected parsers (lib, user) f) :
    ∃ g ∈ user ++ lib, Rejected parsers (lib, user) g ∧ readOptions parsers (lib, user) = .error g.path := by
  unfold readOptions
  rw [visitOrder_eq]
  exact readCalls_error parsers (lib, user) (user ++ lib) f hf hr

theorem rejected_perm (parsers : List (String × String)) (lib lib' user user' : List File) (hl : lib.Perm lib') (f : File) :
    Rejected parsers (lib, user) f ↔ Rejected parsers (lib', user') f := by
  unfold Rejected
  rw [isLib_eq, isLib_eq, hl.contains_eq]

theorem lastFor_of_nodup {ν : Type} (l : List (String × ν)) (hk : (l.map (·.1)).Nodup) (k : String) (v : ν)
    (h : (k, v) ∈ l) : lastFor l k = some v := by
  unfold lastFor lookupKV
  rw [find?_unique (fun p : String × ν => p.1 == k) l.reverse (k, v) (List.mem_reverse.mpr h) (by simp)]
  · rfl
  · intro y hy hp
    have hy := List.mem_reverse.mp hy
    have hyk : y.1 = k := by simpa using hp
    -- two entries with the same key in a list with pairwise distinct keys are the same entry
    have : ∀ (l : List (String × ν)), (l.map (·.1)).Nodup → ∀ a ∈ l, ∀ b ∈ l, a.1 = b.1 → a = b := by
      intro l
      induction l with
      | nil => intro _ a ha; cases ha
      | cons x l ih =>
        intro hn a ha b hb hab
        rw [List.map_cons, List.nodup_cons] at hn
        rcases List.mem_cons.mp ha with hax | ha' <;> rcases List.mem_cons.mp hb with hbx | hb'
        · rw [hax, hbx]
        · exact absurd (List.mem_map.mpr ⟨b, hb', by rw [← hab, hax]⟩) hn.1
        · exact absurd (List.mem_map.mpr ⟨a, ha', by rw [hab, hbx]⟩) hn.1
        · exact ih hn.2 a ha' b hb' hab
    exact this l hk y hy (k, v) h hyk

theorem lastFor_perm {ν : Type} (l l' : List (String × ν)) (hp : l.Perm l') (hk : (l.map (·.1)).Nodup) (k : String) :
    lastFor l k = lastFor l' k := by
  have hk' : (l'.map (·.1)).Nodup := (hp.map _).nodup_iff.mp hk
  cases h : lastFor l k with
  | some v =>
    have hm := lastFor_some_mem l k v h
    exact (lastFor_of_nodup l' hk' k v (hp.mem_iff.mp hm)).symm
  | none =>
    symm
    rw [lastFor_eq_none_iff] at h ⊢
    intro p hp'; exact h p (hp.mem_iff.mpr hp')

theorem storage_lookup {δ : Type} (defs : String → List (String × δ)) (calls : List (String × String)) (k : String) :
    lookupKV (storage defs calls) k = lastFor (calls.flatMap (fun c => defs c.2)) k := by
  unfold storage
  rw [fold_insert_last, lookupKV_nil]
  cases lastFor (calls.flatMap (fun c => defs c.2)) k <;> rfl

theorem storage_perm {δ : Type} (defs : String → List (String × δ)) (calls calls' : List (String × String))
    (hp : calls.Perm calls') (hk : ((calls.flatMap (fun c => defs c.2)).map (·.1)).Nodup) (k : String) :
    lookupKV (storage defs calls) k = lookupKV (storage defs calls') k := by
  rw [storage_lookup, storage_lookup]
  exact lastFor_perm _ _ (hp.flatMap_right _) hk k


end PolyplyVerif.LoadLibrary
