import PolyplyVerif.Proofs.P4
namespace PolyplyVerif.Proofs.Dna
open PolyplyVerif PolyplyVerif.Dna

section
variable (tbl : List (String × String)) (names : List String) (labels : List Attrs) (circ : Option Attrs)

theorem corrOf_stAt (j i0 : Nat) (hi : i0 ≤ j) (hj : j < names.length) :
    corrOf (stAt tbl names labels circ j).corr (names.length - 1 - i0) = some (names.length + i0) := by
  unfold corrOf stAt
  simp only
  rw [find?_map_range _ _ (j + 1) i0 (by omega) (by simp)]
  · rfl
  · intro i hi'
    simp; omega

theorem corrOf_stAt_none (j k : Nat) (hk : k + 1 + j < names.length) :
    corrOf (stAt tbl names labels circ j).corr k = none := by
  unfold corrOf stAt
  simp only
  rw [find?_map_range_none]
  · rfl
  · intro i hi'
    simp; omega

/-- shape of every edge of the intermediate graph -/
theorem gAt_edges_shape (j : Nat) (hc : circ.isSome → 3 ≤ names.length) :
    ∀ e ∈ (gAt tbl names labels circ j).edges,
      (e.u = 0 ∧ e.v = names.length - 1 ∧ 3 ≤ names.length) ∨ (e.v = e.u + 1 ∧ e.v < names.length) ∨
      (e.v = e.u + 1 ∧ names.length ≤ e.u ∧ e.u < names.length + j) := by
  intro e he
  simp only [gAt, strandGraph, List.mem_append, List.mem_map, List.mem_range] at he
  rcases he with ((he | he) | he) | he
  · split at he
    · simp at he; subst he; simp; omega
    · simp at he
  · cases circ with
    | none => simp at he
    | some a => simp at he; subst he; left; exact ⟨rfl, rfl, hc rfl⟩
  · obtain ⟨i, hi, rfl⟩ := he; simp; omega
  · obtain ⟨i, hi, rfl⟩ := he; simp [newEdge]; omega

theorem joins_false_of (e : REdge) (a b : Nat) (h : ¬ (e.u = a ∧ e.v = b) ∧ ¬ (e.u = b ∧ e.v = a)) :
    e.joins a b = false := by
  unfold REdge.joins
  simp
  constructor
  · intro h1 h2; exact h.1 ⟨h1, h2⟩
  · intro h1 h2; exact h.2 ⟨h1, h2⟩

/-- no edge yet between the last complement node and the node about to be created -/
theorem gAt_no_new_edge (j : Nat) (hc : circ.isSome → 3 ≤ names.length) :
    ∀ e ∈ (gAt tbl names labels circ j).edges, e.joins (names.length + j) (names.length + j + 1) = false := by
  intro e he
  apply joins_false_of
  rcases gAt_edges_shape tbl names labels circ j hc e he with h | h | h <;> omega

/-- no edge yet between the two ends of the complement (n ≥ 3) -/
theorem gAt_no_closing_edge (j : Nat) (hc : circ.isSome → 3 ≤ names.length) (hn : 3 ≤ names.length) :
    ∀ e ∈ (gAt tbl names labels circ j).edges, e.joins (2 * names.length - 1) names.length = false := by
  intro e he
  apply joins_false_of
  rcases gAt_edges_shape tbl names labels circ j hc e he with h | h | h <;> omega

theorem edge?_none_of (g : RGraph) (a b : Nat) (h : ∀ e ∈ g.edges, e.joins a b = false) :
    g.edge? a b = none := by
  unfold RGraph.edge?
  rw [List.find?_eq_none]
  intro e he
  simp [h e he]

theorem map_update_none (l : List REdge) (a b : Nat) (at' : Attrs) (h : ∀ e ∈ l, e.joins a b = false) :
    l.map (fun e => if e.joins a b then { e with attrs := e.attrs.update at' } else e) = l := by
  induction l with
  | nil => rfl
  | cons x l ih =>
    simp only [List.map_cons, h x (by simp)]
    rw [ih (fun e he => h e (by simp [he]))]
    simp

/-- the strand edge below `src` and its label -/
theorem gAt_edge?_down (j src : Nat) (hc : circ.isSome → 3 ≤ names.length)
    (h1 : 1 ≤ src) (hs : src < names.length) :
    (gAt tbl names labels circ j).edge? src (src - 1) = some ⟨src - 1, src, labels.getD (src - 1) []⟩ := by
  unfold RGraph.edge?
  have hn2 : 2 ≤ names.length := by omega
  by_cases h2 : 2 ≤ src
  · have hR : ((List.range (names.length - 2)).map
        (fun i => (⟨i + 1, i + 2, labels.getD (i + 1) []⟩ : REdge))).find? (fun e => e.joins src (src - 1))
        = some ⟨src - 2 + 1, src - 2 + 2, labels.getD (src - 2 + 1) []⟩ := by
      apply find?_map_range _ _ _ (src - 2) (by omega)
      · simp [REdge.joins]; omega
      · intro i hi
        apply joins_false_of; simp; omega
    have e1 : src - 2 + 1 = src - 1 := by omega
    have e2 : src - 2 + 2 = src := by omega
    rw [e1, e2] at hR
    have hA : ∀ x, (⟨0, 1, x⟩ : REdge).joins src (src - 1) = false := by
      intro x
      apply joins_false_of; simp; omega
    cases circ with
    | none =>
      simp only [gAt, strandGraph, List.find?_append, hn2, if_true]
      rw [hR]
      simp [hA]
    | some a =>
      have := hc rfl
      have hC : (⟨0, names.length - 1, a⟩ : REdge).joins src (src - 1) = false := by
        apply joins_false_of; simp; omega
      simp only [gAt, strandGraph, List.find?_append, hn2, if_true]
      rw [hR]
      simp [hA, hC]
  · have : src = 1 := by omega
    subst this
    simp [gAt, strandGraph, hn2, REdge.joins]

end
end PolyplyVerif.Proofs.Dna
