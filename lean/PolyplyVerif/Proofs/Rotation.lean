/-
Lemmas about `Model/Rotation.lean` over an arbitrary commutative ring `K` (so for `ℚ` and for `ℝ`).
Vectors and matrices are the model's own structures; every statement reduces, component by component, to a
polynomial identity closed by `ring` / `linear_combination`.
-/
import PolyplyVerif.Model.Rotation
import Mathlib.Tactic.Ring
import Mathlib.Tactic.LinearCombination
import Mathlib.Algebra.Ring.Basic

namespace PolyplyVerif.Proofs.Rotation
open PolyplyVerif.Rot

variable {K : Type} [CommRing K]

/-! ### component lemmas -/

@[ext] theorem V3.ext' {α : Type} {u v : V3 α} (hx : u.x = v.x) (hy : u.y = v.y) (hz : u.z = v.z) : u = v := by
  cases u; cases v; simp_all

@[ext] theorem M3.ext' {α : Type} {a b : M3 α} (h0 : a.r0 = b.r0) (h1 : a.r1 = b.r1) (h2 : a.r2 = b.r2) : a = b := by
  cases a; cases b; simp_all

@[simp] theorem add_x (u v : V3 K) : (u + v).x = u.x + v.x := rfl
@[simp] theorem add_y (u v : V3 K) : (u + v).y = u.y + v.y := rfl
@[simp] theorem add_z (u v : V3 K) : (u + v).z = u.z + v.z := rfl
@[simp] theorem sub_x (u v : V3 K) : (u - v).x = u.x - v.x := rfl
@[simp] theorem sub_y (u v : V3 K) : (u - v).y = u.y - v.y := rfl
@[simp] theorem sub_z (u v : V3 K) : (u - v).z = u.z - v.z := rfl
@[simp] theorem neg_x (u : V3 K) : (-u).x = -u.x := rfl
@[simp] theorem neg_y (u : V3 K) : (-u).y = -u.y := rfl
@[simp] theorem neg_z (u : V3 K) : (-u).z = -u.z := rfl
@[simp] theorem zero_x : (0 : V3 K).x = 0 := rfl
@[simp] theorem zero_y : (0 : V3 K).y = 0 := rfl
@[simp] theorem zero_z : (0 : V3 K).z = 0 := rfl
@[simp] theorem smul_x (k : K) (u : V3 K) : (V3.smul k u).x = k * u.x := rfl
@[simp] theorem smul_y (k : K) (u : V3 K) : (V3.smul k u).y = k * u.y := rfl
@[simp] theorem smul_z (k : K) (u : V3 K) : (V3.smul k u).z = k * u.z := rfl
@[simp] theorem mul_def (a b : M3 K) : a * b = M3.mul a b := rfl
@[simp] theorem one_def : (1 : M3 K) = M3.one := rfl

/-- unfold every vector / matrix operation to components -/
macro "v3simp" : tactic =>
  `(tactic| simp only [add_x, add_y, add_z, sub_x, sub_y, sub_z, neg_x, neg_y, neg_z, zero_x, zero_y, zero_z,
      smul_x, smul_y, smul_z, mul_def, one_def,
      V3.dot, V3.normSq, V3.cross, V3.det3, M3.one, M3.col0, M3.col1, M3.col2, M3.transpose, M3.mulVec,
      M3.mul, M3.det, rotX, rotY, rotZ])

/-! ### vector space laws needed later -/

theorem add_comm' (u v : V3 K) : u + v = v + u := by ext <;> v3simp <;> ring
theorem add_assoc' (u v w : V3 K) : u + v + w = u + (v + w) := by ext <;> v3simp <;> ring
theorem add_zero' (u : V3 K) : u + 0 = u := by ext <;> v3simp <;> ring
theorem zero_add' (u : V3 K) : 0 + u = u := by ext <;> v3simp <;> ring
theorem smul_add' (k : K) (u v : V3 K) : V3.smul k (u + v) = V3.smul k u + V3.smul k v := by
  ext <;> v3simp <;> ring
theorem smul_zero' (k : K) : V3.smul k (0 : V3 K) = 0 := by ext <;> v3simp <;> ring

/-! ### matrix algebra -/

theorem mulVec_add (m : M3 K) (u v : V3 K) : m.mulVec (u + v) = m.mulVec u + m.mulVec v := by
  ext <;> v3simp <;> ring
theorem mulVec_sub (m : M3 K) (u v : V3 K) : m.mulVec (u - v) = m.mulVec u - m.mulVec v := by
  ext <;> v3simp <;> ring
theorem mulVec_smul (m : M3 K) (k : K) (u : V3 K) : m.mulVec (V3.smul k u) = V3.smul k (m.mulVec u) := by
  ext <;> v3simp <;> ring
theorem mulVec_zero (m : M3 K) : m.mulVec (0 : V3 K) = 0 := by ext <;> v3simp <;> ring
theorem one_mulVec (u : V3 K) : (1 : M3 K).mulVec u = u := by ext <;> v3simp <;> ring
theorem mul_mulVec (a b : M3 K) (u : V3 K) : (a * b).mulVec u = a.mulVec (b.mulVec u) := by
  ext <;> v3simp <;> ring
theorem mul_assoc' (a b c : M3 K) : a * b * c = a * (b * c) := by
  ext <;> v3simp <;> ring
theorem mul_one' (a : M3 K) : a * 1 = a := by ext <;> v3simp <;> ring
theorem one_mul' (a : M3 K) : 1 * a = a := by ext <;> v3simp <;> ring
theorem transpose_mul (a b : M3 K) : (a * b).transpose = b.transpose * a.transpose := by
  ext <;> v3simp <;> ring
omit [CommRing K] in
theorem transpose_transpose (a : M3 K) : a.transpose.transpose = a := by
  ext <;> v3simp
theorem transpose_one : (1 : M3 K).transpose = 1 := by ext <;> v3simp

theorem det_mul (a b : M3 K) : (a * b).det = a.det * b.det := by
  v3simp; ring
theorem det_transpose (a : M3 K) : a.transpose.det = a.det := by
  v3simp; ring
theorem det_one : (1 : M3 K).det = 1 := by v3simp; ring

/-- `(M u) · (M v) = u · ((Mᵀ M) v)` -/
theorem dot_mulVec (m : M3 K) (u v : V3 K) :
    V3.dot (m.mulVec u) (m.mulVec v) = V3.dot u ((m.transpose * m).mulVec v) := by
  v3simp; ring

/-- `det [M u, M v, M w] = det M · det [u, v, w]` -/
theorem det3_mulVec (m : M3 K) (u v w : V3 K) :
    V3.det3 (m.mulVec u) (m.mulVec v) (m.mulVec w) = m.det * V3.det3 u v w := by
  v3simp; ring

/-- `Mᵀ ((M u) × (M v)) = det M · (u × v)` for every matrix -/
theorem transpose_mulVec_cross (m : M3 K) (u v : V3 K) :
    m.transpose.mulVec (V3.cross (m.mulVec u) (m.mulVec v)) = V3.smul m.det (V3.cross u v) := by
  ext <;> v3simp <;> ring

/-! ### proper rotations -/

/-- a proper rotation: orthogonal on both sides, determinant one -/
structure Proper (m : M3 K) : Prop where
  left : m.transpose * m = 1
  right : m * m.transpose = 1
  det : m.det = 1

theorem Proper.one : Proper (1 : M3 K) :=
  ⟨by rw [transpose_one, one_mul'], by rw [transpose_one, one_mul'], det_one⟩

theorem Proper.mul {a b : M3 K} (ha : Proper a) (hb : Proper b) : Proper (a * b) where
  left := by
    rw [transpose_mul, mul_assoc', ← mul_assoc' a.transpose, ha.left, one_mul', hb.left]
  right := by
    rw [transpose_mul, mul_assoc', ← mul_assoc' b, hb.right, one_mul', ha.right]
  det := by rw [det_mul, ha.det, hb.det, mul_one]

theorem rotZ_proper (c s : K) (h : c * c + s * s = 1) : Proper (rotZ c s) where
  left := by ext <;> v3simp <;> first | linear_combination h | ring
  right := by ext <;> v3simp <;> first | linear_combination h | ring
  det := by v3simp; linear_combination h

theorem rotY_proper (c s : K) (h : c * c + s * s = 1) : Proper (rotY c s) where
  left := by ext <;> v3simp <;> first | linear_combination h | ring
  right := by ext <;> v3simp <;> first | linear_combination h | ring
  det := by v3simp; linear_combination h

theorem rotX_proper (c s : K) (h : c * c + s * s = 1) : Proper (rotX c s) where
  left := by ext <;> v3simp <;> first | linear_combination h | ring
  right := by ext <;> v3simp <;> first | linear_combination h | ring
  det := by v3simp; linear_combination h

/-- each axis factor has determinant `c² + s²` whatever `c, s` are -/
theorem rot_det (c s : K) :
    (rotZ c s).det = c * c + s * s ∧ (rotY c s).det = c * c + s * s ∧ (rotX c s).det = c * c + s * s := by
  refine ⟨?_, ?_, ?_⟩ <;> v3simp <;> ring

/-- the matrix `_rotate_xyz` builds is a proper rotation as soon as each `(c, s)` lies on the unit circle -/
theorem rotMat_proper (a : Angles K) (hx : a.cx * a.cx + a.sx * a.sx = 1)
    (hy : a.cy * a.cy + a.sy * a.sy = 1) (hz : a.cz * a.cz + a.sz * a.sz = 1) : Proper (rotMat a) :=
  ((rotZ_proper _ _ hz).mul (rotY_proper _ _ hy)).mul (rotX_proper _ _ hx)

/-- an orthogonal matrix preserves dot products -/
theorem dot_preserved {m : M3 K} (h : m.transpose * m = 1) (u v : V3 K) :
    V3.dot (m.mulVec u) (m.mulVec v) = V3.dot u v := by
  rw [dot_mulVec, h, one_mulVec]

theorem normSq_preserved {m : M3 K} (h : m.transpose * m = 1) (u : V3 K) :
    V3.normSq (m.mulVec u) = V3.normSq u := dot_preserved h u u

/-- a proper rotation commutes with the cross product -/
theorem cross_preserved {m : M3 K} (h : Proper m) (u v : V3 K) :
    V3.cross (m.mulVec u) (m.mulVec v) = m.mulVec (V3.cross u v) := by
  have key := transpose_mulVec_cross m u v
  have : m.mulVec (m.transpose.mulVec (V3.cross (m.mulVec u) (m.mulVec v)))
      = m.mulVec (V3.smul m.det (V3.cross u v)) := by rw [key]
  rw [← mul_mulVec, h.right, one_mulVec, h.det] at this
  rw [this]; ext <;> v3simp <;> ring

/-! ### placement -/

theorem placed_sub (f : K) (cg : V3 K) (m : M3 K) (u v : V3 K) :
    (cg + V3.smul f (m.mulVec u)) - (cg + V3.smul f (m.mulVec v)) = V3.smul f (m.mulVec (u - v)) := by
  ext <;> v3simp <;> ring

theorem normSq_smul (f : K) (u : V3 K) : V3.normSq (V3.smul f u) = f * f * V3.normSq u := by
  v3simp; ring

theorem det3_smul (f : K) (u v w : V3 K) :
    V3.det3 (V3.smul f u) (V3.smul f v) (V3.smul f w) = f * f * f * V3.det3 u v w := by
  v3simp; ring

/-! ### lists: sums, lookups along a permutation -/

theorem sum_foldl (acc : V3 K) (l : List (V3 K)) : l.foldl V3.add acc = acc + V3.sum l := by
  induction l generalizing acc with
  | nil => simp [V3.sum]; exact (add_zero' acc).symm
  | cons a l ih =>
    simp only [V3.sum, List.foldl_cons]
    rw [ih, ih (V3.add V3.zero a)]
    show acc + a + V3.sum l = acc + ((0 : V3 K) + a + V3.sum l)
    rw [zero_add', add_assoc']

theorem sum_nil : V3.sum ([] : List (V3 K)) = 0 := rfl

theorem sum_cons (a : V3 K) (l : List (V3 K)) : V3.sum (a :: l) = a + V3.sum l := by
  show (a :: l).foldl V3.add V3.zero = _
  rw [List.foldl_cons, sum_foldl]
  show (0 : V3 K) + a + V3.sum l = _
  rw [zero_add']

theorem sum_perm {l l' : List (V3 K)} (h : l.Perm l') : V3.sum l = V3.sum l' := by
  induction h with
  | nil => rfl
  | cons a _ ih => rw [sum_cons, sum_cons, ih]
  | swap a b l => rw [sum_cons, sum_cons, sum_cons, sum_cons, ← add_assoc', ← add_assoc', add_comm' b a]
  | trans _ _ ih1 ih2 => rw [ih1, ih2]

theorem sum_map_placed (f : K) (cg : V3 K) (m : M3 K) (l : List (V3 K)) :
    V3.sum (l.map fun v => cg + V3.smul f (m.mulVec v))
      = V3.smul (l.length : K) cg + V3.smul f (m.mulVec (V3.sum l)) := by
  induction l with
  | nil =>
    simp only [List.map_nil, List.length_nil, Nat.cast_zero, sum_nil, mulVec_zero, smul_zero']
    ext <;> v3simp <;> ring
  | cons a l ih =>
    simp only [List.map_cons, sum_cons, ih, List.length_cons, Nat.cast_succ, mulVec_add, smul_add']
    ext <;> v3simp <;> ring

theorem orientTemplate_eq (a : Angles K) (t : Template K) :
    orientTemplate a t = t.map fun kv => (kv.1, (rotMat a).mulVec kv.2) := by
  unfold orientTemplate rotateXYZ
  induction t with
  | nil => rfl
  | cons kv t ih => simp only [List.map_cons, List.zipWith_cons_cons, ih]

omit [CommRing K] in
theorem tlookup_map (g : V3 K → V3 K) (t : Template K) (n : String) :
    tlookup (t.map fun kv => (kv.1, g kv.2)) n = (tlookup t n).map g := by
  induction t with
  | nil => rfl
  | cons kv t ih =>
    obtain ⟨k, v⟩ := kv
    simp only [List.map_cons, tlookup]
    split <;> simp [ih]

theorem tlookup_orient (a : Angles K) (t : Template K) (n : String) :
    tlookup (orientTemplate a t) n = (tlookup t n).map (rotMat a).mulVec := by
  rw [orientTemplate_eq]; exact tlookup_map _ t n

omit [CommRing K] in
/-- looking up, in a template with distinct keys, a list of names that is a permutation of the keys yields a
permutation of the values -/
theorem lookup_perm (t : Template K) (hnd : (t.map (·.1)).Nodup) (names : List String)
    (hp : names.Perm (t.map (·.1))) :
    ∃ vs, names.mapM (tlookup t) = some vs ∧ vs.Perm (t.map (·.2)) := by
  induction t generalizing names with
  | nil =>
    have : names = [] := by simpa using hp
    subst this; exact ⟨[], rfl, List.Perm.nil⟩
  | cons kv t ih =>
    obtain ⟨k, v⟩ := kv
    simp only [List.map_cons, List.nodup_cons] at hnd
    have hk : k ∈ names := hp.symm.subset (by simp)
    obtain ⟨l1, l2, rfl⟩ := List.append_of_mem hk
    have hp' : (l1 ++ l2).Perm (t.map (·.1)) := by
      have := hp
      simp only [List.map_cons] at this
      exact (List.perm_middle.symm.trans this).cons_inv
    obtain ⟨vs, hvs, hperm⟩ := ih hnd.2 (l1 ++ l2) hp'
    have hnot : ∀ n ∈ l1 ++ l2, n ≠ k := by
      intro n hn he; subst he
      exact hnd.1 (by simpa using hp'.subset hn)
    have hlk : ∀ n ∈ l1 ++ l2, tlookup ((k, v) :: t) n = tlookup t n := by
      intro n hn
      simp only [tlookup]
      rw [if_neg (fun h => hnot n hn h.symm)]
    -- split the successful lookups of `l1 ++ l2`
    have hsplit : ∀ (xs ys : List String) (rs : List (V3 K)), (xs ++ ys).mapM (tlookup t) = some rs →
        ∃ r1 r2, xs.mapM (tlookup t) = some r1 ∧ ys.mapM (tlookup t) = some r2 ∧ rs = r1 ++ r2 := by
      intro xs
      induction xs with
      | nil => intro ys rs h; exact ⟨[], rs, rfl, by simpa using h, rfl⟩
      | cons x xs ihx =>
        intro ys rs h
        simp only [List.cons_append, List.mapM_cons] at h
        cases hx : tlookup t x with
        | none => simp [hx] at h
        | some vx =>
          cases hr : (xs ++ ys).mapM (tlookup t) with
          | none => simp [hx, hr] at h
          | some rr =>
            simp [hx, hr] at h
            obtain ⟨r1, r2, h1, h2, rfl⟩ := ihx ys rr hr
            exact ⟨vx :: r1, r2, by simp [List.mapM_cons, hx, h1], h2, by simp [← h]⟩
    obtain ⟨r1, r2, h1, h2, rfl⟩ := hsplit l1 l2 vs hvs
    have hcongr : ∀ (xs : List String), (∀ n ∈ xs, tlookup ((k, v) :: t) n = tlookup t n) →
        xs.mapM (tlookup ((k, v) :: t)) = xs.mapM (tlookup t) := by
      intro xs
      induction xs with
      | nil => intro _; rfl
      | cons x xs ihx =>
        intro h
        simp only [List.mapM_cons]
        rw [h x (by simp), ihx (fun n hn => h n (by simp [hn]))]
    have hjoin : ∀ (xs ys : List String) (a b : List (V3 K)) (g : String → Option (V3 K)),
        xs.mapM g = some a → ys.mapM g = some b → (xs ++ ys).mapM g = some (a ++ b) := by
      intro xs
      induction xs with
      | nil => intro ys a b g ha hb; simp at ha; subst ha; simpa using hb
      | cons x xs ihx =>
        intro ys a b g ha hb
        simp only [List.mapM_cons] at ha
        cases hx : g x with
        | none => simp [hx] at ha
        | some vx =>
          cases hr : xs.mapM g with
          | none => simp [hx, hr] at ha
          | some rr =>
            simp [hx, hr] at ha; subst ha
            simp [List.mapM_cons, hx, ihx ys rr b g hr hb]
    refine ⟨r1 ++ v :: r2, ?_, ?_⟩
    · have e1 : l1.mapM (tlookup ((k, v) :: t)) = some r1 := by
        rw [hcongr l1 (fun n hn => hlk n (by simp [hn]))]; exact h1
      have e2 : (k :: l2).mapM (tlookup ((k, v) :: t)) = some (v :: r2) := by
        have hkk : tlookup ((k, v) :: t) k = some v := by simp [tlookup]
        rw [List.mapM_cons, hkk, hcongr l2 (fun n hn => hlk n (by simp [hn])), h2]; rfl
      exact hjoin l1 (k :: l2) r1 (v :: r2) _ e1 e2
    · simp only [List.map_cons]
      exact List.perm_middle.trans (hperm.cons v)

/-! ### `placeAtoms` in closed form -/

theorem placeAtoms_of_lookup (f : K) (cg : V3 K) (a : Angles K) (t : Template K) (atoms : List Atom)
    (vs : List (V3 K)) (h : (atoms.map (·.name)).mapM (tlookup t) = some vs) :
    placeAtoms f cg (orientTemplate a t) atoms
      = some (List.zipWith (fun at' v => (at'.key, cg + V3.smul f ((rotMat a).mulVec v))) atoms vs) := by
  unfold placeAtoms
  induction atoms generalizing vs with
  | nil => simp at h; subst h; rfl
  | cons at' atoms ih =>
    simp only [List.map_cons, List.mapM_cons] at h
    cases hx : tlookup t at'.name with
    | none => simp [hx] at h
    | some v =>
      cases hr : (atoms.map (·.name)).mapM (tlookup t) with
      | none => simp [hx, hr] at h
      | some rr =>
        simp [hx, hr] at h; subst h
        rw [List.mapM_cons, ih rr hr, tlookup_orient, hx]
        rfl

theorem mapM_length {α β : Type} (g : α → Option β) (l : List α) (r : List β) (h : l.mapM g = some r) :
    r.length = l.length := by
  induction l generalizing r with
  | nil => simp at h; subst h; rfl
  | cons x xs ih =>
    simp only [List.mapM_cons] at h
    cases hx : g x with
    | none => simp [hx] at h
    | some vx =>
      cases hr : xs.mapM g with
      | none => simp [hx, hr] at h
      | some rr => simp [hx, hr] at h; subst h; simp [ih rr hr]

theorem zipWith_snd (f : K) (cg : V3 K) (m : M3 K) (atoms : List Atom) (vs : List (V3 K))
    (hl : vs.length = atoms.length) :
    (List.zipWith (fun (at' : Atom) v => (at'.key, cg + V3.smul f (m.mulVec v))) atoms vs).map (·.2)
      = vs.map fun v => cg + V3.smul f (m.mulVec v) := by
  induction atoms generalizing vs with
  | nil => cases vs with
    | nil => rfl
    | cons _ _ => simp at hl
  | cons at' atoms ih => cases vs with
    | nil => simp at hl
    | cons v vs =>
      simp only [List.zipWith_cons_cons, List.map_cons]
      rw [ih vs (by simpa using hl)]

/-- centre: distinct atom names that are exactly the template's keys, template vectors summing to zero ⇒
the placed atoms sum to `n · cg` (any matrix, any factor) -/
theorem centre_sum (f : K) (cg : V3 K) (a : Angles K) (t : Template K) (atoms : List Atom)
    (hnd : (t.map (·.1)).Nodup) (hp : (atoms.map (·.name)).Perm (t.map (·.1)))
    (hc : V3.sum (t.map (·.2)) = 0) :
    ∃ placed, placeAtoms f cg (orientTemplate a t) atoms = some placed ∧
      placed.length = atoms.length ∧
      V3.sum (placed.map (·.2)) = V3.smul (atoms.length : K) cg := by
  obtain ⟨vs, hvs, hperm⟩ := lookup_perm t hnd _ hp
  have hl : vs.length = atoms.length := by simpa using mapM_length _ _ _ hvs
  refine ⟨_, placeAtoms_of_lookup f cg a t atoms vs hvs, ?_, ?_⟩
  · simp [List.length_zipWith, hl]
  · rw [zipWith_snd f cg _ atoms vs hl, sum_map_placed, sum_perm hperm, hc, mulVec_zero, smul_zero', hl, add_zero']

/-- own name: the i-th written coordinate is `cg + f · R · template[name of atom i]` -/
theorem own_name (f : K) (cg : V3 K) (a : Angles K) (t : Template K) (atoms : List Atom)
    (placed : List (Nat × V3 K)) (h : placeAtoms f cg (orientTemplate a t) atoms = some placed) :
    placed.length = atoms.length ∧
    ∀ i (hi : i < atoms.length) (hp : i < placed.length),
      ∃ v, tlookup t atoms[i].name = some v ∧
        placed[i] = (atoms[i].key, cg + V3.smul f ((rotMat a).mulVec v)) := by
  unfold placeAtoms at h
  induction atoms generalizing placed with
  | nil => simp at h; subst h; simp
  | cons at' atoms ih =>
    simp only [List.mapM_cons] at h
    cases hx : tlookup (orientTemplate a t) at'.name with
    | none => simp [hx] at h
    | some w =>
      cases hr : atoms.mapM (fun a' => (tlookup (orientTemplate a t) a'.name).map fun v => (a'.key, cg + V3.smul f v)) with
      | none => simp [hx, hr] at h
      | some rr =>
        simp [hx, hr] at h; subst h
        obtain ⟨hlen, hrest⟩ := ih rr hr
        refine ⟨by simp [hlen], ?_⟩
        intro i hi hp
        cases i with
        | zero =>
          rw [tlookup_orient] at hx
          cases hv : tlookup t at'.name with
          | none => simp [hv] at hx
          | some v => simp [hv] at hx; subst hx; exact ⟨v, by simpa using hv, by simp⟩
        | succ j =>
          simp only [List.getElem_cons_succ]
          exact hrest j (by simpa using hi) (by simpa using hp)

omit [CommRing K] in
/-- own residue: the molecule-level loop is the concatenation of the per-residue contributions, residues
that are not backmapped contribute nothing -/
theorem placeInit_eq [Add K] [Sub K] [Mul K] [Neg K] [Zero K] [One K] (f : K)
    (T : List (String × Template K)) (rs : List (Res K))
    (out : List (Nat × V3 K)) (built : List Nat) (h : placeInitCoords f T rs = some (out, built)) :
    ∃ parts, rs.mapM (placeRes f T) = some parts ∧ out = parts.flatten ∧
      built = (rs.filter (·.backmap)).map (·.node) := by
  induction rs generalizing out built with
  | nil => simp [placeInitCoords] at h; obtain ⟨rfl, rfl⟩ := h; exact ⟨[], rfl, rfl, rfl⟩
  | cons r rs ih =>
    simp only [placeInitCoords] at h
    cases hr : placeRes f T r with
    | none => simp [hr] at h
    | some here =>
      cases hl : placeInitCoords f T rs with
      | none => simp [hr, hl] at h
      | some lb =>
        obtain ⟨later, b⟩ := lb
        simp [hr, hl] at h
        obtain ⟨rfl, rfl⟩ := h
        obtain ⟨parts, hparts, rfl, rfl⟩ := ih later b hl
        refine ⟨here :: parts, by simp [List.mapM_cons, hr, hparts], by simp, ?_⟩
        cases hb : r.backmap <;> simp [hb]

end PolyplyVerif.Proofs.Rotation
