import PolyplyVerif.Model.SeqExt
import PolyplyVerif.Proofs.Seq

namespace PolyplyVerif.Proofs.SeqExt
open PolyplyVerif PolyplyVerif.Seq PolyplyVerif.Proofs.Seq

/-! ### decimal notation -/

theorem digit_digitChar : ∀ d, d < 10 → digit? (digitChar d) = some d := by decide

theorem digitChar_plain : ∀ d, d < 10 →
    digitChar d ≠ ':' ∧ digitChar d ≠ ',' ∧ digitChar d ≠ '-' ∧ isSpace (digitChar d) = false := by decide

theorem renderNatAux_ne_nil (fuel n : Nat) : renderNatAux fuel n ≠ [] := by
  cases fuel with
  | zero => simp [renderNatAux]
  | succ f =>
    unfold renderNatAux
    split <;> simp

theorem renderNat_ne_nil (n : Nat) : renderNat n ≠ [] := renderNatAux_ne_nil n n

theorem renderNatAux_digits (fuel n : Nat) : ∀ c ∈ renderNatAux fuel n, ∃ d, d < 10 ∧ c = digitChar d := by
  induction fuel generalizing n with
  | zero =>
    intro c hc
    simp only [renderNatAux, List.mem_singleton] at hc
    exact ⟨n % 10, Nat.mod_lt _ (by decide), hc⟩
  | succ f ih =>
    intro c hc
    unfold renderNatAux at hc
    split at hc
    · next h =>
      simp only [List.mem_singleton] at hc
      exact ⟨n, h, hc⟩
    · rcases List.mem_append.mp hc with hc | hc
      · exact ih _ c hc
      · simp only [List.mem_singleton] at hc
        exact ⟨n % 10, Nat.mod_lt _ (by decide), hc⟩

theorem renderNat_digits (n : Nat) : ∀ c ∈ renderNat n, ∃ d, d < 10 ∧ c = digitChar d := renderNatAux_digits n n

theorem renderNat_plain (n : Nat) (c : Char) (hc : c ∈ renderNat n) :
    c ≠ ':' ∧ c ≠ ',' ∧ c ≠ '-' ∧ isSpace c = false := by
  obtain ⟨d, hd, rfl⟩ := renderNat_digits n c hc
  exact digitChar_plain d hd

/-- the fold of `parseNat?` -/
def natStep (acc : Option Nat) (c : Char) : Option Nat :=
  acc.bind fun a => (digit? c).map fun d => a * 10 + d

theorem renderNatAux_fold (fuel n : Nat) (hf : n ≤ fuel) : (renderNatAux fuel n).foldl natStep (some 0) = some n := by
  induction fuel generalizing n with
  | zero =>
    have : n = 0 := by omega
    subst this
    simp only [renderNatAux, List.foldl_cons, List.foldl_nil, natStep, Option.bind_some,
      digit_digitChar (0 % 10) (by decide), Option.map_some]
  | succ f ih =>
    unfold renderNatAux
    split
    · next h =>
      simp only [List.foldl_cons, List.foldl_nil, natStep, Option.bind_some, digit_digitChar n h, Option.map_some]
      simp
    · rw [List.foldl_append, ih (n / 10) (by omega)]
      simp only [List.foldl_cons, List.foldl_nil, natStep, Option.bind_some,
        digit_digitChar (n % 10) (Nat.mod_lt _ (by decide)), Option.map_some]
      congr 1
      omega

theorem renderNat_fold (n : Nat) : (renderNat n).foldl natStep (some 0) = some n := renderNatAux_fold n n (Nat.le_refl n)

theorem parseNat_renderNat (n : Nat) : parseNat? (renderNat n) = some n := by
  unfold parseNat?
  have hne : (renderNat n).isEmpty = false := by
    cases h : renderNat n with
    | nil => exact absurd h (renderNat_ne_nil n)
    | cons _ _ => rfl
  rw [hne]
  exact renderNat_fold n

theorem strip_renderNat (n : Nat) : strip (renderNat n) = renderNat n :=
  strip_noSpace _ fun c hc => (renderNat_plain n c hc).2.2.2

theorem colon_notin_renderNat (n : Nat) : ':' ∉ renderNat n := fun h => (renderNat_plain n _ h).1 rfl
theorem comma_notin_renderNat (n : Nat) : ',' ∉ renderNat n := fun h => (renderNat_plain n _ h).2.1 rfl
theorem dash_notin_renderNat (n : Nat) : '-' ∉ renderNat n := fun h => (renderNat_plain n _ h).2.2.1 rfl

/-! ### `Option` `mapM` -/

theorem mapM_map_some {α β} (f : β → Option α) (g : α → β) (l : List α) (h : ∀ a ∈ l, f (g a) = some a) :
    (l.map g).mapM f = some l := by
  induction l with
  | nil => rfl
  | cons a l ih =>
    rw [List.map_cons, List.mapM_cons, h a (by simp), ih (fun b hb => h b (by simp [hb]))]
    rfl

/-! ### value-probability lists -/

def probItem (p : String × Bool) : Text := p.1.toList ++ '-' :: (if p.2 then ['1'] else ['0'])

theorem renderProbs_eq (ps : List (String × Bool)) : renderProbs ps = joinWith ',' (ps.map probItem) := rfl

theorem mem_probItem (p : String × Bool) (c : Char) (hc : c ∈ probItem p) :
    c ∈ p.1.toList ∨ c = '-' ∨ c = '1' ∨ c = '0' := by
  obtain ⟨nm, b⟩ := p
  unfold probItem at hc
  rcases List.mem_append.mp hc with h | h
  · exact Or.inl h
  · rcases List.mem_cons.mp h with h | h
    · exact Or.inr (Or.inl h)
    · cases b
      · have : c = '0' := by simpa using h
        exact Or.inr (Or.inr (Or.inr this))
      · have : c = '1' := by simpa using h
        exact Or.inr (Or.inr (Or.inl this))

theorem parseProb_item (p : String × Bool) (hd : '-' ∉ p.1.toList) :
    (match splitOn '-' (probItem p) with
     | [nm, w] => (parseWeight? w).map fun b => (String.ofList nm, b)
     | _ => none) = some p := by
  unfold probItem
  rw [splitOn_append_sep '-' p.1.toList _ hd]
  obtain ⟨nm, b⟩ := p
  cases b
  · have : splitOn '-' ['0'] = [['0']] := by decide
    simp only [Bool.false_eq_true, if_false, this]
    have hw : parseWeight? ['0'] = some false := by decide
    simp [hw, String.ofList_toList]
  · have : splitOn '-' ['1'] = [['1']] := by decide
    simp only [if_true, this]
    have hw : parseWeight? ['1'] = some true := by decide
    simp [hw, String.ofList_toList]

theorem parseProbs_render (ps : List (String × Bool)) (hne : ps ≠ [])
    (hn : ∀ p ∈ ps, ',' ∉ p.1.toList ∧ '-' ∉ p.1.toList) : parseProbs (renderProbs ps) = some ps := by
  unfold parseProbs
  rw [renderProbs_eq, splitOn_joinWith ',' _ (by simpa using hne)]
  · exact mapM_map_some _ probItem ps fun p hp => parseProb_item p (hn p hp).2
  · intro t ht hc
    obtain ⟨p, hp, rfl⟩ := List.mem_map.mp ht
    rcases mem_probItem p _ hc with h | h | h | h
    · exact (hn p hp).1 h
    · exact absurd h (by decide)
    · exact absurd h (by decide)
    · exact absurd h (by decide)

theorem colon_notin_renderProbs (ps : List (String × Bool)) (hn : ∀ p ∈ ps, ':' ∉ p.1.toList) :
    ':' ∉ renderProbs ps := by
  intro h
  rw [renderProbs_eq] at h
  rcases mem_joinWith _ _ _ h with h | ⟨t, ht, hc⟩
  · exact absurd h (by decide)
  · obtain ⟨p, hp, rfl⟩ := List.mem_map.mp ht
    rcases mem_probItem p _ hc with h | h | h | h
    · exact hn p hp h
    · exact absurd h (by decide)
    · exact absurd h (by decide)
    · exact absurd h (by decide)

/-! ### round trips of the gen_seq command strings -/

theorem parseMacroString_render (name : String) (levels bfact : Nat) (probs : List (String × Bool))
    (hname : ':' ∉ name.toList) (hne : probs ≠ [])
    (hp : ∀ p ∈ probs, ':' ∉ p.1.toList ∧ ',' ∉ p.1.toList ∧ '-' ∉ p.1.toList) :
    parseMacroString (renderMacro name levels bfact probs) = some (name, Macro.tree levels bfact probs) := by
  unfold parseMacroString renderMacro
  rw [splitOn_joinWith ':' _ (by simp)]
  · simp only [parseNat_renderNat, Option.bind_some,
      parseProbs_render probs hne (fun p h => ⟨(hp p h).2.1, (hp p h).2.2⟩), Option.map_some, String.ofList_toList]
  · intro t ht
    simp only [List.mem_cons, List.not_mem_nil, or_false] at ht
    rcases ht with rfl | rfl | rfl | rfl
    · exact hname
    · exact colon_notin_renderNat _
    · exact colon_notin_renderNat _
    · exact colon_notin_renderProbs probs fun p h => (hp p h).1

def edgeItem (ab : Nat × Nat) : Text := renderNat ab.1 ++ '-' :: renderNat ab.2

theorem parseEdgeItem_render (ab : Nat × Nat) : parseEdgeItem (edgeItem ab) = some ab := by
  unfold parseEdgeItem edgeItem
  rw [splitOn_append_sep '-' _ _ (dash_notin_renderNat _), splitOn_noSep '-' _ (dash_notin_renderNat _)]
  simp only [strip_renderNat, parseNat_renderNat, Option.bind_some, Option.map_some]

theorem mem_edgeItem (ab : Nat × Nat) (c : Char) (hc : c ∈ edgeItem ab) : c ≠ ':' ∧ c ≠ ',' := by
  unfold edgeItem at hc
  rcases List.mem_append.mp hc with h | h
  · exact ⟨(renderNat_plain _ _ h).1, (renderNat_plain _ _ h).2.1⟩
  · rcases List.mem_cons.mp h with h | h
    · subst h; exact ⟨by decide, by decide⟩
    · exact ⟨(renderNat_plain _ _ h).1, (renderNat_plain _ _ h).2.1⟩

theorem parseConnect_render (c : Nat × Nat × List (Nat × Nat)) (hne : c.2.2 ≠ []) :
    parseConnect (renderConnect c) = some c := by
  obtain ⟨i, j, items⟩ := c
  unfold parseConnect renderConnect
  have hitems : (fun (ab : Nat × Nat) => renderNat ab.1 ++ '-' :: renderNat ab.2) = edgeItem := rfl
  simp only [hitems]
  rw [splitOn_joinWith ':' _ (by simp)]
  · simp only [parseNat_renderNat, Option.bind_some]
    rw [splitOn_joinWith ',' _ (by simpa using hne)]
    · rw [mapM_map_some _ edgeItem items fun ab _ => parseEdgeItem_render ab]
      rfl
    · intro t ht hc
      obtain ⟨ab, _, rfl⟩ := List.mem_map.mp ht
      exact (mem_edgeItem ab _ hc).2 rfl
  · intro t ht
    simp only [List.mem_cons, List.not_mem_nil, or_false] at ht
    rcases ht with rfl | rfl | rfl
    · exact colon_notin_renderNat _
    · exact colon_notin_renderNat _
    · intro h
      rcases mem_joinWith _ _ _ h with h | ⟨t, ht, hc⟩
      · exact absurd h (by decide)
      · obtain ⟨ab, _, rfl⟩ := List.mem_map.mp ht
        exact (mem_edgeItem ab _ hc).1 rfl

theorem parseModification_render (m : Nat × String) (hn : ':' ∉ m.2.toList) :
    parseModification (renderModification m) = some m := by
  obtain ⟨s, nm⟩ := m
  unfold parseModification renderModification
  rw [splitOn_joinWith ':' _ (by simp)]
  · simp only [parseNat_renderNat, Option.map_some, String.ofList_toList]
  · intro t ht
    simp only [List.mem_cons, List.not_mem_nil, or_false] at ht
    rcases ht with rfl | rfl
    · exact colon_notin_renderNat _
    · exact hn

theorem parseTag_render (t : Nat × String × List (String × Bool)) (ha : ':' ∉ t.2.1.toList) (hne : t.2.2 ≠ [])
    (hp : ∀ p ∈ t.2.2, ':' ∉ p.1.toList ∧ ',' ∉ p.1.toList ∧ '-' ∉ p.1.toList) :
    parseTag (renderTag t) = some t := by
  obtain ⟨s, attr, probs⟩ := t
  unfold parseTag renderTag
  rw [splitOn_joinWith ':' _ (by simp)]
  · simp only [parseNat_renderNat, Option.bind_some,
      parseProbs_render probs hne (fun p h => ⟨(hp p h).2.1, (hp p h).2.2⟩), Option.map_some, String.ofList_toList]
  · intro t ht
    simp only [List.mem_cons, List.not_mem_nil, or_false] at ht
    rcases ht with rfl | rfl | rfl
    · exact colon_notin_renderNat _
    · exact ha
    · exact colon_notin_renderProbs probs fun p h => (hp p h).1

/-! ### `_add_edges`: accepted iff the indices exist; exactly one edge; everything else untouched -/

theorem addConnectEdge_some (g : SGraph) (i j a b u v : Nat) (hu : (g.findSeqid i)[a]? = some u)
    (hv : (g.findSeqid j)[b]? = some v) : addConnectEdge g i j a b = some (g.addEdge u v) := by
  unfold addConnectEdge
  have h1 : (g.findSeqid i).isEmpty = false := by
    cases h : g.findSeqid i with
    | nil => rw [h] at hu; simp at hu
    | cons _ _ => rfl
  have h2 : (g.findSeqid j).isEmpty = false := by
    cases h : g.findSeqid j with
    | nil => rw [h] at hv; simp at hv
    | cons _ _ => rfl
  simp [h1, h2, hu, hv]

theorem addConnectEdge_none (g : SGraph) (i j a b : Nat)
    (h : (g.findSeqid i)[a]? = none ∨ (g.findSeqid j)[b]? = none) : addConnectEdge g i j a b = none := by
  unfold addConnectEdge
  simp only []
  by_cases hc : ((g.findSeqid i).isEmpty || (g.findSeqid j).isEmpty) = true
  · rw [if_pos hc]
  · rw [if_neg hc]
    rcases h with h | h
    · simp [h]
    · cases (g.findSeqid i)[a]? <;> simp [h]

theorem addEdge_edges (g : SGraph) (u v : Nat) : (g.addEdge u v).edges = edgesPlus g u v := by
  unfold SGraph.addEdge edgesPlus
  split <;> rfl

theorem addEdge_hasEdge (g : SGraph) (u v : Nat) : (g.addEdge u v).hasEdge u v = true := by
  unfold SGraph.addEdge
  split
  · assumption
  · simp [SGraph.hasEdge, REdge.joins]

/-! ### file-suffix dispatch -/

theorem parserFor_cases (ext : Text) :
    (String.ofList (lowerAscii ext) = "txt" ∧ parserFor ext = some "parse_txt") ∨
    (String.ofList (lowerAscii ext) = "fasta" ∧ parserFor ext = some "parse_fasta") ∨
    (String.ofList (lowerAscii ext) = "ig" ∧ parserFor ext = some "parse_ig") ∨
    (String.ofList (lowerAscii ext) = "json" ∧ parserFor ext = some "parse_json") ∨
    (String.ofList (lowerAscii ext) ≠ "txt" ∧ String.ofList (lowerAscii ext) ≠ "fasta" ∧
      String.ofList (lowerAscii ext) ≠ "ig" ∧ String.ofList (lowerAscii ext) ≠ "json" ∧ parserFor ext = none) := by
  unfold parserFor
  generalize String.ofList (lowerAscii ext) = e
  by_cases h1 : e = "txt"
  · subst h1; exact Or.inl ⟨rfl, by decide⟩
  by_cases h2 : e = "fasta"
  · subst h2; exact Or.inr (Or.inl ⟨rfl, by decide⟩)
  by_cases h3 : e = "ig"
  · subst h3; exact Or.inr (Or.inr (Or.inl ⟨rfl, by decide⟩))
  by_cases h4 : e = "json"
  · subst h4; exact Or.inr (Or.inr (Or.inr (Or.inl ⟨rfl, by decide⟩)))
  refine Or.inr (Or.inr (Or.inr (Or.inr ⟨h1, h2, h3, h4, ?_⟩)))
  have e1 : ("txt" == e) = false := by simpa using fun h => h1 h.symm
  have e2 : ("fasta" == e) = false := by simpa using fun h => h2 h.symm
  have e3 : ("ig" == e) = false := by simpa using fun h => h3 h.symm
  have e4 : ("json" == e) = false := by simpa using fun h => h4 h.symm
  simp [SeqTables.parsers, List.find?, e1, e2, e3, e4]

end PolyplyVerif.Proofs.SeqExt
