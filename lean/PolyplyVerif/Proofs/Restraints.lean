/-
Helper lemmas for C07 (build-file restraints).  Single Mathlib modules only.
-/
import PolyplyVerif.Model.Restraints
import Mathlib.Tactic.Linarith
import Mathlib.Tactic.Ring
import Mathlib.Data.Rat.Floor
import Mathlib.Tactic.FieldSimp
import Mathlib.Tactic.Positivity
import Mathlib.Analysis.Real.Sqrt

namespace PolyplyVerif.Proofs.Restraints
open PolyplyVerif.Restraints


theorem rabs_nonneg (q : Rat) : 0 ≤ rabs q := by
  unfold rabs; split <;> linarith

theorem le_rabs (q : Rat) : q ≤ rabs q := by
  unfold rabs; split <;> linarith

theorem rabs_sub_comm (a b : Rat) : rabs (a - b) = rabs (b - a) := by
  unfold rabs; split <;> split <;> linarith

theorem nsq_sub_comm (a b : V3) : (a.sub b).nsq = (b.sub a).nsq := by
  simp only [V3.sub, V3.nsq]; ring

theorem normGt_false {s r : Rat} (h : normGt s r = false) : distLe s r := by
  simp only [normGt, Bool.or_eq_false_iff, decide_eq_false_iff_not, not_lt] at h
  exact h

theorem normLt_false {s r : Rat} (h : normLt s r = false) : distGe s r := by
  simp only [normLt, Bool.and_eq_false_iff, decide_eq_false_iff_not, not_lt] at h
  exact h

theorem normLt_true {s r : Rat} (h : normLt s r = true) : distLe s r := by
  simp only [normLt, Bool.and_eq_true, decide_eq_true_eq] at h
  exact ⟨h.1.le, h.2.le⟩

theorem normGt_true {s r : Rat} (h : normGt s r = true) : distGe s r := by
  simp only [normGt, Bool.or_eq_true, decide_eq_true_eq] at h
  rcases h with h | h
  · exact Or.inl h.le
  · exact Or.inr h.le

theorem sq_swap (a b c d : Rat) : (a - b) * (a - b) + (c - d) * (c - d) = (b - a) * (b - a) + (d - c) * (d - c) := by ring

/-! ### the comparison table (`Generated/RestraintTables.lean`, read from the source on every run)

The soundness theorems below are proved for EVERY table whose relations point the right way (`upperRel`: the
test accepts only `quantity ≤ length`; `lowerRel`: only `quantity ≥ length`), strict or not; that the table
generated from the current source is such a table is `table_sound` (`decide`).  A change of strictness in the
source keeps soundness (and changes `C07_boundary_table` / breaks the boundary theorems); a change of direction
breaks `table_sound` and with it every theorem that uses it. -/

open PolyplyVerif.RestraintTables (Cmp)

def upperRel (c : Cmp) : Prop := c = .le ∨ c = .lt
def lowerRel (c : Cmp) : Prop := c = .ge ∨ c = .gt

instance (c : Cmp) : Decidable (upperRel c) := by unfold upperRel; exact inferInstance
instance (c : Cmp) : Decidable (lowerRel c) := by unfold lowerRel; exact inferInstance

/-- every comparison of the current source points the way the property needs -/
theorem table_sound :
    upperRel RestraintTables.sphereIn ∧ lowerRel RestraintTables.sphereOut ∧
    upperRel RestraintTables.cylInRadius ∧ upperRel RestraintTables.cylInHeight ∧
    lowerRel RestraintTables.cylOutRadius ∧ lowerRel RestraintTables.cylOutHeight ∧
    upperRel RestraintTables.rectInside ∧
    upperRel RestraintTables.msUpper ∧ lowerRel RestraintTables.msLower ∧
    upperRel RestraintTables.dirAngle := by decide

theorem cmpNorm_upper {c : Cmp} (hc : upperRel c) {s r : Rat} (h : cmpNorm c s r = true) : distLe s r := by
  rcases hc with rfl | rfl
  · simp only [cmpNorm, Bool.not_eq_true'] at h; exact normGt_false h
  · simp only [cmpNorm] at h; exact normLt_true h

theorem cmpNorm_lower {c : Cmp} (hc : lowerRel c) {s r : Rat} (h : cmpNorm c s r = true) : distGe s r := by
  rcases hc with rfl | rfl
  · simp only [cmpNorm, Bool.not_eq_true'] at h; exact normLt_false h
  · simp only [cmpNorm] at h; exact normGt_true h

theorem cmpNum_upper {c : Cmp} (hc : upperRel c) {a b : Rat} (h : cmpNum c a b = true) : a ≤ b := by
  rcases hc with rfl | rfl
  · simpa [cmpNum] using h
  · have : a < b := by simpa [cmpNum] using h
    exact this.le

theorem cmpNum_lower {c : Cmp} (hc : lowerRel c) {a b : Rat} (h : cmpNum c a b = true) : b ≤ a := by
  rcases hc with rfl | rfl
  · simpa [cmpNum] using h
  · have : b < a := by simpa [cmpNum] using h
    exact this.le

theorem cmpNum_upper_false {c : Cmp} (hc : upperRel c) {a b : Rat} (h : cmpNum c a b = false) : b ≤ a := by
  rcases hc with rfl | rfl
  · have : b < a := by simpa [cmpNum] using h
    exact this.le
  · simpa [cmpNum] using h

theorem test_sound (p : V3) (r : Region) (h : r.test p = true) : regionHolds p r := by
  obtain ⟨hsi, hso, hcir, hcih, hcor, hcoh, hri, _, _, _⟩ := table_sound
  cases r with
  | sphere io c r =>
    cases io with
    | inside =>
      simp only [Region.test, inSphere] at h
      simp only [regionHolds]; rw [nsq_sub_comm]; exact cmpNorm_upper hsi h
    | outside =>
      simp only [Region.test, inSphere] at h
      simp only [regionHolds]; rw [nsq_sub_comm]; exact cmpNorm_lower hso h
    | other => simp only [regionHolds]
  | cylinder io c r h' =>
    cases io with
    | inside =>
      simp only [Region.test, inCylinder, Bool.and_eq_true] at h
      simp only [V3.sub] at h
      simp only [regionHolds]
      refine ⟨?_, ?_⟩
      · rw [sq_swap]; exact cmpNorm_upper hcir h.1
      · rw [rabs_sub_comm]; exact cmpNum_upper hcih h.2
    | outside =>
      simp only [Region.test, inCylinder, Bool.or_eq_true] at h
      simp only [V3.sub] at h
      simp only [regionHolds]
      rcases h with h | h
      · left; rw [sq_swap]; exact cmpNorm_lower hcor h
      · right; rw [rabs_sub_comm]; exact (cmpNum_lower hcoh h).trans (le_rabs _)
    | other => simp only [regionHolds]
  | rectangle io c a b e =>
    cases io with
    | inside =>
      simp only [Region.test, inRectangle, Bool.and_eq_true] at h
      simp only [V3.sub] at h
      simp only [regionHolds]
      rw [rabs_sub_comm p.x, rabs_sub_comm p.y, rabs_sub_comm p.z]
      exact ⟨cmpNum_upper hri h.1.1, cmpNum_upper hri h.1.2, cmpNum_upper hri h.2⟩
    | outside =>
      simp only [Region.test, inRectangle, Bool.not_eq_true', Bool.and_eq_false_iff] at h
      simp only [V3.sub] at h
      simp only [regionHolds]
      rw [rabs_sub_comm p.x, rabs_sub_comm p.y, rabs_sub_comm p.z]
      rcases h with (h | h) | h
      · exact Or.inl (cmpNum_upper_false hri h)
      · exact Or.inr (Or.inl (cmpNum_upper_false hri h))
      · exact Or.inr (Or.inr (cmpNum_upper_false hri h))
    | other => simp only [regionHolds]

theorem fulfill_sound (p : V3) (rs : List Region) (h : fulfill p rs = true) : ∀ r ∈ rs, regionHolds p r := by
  intro r hr
  simp only [fulfill, List.all_eq_true] at h
  exact test_sound p r (h r hr)


/-! ### direction -/

theorem cosGeB_sound {d c m : Rat} (h : cosGeB d c m = true) : cosGe d c m := by
  unfold cosGeB at h
  unfold cosGe
  split at h
  · rename_i hd
    simp only [Bool.or_eq_true, decide_eq_true_eq] at h
    exact Or.inl ⟨hd, h⟩
  · rename_i hd
    simp only [Bool.and_eq_true, decide_eq_true_eq] at h
    exact Or.inr ⟨not_le.mp hd, h.1, h.2⟩

/-- the strict form: "not (angle ≥ ref)" still gives "angle ≤ ref" -/
theorem cosGeB_neg_false {d c m : Rat} (h : cosGeB (-d) (-c) m = false) : cosGe d c m := by
  unfold cosGeB at h
  unfold cosGe
  split at h
  · rename_i hd
    simp only [Bool.or_eq_false_iff, decide_eq_false_iff_not, not_le] at h
    have hc : c < 0 := by linarith [h.1]
    have hsq : d * d < c * c * m := by
      have := h.2
      have e1 : -c * -c * m = c * c * m := by ring
      have e2 : -d * -d = d * d := by ring
      rw [e1, e2] at this; exact this
    rcases lt_or_eq_of_le (show d ≤ 0 by linarith) with hd0 | hd0
    · exact Or.inr ⟨hd0, hc, hsq.le⟩
    · exact Or.inl ⟨hd0.ge, Or.inl hc.le⟩
  · rename_i hd
    have hd0 : 0 < d := by
      have := not_le.mp hd; linarith
    simp only [Bool.and_eq_false_iff, decide_eq_false_iff_not, not_lt, not_le] at h
    refine Or.inl ⟨hd0.le, ?_⟩
    rcases h with h | h
    · left; linarith
    · right
      have e1 : -c * -c * m = c * c * m := by ring
      have e2 : -d * -d = d * d := by ring
      rw [e1, e2] at h; exact h.le

theorem angleCmpB_upper {r : Cmp} (hr : upperRel r) {d c m : Rat} (h : angleCmpB r d c m = true) : cosGe d c m := by
  rcases hr with rfl | rfl
  · exact cosGeB_sound (by simpa [angleCmpB] using h)
  · exact cosGeB_neg_false (by simpa [angleCmpB] using h)

theorem isRestricted_sound (o : RwOption) (step : V3) (h : isRestricted (some o) step = true) :
    directionHolds o step := by
  simp only [isRestricted] at h
  split at h
  · exact absurd h (by simp)
  · rename_i hs
    simp only [bne_iff_ne, ne_eq, Decidable.not_not] at hs
    exact ⟨hs, angleCmpB_upper table_sound.2.2.2.2.2.2.2.2.2 h⟩

/-! ### milestones -/

theorem milestones_sound (posOf : Nat → Option V3) (box p : V3) (rs : List DRestr)
    (h : checksMilestones posOf box p rs = true) :
    ∀ r ∈ rs, ∀ q, posOf r.ref = some q → inWindow (miSq p q box) r.lb r.ub := by
  intro r hr q hq
  simp only [checksMilestones, List.all_eq_true] at h
  have := h r hr
  rw [hq] at this
  simp only [Bool.and_eq_true] at this
  exact ⟨cmpNorm_lower table_sound.2.2.2.2.2.2.2.2.1 this.2, cmpNorm_upper table_sound.2.2.2.2.2.2.2.1 this.1⟩

/-! ### acceptance -/

theorem add_sub_cancel_v3 (a b : V3) : (a.add b).sub a = b := by
  cases a; cases b
  simp only [V3.add, V3.sub, V3.mk.injEq]
  refine ⟨by ring, by ring, by ring⟩

theorem acceptStep_parts {regions drs opt posOf box last step bend overlap}
    (h : acceptStep regions drs opt posOf box last step bend overlap = true) :
    fulfill (wrapV (last.add step) box) regions = true ∧
      checksMilestones posOf box (wrapV (last.add step) box) drs = true ∧
      isRestricted opt step = true ∧ bend = true ∧ overlap = false := by
  simp only [acceptStep, Bool.and_eq_true, Bool.not_eq_true', add_sub_cancel_v3] at h
  exact ⟨h.1.1.1.1, h.1.1.1.2, h.1.1.2, h.1.2, h.2⟩

/-! ### bounds along a path -/

theorem boundsAlong_other (l : List Nat) (k m : Nat) (ref target : Nat) (d avg tol : Rat) (h : target ∉ l) :
    ((((l.zipIdx k).filter fun (v, _) => v == target || v != ref).map fun (v, i) =>
      (v, boundAt m i (v == target) ref d avg tol)).filter fun e => e.1 == target) = [] := by
  induction l generalizing k with
  | nil => simp
  | cons a t ih =>
    have ha : a ≠ target := fun e => h (e ▸ List.mem_cons_self)
    have ht : target ∉ t := fun e => h (List.mem_cons_of_mem _ e)
    simp only [List.zipIdx_cons, List.filter_cons]
    split
    · simp only [List.map_cons, List.filter_cons, beq_iff_eq, ha, if_false]
      exact ih (k + 1) ht
    · exact ih (k + 1) ht

/-- the entries stored for the target of a path `ref :: mid ++ [target]` -/
theorem boundsAlong_target (mid : List Nat) (ref target : Nat) (d avg tol : Rat)
    (h : target ∉ ref :: mid) :
    ((boundsAlong (ref :: mid ++ [target]) ref target d avg tol).filter fun e => e.1 == target).map (·.2)
      = [⟨ref, d + tol + avg, d - tol⟩] := by
  have hcomm : d + tol + avg = avg + d + tol := by ring
  rw [hcomm]
  have hlen : (ref :: mid ++ [target]).length = mid.length + 2 := by simp
  unfold boundsAlong
  rw [hlen]
  have hz : (ref :: mid ++ [target]).zipIdx = (ref :: mid).zipIdx ++ [(target, mid.length + 1)] := by
    rw [List.zipIdx_append]; simp
  rw [hz, List.filter_append, List.map_append, List.filter_append,
    boundsAlong_other (ref :: mid) 0 (mid.length + 2) ref target d avg tol h]
  simp only [List.nil_append, List.filter_cons, beq_self_eq_true, Bool.true_or, if_true, List.filter_nil,
    List.map_cons, List.map_nil]
  simp only [boundAt, if_true]
  have hne : ((mid.length + 2 - 1 : Nat) : Rat) ≠ 0 := by
    have : (mid.length + 2 - 1 : Nat) = mid.length + 1 := by omega
    rw [this]; push_cast; positivity
  have e1 : d / ((mid.length + 2 - 1 : Nat) : Rat) * ((mid.length + 1 : Nat) : Rat) = d := by
    have : (mid.length + 2 - 1 : Nat) = mid.length + 1 := by omega
    rw [this] at hne ⊢
    field_simp
  rw [e1, one_mul]

/-! ### distance-restraint bookkeeping -/

theorem get_append_same (s : DStore) (v : Nat) (r : DRestr) : (s.append v r).get v = s.get v ++ [r] := by
  induction s with
  | nil => simp [DStore.append, DStore.get]
  | cons e t ih =>
    obtain ⟨k, l⟩ := e
    by_cases hk : k = v
    · simp [DStore.append, DStore.get, hk]
    · simp [DStore.append, DStore.get, hk, ih]

theorem get_append_other (s : DStore) (u v : Nat) (r : DRestr) (h : u ≠ v) : (s.append u r).get v = s.get v := by
  induction s with
  | nil => simp [DStore.append, DStore.get, h]
  | cons e t ih =>
    obtain ⟨k, l⟩ := e
    by_cases hk : k = u
    · subst hk; simp [DStore.append, DStore.get, h]
    · by_cases hv : k = v
      · subst hv
        have : ¬ (k = u) := hk
        simp [DStore.append, DStore.get, this]
      · simp [DStore.append, DStore.get, hk, hv, ih]

theorem foldl_append_get (es : List (Nat × DRestr)) (s : DStore) (v : Nat) :
    (es.foldl (fun s e => s.append e.1 e.2) s).get v = s.get v ++ (es.filter (fun e => e.1 == v)).map (·.2) := by
  induction es generalizing s with
  | nil => simp
  | cons e t ih =>
    simp only [List.foldl_cons, ih]
    by_cases h : e.1 = v
    · subst h; simp [get_append_same]
    · simp [get_append_other _ _ _ _ h, h]


theorem climb_shape (tree : List (Nat × Nat)) (start : Nat) (fuel v : Nat) (acc path : List Nat)
    (h : climb tree start fuel v acc = some path) : ∃ mid, path = start :: mid ++ (v :: acc) := by
  induction fuel generalizing v acc with
  | zero => simp [climb] at h
  | succ n ih =>
    simp only [climb] at h
    split at h
    · exact absurd h (by simp)
    · rename_i p hp
      split at h
      · rename_i hps
        have : p = start := by simpa using hps
        subst this
        refine ⟨[], ?_⟩
        simpa using h.symm
      · obtain ⟨mid, hm⟩ := ih p (v :: acc) h
        exact ⟨mid ++ [p], by simp [hm]⟩

theorem pathFrom_shape (tree : List (Nat × Nat)) (start node : Nat) (path : List Nat)
    (h : pathFrom tree start node = some path) : ∃ mid, path = start :: mid ++ [node] :=
  climb_shape tree start _ node [] path h

/-- what `set_distance_restraint` stores on the later-placed end of the restrained pair -/
theorem setDistanceRestraint_target (tree : List (Nat × Nat)) (store store' : DStore) (target ref : Nat)
    (d avg tol : Rat) (h : setDistanceRestraint tree store target ref d avg tol = .ok store') :
    ∃ r t mid, ((r = ref ∧ t = target) ∨ (r = target ∧ t = ref)) ∧
      pathFrom tree r t = some (r :: mid ++ [t]) ∧
      (t ∉ r :: mid → store'.get t = store.get t ++ [⟨r, d + tol + avg, d - tol⟩]) := by
  unfold setDistanceRestraint at h
  split at h
  · exact absurd h (by simp)
  · rename_i anc _
    have key : ∀ r t, (match pathFrom tree r t with
        | none => (Except.error "crash" : Except String DStore)
        | some path => .ok ((boundsAlong path r t d avg tol).foldl (fun (s : DStore) (e : Nat × DRestr) => s.append e.1 e.2) store)) = .ok store' →
        ∃ mid, pathFrom tree r t = some (r :: mid ++ [t]) ∧
          (t ∉ r :: mid → store'.get t = store.get t ++ [⟨r, d + tol + avg, d - tol⟩]) := by
      intro r t hk
      split at hk
      · exact absurd hk (by simp)
      · rename_i path hp
        obtain ⟨mid, hm⟩ := pathFrom_shape tree r t path hp
        subst hm
        refine ⟨mid, hp, ?_⟩
        intro hnot
        have : store' = (boundsAlong (r :: mid ++ [t]) r t d avg tol).foldl (fun s e => s.append e.1 e.2) store := by
          simpa using hk.symm
        rw [this, foldl_append_get, boundsAlong_target mid r t d avg tol hnot]
    by_cases h1 : (anc == target) = true
    · simp only [h1, if_true] at h
      obtain ⟨mid, hp, hs⟩ := key target ref h
      exact ⟨target, ref, mid, Or.inr ⟨rfl, rfl⟩, hp, hs⟩
    · by_cases h2 : (anc != ref) = true
      · simp [h1, h2] at h
      · simp only [h1, h2] at h
        obtain ⟨mid, hp, hs⟩ := key ref target h
        exact ⟨ref, target, mid, Or.inl ⟨rfl, rfl⟩, hp, hs⟩


/-! ### end-to-end sampling grid -/


theorem ceilInt_eq (q : Rat) : ceilInt q = ⌈q⌉ := by
  unfold ceilInt
  have : (-q).floor = ⌊-q⌋ := rfl
  rw [this, Int.floor_neg, neg_neg]

theorem eeCandidates_range (avg contour : Rat) (h : 0 < avg) :
    ∀ x ∈ eeCandidates avg contour, ∃ k : Nat, 1 ≤ k ∧ x = (k : Rat) * avg ∧ eeInRange avg contour x := by
  intro x hx
  simp only [eeCandidates, arange, List.mem_map, List.mem_range] at hx
  obtain ⟨i, hi, rfl⟩ := hx
  refine ⟨i + 1, by omega, by push_cast; ring, ?_, ?_⟩
  · have : (0 : Rat) ≤ (i : Rat) * avg := by positivity
    linarith
  · rw [ceilInt_eq] at hi
    have h1 : (i : Int) < ⌈(contour - avg) / avg⌉ := by omega
    have h2 : ((i : Int) : Rat) < (contour - avg) / avg := Int.lt_ceil.mp h1
    have h3 : ((i : Int) : Rat) * avg < contour - avg := by
      rwa [lt_div_iff₀ h] at h2
    have h4 : ((i : Int) : Rat) = (i : Rat) := by norm_cast
    rw [h4] at h3
    linarith


/-! ### average step length, contour length, registration of restraints -/

theorem foldl_add_eq_sum {α : Type} (f : α → Rat) (l : List α) (a : Rat) :
    l.foldl (fun acc e => acc + f e) a = a + (l.map f).sum := by
  induction l generalizing a with
  | nil => simp
  | cons x t ih => simp only [List.foldl_cons, ih, List.map_cons, List.sum_cons]; ring

/-- the contour length is the sum of the pair sizes over the path edges -/
theorem pathLength_eq_sum (size : Nat → Nat → Rat) (path : List (Nat × Nat)) :
    pathLength size path = (path.map fun e => size e.1 e.2).sum := by
  unfold pathLength
  rw [foldl_add_eq_sum (fun e : Nat × Nat => size e.1 e.2)]; ring

theorem sum_bounds (l : List Rat) (lo hi : Rat) (h : ∀ x ∈ l, lo ≤ x ∧ x ≤ hi) :
    (l.length : Rat) * lo ≤ l.sum ∧ l.sum ≤ (l.length : Rat) * hi := by
  induction l with
  | nil => simp
  | cons x t ih =>
    have hx := h x (by simp)
    have ht := ih (fun y hy => h y (by simp [hy]))
    simp only [List.length_cons, List.sum_cons]
    push_cast
    constructor <;> nlinarith [ht.1, ht.2, hx.1, hx.2]

/-- `compute_avg_step_length`: the average is the mean of the pair sizes over the edges of the path -/
theorem computeAvg_spec (size : Nat → Nat → Rat) (path : List (Nat × Nat)) (a c : Rat)
    (h : computeAvgStepLength size path = some (a, c)) :
    path ≠ [] ∧ c = (path.map fun e => size e.1 e.2).sum ∧ a * (path.length : Rat) = c ∧
      a = c / (path.length : Rat) := by
  unfold computeAvgStepLength at h
  cases path with
  | nil => simp at h
  | cons e t =>
    simp only [Option.some.injEq, Prod.mk.injEq] at h
    obtain ⟨ha, hc⟩ := h
    have hlen : ((e :: t).length : Rat) ≠ 0 := by
      simp only [List.length_cons]; push_cast; positivity
    refine ⟨by simp, ?_, ?_, ?_⟩
    · rw [← hc, pathLength_eq_sum]
    · rw [← ha, ← hc]; field_simp
    · rw [← ha, ← hc]

theorem computeAvg_between (size : Nat → Nat → Rat) (path : List (Nat × Nat)) (a c lo hi : Rat)
    (h : computeAvgStepLength size path = some (a, c))
    (hb : ∀ e ∈ path, lo ≤ size e.1 e.2 ∧ size e.1 e.2 ≤ hi) : lo ≤ a ∧ a ≤ hi := by
  obtain ⟨hne, hc, hmul, _⟩ := computeAvg_spec size path a c h
  have hlen : (0 : Rat) < (path.length : Rat) := by
    have : 0 < path.length := List.length_pos_iff.mpr hne
    exact_mod_cast this
  have hs := sum_bounds (path.map fun e => size e.1 e.2) lo hi (by
    intro x hx
    simp only [List.mem_map] at hx
    obtain ⟨e, he, rfl⟩ := hx
    exact hb e he)
  rw [List.length_map, ← hc, ← hmul] at hs
  constructor
  · by_contra hlt
    have := not_le.mp hlt
    nlinarith [hs.1]
  · by_contra hlt
    have := not_le.mp hlt
    nlinarith [hs.2]

/-- one step is at most the contour length when no pair size is negative -/
theorem computeAvg_le_contour (size : Nat → Nat → Rat) (path : List (Nat × Nat)) (a c : Rat)
    (h : computeAvgStepLength size path = some (a, c)) (hb : ∀ e ∈ path, 0 ≤ size e.1 e.2) : 0 ≤ a ∧ a ≤ c := by
  obtain ⟨hne, hc, hmul, _⟩ := computeAvg_spec size path a c h
  have hlen : (1 : Rat) ≤ (path.length : Rat) := by
    have : 1 ≤ path.length := List.length_pos_iff.mpr hne
    exact_mod_cast this
  have hs := sum_bounds (path.map fun e => size e.1 e.2) 0 c (by
    intro x hx
    simp only [List.mem_map] at hx
    obtain ⟨e, he, rfl⟩ := hx
    refine ⟨hb e he, ?_⟩
    rw [hc]
    exact List.single_le_sum (by
      intro y hy
      simp only [List.mem_map] at hy
      obtain ⟨e', he', rfl⟩ := hy
      exact hb e' he') _ (List.mem_map.mpr ⟨e, he, rfl⟩))
  have h0 : 0 ≤ c := by
    have := hs.1; simp only [mul_zero] at this; rw [hc]; exact this
  have ha0 : 0 ≤ a := by
    by_contra hlt
    have := not_le.mp hlt
    nlinarith
  exact ⟨ha0, by nlinarith⟩

/-- the candidate grid of a stretch of `n` equal steps: exactly `avg, 2·avg, …, (n−1)·avg` -/
theorem eeCandidates_uniform (avg : Rat) (n : Nat) (h : 0 < avg) :
    eeCandidates avg ((n : Rat) * avg) = (List.range (n - 1)).map fun (i : Nat) => avg + (i : Rat) * avg := by
  unfold eeCandidates arange
  have hq : ((n : Rat) * avg - avg) / avg = (n : Rat) - 1 := by field_simp
  rw [hq, ceilInt_eq]
  have : (⌈(n : Rat) - 1⌉).toNat = n - 1 := by
    have : (n : Rat) - 1 = ((n : Int) - 1 : Int) := by push_cast; ring
    rw [this, Int.ceil_intCast]
    omega
  rw [this]

/-- `set_distance_restraint` only appends entries: what a node carries stays -/
theorem setDistanceRestraint_mono (tree : List (Nat × Nat)) (store store' : DStore) (target ref : Nat)
    (d avg tol : Rat) (h : setDistanceRestraint tree store target ref d avg tol = .ok store') (v : Nat) :
    ∃ extra, store'.get v = store.get v ++ extra := by
  unfold setDistanceRestraint at h
  split at h
  · exact absurd h (by simp)
  · rename_i anc _
    have key : ∀ r t, (match pathFrom tree r t with
        | none => (Except.error "crash" : Except String DStore)
        | some path => .ok ((boundsAlong path r t d avg tol).foldl (fun (s : DStore) (e : Nat × DRestr) => s.append e.1 e.2) store)) = .ok store' →
        ∃ extra, store'.get v = store.get v ++ extra := by
      intro r t hk
      split at hk
      · exact absurd hk (by simp)
      · rename_i path hp
        have : store' = (boundsAlong path r t d avg tol).foldl (fun s e => s.append e.1 e.2) store := by
          simpa using hk.symm
        rw [this, foldl_append_get]
        exact ⟨_, rfl⟩
    by_cases h1 : (anc == target) = true
    · simp only [h1, if_true] at h
      exact key target ref h
    · by_cases h2 : (anc != ref) = true
      · simp [h1, h2] at h
      · simp only [h1, h2] at h
        exact key ref target h

/-- `set_restraints`: every declared restraint is registered with the mean pair size over ALL tree edges, and
its entry on the later-placed end survives the registration of the other restraints -/
theorem setRestraints_entries (tree : List (Nat × Nat)) (size : Nat → Nat → Rat) (ds : List Declared) :
    ∀ (store store' : DStore), setRestraints tree size store ds = .ok store' →
    (∀ v, ∃ extra, store'.get v = store.get v ++ extra) ∧
    ∀ r ∈ ds, ∃ avg c rr tt mid, computeAvgStepLength size tree = some (avg, c) ∧
      ((rr = r.ref ∧ tt = r.target) ∨ (rr = r.target ∧ tt = r.ref)) ∧
      pathFrom tree rr tt = some (rr :: mid ++ [tt]) ∧
      (tt ∉ rr :: mid → (⟨rr, r.d + r.tol + avg, r.d - r.tol⟩ : DRestr) ∈ store'.get tt) := by
  induction ds with
  | nil =>
    intro store store' h
    simp only [setRestraints, Except.ok.injEq] at h
    subst h
    exact ⟨fun v => ⟨[], by simp⟩, by simp⟩
  | cons r0 rest ih =>
    intro store store' h
    simp only [setRestraints] at h
    split at h
    · exact absurd h (by simp)
    · rename_i avg c havg
      split at h
      · exact absurd h (by simp)
      · rename_i store1 h1
        obtain ⟨hmono, hrest⟩ := ih store1 store' h
        refine ⟨fun v => ?_, ?_⟩
        · obtain ⟨e1, he1⟩ := setDistanceRestraint_mono tree store store1 _ _ _ _ _ h1 v
          obtain ⟨e2, he2⟩ := hmono v
          exact ⟨e1 ++ e2, by rw [he2, he1, List.append_assoc]⟩
        · intro r hr
          rcases List.mem_cons.mp hr with rfl | hr
          · obtain ⟨rr, tt, mid, hrt, hp, hs⟩ := setDistanceRestraint_target tree store store1 _ _ _ _ _ h1
            refine ⟨avg, c, rr, tt, mid, havg, hrt, hp, fun hnd => ?_⟩
            obtain ⟨e2, he2⟩ := hmono tt
            rw [he2, hs hnd]
            simp
          · exact hrest r hr

/-- `sample_end_to_end_distances`, one batch: what is computed and who receives which sample -/
theorem sampleBatch_spec (tree : List (Nat × Nat)) (size : Nat → Nat → Rat) (start stop : Nat)
    (molIdxs : List Nat) (samples : List Rat) (avg contour : Rat) (calls : List EeCall)
    (h : sampleBatch tree size start stop molIdxs samples = some (avg, contour, calls)) :
    ∃ mid, pathFrom tree start stop = some (start :: mid ++ [stop]) ∧
      computeAvgStepLength size (edgePath (start :: mid ++ [stop])) = some (avg, contour) ∧
      calls.length = min molIdxs.length samples.length ∧
      ∀ k (hk : k < calls.length), ∃ (h1 : k < molIdxs.length) (h2 : k < samples.length),
        calls[k] = ⟨molIdxs[k], stop, start, samples[k], avg⟩ := by
  unfold sampleBatch at h
  split at h
  · exact absurd h (by simp)
  · split at h
    · exact absurd h (by simp)
    · rename_i path hp
      split at h
      · exact absurd h (by simp)
      · rename_i a c hac
        simp only [Option.some.injEq, Prod.mk.injEq] at h
        obtain ⟨rfl, rfl, rfl⟩ := h
        obtain ⟨mid, rfl⟩ := pathFrom_shape tree start stop path hp
        refine ⟨mid, hp, hac, by simp, ?_⟩
        intro k hk
        simp only [List.length_map, List.length_zip] at hk
        refine ⟨by omega, by omega, ?_⟩
        simp

theorem edgePath_length (l : List Nat) : (edgePath l).length = l.length - 1 := by
  induction l with
  | nil => simp [edgePath]
  | cons a t ih =>
    cases t with
    | nil => simp [edgePath]
    | cons b rest =>
      simp only [edgePath, List.length_cons] at ih ⊢
      omega


/-! ### depth-first traversal of a ring -/


/-- edges of the path through the listed nodes -/
def chainEdges : List Nat → List (Nat × Nat)
  | a :: b :: rest => (a, b) :: chainEdges (b :: rest)
  | _ => []

def frameCost : List (Nat × List Nat) → Nat
  | [] => 0
  | f :: rest => f.2.length + 1 + frameCost rest

theorem step_skip (nb : Nat → List Nat) (f p c : Nat) (cs : List Nat) (rest visited out)
    (h : c ∈ visited) :
    dfsRun nb (f + 1) ⟨(p, c :: cs) :: rest, visited, out⟩ = dfsRun nb f ⟨(p, cs) :: rest, visited, out⟩ := by
  simp [dfsRun, dfsStep, h]

theorem step_push (nb : Nat → List Nat) (f p c : Nat) (cs : List Nat) (rest visited out)
    (h : c ∉ visited) :
    dfsRun nb (f + 1) ⟨(p, c :: cs) :: rest, visited, out⟩ =
      dfsRun nb f ⟨(c, nb c) :: (p, cs) :: rest, c :: visited, (p, c) :: out⟩ := by
  simp [dfsRun, dfsStep, h]

theorem step_pop (nb : Nat → List Nat) (f p : Nat) (rest visited out) :
    dfsRun nb (f + 1) ⟨(p, []) :: rest, visited, out⟩ = dfsRun nb f ⟨rest, visited, out⟩ := by
  simp [dfsRun, dfsStep]

theorem dfs_unwind (nb : Nat → List Nat) (fuel : Nat) (stack : List (Nat × List Nat)) (visited : List Nat)
    (out : List (Nat × Nat)) (hv : ∀ f ∈ stack, ∀ c ∈ f.2, c ∈ visited) (hf : frameCost stack ≤ fuel) :
    (dfsRun nb fuel ⟨stack, visited, out⟩).out = out := by
  induction fuel generalizing stack with
  | zero =>
    cases stack with
    | nil => simp [dfsRun]
    | cons f rest => simp [frameCost] at hf
  | succ n ih =>
    cases stack with
    | nil => simp [dfsRun]
    | cons f rest =>
      obtain ⟨p, cs⟩ := f
      cases cs with
      | nil =>
        rw [step_pop]
        apply ih
        · intro f hf'; exact hv f (List.mem_cons_of_mem _ hf')
        · simp [frameCost] at hf; omega
      | cons c cs =>
        have hc : c ∈ visited := hv (p, c :: cs) List.mem_cons_self c List.mem_cons_self
        rw [step_skip _ _ _ _ _ _ _ _ hc]
        apply ih
        · intro f hf' c' hc'
          rcases List.mem_cons.mp hf' with h | h
          · subst h; exact hv (p, c :: cs) List.mem_cons_self c' (List.mem_cons_of_mem _ hc')
          · exact hv f (List.mem_cons_of_mem _ h) c' hc'
        · simp [frameCost] at hf ⊢; omega

theorem chainEdges_range'_succ (k j : Nat) :
    chainEdges (List.range' k (j + 2)) = (k, k + 1) :: chainEdges (List.range' (k + 1) (j + 1)) := by
  simp [List.range'_succ, chainEdges]

theorem dfs_ring_from (n j : Nat) : ∀ (k : Nat) (frames : List (Nat × List Nat)) (visited : List Nat)
    (out : List (Nat × Nat)) (fuel : Nat),
    k + j + 1 = n → 1 ≤ k →
    (∀ i, i ≤ k → i ∈ visited) → (∀ i, k < i → i ∉ visited) →
    (∀ f ∈ frames, ∀ c ∈ f.2, c < n) →
    3 * (j + 1) + frameCost frames ≤ fuel →
    (dfsRun (ringNbrs n) fuel ⟨(k, ringNbrs n k) :: frames, visited, out⟩).out
      = (chainEdges (List.range' k (j + 1))).reverse ++ out := by
  induction j with
  | zero =>
    intro k frames visited out fuel hk h1 hin hout hfr hfuel
    obtain ⟨f, rfl⟩ : ∃ f, fuel = f + 3 := ⟨fuel - 3, by omega⟩
    have hnb : ringNbrs n k = [0, k - 1] := by
      unfold ringNbrs; rw [if_neg (by omega), if_pos (by omega)]
    rw [hnb, step_skip _ _ _ _ _ _ _ _ (hin 0 (by omega)), step_skip _ _ _ _ _ _ _ _ (hin (k - 1) (by omega)),
      step_pop]
    rw [dfs_unwind]
    · simp [chainEdges, List.range'_succ]
    · intro f' hf' c hc
      exact hin c (by have := hfr f' hf' c hc; omega)
    · omega
  | succ j ih =>
    intro k frames visited out fuel hk h1 hin hout hfr hfuel
    obtain ⟨f, rfl⟩ : ∃ f, fuel = f + 2 := ⟨fuel - 2, by omega⟩
    have hnb : ringNbrs n k = [k - 1, k + 1] := by
      unfold ringNbrs; rw [if_neg (by omega), if_neg (by omega)]
    rw [hnb, step_skip _ _ _ _ _ _ _ _ (hin (k - 1) (by omega)), step_push _ _ _ _ _ _ _ _ (hout (k + 1) (by omega))]
    rw [ih (k + 1) ((k, []) :: frames) ((k + 1) :: visited) ((k, k + 1) :: out) f (by omega) (by omega)]
    · rw [chainEdges_range'_succ k j]; simp
    · intro i hi
      rcases Nat.lt_or_ge i (k + 1) with h | h
      · exact List.mem_cons_of_mem _ (hin i (by omega))
      · have : i = k + 1 := by omega
        subst this; exact List.mem_cons_self
    · intro i hi hmem
      rcases List.mem_cons.mp hmem with h | h
      · omega
      · exact hout i (by omega) h
    · intro f' hf' c hc
      rcases List.mem_cons.mp hf' with h | h
      · subst h; simp at hc
      · exact hfr f' h c hc
    · simp [frameCost]; omega

/-- the depth-first traversal of a ring of `n ≥ 3` residues from residue 0 is the Hamiltonian path -/
theorem dfsEdges_ring (n fuel : Nat) (hn : 3 ≤ n) (hf : 3 * n ≤ fuel) :
    dfsEdges (ringNbrs n) fuel 0 = chainEdges (List.range' 0 n) := by
  unfold dfsEdges
  obtain ⟨f, rfl⟩ : ∃ f, fuel = f + 1 := ⟨fuel - 1, by omega⟩
  have hnb : ringNbrs n 0 = [1, n - 1] := by simp [ringNbrs]
  rw [hnb, step_push _ _ _ _ _ _ _ _ (by simp : (1 : Nat) ∉ [0])]
  rw [dfs_ring_from n (n - 2) 1 [(0, [n - 1])] [1, 0] [(0, 1)] f (by omega) (by omega)]
  · obtain ⟨m, rfl⟩ : ∃ m, n = m + 3 := ⟨n - 3, by omega⟩
    have : m + 3 - 2 + 1 = m + 2 := by omega
    rw [this]
    have e : List.range' 0 (m + 3) = 0 :: List.range' 1 (m + 2) := by simp [List.range'_succ]
    rw [e]
    have e2 : List.range' 1 (m + 2) = 1 :: List.range' 2 (m + 1) := by simp [List.range'_succ]
    rw [e2]
    simp [chainEdges]
  · intro i hi
    rcases Nat.eq_zero_or_pos i with h | h
    · subst h; simp
    · have : i = 1 := by omega
      subst this; simp
  · intro i hi hmem
    simp at hmem; omega
  · intro f' hf' c hc
    simp at hf'; subst hf'; simp at hc; omega
  · simp [frameCost]; omega


/-! ### `list(T.edges)` of a path-shaped tree is the path -/

def nodeStep (acc : List Nat) (e : Nat × Nat) : List Nat :=
  let acc := if acc.contains e.1 then acc else e.1 :: acc
  if acc.contains e.2 then acc else e.2 :: acc

theorem treeNodes_eq (root : Nat) (edges : List (Nat × Nat)) :
    treeNodes root edges = (edges.foldl nodeStep [root]).reverse := rfl

theorem foldl_nodeStep_chain (rest : List Nat) : ∀ (b : Nat) (acc : List Nat), b ∈ acc →
    (∀ x ∈ rest, x ∉ acc) → (b :: rest).Nodup →
    (chainEdges (b :: rest)).foldl nodeStep acc = rest.reverse ++ acc := by
  induction rest with
  | nil => intro b acc _ _ _; simp [chainEdges]
  | cons c rest ih =>
    intro b acc hb hrest hnd
    have hc : c ∉ acc := hrest c List.mem_cons_self
    have hnd' : (c :: rest).Nodup := (List.nodup_cons.mp hnd).2
    have hcr : c ∉ rest := (List.nodup_cons.mp hnd').1
    simp only [chainEdges, List.foldl_cons]
    have hs : nodeStep acc (b, c) = c :: acc := by
      simp [nodeStep, hb, hc]
    rw [hs, ih c (c :: acc) List.mem_cons_self _ hnd']
    · simp
    · intro x hx hmem
      rcases List.mem_cons.mp hmem with h | h
      · subst h; exact hcr hx
      · exact hrest x (List.mem_cons_of_mem _ hx) h

theorem treeNodes_chain (b : Nat) (rest : List Nat) (hnd : (b :: rest).Nodup) :
    treeNodes b (chainEdges (b :: rest)) = b :: rest := by
  rw [treeNodes_eq, foldl_nodeStep_chain rest b [b] List.mem_cons_self _ hnd]
  · simp
  · intro x hx hmem
    have : x = b := by simpa using hmem
    subst this
    exact (List.nodup_cons.mp hnd).1 hx

theorem chainEdges_src_mem (vs : List Nat) : ∀ e ∈ chainEdges vs, e.1 ∈ vs := by
  induction vs with
  | nil => simp [chainEdges]
  | cons a t ih =>
    cases t with
    | nil => simp [chainEdges]
    | cons b rest =>
      intro e he
      simp only [chainEdges, List.mem_cons] at he
      rcases he with h | h
      · subst h; simp
      · exact List.mem_cons_of_mem _ (ih e h)

theorem flatMap_congr' {α β : Type} (l : List α) (f g : α → List β) (h : ∀ v ∈ l, f v = g v) :
    l.flatMap f = l.flatMap g := by
  induction l with
  | nil => rfl
  | cons a t ih =>
    rw [List.flatMap_cons, List.flatMap_cons, h a List.mem_cons_self,
      ih (fun v hv => h v (List.mem_cons_of_mem _ hv))]

theorem flatMap_filter_chain (vs : List Nat) (hnd : vs.Nodup) :
    vs.flatMap (fun v => (chainEdges vs).filter fun e => e.1 == v) = chainEdges vs := by
  induction vs with
  | nil => simp [chainEdges]
  | cons a t ih =>
    cases t with
    | nil => simp [chainEdges]
    | cons b rest =>
      have hat : a ∉ b :: rest := (List.nodup_cons.mp hnd).1
      have hnd' : (b :: rest).Nodup := (List.nodup_cons.mp hnd).2
      rw [List.flatMap_cons]
      have h1 : ((chainEdges (a :: b :: rest)).filter fun e => e.1 == a) = [(a, b)] := by
        simp only [chainEdges, List.filter_cons, beq_self_eq_true, if_true]
        congr 1
        rw [List.filter_eq_nil_iff]
        intro e he
        have := chainEdges_src_mem _ e he
        simp only [beq_iff_eq]
        intro h; rw [h] at this; exact hat this
      have h2 : (b :: rest).flatMap (fun v => (chainEdges (a :: b :: rest)).filter fun e => e.1 == v)
          = (b :: rest).flatMap (fun v => (chainEdges (b :: rest)).filter fun e => e.1 == v) := by
        apply flatMap_congr'
        intro v hv
        have : a ≠ v := fun h => hat (h ▸ hv)
        simp [chainEdges, this]
      rw [h1, h2, ih hnd']
      simp [chainEdges]

theorem treeEdgeList_chain (b : Nat) (rest : List Nat) (hnd : (b :: rest).Nodup) :
    treeEdgeList b (chainEdges (b :: rest)) = chainEdges (b :: rest) := by
  unfold treeEdgeList
  rw [treeNodes_chain b rest hnd]
  exact flatMap_filter_chain (b :: rest) hnd

theorem chainEdges_getLast (j : Nat) : ∀ k, (chainEdges (List.range' k (j + 2))).getLast? = some (k + j, k + j + 1) := by
  induction j with
  | zero => intro k; simp [List.range'_succ, chainEdges]
  | succ j ih =>
    intro k
    rw [chainEdges_range'_succ]
    have := ih (k + 1)
    rw [chainEdges_range'_succ] at this ⊢
    rw [List.getLast?_cons_cons]
    rw [this]
    congr 2 <;> omega

/-- `list(search_tree.edges)` of a ring grown depth first from residue 0, and the pair restrained by
`_initialize_cylces` -/
theorem ring_dfs_tree (n : Nat) (hn : 3 ≤ n) :
    ringTree "dfs_tree" n = chainEdges (List.range' 0 n) ∧
    closingPair (ringTree "dfs_tree" n) = some (0, n - 1) := by
  have h0 : ringTree "dfs_tree" n = chainEdges (List.range' 0 n) := by
    unfold ringTree searchTreeEdges
    rw [if_pos (by decide), dfsEdges_ring n _ hn (by omega)]
    obtain ⟨m, rfl⟩ : ∃ m, n = m + 1 := ⟨n - 1, by omega⟩
    rw [List.range'_succ]
    exact treeEdgeList_chain 0 _ (by rw [← List.range'_succ]; exact List.nodup_range')
  refine ⟨h0, ?_⟩
  rw [h0]
  obtain ⟨m, rfl⟩ : ∃ m, n = m + 3 := ⟨n - 3, by omega⟩
  unfold closingPair
  rw [chainEdges_getLast (m + 1) 0]
  simp [List.range'_succ, chainEdges]


/-! ### depth-first traversal of an arbitrary cycle -/

/-- `nb x` lists exactly the two cycle neighbours `p` and `s` of `x`, in either order -/
def okNbrs (nb : Nat → List Nat) (p x s : Nat) : Prop := nb x = [p, s] ∨ nb x = [s, p]

/-- every node of the remaining arc `x :: suf` has its predecessor and successor on the cycle as its
two neighbours; the successor of the last node is the root `v0` -/
def chainOk (nb : Nat → List Nat) (v0 : Nat) : Nat → List Nat → Prop
  | _, [] => True
  | p, [x] => okNbrs nb p x v0
  | p, x :: y :: rest => okNbrs nb p x y ∧ chainOk nb v0 x (y :: rest)

theorem dfs_cycle_from (nb : Nat → List Nat) (v0 : Nat) (suf : List Nat) :
    ∀ (pre : List Nat) (p x : Nat) (frames : List (Nat × List Nat)) (visited : List Nat)
      (out : List (Nat × Nat)) (fuel : Nat),
    p ∈ pre → v0 ∈ pre → chainOk nb v0 p (x :: suf) → (x :: suf).Nodup →
    (∀ y ∈ pre ++ [x], y ∈ visited) → (∀ y ∈ suf, y ∉ visited) →
    (∀ f ∈ frames, ∀ c ∈ f.2, c ∈ pre ++ [x] ++ suf) →
    3 * (suf.length + 1) + frameCost frames ≤ fuel →
    (dfsRun nb fuel ⟨(x, nb x) :: frames, visited, out⟩).out = (chainEdges (x :: suf)).reverse ++ out := by
  induction suf with
  | nil =>
    intro pre p x frames visited out fuel hp hv0 hok _ hin _ hfr hfuel
    obtain ⟨f, rfl⟩ : ∃ f, fuel = f + 3 := ⟨fuel - 3, by simp at hfuel; omega⟩
    have hpv : p ∈ visited := hin p (List.mem_append_left _ hp)
    have hvv : v0 ∈ visited := hin v0 (List.mem_append_left _ hv0)
    have hrun : dfsRun nb (f + 3) ⟨(x, nb x) :: frames, visited, out⟩ = dfsRun nb f ⟨frames, visited, out⟩ := by
      rcases hok with h | h
      · rw [h, step_skip _ _ _ _ _ _ _ _ hpv, step_skip _ _ _ _ _ _ _ _ hvv, step_pop]
      · rw [h, step_skip _ _ _ _ _ _ _ _ hvv, step_skip _ _ _ _ _ _ _ _ hpv, step_pop]
    rw [hrun, dfs_unwind]
    · simp [chainEdges]
    · intro f' hf' c hc
      have := hfr f' hf' c hc
      simp only [List.append_nil] at this
      exact hin c this
    · simp at hfuel; omega
  | cons y rest ih =>
    intro pre p x frames visited out fuel hp hv0 hok hnd hin hout hfr hfuel
    obtain ⟨hokx, hokrest⟩ := hok
    have hpv : p ∈ visited := hin p (List.mem_append_left _ hp)
    have hyv : y ∉ visited := hout y List.mem_cons_self
    have hnd' : (y :: rest).Nodup := (List.nodup_cons.mp hnd).2
    have hxy : x ∉ y :: rest := (List.nodup_cons.mp hnd).1
    have hyr : y ∉ rest := (List.nodup_cons.mp hnd').1
    simp only [List.length_cons] at hfuel
    -- the common continuation
    have key : ∀ (f : Nat) (left : List Nat), (∀ c ∈ left, c ∈ pre) → 3 * (rest.length + 1) + (left.length + 1 + frameCost frames) ≤ f →
        (dfsRun nb f ⟨(y, nb y) :: (x, left) :: frames, y :: visited, (x, y) :: out⟩).out
          = (chainEdges (x :: y :: rest)).reverse ++ out := by
      intro f left hleft hf
      rw [ih (pre ++ [x]) x y ((x, left) :: frames) (y :: visited) ((x, y) :: out) f
        (by simp) (List.mem_append_left _ hv0) hokrest hnd']
      · simp [chainEdges]
      · intro z hz
        rcases List.mem_append.mp hz with h | h
        · exact List.mem_cons_of_mem _ (hin z h)
        · have : z = y := by simpa using h
          subst this; exact List.mem_cons_self
      · intro z hz hmem
        rcases List.mem_cons.mp hmem with h | h
        · subst h; exact hyr hz
        · exact hout z (List.mem_cons_of_mem _ hz) h
      · intro f' hf' c hc
        rcases List.mem_cons.mp hf' with h | h
        · subst h
          have := hleft c hc
          simp [this]
        · have := hfr f' h c hc
          simp only [List.mem_append, List.mem_cons, List.not_mem_nil, or_false] at this ⊢
          tauto
      · simp only [frameCost]; omega
    rcases hokx with h | h
    · obtain ⟨f, rfl⟩ : ∃ f, fuel = f + 2 := ⟨fuel - 2, by omega⟩
      rw [h, step_skip _ _ _ _ _ _ _ _ hpv, step_push _ _ _ _ _ _ _ _ hyv]
      exact key f [] (by simp) (by simp; omega)
    · obtain ⟨f, rfl⟩ : ∃ f, fuel = f + 1 := ⟨fuel - 1, by omega⟩
      rw [h, step_push _ _ _ _ _ _ _ _ hyv]
      exact key f [p] (by simpa using hp) (by simp; omega)

/-- Depth-first traversal of ANY cycle: nodes `v0 :: v1 :: rest` listed around the cycle from the root
`v0` in the direction of the root's first neighbour `v1`, every node having exactly its two cycle
neighbours in either adjacency order.  The traversal is the Hamiltonian path along the listing. -/
theorem dfsEdges_cycle (nb : Nat → List Nat) (v0 v1 : Nat) (rest : List Nat) (last : Nat) (fuel : Nat)
    (hnd : (v0 :: v1 :: rest).Nodup) (h0 : nb v0 = [v1, last]) (hlast : last ∈ v1 :: rest)
    (hok : chainOk nb v0 v0 (v1 :: rest)) (hf : 3 * (rest.length + 2) ≤ fuel) :
    dfsEdges nb fuel v0 = chainEdges (v0 :: v1 :: rest) := by
  unfold dfsEdges
  obtain ⟨f, rfl⟩ : ∃ f, fuel = f + 1 := ⟨fuel - 1, by omega⟩
  have hv1 : v1 ∉ [v0] := by
    have := (List.nodup_cons.mp hnd).1
    simp only [List.mem_cons, not_or] at this
    simp; exact fun h => this.1 h.symm
  rw [h0, step_push _ _ _ _ _ _ _ _ hv1]
  rw [dfs_cycle_from nb v0 rest [v0] v0 v1 [(v0, [last])] [v1, v0] [(v0, v1)] f (by simp) (by simp) hok
    (List.nodup_cons.mp hnd).2]
  · simp [chainEdges]
  · intro y hy; simp at hy; rcases hy with h | h <;> simp [h]
  · intro y hy hmem
    have h1 := (List.nodup_cons.mp hnd).1
    have h2 := (List.nodup_cons.mp (List.nodup_cons.mp hnd).2).1
    simp only [List.mem_cons, List.not_mem_nil, or_false] at hmem
    rcases hmem with h | h
    · subst h; exact h2 hy
    · subst h; exact h1 (List.mem_cons_of_mem _ hy)
  · intro f' hf' c hc
    simp only [List.mem_singleton] at hf'
    subst hf'
    simp only [List.mem_singleton] at hc
    subst hc
    simp only [List.mem_append, List.mem_cons, List.not_mem_nil, or_false]
    rcases List.mem_cons.mp hlast with h | h
    · simp [h]
    · exact Or.inr h
  · simp [frameCost]; omega


theorem chainEdges_getLast_snd (rest : List Nat) : ∀ a b,
    ((chainEdges (a :: b :: rest)).getLast?).map (·.2) = some ((b :: rest).getLast (List.cons_ne_nil _ _)) := by
  induction rest with
  | nil => intro a b; simp [chainEdges]
  | cons c r ih =>
    intro a b
    have h := ih b c
    simp only [chainEdges] at h ⊢
    rw [List.getLast?_cons_cons, h]
    simp [List.getLast_cons]

theorem chainOk_last (nb : Nat → List Nat) (v0 : Nat) (suf : List Nat) : ∀ p x,
    chainOk nb v0 p (x :: suf) → v0 ∈ nb ((x :: suf).getLast (List.cons_ne_nil _ _)) := by
  induction suf with
  | nil =>
    intro p x h
    rcases h with h | h <;> simp [h]
  | cons y rest ih =>
    intro p x h
    have := ih x y h.2
    simpa [List.getLast_cons] using this

/-- `list(search_tree.edges)` of any cycle grown depth first, and the pair `_initialize_cylces` restrains -/
theorem cycle_dfs_tree (nb : Nat → List Nat) (v0 v1 : Nat) (rest : List Nat) (fuel : Nat)
    (hnd : (v0 :: v1 :: rest).Nodup)
    (h0 : nb v0 = [v1, (v1 :: rest).getLast (List.cons_ne_nil _ _)])
    (hok : chainOk nb v0 v0 (v1 :: rest)) (hf : 3 * (rest.length + 2) ≤ fuel) :
    searchTreeEdges "dfs_tree" nb fuel v0 = chainEdges (v0 :: v1 :: rest) ∧
    closingPair (searchTreeEdges "dfs_tree" nb fuel v0) = some (v0, (v1 :: rest).getLast (List.cons_ne_nil _ _)) := by
  have h1 : searchTreeEdges "dfs_tree" nb fuel v0 = chainEdges (v0 :: v1 :: rest) := by
    unfold searchTreeEdges
    rw [if_pos (by decide), dfsEdges_cycle nb v0 v1 rest _ fuel hnd h0 (List.getLast_mem _) hok hf]
    exact treeEdgeList_chain v0 _ hnd
  refine ⟨h1, ?_⟩
  rw [h1]
  have h2 := chainEdges_getLast_snd rest v0 v1
  unfold closingPair
  cases hl : (chainEdges (v0 :: v1 :: rest)).getLast? with
  | none => simp [hl] at h2
  | some l =>
    simp only [hl, Option.map_some, Option.some.injEq] at h2
    simp [chainEdges, h2]


/-! ### reading of the square-free predicates over the reals -/

/-- `distLe s r` is `√s ≤ r` over the reals -/
theorem distLe_iff_sqrt (s r : ℚ) : distLe s r ↔ Real.sqrt (s : ℝ) ≤ (r : ℝ) := by
  unfold distLe
  rw [Real.sqrt_le_iff]
  constructor
  · rintro ⟨h1, h2⟩
    refine ⟨by exact_mod_cast h1, ?_⟩
    have : (s : ℝ) ≤ (r : ℝ) * (r : ℝ) := by exact_mod_cast h2
    nlinarith
  · rintro ⟨h1, h2⟩
    refine ⟨by exact_mod_cast h1, ?_⟩
    have : (s : ℝ) ≤ (r : ℝ) * (r : ℝ) := by nlinarith
    exact_mod_cast this

/-- `distGe s r` is `r ≤ √s` over the reals -/
theorem distGe_iff_sqrt (s r : ℚ) : distGe s r ↔ (r : ℝ) ≤ Real.sqrt (s : ℝ) := by
  unfold distGe
  rcases le_or_gt r 0 with h | h
  · have : (r : ℝ) ≤ 0 := by exact_mod_cast h
    exact ⟨fun _ => this.trans (Real.sqrt_nonneg _), fun _ => Or.inl h⟩
  · have hr : (0 : ℝ) < (r : ℝ) := by exact_mod_cast h
    rw [Real.le_sqrt' hr]
    constructor
    · rintro (h1 | h1)
      · exact absurd h1 (not_le.mpr h)
      · have : (r : ℝ) * (r : ℝ) ≤ (s : ℝ) := by exact_mod_cast h1
        nlinarith
    · intro h1
      right
      have : (r : ℝ) * (r : ℝ) ≤ (s : ℝ) := by nlinarith
      exact_mod_cast this

/-- `cosGe d c m` is `c·√m ≤ d` over the reals (`m = ‖n‖²‖step‖² ≥ 0`): the angle between normal and
step is at most the reference angle -/
theorem cosGe_iff_sqrt (d c m : ℚ) (hm : 0 ≤ m) : cosGe d c m ↔ (c : ℝ) * Real.sqrt (m : ℝ) ≤ (d : ℝ) := by
  have hmR : (0 : ℝ) ≤ (m : ℝ) := by exact_mod_cast hm
  have ht : 0 ≤ Real.sqrt (m : ℝ) := Real.sqrt_nonneg _
  have ht2 : Real.sqrt (m : ℝ) * Real.sqrt (m : ℝ) = (m : ℝ) := Real.mul_self_sqrt hmR
  set t := Real.sqrt (m : ℝ) with htdef
  unfold cosGe
  have castle : ∀ a b : ℚ, a ≤ b ↔ (a : ℝ) ≤ (b : ℝ) := fun a b => by exact_mod_cast Iff.rfl
  have castlt : ∀ a b : ℚ, a < b ↔ (a : ℝ) < (b : ℝ) := fun a b => by exact_mod_cast Iff.rfl
  rw [castle 0 d, castle c 0, castle (c * c * m) (d * d), castlt d 0, castlt c 0, castle (d * d) (c * c * m)]
  push_cast
  rcases le_or_gt (0 : ℝ) (d : ℝ) with hd | hd
  · rcases le_or_gt (c : ℝ) 0 with hc | hc
    · constructor
      · intro _; nlinarith [mul_nonneg (neg_nonneg.mpr hc) ht]
      · intro _; exact Or.inl ⟨hd, Or.inl hc⟩
    · constructor
      · rintro (⟨_, h | h⟩ | ⟨h, _⟩)
        · exact absurd h (not_le.mpr hc)
        · have hct : 0 ≤ (c : ℝ) * t := mul_nonneg hc.le ht
          have : ((c : ℝ) * t) * ((c : ℝ) * t) ≤ (d : ℝ) * (d : ℝ) := by nlinarith
          nlinarith
        · exact absurd h (not_lt.mpr hd)
      · intro h
        left
        refine ⟨hd, Or.inr ?_⟩
        have hct : 0 ≤ (c : ℝ) * t := mul_nonneg hc.le ht
        have : ((c : ℝ) * t) * ((c : ℝ) * t) ≤ (d : ℝ) * (d : ℝ) := by nlinarith
        nlinarith
  · rcases le_or_gt 0 (c : ℝ) with hc | hc
    · constructor
      · rintro (⟨h, _⟩ | ⟨_, h, _⟩)
        · exact absurd h (not_le.mpr hd)
        · exact absurd h (not_lt.mpr hc)
      · intro h
        have hct : 0 ≤ (c : ℝ) * t := mul_nonneg hc ht
        linarith
    · constructor
      · rintro (⟨h, _⟩ | ⟨_, _, h⟩)
        · exact absurd h (not_le.mpr hd)
        · have hct : 0 ≤ -((c : ℝ) * t) := by nlinarith [mul_nonneg (neg_nonneg.mpr hc.le) ht]
          have : (-(d : ℝ)) * (-(d : ℝ)) ≤ (-((c : ℝ) * t)) * (-((c : ℝ) * t)) := by nlinarith
          nlinarith
      · intro h
        right
        refine ⟨hd, hc, ?_⟩
        have hct : 0 ≤ -((c : ℝ) * t) := by nlinarith [mul_nonneg (neg_nonneg.mpr hc.le) ht]
        have : (-(d : ℝ)) * (-(d : ℝ)) ≤ (-((c : ℝ) * t)) * (-((c : ℝ) * t)) := by nlinarith
        nlinarith

end PolyplyVerif.Proofs.Restraints
