/-
Helper lemmas for C07 (build-file restraints).  Single Mathlib modules only.
-/
import PolyplyVerif.Model.Restraints
import Mathlib.Tactic.Linarith
import Mathlib.Tactic.Ring
import Mathlib.Data.Rat.Floor
import Mathlib.Tactic.FieldSimp
import Mathlib.Tactic.Positivity

namespace PolyplyVerif.Proofs.Restraints
open PolyplyVerif.Restraints


theorem rabs_nonneg (q : Rat) : 0 ≤ rabs q := by
  unfold rabs; split <;> linarith

theorem le_rabs (q : Rat) : q ≤ rabs q := by
  unfold rabs; split <;> linarith

theorem rabs_sub_comm (a b : Rat) : rabs (a - b) = rabs (b - a) := by
  unfold rabs; split <;> split <;> linarith

theorem nsq_sub_comm (a b : V3) : (a.sub b).nsq = (b.sub a).nsq := by
  simp only [V3.sub, V3.nsq]; ring

theorem normGt_false {s r : Rat} (h : normGt s r = false) : distLe s r := by
  simp only [normGt, Bool.or_eq_false_iff, decide_eq_false_iff_not, not_lt] at h
  exact h

theorem normLt_false {s r : Rat} (h : normLt s r = false) : distGe s r := by
  simp only [normLt, Bool.and_eq_false_iff, decide_eq_false_iff_not, not_lt] at h
  exact h

theorem normLt_true {s r : Rat} (h : normLt s r = true) : distLe s r := by
  simp only [normLt, Bool.and_eq_true, decide_eq_true_eq] at h
  exact ⟨h.1.le, h.2.le⟩

theorem normGt_true {s r : Rat} (h : normGt s r = true) : distGe s r := by
  simp only [normGt, Bool.or_eq_true, decide_eq_true_eq] at h
  rcases h with h | h
  · exact Or.inl h.le
  · exact Or.inr h.le

theorem sq_swap (a b c d : Rat) : (a - b) * (a - b) + (c - d) * (c - d) = (b - a) * (b - a) + (d - c) * (d - c) := by ring

theorem test_sound (p : V3) (r : Region) (h : r.test p = true) : regionHolds p r := by
  cases r with
  | sphere io c r =>
    cases io with
    | inside =>
      simp only [Region.test, inSphere, Bool.not_eq_true'] at h
      simp only [regionHolds]; rw [nsq_sub_comm]; exact normGt_false h
    | outside =>
      simp only [Region.test, inSphere, Bool.not_eq_true'] at h
      simp only [regionHolds]; rw [nsq_sub_comm]; exact normLt_false h
    | other => simp only [regionHolds]
  | cylinder io c r h' =>
    cases io with
    | inside =>
      simp [Region.test, inCylinder] at h
      simp only [V3.sub] at h
      simp only [regionHolds]
      refine ⟨?_, ?_⟩
      · rw [sq_swap]; exact normLt_true h.1
      · rw [rabs_sub_comm]; exact h.2.le
    | outside =>
      simp [Region.test, inCylinder] at h
      simp only [V3.sub] at h
      simp only [regionHolds]
      rcases h with h | h
      · left; rw [sq_swap]; exact normGt_true h
      · right; rw [rabs_sub_comm]; exact (h.le).trans (le_rabs _)
    | other => simp only [regionHolds]
  | rectangle io c a b e =>
    cases io with
    | inside =>
      simp [Region.test, inRectangle] at h
      simp only [V3.sub] at h
      simp only [regionHolds]
      rw [rabs_sub_comm p.x, rabs_sub_comm p.y, rabs_sub_comm p.z]
      exact ⟨h.1.1.le, h.1.2.le, h.2.le⟩
    | outside =>
      simp [Region.test, inRectangle] at h
      simp only [V3.sub] at h
      simp only [regionHolds]
      rw [rabs_sub_comm p.x, rabs_sub_comm p.y, rabs_sub_comm p.z]
      rcases h with (h | h) | h
      · exact Or.inl h
      · exact Or.inr (Or.inl h)
      · exact Or.inr (Or.inr h)
    | other => simp only [regionHolds]

theorem fulfill_sound (p : V3) (rs : List Region) (h : fulfill p rs = true) : ∀ r ∈ rs, regionHolds p r := by
  intro r hr
  simp only [fulfill, List.all_eq_true] at h
  exact test_sound p r (h r hr)


/-! ### direction -/

theorem cosGeB_sound {d c m : Rat} (h : cosGeB d c m = true) : cosGe d c m := by
  unfold cosGeB at h
  unfold cosGe
  split at h
  · rename_i hd
    simp only [Bool.or_eq_true, decide_eq_true_eq] at h
    exact Or.inl ⟨hd, h⟩
  · rename_i hd
    simp only [Bool.and_eq_true, decide_eq_true_eq] at h
    exact Or.inr ⟨not_le.mp hd, h.1, h.2⟩

theorem isRestricted_sound (o : RwOption) (step : V3) (h : isRestricted (some o) step = true) :
    directionHolds o step := by
  simp only [isRestricted] at h
  split at h
  · exact absurd h (by simp)
  · rename_i hs
    simp only [bne_iff_ne, ne_eq, Decidable.not_not] at hs
    exact ⟨hs, cosGeB_sound h⟩

/-! ### milestones -/

theorem milestones_sound (posOf : Nat → Option V3) (box p : V3) (rs : List DRestr)
    (h : checksMilestones posOf box p rs = true) :
    ∀ r ∈ rs, ∀ q, posOf r.ref = some q → inWindow (miSq p q box) r.lb r.ub := by
  intro r hr q hq
  simp only [checksMilestones, List.all_eq_true] at h
  have := h r hr
  rw [hq] at this
  simp only [Bool.and_eq_true, Bool.not_eq_true'] at this
  exact ⟨normLt_false this.2, normGt_false this.1⟩

/-! ### acceptance -/

theorem acceptStep_parts {regions drs opt posOf box last p bend overlap}
    (h : acceptStep regions drs opt posOf box last p bend overlap = true) :
    fulfill p regions = true ∧ checksMilestones posOf box p drs = true ∧
      isRestricted opt (p.sub last) = true ∧ bend = true ∧ overlap = false := by
  simp only [acceptStep, Bool.and_eq_true, Bool.not_eq_true'] at h
  exact ⟨h.1.1.1.1, h.1.1.1.2, h.1.1.2, h.1.2, h.2⟩


/-! ### bounds along a path -/

theorem boundsAlong_other (l : List Nat) (k m : Nat) (ref target : Nat) (d avg tol : Rat) (h : target ∉ l) :
    ((((l.zipIdx k).filter fun (v, _) => v == target || v != ref).map fun (v, i) =>
      (v, boundAt m i (v == target) ref d avg tol)).filter fun e => e.1 == target) = [] := by
  induction l generalizing k with
  | nil => simp
  | cons a t ih =>
    have ha : a ≠ target := fun e => h (e ▸ List.mem_cons_self)
    have ht : target ∉ t := fun e => h (List.mem_cons_of_mem _ e)
    simp only [List.zipIdx_cons, List.filter_cons]
    split
    · simp only [List.map_cons, List.filter_cons, beq_iff_eq, ha, if_false]
      exact ih (k + 1) ht
    · exact ih (k + 1) ht

/-- the entries stored for the target of a path `ref :: mid ++ [target]` -/
theorem boundsAlong_target (mid : List Nat) (ref target : Nat) (d avg tol : Rat)
    (h : target ∉ ref :: mid) :
    ((boundsAlong (ref :: mid ++ [target]) ref target d avg tol).filter fun e => e.1 == target).map (·.2)
      = [⟨ref, d + tol + avg, d - tol⟩] := by
  have hcomm : d + tol + avg = avg + d + tol := by ring
  rw [hcomm]
  have hlen : (ref :: mid ++ [target]).length = mid.length + 2 := by simp
  unfold boundsAlong
  rw [hlen]
  have hz : (ref :: mid ++ [target]).zipIdx = (ref :: mid).zipIdx ++ [(target, mid.length + 1)] := by
    rw [List.zipIdx_append]; simp
  rw [hz, List.filter_append, List.map_append, List.filter_append,
    boundsAlong_other (ref :: mid) 0 (mid.length + 2) ref target d avg tol h]
  simp only [List.nil_append, List.filter_cons, beq_self_eq_true, Bool.true_or, if_true, List.filter_nil,
    List.map_cons, List.map_nil]
  simp only [boundAt, if_true]
  have hne : ((mid.length + 2 - 1 : Nat) : Rat) ≠ 0 := by
    have : (mid.length + 2 - 1 : Nat) = mid.length + 1 := by omega
    rw [this]; push_cast; positivity
  have e1 : d / ((mid.length + 2 - 1 : Nat) : Rat) * ((mid.length + 1 : Nat) : Rat) = d := by
    have : (mid.length + 2 - 1 : Nat) = mid.length + 1 := by omega
    rw [this] at hne ⊢
    field_simp
  rw [e1, one_mul]

/-! ### distance-restraint bookkeeping -/

theorem get_append_same (s : DStore) (v : Nat) (r : DRestr) : (s.append v r).get v = s.get v ++ [r] := by
  induction s with
  | nil => simp [DStore.append, DStore.get]
  | cons e t ih =>
    obtain ⟨k, l⟩ := e
    by_cases hk : k = v
    · simp [DStore.append, DStore.get, hk]
    · simp [DStore.append, DStore.get, hk, ih]

theorem get_append_other (s : DStore) (u v : Nat) (r : DRestr) (h : u ≠ v) : (s.append u r).get v = s.get v := by
  induction s with
  | nil => simp [DStore.append, DStore.get, h]
  | cons e t ih =>
    obtain ⟨k, l⟩ := e
    by_cases hk : k = u
    · subst hk; simp [DStore.append, DStore.get, h]
    · by_cases hv : k = v
      · subst hv
        have : ¬ (k = u) := hk
        simp [DStore.append, DStore.get, this]
      · simp [DStore.append, DStore.get, hk, hv, ih]

theorem foldl_append_get (es : List (Nat × DRestr)) (s : DStore) (v : Nat) :
    (es.foldl (fun s e => s.append e.1 e.2) s).get v = s.get v ++ (es.filter (fun e => e.1 == v)).map (·.2) := by
  induction es generalizing s with
  | nil => simp
  | cons e t ih =>
    simp only [List.foldl_cons, ih]
    by_cases h : e.1 = v
    · subst h; simp [get_append_same]
    · simp [get_append_other _ _ _ _ h, h]


theorem climb_shape (tree : List (Nat × Nat)) (start : Nat) (fuel v : Nat) (acc path : List Nat)
    (h : climb tree start fuel v acc = some path) : ∃ mid, path = start :: mid ++ (v :: acc) := by
  induction fuel generalizing v acc with
  | zero => simp [climb] at h
  | succ n ih =>
    simp only [climb] at h
    split at h
    · exact absurd h (by simp)
    · rename_i p hp
      split at h
      · rename_i hps
        have : p = start := by simpa using hps
        subst this
        refine ⟨[], ?_⟩
        simpa using h.symm
      · obtain ⟨mid, hm⟩ := ih p (v :: acc) h
        exact ⟨mid ++ [p], by simp [hm]⟩

theorem pathFrom_shape (tree : List (Nat × Nat)) (start node : Nat) (path : List Nat)
    (h : pathFrom tree start node = some path) : ∃ mid, path = start :: mid ++ [node] :=
  climb_shape tree start _ node [] path h

/-- what `set_distance_restraint` stores on the later-placed end of the restrained pair -/
theorem setDistanceRestraint_target (tree : List (Nat × Nat)) (store store' : DStore) (target ref : Nat)
    (d avg tol : Rat) (h : setDistanceRestraint tree store target ref d avg tol = .ok store') :
    ∃ r t mid, ((r = ref ∧ t = target) ∨ (r = target ∧ t = ref)) ∧
      pathFrom tree r t = some (r :: mid ++ [t]) ∧
      (t ∉ r :: mid → store'.get t = store.get t ++ [⟨r, d + tol + avg, d - tol⟩]) := by
  unfold setDistanceRestraint at h
  split at h
  · exact absurd h (by simp)
  · rename_i anc _
    have key : ∀ r t, (match pathFrom tree r t with
        | none => (Except.error "crash" : Except String DStore)
        | some path => .ok ((boundsAlong path r t d avg tol).foldl (fun (s : DStore) (e : Nat × DRestr) => s.append e.1 e.2) store)) = .ok store' →
        ∃ mid, pathFrom tree r t = some (r :: mid ++ [t]) ∧
          (t ∉ r :: mid → store'.get t = store.get t ++ [⟨r, d + tol + avg, d - tol⟩]) := by
      intro r t hk
      split at hk
      · exact absurd hk (by simp)
      · rename_i path hp
        obtain ⟨mid, hm⟩ := pathFrom_shape tree r t path hp
        subst hm
        refine ⟨mid, hp, ?_⟩
        intro hnot
        have : store' = (boundsAlong (r :: mid ++ [t]) r t d avg tol).foldl (fun s e => s.append e.1 e.2) store := by
          simpa using hk.symm
        rw [this, foldl_append_get, boundsAlong_target mid r t d avg tol hnot]
    by_cases h1 : (anc == target) = true
    · simp only [h1, if_true] at h
      obtain ⟨mid, hp, hs⟩ := key target ref h
      exact ⟨target, ref, mid, Or.inr ⟨rfl, rfl⟩, hp, hs⟩
    · by_cases h2 : (anc != ref) = true
      · simp [h1, h2] at h
      · simp only [h1, h2] at h
        obtain ⟨mid, hp, hs⟩ := key ref target h
        exact ⟨ref, target, mid, Or.inl ⟨rfl, rfl⟩, hp, hs⟩


/-! ### end-to-end sampling grid -/


theorem ceilInt_eq (q : Rat) : ceilInt q = ⌈q⌉ := by
  unfold ceilInt
  have : (-q).floor = ⌊-q⌋ := rfl
  rw [this, Int.floor_neg, neg_neg]

theorem eeCandidates_range (avg contour : Rat) (h : 0 < avg) :
    ∀ x ∈ eeCandidates avg contour, ∃ k : Nat, 1 ≤ k ∧ x = (k : Rat) * avg ∧ eeInRange avg contour x := by
  intro x hx
  simp only [eeCandidates, arange, List.mem_map, List.mem_range] at hx
  obtain ⟨i, hi, rfl⟩ := hx
  refine ⟨i + 1, by omega, by push_cast; ring, ?_, ?_⟩
  · have : (0 : Rat) ≤ (i : Rat) * avg := by positivity
    linarith
  · rw [ceilInt_eq] at hi
    have h1 : (i : Int) < ⌈(contour - avg) / avg⌉ := by omega
    have h2 : ((i : Int) : Rat) < (contour - avg) / avg := Int.lt_ceil.mp h1
    have h3 : ((i : Int) : Rat) * avg < contour - avg := by
      rwa [lt_div_iff₀ h] at h2
    have h4 : ((i : Int) : Rat) = (i : Rat) := by norm_cast
    rw [h4] at h3
    linarith

/-! ### depth-first traversal of a ring -/


/-- edges of the path through the listed nodes -/
def chainEdges : List Nat → List (Nat × Nat)
  | a :: b :: rest => (a, b) :: chainEdges (b :: rest)
  | _ => []

def frameCost : List (Nat × List Nat) → Nat
  | [] => 0
  | f :: rest => f.2.length + 1 + frameCost rest

theorem step_skip (nb : Nat → List Nat) (f p c : Nat) (cs : List Nat) (rest visited out)
    (h : c ∈ visited) :
    dfsRun nb (f + 1) ⟨(p, c :: cs) :: rest, visited, out⟩ = dfsRun nb f ⟨(p, cs) :: rest, visited, out⟩ := by
  simp [dfsRun, dfsStep, h]

theorem step_push (nb : Nat → List Nat) (f p c : Nat) (cs : List Nat) (rest visited out)
    (h : c ∉ visited) :
    dfsRun nb (f + 1) ⟨(p, c :: cs) :: rest, visited, out⟩ =
      dfsRun nb f ⟨(c, nb c) :: (p, cs) :: rest, c :: visited, (p, c) :: out⟩ := by
  simp [dfsRun, dfsStep, h]

theorem step_pop (nb : Nat → List Nat) (f p : Nat) (rest visited out) :
    dfsRun nb (f + 1) ⟨(p, []) :: rest, visited, out⟩ = dfsRun nb f ⟨rest, visited, out⟩ := by
  simp [dfsRun, dfsStep]

theorem dfs_unwind (nb : Nat → List Nat) (fuel : Nat) (stack : List (Nat × List Nat)) (visited : List Nat)
    (out : List (Nat × Nat)) (hv : ∀ f ∈ stack, ∀ c ∈ f.2, c ∈ visited) (hf : frameCost stack ≤ fuel) :
    (dfsRun nb fuel ⟨stack, visited, out⟩).out = out := by
  induction fuel generalizing stack with
  | zero =>
    cases stack with
    | nil => simp [dfsRun]
    | cons f rest => simp [frameCost] at hf
  | succ n ih =>
    cases stack with
    | nil => simp [dfsRun]
    | cons f rest =>
      obtain ⟨p, cs⟩ := f
      cases cs with
      | nil =>
        rw [step_pop]
        apply ih
        · intro f hf'; exact hv f (List.mem_cons_of_mem _ hf')
        · simp [frameCost] at hf; omega
      | cons c cs =>
        have hc : c ∈ visited := hv (p, c :: cs) List.mem_cons_self c List.mem_cons_self
        rw [step_skip _ _ _ _ _ _ _ _ hc]
        apply ih
        · intro f hf' c' hc'
          rcases List.mem_cons.mp hf' with h | h
          · subst h; exact hv (p, c :: cs) List.mem_cons_self c' (List.mem_cons_of_mem _ hc')
          · exact hv f (List.mem_cons_of_mem _ h) c' hc'
        · simp [frameCost] at hf ⊢; omega

theorem chainEdges_range'_succ (k j : Nat) :
    chainEdges (List.range' k (j + 2)) = (k, k + 1) :: chainEdges (List.range' (k + 1) (j + 1)) := by
  simp [List.range'_succ, chainEdges]

theorem dfs_ring_from (n j : Nat) : ∀ (k : Nat) (frames : List (Nat × List Nat)) (visited : List Nat)
    (out : List (Nat × Nat)) (fuel : Nat),
    k + j + 1 = n → 1 ≤ k →
    (∀ i, i ≤ k → i ∈ visited) → (∀ i, k < i → i ∉ visited) →
    (∀ f ∈ frames, ∀ c ∈ f.2, c < n) →
    3 * (j + 1) + frameCost frames ≤ fuel →
    (dfsRun (ringNbrs n) fuel ⟨(k, ringNbrs n k) :: frames, visited, out⟩).out
      = (chainEdges (List.range' k (j + 1))).reverse ++ out := by
  induction j with
  | zero =>
    intro k frames visited out fuel hk h1 hin hout hfr hfuel
    obtain ⟨f, rfl⟩ : ∃ f, fuel = f + 3 := ⟨fuel - 3, by omega⟩
    have hnb : ringNbrs n k = [0, k - 1] := by
      unfold ringNbrs; rw [if_neg (by omega), if_pos (by omega)]
    rw [hnb, step_skip _ _ _ _ _ _ _ _ (hin 0 (by omega)), step_skip _ _ _ _ _ _ _ _ (hin (k - 1) (by omega)),
      step_pop]
    rw [dfs_unwind]
    · simp [chainEdges, List.range'_succ]
    · intro f' hf' c hc
      exact hin c (by have := hfr f' hf' c hc; omega)
    · omega
  | succ j ih =>
    intro k frames visited out fuel hk h1 hin hout hfr hfuel
    obtain ⟨f, rfl⟩ : ∃ f, fuel = f + 2 := ⟨fuel - 2, by omega⟩
    have hnb : ringNbrs n k = [k - 1, k + 1] := by
      unfold ringNbrs; rw [if_neg (by omega), if_neg (by omega)]
    rw [hnb, step_skip _ _ _ _ _ _ _ _ (hin (k - 1) (by omega)), step_push _ _ _ _ _ _ _ _ (hout (k + 1) (by omega))]
    rw [ih (k + 1) ((k, []) :: frames) ((k + 1) :: visited) ((k, k + 1) :: out) f (by omega) (by omega)]
    · rw [chainEdges_range'_succ k j]; simp
    · intro i hi
      rcases Nat.lt_or_ge i (k + 1) with h | h
      · exact List.mem_cons_of_mem _ (hin i (by omega))
      · have : i = k + 1 := by omega
        subst this; exact List.mem_cons_self
    · intro i hi hmem
      rcases List.mem_cons.mp hmem with h | h
      · omega
      · exact hout i (by omega) h
    · intro f' hf' c hc
      rcases List.mem_cons.mp hf' with h | h
      · subst h; simp at hc
      · exact hfr f' h c hc
    · simp [frameCost]; omega

/-- the depth-first traversal of a ring of `n ≥ 3` residues from residue 0 is the Hamiltonian path -/
theorem dfsEdges_ring (n fuel : Nat) (hn : 3 ≤ n) (hf : 3 * n ≤ fuel) :
    dfsEdges (ringNbrs n) fuel 0 = chainEdges (List.range' 0 n) := by
  unfold dfsEdges
  obtain ⟨f, rfl⟩ : ∃ f, fuel = f + 1 := ⟨fuel - 1, by omega⟩
  have hnb : ringNbrs n 0 = [1, n - 1] := by simp [ringNbrs]
  rw [hnb, step_push _ _ _ _ _ _ _ _ (by simp : (1 : Nat) ∉ [0])]
  rw [dfs_ring_from n (n - 2) 1 [(0, [n - 1])] [1, 0] [(0, 1)] f (by omega) (by omega)]
  · obtain ⟨m, rfl⟩ : ∃ m, n = m + 3 := ⟨n - 3, by omega⟩
    have : m + 3 - 2 + 1 = m + 2 := by omega
    rw [this]
    have e : List.range' 0 (m + 3) = 0 :: List.range' 1 (m + 2) := by simp [List.range'_succ]
    rw [e]
    have e2 : List.range' 1 (m + 2) = 1 :: List.range' 2 (m + 1) := by simp [List.range'_succ]
    rw [e2]
    simp [chainEdges]
  · intro i hi
    rcases Nat.eq_zero_or_pos i with h | h
    · subst h; simp
    · have : i = 1 := by omega
      subst this; simp
  · intro i hi hmem
    simp at hmem; omega
  · intro f' hf' c hc
    simp at hf'; subst hf'; simp at hc; omega
  · simp [frameCost]; omega


/-! ### `list(T.edges)` of a path-shaped tree is the path -/

def nodeStep (acc : List Nat) (e : Nat × Nat) : List Nat :=
  let acc := if acc.contains e.1 then acc else e.1 :: acc
  if acc.contains e.2 then acc else e.2 :: acc

theorem treeNodes_eq (root : Nat) (edges : List (Nat × Nat)) :
    treeNodes root edges = (edges.foldl nodeStep [root]).reverse := rfl

theorem foldl_nodeStep_chain (rest : List Nat) : ∀ (b : Nat) (acc : List Nat), b ∈ acc →
    (∀ x ∈ rest, x ∉ acc) → (b :: rest).Nodup →
    (chainEdges (b :: rest)).foldl nodeStep acc = rest.reverse ++ acc := by
  induction rest with
  | nil => intro b acc _ _ _; simp [chainEdges]
  | cons c rest ih =>
    intro b acc hb hrest hnd
    have hc : c ∉ acc := hrest c List.mem_cons_self
    have hnd' : (c :: rest).Nodup := (List.nodup_cons.mp hnd).2
    have hcr : c ∉ rest := (List.nodup_cons.mp hnd').1
    simp only [chainEdges, List.foldl_cons]
    have hs : nodeStep acc (b, c) = c :: acc := by
      simp [nodeStep, hb, hc]
    rw [hs, ih c (c :: acc) List.mem_cons_self _ hnd']
    · simp
    · intro x hx hmem
      rcases List.mem_cons.mp hmem with h | h
      · subst h; exact hcr hx
      · exact hrest x (List.mem_cons_of_mem _ hx) h

theorem treeNodes_chain (b : Nat) (rest : List Nat) (hnd : (b :: rest).Nodup) :
    treeNodes b (chainEdges (b :: rest)) = b :: rest := by
  rw [treeNodes_eq, foldl_nodeStep_chain rest b [b] List.mem_cons_self _ hnd]
  · simp
  · intro x hx hmem
    have : x = b := by simpa using hmem
    subst this
    exact (List.nodup_cons.mp hnd).1 hx

theorem chainEdges_src_mem (vs : List Nat) : ∀ e ∈ chainEdges vs, e.1 ∈ vs := by
  induction vs with
  | nil => simp [chainEdges]
  | cons a t ih =>
    cases t with
    | nil => simp [chainEdges]
    | cons b rest =>
      intro e he
      simp only [chainEdges, List.mem_cons] at he
      rcases he with h | h
      · subst h; simp
      · exact List.mem_cons_of_mem _ (ih e h)

theorem flatMap_congr' {α β : Type} (l : List α) (f g : α → List β) (h : ∀ v ∈ l, f v = g v) :
    l.flatMap f = l.flatMap g := by
  induction l with
  | nil => rfl
  | cons a t ih =>
    rw [List.flatMap_cons, List.flatMap_cons, h a List.mem_cons_self,
      ih (fun v hv => h v (List.mem_cons_of_mem _ hv))]

theorem flatMap_filter_chain (vs : List Nat) (hnd : vs.Nodup) :
    vs.flatMap (fun v => (chainEdges vs).filter fun e => e.1 == v) = chainEdges vs := by
  induction vs with
  | nil => simp [chainEdges]
  | cons a t ih =>
    cases t with
    | nil => simp [chainEdges]
    | cons b rest =>
      have hat : a ∉ b :: rest := (List.nodup_cons.mp hnd).1
      have hnd' : (b :: rest).Nodup := (List.nodup_cons.mp hnd).2
      rw [List.flatMap_cons]
      have h1 : ((chainEdges (a :: b :: rest)).filter fun e => e.1 == a) = [(a, b)] := by
        simp only [chainEdges, List.filter_cons, beq_self_eq_true, if_true]
        congr 1
        rw [List.filter_eq_nil_iff]
        intro e he
        have := chainEdges_src_mem _ e he
        simp only [beq_iff_eq]
        intro h; rw [h] at this; exact hat this
      have h2 : (b :: rest).flatMap (fun v => (chainEdges (a :: b :: rest)).filter fun e => e.1 == v)
          = (b :: rest).flatMap (fun v => (chainEdges (b :: rest)).filter fun e => e.1 == v) := by
        apply flatMap_congr'
        intro v hv
        have : a ≠ v := fun h => hat (h ▸ hv)
        simp [chainEdges, this]
      rw [h1, h2, ih hnd']
      simp [chainEdges]

theorem treeEdgeList_chain (b : Nat) (rest : List Nat) (hnd : (b :: rest).Nodup) :
    treeEdgeList b (chainEdges (b :: rest)) = chainEdges (b :: rest) := by
  unfold treeEdgeList
  rw [treeNodes_chain b rest hnd]
  exact flatMap_filter_chain (b :: rest) hnd

theorem chainEdges_getLast (j : Nat) : ∀ k, (chainEdges (List.range' k (j + 2))).getLast? = some (k + j, k + j + 1) := by
  induction j with
  | zero => intro k; simp [List.range'_succ, chainEdges]
  | succ j ih =>
    intro k
    rw [chainEdges_range'_succ]
    have := ih (k + 1)
    rw [chainEdges_range'_succ] at this ⊢
    rw [List.getLast?_cons_cons]
    rw [this]
    congr 2 <;> omega

/-- `list(search_tree.edges)` of a ring grown depth first from residue 0, and the pair restrained by
`_initialize_cylces` -/
theorem ring_dfs_tree (n : Nat) (hn : 3 ≤ n) :
    ringTree "dfs_tree" n = chainEdges (List.range' 0 n) ∧
    closingPair (ringTree "dfs_tree" n) = some (0, n - 1) := by
  have h0 : ringTree "dfs_tree" n = chainEdges (List.range' 0 n) := by
    unfold ringTree searchTreeEdges
    rw [if_pos (by decide), dfsEdges_ring n _ hn (by omega)]
    obtain ⟨m, rfl⟩ : ∃ m, n = m + 1 := ⟨n - 1, by omega⟩
    rw [List.range'_succ]
    exact treeEdgeList_chain 0 _ (by rw [← List.range'_succ]; exact List.nodup_range')
  refine ⟨h0, ?_⟩
  rw [h0]
  obtain ⟨m, rfl⟩ : ∃ m, n = m + 3 := ⟨n - 3, by omega⟩
  unfold closingPair
  rw [chainEdges_getLast (m + 1) 0]
  simp [List.range'_succ, chainEdges]

end PolyplyVerif.Proofs.Restraints
