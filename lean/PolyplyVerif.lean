-- Root of the `PolyplyVerif` library: imports every model, driver and property module.
import PolyplyVerif.Generated.Tables
import PolyplyVerif.Model.ResGraph
import PolyplyVerif.Model.Dna
