"""C10 — every residue-graph edge is realised by a bond or reported as missing.

properties.jsonl: "After link application each pair of residues connected in the residue graph is
either joined by at least one atom-level edge between the two residues or reported in a missing-link
warning naming both residues - never both and never neither. gen_coords refuses to build a molecule
whose atoms are not all connected."

Implementation side
  * stream `missing`: force fields and residue graphs of `ffgen_c02` (with and without applicable links,
    rings, branches); (a) the real stages `load_ff_library -> MetaMolecule -> MapToMolecule -> ApplyLinks`
    and then the real `find_missing_edges(meta, meta.molecule)` called directly; (b) the real
    `gen_params` on the same files (sequence as .json graph) with the log records captured.
  * stream `gate`: random .top files (1-3 molecule types, 1-5 residues, bonds/constraints forming trees,
    cycles, several components, isolated atoms; angle and dihedral lines over bonded atoms and across missing bonds) read by `Topology.from_gmx_topfile`, then the real
    `_check_molecules(topology.molecules)`; a few of them through the complete `gen_coords`.
Added input dimensions (round 5; every random choice from `derived_rng`, so the older cases of a seed are unchanged):
  * `missing`: ring-like monomers with a ring-opening link (`[ !bonds ]` for the ring bond + bond to the next residue,
    applied at the first residue and further down); generated links decorated with the vermouth link sections polyply
    does not act on (`[ !bonds ]`, `[ !angles ]`, `[ !constraints ]`, `[ features ]`, `[ molmeta ]`; `[ non-edges ]` and
    `[ patterns ]` come from the generator); node keys that are not 0..n-1 (start 1, 10/20/30, gaps, reversed), resids
    from 0 / an offset (gaps: withheld, notes/C10_findings.md 3), residue names that contain each other; `by_atom_id`
    links with one interaction of each bonded section; the command run a second time in the same process / after a
    failed call (oracle on the LATER call); > 20 realised links in one molecule.
  * `direct`: 160 (thorough: all) of the exhaustive instances relabelled (node keys, insertion order, atom keys, resids,
    nested residue names).
  * `gate`: the complete `gen_coords` with starting structures — `-mc` (one position per residue), `-c` (atoms), both,
    `-res` — covering ALL or SOME residues, for connected and disconnected molecules (oracle: refuse iff the atoms of a
    molecule are not all connected, whatever is supplied); the disconnected molecule type not first, `[ molecules ]`
    lines reordered / repeated / counts up to 25; virtual sites (connected through their construction); nested residue
    names; resid offsets.
Model side (`Model/C10Missing.lean`): `findMissingEdges` (correspondence with (a)), `specMissing` — the
property's own statement, evaluated on the REQUESTED residue-graph edges, the generator's residue
ownership of atoms and the bond graph of the real output molecule — compared with the warnings of (b);
`checkMolecules` (correspondence) and `specRaises` (atom-graph connectivity, the oracle) for the gate.
Trusted: networkx `is_connected` / `degree` (modelled), vermouth's logging adapter (records inspected:
level >= WARNING and text naming both residues, the wording itself is not pinned).
"""
import json
import logging
import os
import pathlib
import random
import re
import tempfile

import common
import ffgen_c02 as G

RULE = ("missing: random force fields (1-3 blocks, .ff / .itp with dangling interactions) x random residue graphs "
        "(paths, trees, one ring, 1-7 residues, up to 10 thorough) x 0-4 links that match some, all or none of the "
        "residue edges; non-trivial when the graph has an edge; distinct = abstract case; plus ring-opening links with "
        "[ !bonds ], links with ignored vermouth sections, other node keys / resids / nested residue names, by_atom_id links, "
        "repeated calls in one process, > 20 links.  gate: random topologies, distinct = abstract topology; plus the complete "
        "gen_coords with -c / -mc / -res starting structures (all / some residues), reordered [ molecules ] lines, counts up "
        "to 25, virtual sites")
WITHHELD = ("requested-edge-vanishes-after-atom-removal", "isolated-atom-inside-connected-residue-graph")


class Capture(logging.Handler):
    def __init__(self):
        super().__init__(level=logging.WARNING)
        self.records = []

    def emit(self, record):
        self.records.append((record.levelno, str(record.msg)))


class capture_warnings:
    """collect the log records of the `polyply` loggers while the (globally silenced) logging is enabled"""

    def __enter__(self):
        self.logger = logging.getLogger("polyply")
        self.handler = Capture()
        self.saved = (self.logger.handlers[:], self.logger.propagate, logging.root.manager.disable, self.logger.level)
        self.logger.handlers = [self.handler]
        self.logger.propagate = False
        self.logger.setLevel(logging.WARNING)
        logging.disable(logging.NOTSET)
        return self.handler

    def __exit__(self, *exc):
        self.logger.handlers, self.logger.propagate = self.saved[0], self.saved[1]
        self.logger.setLevel(self.saved[3])
        logging.disable(self.saved[2])
        return False


def tokens(text):
    return re.findall(r"[A-Za-z0-9_+\-]+", text)


def names_both(text, res_a, res_b):
    """does a warning text name both residues (resid and resname of each)?"""
    toks = tokens(text)
    need = [str(res_a[0]), str(res_a[1]), str(res_b[0]), str(res_b[1])]
    pool = list(toks)
    for item in need:
        if item in pool:
            pool.remove(item)
        else:
            return False
    return True


# ------------------------------------------------------------------------------------------ stream missing

def derived_rng(rng, label):
    """a generator for the ADDED input dimensions: derived from the state of the run's generator without consuming
    it, so that the cases a seed produced before the dimension was added stay what they were"""
    return random.Random("c10-extra|%s|%r" % (label, rng.getstate()[1][:4]))


def link_extra_text(link):
    """the parts of a link definition `ffgen_c02.render` has no field for: `removed` = [[section, [atom tokens],
    [params]]] -> `[ !section ]` lines (vermouth: interactions the link takes out), `features` = [names] ->
    `[ features ]`"""
    lines, last = [], None
    for section, atoms, params in link.get("removed", []):
        if section != last:
            lines.append("[ !%s ]" % section)
            last = section
        lines.append(" ".join(list(atoms) + list(params)))
    if link.get("features"):
        lines += ["[ features ]", " ".join(link["features"])]
    return "".join(line + "\n" for line in lines)


def render_case(case):
    """`ffgen_c02.render`, link by link, plus the link sections only this check generates and `raw_links` (complete
    `[ link ]` definitions as text, e.g. `by_atom_id` links)"""
    texts = G.render(dict(case, links=[]))
    ff_text = texts["ff"] or ""
    for link in case.get("links", []):
        ff_text += G.render(dict(blocks=[], links=[link]))["ff"] + link_extra_text(link)
    for raw in case.get("raw_links", []):
        ff_text += raw if raw.endswith("\n") else raw + "\n"
    return dict(ff=ff_text or None, itp=texts["itp"])


def build_case(case, tmpdir):
    """the real force field (repository's parsers on the rendered files) and the real MetaMolecule of a case
    (`ffgen_c02.build` with this module's renderer)"""
    import networkx as nx
    from polyply.src.load_library import load_ff_library
    from polyply.src.meta_molecule import MetaMolecule
    texts = render_case(case)
    paths = []
    for ext in ("ff", "itp"):
        if texts[ext]:
            path = os.path.join(tmpdir, "case." + ext)
            with open(path, "w") as handle:
                handle.write(texts[ext])
            paths.append(pathlib.Path(path))
    force_field = load_ff_library("verif", None, paths)
    graph = nx.Graph()
    from_itp = {int(k): v for k, v in case["graph"].get("from_itp", {}).items()}
    for key, resid, resname in case["graph"]["nodes"]:
        attrs = dict(resid=resid, resname=resname)
        if key in from_itp:
            attrs["from_itp"] = from_itp[key]
        graph.add_node(key, **attrs)
    for u, v, linktype in case["graph"]["edges"]:
        if linktype is None:
            graph.add_edge(u, v)
        else:
            graph.add_edge(u, v, linktype=linktype)
    return force_field, MetaMolecule(graph, force_field=force_field, mol_name="verif")


def write_files(case, tmp):
    texts = render_case(case)
    paths = []
    for ext in ("ff", "itp"):
        if texts[ext]:
            path = os.path.join(tmp, "case." + ext)
            with open(path, "w") as handle:
                handle.write(texts[ext])
            paths.append(pathlib.Path(path))
    from_itp = {int(k): v for k, v in case["graph"].get("from_itp", {}).items()}
    nodes = [dict(id=k, resname=resname, resid=resid, **({"from_itp": from_itp[k]} if k in from_itp else {}))
             for k, resid, resname in case["graph"]["nodes"]]
    edges = []
    for u, v, linktype in case["graph"]["edges"]:
        edge = dict(source=u, target=v)
        if linktype is not None:
            edge["linktype"] = linktype
        edges.append(edge)
    seq = os.path.join(tmp, "seq.json")
    with open(seq, "w") as handle:
        json.dump(dict(directed=False, multigraph=False, graph={}, nodes=nodes, links=edges, edges=edges), handle)
    return paths, pathlib.Path(seq)


def itp_edges(text):
    """bond graph recounted from a written .itp (node key = atom number - 1; valid when no atom was removed)"""
    edges, section = [], None
    for line in text.splitlines():
        line = line.split(";")[0].strip()
        if not line or line.startswith("#"):
            continue
        if line.startswith("["):
            section = line.strip("[] ").lower()
            continue
        natoms = {"bonds": 2, "constraints": 2, "angles": 3, "dihedrals": 4}.get(section)
        if natoms:
            atoms = [int(t) - 1 for t in line.split()[:natoms]]
            edges += [[a, b] for a, b in zip(atoms, atoms[1:])]
    return edges


def ownership(case):
    """atoms of every residue as the generator defines them: residues in resid order own consecutive node keys; a
    residue taken from a multi-residue (from_itp) block owns the atoms of the corresponding residue of that block"""
    blocks = {b["name"]: b for b in case["blocks"]}
    from_itp = {int(k): v for k, v in case["graph"].get("from_itp", {}).items()}
    own, offset, position = {}, 0, {}
    for key, resid, resname in sorted(case["graph"]["nodes"], key=lambda n: n[1]):
        if key in from_itp:
            block = blocks[from_itp[key]]
            nres = max(a.get("resid", 1) for a in block["atoms"])
            pos = position.get(from_itp[key], 0)
            position[from_itp[key]] = pos + 1
            size = sum(1 for a in block["atoms"] if a.get("resid", 1) == pos % nres + 1)
        else:
            size = len(blocks[resname]["atoms"])
        own[key] = list(range(offset, offset + size))
        offset += size
    return own


def one_missing_case(ctx, case):
    from polyply.src.map_to_molecule import MapToMolecule
    from polyply.src.apply_links import ApplyLinks
    from polyply.src.graph_utils import find_missing_edges
    from polyply.src.gen_itp import gen_params
    replay = dict(stream="missing", case=case)
    hist_rng = random.Random(json.dumps(case, sort_keys=True))
    with tempfile.TemporaryDirectory() as tmp:
        paths, seq = write_files(case, tmp)
        try:
            # (a) the stages, then find_missing_edges directly
            force_field, meta = build_case(case, tmp)
            MapToMolecule(force_field).run_molecule(meta)
            ApplyLinks().run_molecule(meta)
            direct = [[m["resA"], int(m["idxA"]), m["resB"], int(m["idxB"])] for m in find_missing_edges(meta, meta.molecule)]
            resgraph = G.dump_resgraph(meta)
            medges = [[int(u), int(v)] for u, v in meta.molecule.edges]
            first_state = (resgraph, medges)
            # hypotheses of C10_exact / C10_missing_eq_spec on the real objects: fragment graphs are subgraphs of the
            # molecule on the residue's own atoms, residues own different atoms
            mset = {frozenset(e) for e in medges}
            owners = [set(n["frag"]) for n in resgraph["res"]]
            hyp = all(frozenset(e) in mset and set(e) <= set(n["frag"]) for n in resgraph["res"] for e in n["fedges"]) \
                and sum(len(o) for o in owners) == len(set().union(*owners) if owners else set())
            ctx.tally(theorem_hypotheses_hold=hyp)
            alive = set(int(k) for k in meta.molecule.nodes)
            # (a') history: some of the missing links are supplied (a bond between the two residues is added to the
            # molecule, as a later link / an explicit link / a user would) and find_missing_edges is asked again
            history = None
            if direct:
                by_resid = {int(meta.nodes[k]["resid"]): k for k in meta.nodes}
                supplied = []
                for rec in direct:
                    if hist_rng.random() < 0.6 and rec[1] in by_resid and rec[3] in by_resid:
                        fa = list(meta.nodes[by_resid[rec[1]]]["graph"].nodes)
                        fb = list(meta.nodes[by_resid[rec[3]]]["graph"].nodes)
                        if fa and fb:
                            pair = (hist_rng.choice(fa), hist_rng.choice(fb))
                            meta.molecule.add_edge(*pair)
                            supplied.append([int(pair[0]), int(pair[1])])
                if supplied:
                    direct2 = [[m["resA"], int(m["idxA"]), m["resB"], int(m["idxB"])] for m in find_missing_edges(meta, meta.molecule)]
                    history = dict(direct=direct2, resgraph=G.dump_resgraph(meta),
                                   medges=[[int(u), int(v)] for u, v in meta.molecule.edges], supplied=supplied)
            resgraph, medges = first_state
            # (b) the command, with its log records
            out = pathlib.Path(os.path.join(tmp, "out.itp"))
            # the bond graph of THAT run (its link application may visit matches in another order than (a)):
            # taken from the molecule handed to find_missing_edges inside gen_params (harness-side interposition),
            # or, if the command no longer goes through that attribute, recounted from the written .itp
            import polyply.src.gen_itp as gen_itp_module
            captured = {}
            original = getattr(gen_itp_module, "find_missing_edges", None)
            # process history: the command has already run in this process, on the same files (`prior` = "twice") or
            # on a sequence it has to reject (`prior` = "after-failure"); the oracle is applied to the LATER call
            if case.get("prior") == "twice":
                with capture_warnings():
                    gen_params(name="verif", outpath=pathlib.Path(os.path.join(tmp, "first.itp")), inpath=paths, seq_file=seq)
                ctx.tally(prior_call="ran")
            elif case.get("prior") == "after-failure":
                bad = os.path.join(tmp, "bad.json")
                with open(bad, "w") as handle:
                    json.dump(dict(directed=False, multigraph=False, graph={},
                                   nodes=[dict(id=0, resname="NOSUCHRES", resid=1), dict(id=1, resname="NOSUCHRES", resid=2)],
                                   links=[dict(source=0, target=1)], edges=[dict(source=0, target=1)]), handle)
                try:
                    with capture_warnings():
                        gen_params(name="verif", outpath=pathlib.Path(os.path.join(tmp, "first.itp")), inpath=paths,
                                   seq_file=pathlib.Path(bad))
                    ctx.tally(prior_call="did-not-fail")
                except (Exception, SystemExit):  # pylint: disable=broad-except
                    ctx.tally(prior_call="failed")

            def spy(res_graph, molecule):
                captured["medges"] = [[int(u), int(v)] for u, v in molecule.edges]
                captured["alive"] = set(int(k) for k in molecule.nodes)
                return original(res_graph, molecule)
            if original is not None:
                gen_itp_module.find_missing_edges = spy
            try:
                with capture_warnings() as cap:
                    gen_params(name="verif", outpath=out, inpath=paths, seq_file=seq)
            finally:
                if original is not None:
                    gen_itp_module.find_missing_edges = original
            written = out.exists()
            if "medges" in captured:
                run_edges, run_alive = captured["medges"], captured["alive"]
                ctx.tally(bond_graph_source="interposed")
            else:
                run_edges, run_alive = itp_edges(out.read_text()), alive
                ctx.tally(bond_graph_source="itp-recount")
        except Exception as err:  # pylint: disable=broad-except
            ctx.oracle_fail("pipeline-raises", "gen_params / link application raised %s: %s on a valid input %s"
                            % (type(err).__name__, str(err)[:200], case["graph"]), replay)
            return None
    warnings = [text for level, text in cap.records if level >= logging.WARNING]
    own = ownership(case)
    removed = any(a not in run_alive for atoms in own.values() for a in atoms)
    req_nodes = [[k, resid, resname, [a for a in own[k] if a in run_alive], []] for k, resid, resname in case["graph"]["nodes"]]
    reqs = [dict(op="missing", nodes=[[n["key"], n["resid"], n["resname"], n["frag"], n["fedges"]] for n in resgraph["res"]],
                 redges=resgraph["redges"], medges=medges),
            dict(op="missing", nodes=req_nodes, redges=[[u, v] for u, v, _ in case["graph"]["edges"]], medges=run_edges)]
    if history is not None:
        alive2 = run_alive
        reqs.append(dict(op="missing", nodes=[[n["key"], n["resid"], n["resname"], n["frag"], n["fedges"]] for n in history["resgraph"]["res"]],
                         redges=history["resgraph"]["redges"], medges=history["medges"]))
        reqs.append(dict(op="missing", nodes=[[k, resid, resname, [a for a in own[k] if a in alive2], []] for k, resid, resname in case["graph"]["nodes"]],
                         redges=[[u, v] for u, v, _ in case["graph"]["edges"]], medges=history["medges"]))
    return dict(case=case, replay=replay, direct=direct, warnings=warnings, removed=removed, written=written, reqs=reqs,
                history=history)


def judge_history(ctx, item, ans_model, ans_spec, known):
    """second evaluation, after bonds were supplied for some of the pairs reported first"""
    case, replay, hist = item["case"], dict(item["replay"], history=item["history"]["supplied"]), item["history"]
    if not ans_model.get("ok") or not ans_spec.get("ok"):
        return
    ctx.correspond("findMissingEdges-after-change", hist["direct"], ans_model["missing"], replay)
    ctx.tally(history_evaluations=True)
    if item["removed"]:
        return
    def norm(m):      # a record names a PAIR of residues, whichever comes first
        return tuple(sorted([(m[1], m[0]), (m[3], m[2])]))
    got = {norm(m) for m in hist["direct"]}
    want = {norm(m) for m in ans_spec["spec"]}
    for rec in sorted(got - want):
        ctx.oracle_fail("both", "after a bond between them was supplied, residues %s %s and %s %s are joined by an atom-level edge and "
                        "still reported missing by a second find_missing_edges (supplied bonds %s) | graph=%s"
                        % (rec[0][0], rec[0][1], rec[1][0], rec[1][1], hist["supplied"], case["graph"]), replay)
        break
    for rec in sorted(want - got):
        ctx.oracle_fail("neither", "second find_missing_edges (after bonds %s were supplied): residues %s %s and %s %s are not joined "
                        "and not reported | graph=%s" % (hist["supplied"], rec[0][0], rec[0][1], rec[1][0], rec[1][1], case["graph"]), replay)
        break


def judge_missing(ctx, item, ans_model, ans_spec, known):
    case, replay = item["case"], item["replay"]
    if not ans_model.get("ok") or not ans_spec.get("ok"):
        ctx.tally(model_rejects=str(ans_model.get("err") or ans_spec.get("err"))[:50])
        return
    # model of the code vs the code (on the residue graph and fragments the code itself holds)
    ctx.correspond("findMissingEdges", item["direct"], ans_model["missing"], replay)
    ctx.traces += 1
    # the property: every REQUESTED edge is realised xor reported (specification evaluated on the requested graph)
    info = {k: (resid, resname) for k, resid, resname in case["graph"]["nodes"]}
    expected = {(m[0], m[1], m[2], m[3]) for m in ans_spec["spec"]}
    failures = []
    for u, v, _lt in case["graph"]["edges"]:
        a, b = info[u], info[v]
        reported = any(names_both(text, a, b) for text in item["warnings"])
        unrealised = (a[1], a[0], b[1], b[0]) in expected
        if unrealised and not reported:
            failures.append(("neither", "residues %d %s and %d %s are connected in the residue graph, no atom-level edge joins "
                             "them and no warning names them (warnings: %s)" % (a[0], a[1], b[0], b[1], item["warnings"][:3])))
        if reported and not unrealised:
            failures.append(("both", "residues %d %s and %d %s are joined by an atom-level edge and yet reported missing"
                             % (a[0], a[1], b[0], b[1])))
    spurious = [t for t in item["warnings"] if "issing" in t and not any(
        names_both(t, info[u], info[v]) for u, v, _ in case["graph"]["edges"])]
    if spurious and not item["removed"]:
        failures.append(("warning-for-no-edge", "a missing-link warning names a pair that is not an edge of the residue graph: %s" % spurious[:2]))
    seen = set()
    for kind, what in failures:
        shape = "requested-edge-vanishes-after-atom-removal" if item["removed"] else kind
        if shape in seen:
            continue
        seen.add(shape)
        if shape in WITHHELD and shape not in known:
            ctx.tally(withheld_shape=shape)
            continue
        ctx.oracle_fail(shape, what + " | graph=%s" % (case["graph"],), replay)
    nedges = len(case["graph"]["edges"])
    nmiss = len(expected)
    ctx.case(json.dumps(case, sort_keys=True) if nedges else None,
             sample=dict(graph=case["graph"], missing=sorted(expected), warnings=item["warnings"][:2]),
             stream="missing", edges=("0" if nedges == 0 else "1-3" if nedges <= 3 else "4+"),
             missing=("none" if nmiss == 0 else "all" if nmiss == nedges else "some"),
             ring=(nedges >= len(case["graph"]["nodes"]) and nedges > 0), removal=item["removed"])


def gen_missing_case(rng, max_res, allow_removal):
    case = G.gen_case(rng, max_res=max_res, removal=allow_removal)
    roll = rng.random()
    if roll < 0.2:
        case["links"] = []
    elif roll < 0.4 and case["links"]:
        case["links"] = case["links"][:1]
    if rng.random() < 0.35 and len(case["graph"]["nodes"]) >= 3:
        # close a ring: the closing edge is usually not realised by a next-residue link
        keys = [n[0] for n in case["graph"]["nodes"]]
        have = {frozenset(e[:2]) for e in case["graph"]["edges"]}
        for _ in range(4):
            u, v = rng.sample(keys, 2)
            if frozenset((u, v)) not in have:
                case["graph"]["edges"].append([u, v, None])
                break
    return case


def gen_long_chain_case(rng, nres):
    """a homopolymer of `nres` residues of a type for which NO link is defined: every one of the nres-1 requested
    edges is unrealised, so each must be named in a warning of its own (many missing links in one molecule)"""
    case = G.gen_case(rng, max_res=2, removal=False)
    case["links"] = []
    block = case["blocks"][0]
    resname = block["name"]
    # (an .itp block may carry dangling interactions, which are links of their own: without them no edge is realised)
    block["ixns"] = [x for x in block["ixns"] if all(a < len(block["atoms"]) for a in x[1])]
    case["graph"] = dict(nodes=[[k, k + 1, resname] for k in range(nres)],
                         edges=[[k, k + 1, None] for k in range(nres - 1)])
    return case


def gen_fromitp_case(rng):
    """copies of one multi-residue .itp block (nodes labelled from_itp) in a row, optionally followed by ordinary
    residues; the junctions between copies (and to the ordinary residues) are realised by a link or not"""
    k = rng.choice([2, 2, 3])
    copies = rng.choice([1, 2, 2, 3])
    resnames = ["R%d" % (i + 1) for i in range(k)]
    atoms, per_res = [], []
    for r in range(k):
        n = rng.randint(1, 3)
        per_res.append(list(range(len(atoms), len(atoms) + n)))
        atoms += [dict(name="C%d" % (i + 1), atype=rng.choice(G.ATYPES), cg=r + 1, resid=r + 1, resname=resnames[r]) for i in range(n)]
    ixns = []
    for res in per_res:
        ixns += [["bonds", [a, b], ["1", "0.37", "7000"], {}] for a, b in zip(res, res[1:])]
    for r in range(k - 1):
        if rng.random() < 0.9:
            ixns.append(["bonds", [per_res[r][-1], per_res[r + 1][0]], ["1", "0.37", "7000"], {}])
    blocks = [dict(name="MIX", nrexcl=1, syntax="itp", atoms=atoms, ixns=ixns)]
    nreg = rng.choice([0, 0, 1, 2])
    if nreg:
        n = rng.randint(1, 3)
        blocks.append(dict(name="A", nrexcl=1, syntax="itp", atoms=[dict(name="C%d" % (i + 1), atype="P1", cg=1) for i in range(n)],
                           ixns=[["bonds", [i, i + 1], ["1", "0.3", "1000"], {}] for i in range(n - 1)]))
    nodes, from_itp = [], {}
    for c in range(copies):
        for r in range(k):
            key = len(nodes)
            nodes.append([key, key + 1, resnames[r]])
            from_itp[str(key)] = "MIX"
    for _ in range(nreg):
        nodes.append([len(nodes), len(nodes) + 1, "A"])
    edges = [[i, i + 1, None] for i in range(len(nodes) - 1)]
    if len(nodes) >= 3 and rng.random() < 0.2:
        edges.append([0, len(nodes) - 1, None])
    links = []

    def bond_link(name_a, res_a, name_b, res_b):
        return dict(atoms=[[name_a, {"resname": res_a}], ["+" + name_b, {"resname": res_b}]],
                    ixns=[["bonds", [name_a, "+" + name_b], ["1", "0.41", "5000"], {}]], edges=[], nonedges=[], patterns=[])
    last_name = "C%d" % len(per_res[-1])
    if rng.random() < 0.5:
        links.append(bond_link(last_name, resnames[-1], "C1", resnames[0]))          # copy -> next copy
    if nreg and rng.random() < 0.5:
        links.append(bond_link(last_name, resnames[-1], "C1", "A"))                  # last copy -> ordinary residue
    if nreg == 2 and rng.random() < 0.5:
        links.append(bond_link("C1", "A", "C1", "A"))
    return dict(blocks=blocks, links=links, graph=dict(nodes=nodes, edges=edges, from_itp=from_itp))


# ---- added input dimensions (all random choices from a derived generator, see `derived_rng`)

def gen_ring_opening_case(xrng):
    """ring-like monomers (first and last atom of the block are bonded) whose link bonds the last atom to the first
    atom of the NEXT residue and lists the ring bond in `[ !bonds ]` (vermouth's syntax for interactions a link takes
    out; sometimes also a block angle in `[ !angles ]`, or another bond of the link atom instead of the ring bond);
    chains of 2-6 such residues, so the link applies at the FIRST residue of the molecule and further down; optionally
    a tail of another residue type with or without a link to it"""
    name = xrng.choice(["A", "RNG", "PA", "AA"])
    natoms = xrng.randint(3, 5)
    names = xrng.sample(G.ATOM_POOL, natoms)
    first, last = names[0], names[-1]

    def bond_params():
        return ["1", "0.%d" % xrng.randint(10, 60), str(xrng.randint(100, 900))]
    atoms = [dict(name=a, atype=xrng.choice(G.ATYPES), cg=1) for a in names]
    ixns = [["bonds", [i, i + 1], bond_params(), {}] for i in range(natoms - 1)]
    ixns.append(["bonds", xrng.choice([[natoms - 1, 0], [0, natoms - 1]]), bond_params(), {}])
    if xrng.random() < 0.5:
        ixns.append(["angles", [natoms - 2, natoms - 1, 0], ["1", str(xrng.randint(90, 180)), str(xrng.randint(10, 90))], {}])
    blocks = [dict(name=name, nrexcl=1, syntax="ff", atoms=atoms, ixns=ixns)]
    what = xrng.choice(["ring", "ring", "ring", "other-bond"])
    removed_pair = [last, first] if what == "ring" else [names[-2], last]
    if xrng.random() < 0.4:
        removed_pair = removed_pair[::-1]
    removed = [["bonds", removed_pair, []]]
    if xrng.random() < 0.3:
        removed.append(["angles", [names[-2], last, first], []])
    link = dict(atoms=[], ixns=[["bonds", [last, "+" + first], bond_params(), {}]], edges=[], nonedges=[], patterns=[],
                removed=removed)
    if xrng.random() < 0.5:
        link["header"] = {"resname": name}
    else:
        link["atoms"] = [[last, {"resname": name}], ["+" + first, {"resname": name}]]
    if xrng.random() < 0.25:
        link["features"] = ["ringopening"]
    links = [link]
    nres = xrng.randint(2, 6)
    start = xrng.choice([1, 1, 1, 5])
    nodes = [[k, start + k, name] for k in range(nres)]
    if xrng.random() < 0.4:
        other = "B" if name != "B" else "C"
        n2 = xrng.randint(1, 3)
        other_names = [first] + xrng.sample([a for a in G.ATOM_POOL if a != first], n2 - 1)
        blocks.append(dict(name=other, nrexcl=1, syntax="ff", atoms=[dict(name=a, atype="P1", cg=1) for a in other_names],
                           ixns=[["bonds", [i, i + 1], bond_params(), {}] for i in range(n2 - 1)]))
        for _ in range(xrng.randint(1, 2)):
            nodes.append([len(nodes), start + len(nodes), other])
        if xrng.random() < 0.5:
            links.append(dict(atoms=[[last, {"resname": name}], ["+" + first, {"resname": other}]],
                              ixns=[["bonds", [last, "+" + first], bond_params(), {}]], edges=[], nonedges=[], patterns=[]))
    edges = [[k, k + 1, None] for k in range(len(nodes) - 1)]
    return dict(blocks=blocks, links=links, graph=dict(nodes=nodes, edges=edges))


def decorate_links(case, xrng):
    """give the links of a generated case the parts of vermouth's link syntax polyply does not act on (harmless on a
    correct tree): `[ !bonds ]` / `[ !angles ]` / `[ !constraints ]` sections naming interactions of the reference
    residue's block or the link's own bond, `[ features ]`, a `[ molmeta ]` the molecule does not carry"""
    blocks = {b["name"]: b for b in case["blocks"]}
    done = 0
    for link in case["links"]:
        if any(" " in a for _s, ats, _p, _m in link.get("ixns", []) for a in ats) or any("atomname" in attrs for _k, attrs in link.get("atoms", [])):
            continue            # an atom-name choice (the parser re-derives the name from the key at every mention): leave it alone
        removed = []
        ref = [(key, attrs) for key, attrs in link.get("atoms", []) if key[:1] not in "+-<>*" and "|" not in str(attrs.get("resname", "|"))
               and attrs.get("resname") in blocks]
        roll = xrng.random()
        if ref and roll < 0.6:
            key, attrs = xrng.choice(ref)
            block = blocks[attrs["resname"]]
            natoms = len(block["atoms"])
            own = [x for x in block["ixns"] if x[0] in ("bonds", "angles", "constraints") and all(a < natoms for a in x[1])]
            with_atom = [x for x in own if key in [block["atoms"][a]["name"] for a in x[1]]]
            if with_atom or own:
                section, idxs, _params, _meta = xrng.choice(with_atom or own)
                tokens = [block["atoms"][a]["name"] for a in idxs]
                if xrng.random() < 0.3:
                    tokens = tokens[::-1]
                removed.append([section, tokens, []])
        if roll >= 0.45:
            two = [x for x in link.get("ixns", []) if x[0] in ("bonds", "constraints")]
            if two:
                section, tokens, _params, _meta = xrng.choice(two)
                removed.append([section, list(tokens), []])
        removed.sort(key=lambda r: r[0])
        if removed:
            link["removed"] = removed
            done += 1
        if xrng.random() < 0.3:
            link["features"] = xrng.sample(["f1", "f2", "scfix"], xrng.choice([1, 2]))
            done += 1
        if xrng.random() < 0.12 and not link.get("molmeta"):
            link["molmeta"] = {"verif_tag": xrng.choice(["x", "y"])}
            done += 1
    return done


def remap_case(case, keys=None, resids=None, names=None):
    """the same case with other node keys / resids / residue names (consistently in blocks, links and graph)"""
    import copy
    case = copy.deepcopy(case)
    keys, resids, names = keys or {}, resids or {}, names or {}

    def name_of(value):
        return "|".join(names.get(part, part) for part in value.split("|")) if isinstance(value, str) else value
    for block in case["blocks"]:
        block["name"] = names.get(block["name"], block["name"])
        for atom in block["atoms"]:
            if "resname" in atom:
                atom["resname"] = names.get(atom["resname"], atom["resname"])
    for link in case["links"]:
        for _key, attrs in link.get("atoms", []):
            if "resname" in attrs:
                attrs["resname"] = name_of(attrs["resname"])
        if "resname" in link.get("header", {}):
            link["header"]["resname"] = name_of(link["header"]["resname"])
        for entry in link.get("nonedges", []):
            if len(entry) > 2 and entry[2] and "resname" in entry[2]:
                entry[2]["resname"] = name_of(entry[2]["resname"])
        for pattern in link.get("patterns", []):
            for _key, attrs in pattern:
                if "resname" in attrs:
                    attrs["resname"] = name_of(attrs["resname"])
    graph = case["graph"]
    graph["nodes"] = [[keys.get(k, k), resids.get(r, r), names.get(n, n)] for k, r, n in graph["nodes"]]
    graph["edges"] = [[keys.get(u, u), keys.get(v, v), lt] for u, v, lt in graph["edges"]]
    if "from_itp" in graph:
        graph["from_itp"] = {str(keys.get(int(k), int(k))): names.get(v, v) for k, v in graph["from_itp"].items()}
    return case


def gen_numbering_case(xrng, max_res):
    """a generated case whose residue graph uses other node keys (start 1, 10/20/30, gaps, reversed against the
    resids), other resids (offset 7 / 28, start 0, gaps) and residue names that contain each other (A, AA, PA, PAA)"""
    case = G.gen_case(xrng, max_res=max_res, removal=False)
    old_keys = sorted(k for k, _r, _n in case["graph"]["nodes"])
    old_resids = sorted(r for _k, r, _n in case["graph"]["nodes"])
    style = xrng.choice(["start1", "tens", "gaps", "reversed", "same"])
    if style == "start1":
        keys = {k: k + 1 for k in old_keys}
    elif style == "tens":
        keys = {k: 10 * (k + 1) for k in old_keys}
    elif style == "gaps":
        picks = sorted(xrng.sample(range(0, 4 * len(old_keys) + 3), len(old_keys)))
        keys = dict(zip(old_keys, picks))
    elif style == "reversed":
        keys = dict(zip(old_keys, reversed(old_keys)))
    else:
        keys = {}
    rstyle = xrng.choice(["offset", "offset", "zero", "gaps", "same"])
    if rstyle == "offset":
        delta = xrng.choice([6, 27, 99]) - old_resids[0] + 1
        resids = {r: r + delta for r in old_resids}
    elif rstyle == "zero":
        resids = {r: r - old_resids[0] for r in old_resids}
    elif rstyle == "gaps":
        # keeps neighbours of some pairs (so that `+` links still apply there) and opens gaps elsewhere
        resids, shift = {}, 0
        for r in old_resids:
            if xrng.random() < 0.35:
                shift += xrng.choice([1, 2, 5])
            resids[r] = r + shift
        if not os.environ.get("VERIF_C10_RESID_GAPS"):
            # finding 3 (notes/C10_findings.md): resids with gaps give empty residue fragments (atoms are numbered
            # 1, 2, 3, ... whatever the residue graph says) and link application raises IndexError; withheld
            resids, rstyle = {}, "same(gaps-withheld)"
    else:
        resids = {}
    pool = xrng.choice([["A", "AA", "PA", "PAA"], ["PAA", "AA", "A", "PA"], ["B", "AB", "ABB", "BA"]])
    names = dict(zip(["A", "B", "C", "D"], pool)) if xrng.random() < 0.7 else {}
    out = remap_case(case, keys=keys, resids=resids, names=names)
    return out, "%s/%s/%s" % (style, rstyle, "nested-names" if names else "plain-names")


EXPLICIT_SECTIONS = {"bonds": (2, ["1", "0.33", "4000"]), "constraints": (2, ["1", "0.31"]), "angles": (3, ["1", "120", "40"]),
                     "pairs": (2, ["1"]), "exclusions": (2, []), "dihedrals": (4, ["1", "0", "5", "1"])}


def gen_explicit_case(xrng, max_res):
    """a generated case (often without the ordinary links) plus 1-2 links that address atoms by NUMBER (`[ molmeta ]
    by_atom_id true`), each with one interaction of one bonded section (bonds, constraints, angles, pairs, exclusions,
    dihedrals) whose atoms lie in two residues joined in the residue graph (or, less often, in two that are not)"""
    case = G.gen_case(xrng, max_res=max_res, removal=False)
    for link in case["links"]:
        for _key, attrs in link["atoms"]:
            if attrs.get("replace", {}).get("atomname", 0) is None:
                attrs.pop("replace")
    if xrng.random() < 0.5:
        case["links"] = []
    own = ownership(case)
    edges = [(u, v) for u, v, _ in case["graph"]["edges"]]
    keys = [n[0] for n in case["graph"]["nodes"]]
    raw, used = [], []
    for _ in range(xrng.choice([1, 1, 2])):
        if edges and xrng.random() < 0.8:
            u, v = xrng.choice(edges)
        elif len(keys) >= 2:
            u, v = xrng.sample(keys, 2)
        else:
            continue
        section = xrng.choice(sorted(EXPLICIT_SECTIONS))
        natoms, params = EXPLICIT_SECTIONS[section]
        # atoms alternate between the two residues where they can: consecutive atoms of the line become edges
        picks = []
        for i in range(natoms):
            side = own[u] if i % 2 == 0 else own[v]
            free = [a for a in side if a not in picks] or [a for a in own[u] + own[v] if a not in picks]
            if not free:
                break
            picks.append(xrng.choice(free))
        if len(picks) != natoms:
            continue
        raw.append("[ link ]\n[ molmeta ]\nby_atom_id true\n[ %s ]\n%s\n" % (section, " ".join([str(a + 1) for a in picks] + params)))
        used.append(section)
    if raw:
        case["raw_links"] = raw
    return case, "+".join(sorted(used)) or "none"


def gen_long_linked_chain(xrng, nres):
    """more than 20 residues of a type WITH a link between neighbours, one residue of another type (no link to it)
    far down the chain: more than 20 realised residue edges, the two around the odd residue missing"""
    case = gen_ring_opening_case(xrng)
    case["blocks"] = case["blocks"][:1]
    case["links"] = case["links"][:1]
    case["links"][0].pop("removed", None)
    name = case["blocks"][0]["name"]
    other = "B" if name != "B" else "C"
    case["blocks"].append(dict(name=other, nrexcl=1, syntax="ff", atoms=[dict(name="X1", atype="P1", cg=1)], ixns=[]))
    odd = nres - 2
    case["graph"] = dict(nodes=[[k, k + 1, other if k == odd else name] for k in range(nres)],
                         edges=[[k, k + 1, None] for k in range(nres - 1)])
    return case


def extra_missing_cases(ctx, xrng):
    """the cases of the added dimensions, each with a label for the input distribution"""
    out = []
    for _ in range(ctx.budget(5, 60)):
        out.append((gen_ring_opening_case(xrng), "ring-opening-link"))
    for _ in range(ctx.budget(14, 200)):
        case = gen_missing_case(xrng, ctx.budget(7, 10), False)
        if decorate_links(case, xrng):
            out.append((case, "link-with-ignored-sections"))
    for _ in range(ctx.budget(14, 200)):
        case, label = gen_numbering_case(xrng, ctx.budget(7, 10))
        out.append((case, "numbering:" + label))
    for _ in range(ctx.budget(8, 120)):
        case, label = gen_explicit_case(xrng, ctx.budget(6, 9))
        out.append((case, "explicit-link:" + label))
    for prior in ["twice", "after-failure"] * ctx.budget(2, 10):
        case = xrng.choice([gen_ring_opening_case, lambda r: gen_missing_case(r, 6, False)])(xrng)
        case["prior"] = prior
        out.append((case, "process-history:" + prior))
    out.append((gen_long_linked_chain(xrng, xrng.choice([23, 24, 27])), "long-linked-chain"))
    return out


def run_missing(ctx, known):
    rng = ctx.rng
    xrng = derived_rng(rng, "missing")
    allow_removal = "requested-edge-vanishes-after-atom-removal" in known
    cases = corpus_cases("missing")
    for _ in range(ctx.budget(260, 3000)):
        if rng.random() < 0.15:
            cases.append(gen_fromitp_case(rng))
        else:
            cases.append(gen_missing_case(rng, ctx.budget(7, 10), allow_removal or rng.random() < 0.15))
    # long chains without any link: 19, 20, 21, 25 and (thorough) 60 missing links in one molecule
    for nres in [20, 21, 22, 26] + ([61] if ctx.thorough else []):
        cases.append(gen_long_chain_case(rng, nres))
    for case, label in extra_missing_cases(ctx, xrng):
        cases.append(case)
        ctx.tally(added_dimension=label.split(":")[0], **({"added_" + label.split(":")[0].replace("-", "_"): label.split(":", 1)[1]}
                                                          if ":" in label else {}))
    items = [x for x in (one_missing_case(ctx, c) for c in cases) if x is not None]
    reqs = [r for item in items for r in item["reqs"]]
    answers = ctx.driver.ask(reqs) if reqs else []
    pos = 0
    for item in items:
        judge_missing(ctx, item, answers[pos], answers[pos + 1], known)
        if item["history"] is not None:
            judge_history(ctx, item, answers[pos + 2], answers[pos + 3], known)
        pos += len(item["reqs"])


# ------------------------------------------------------------------------------------------ stream direct (exhaustive)

def direct_instances():
    """EXHAUSTIVE small inputs for the real `find_missing_edges` / `find_connecting_edges`, called directly:
    (1) two residues of two atoms, joined in the residue graph: every molecule edge set over the six atom pairs x
        every choice of stored fragment edges (also fragments that are NOT subgraphs of the molecule: there the
        code is only compared with its model, the theorem's hypothesis fails);
    (2) three residues of 2, 1, 1 atoms: every residue graph on them x every molecule edge set, the stored fragment
        following the molecule."""
    import itertools
    pairs = [list(p) for p in itertools.combinations(range(4), 2)]
    out = []
    for mask in range(1 << len(pairs)):
        medges = [p for i, p in enumerate(pairs) if mask >> i & 1]
        for fa in ([], [[0, 1]]):
            for fb in ([], [[2, 3]]):
                out.append(dict(nodes=[[0, 1, "RA", [0, 1], fa], [1, 2, "RB", [2, 3], fb]], redges=[[0, 1]], medges=medges))
        frag = [[0, 1]] if [0, 1] in medges else []
        for rmask in range(8):
            redges = [e for i, e in enumerate([[0, 1], [1, 2], [0, 2]]) if rmask >> i & 1]
            out.append(dict(nodes=[[0, 1, "RA", [0, 1], frag], [1, 2, "RB", [2], []], [2, 3, "RC", [3], []]],
                            redges=redges, medges=medges))
    return out


def one_direct_case(inst):
    import networkx as nx
    from vermouth.molecule import Molecule
    from polyply.src.graph_utils import find_missing_edges, find_connecting_edges
    mol = Molecule()
    res = nx.Graph()
    for key, resid, resname, frag, fedges in inst["nodes"]:
        graph = nx.Graph()
        graph.add_nodes_from(frag)
        graph.add_edges_from(fedges)
        for atom in frag:
            mol.add_node(atom, resid=resid, resname=resname, atomname="A%d" % atom)
        res.add_node(key, graph=graph, resid=resid, resname=resname)
    mol.add_edges_from(inst["medges"])
    res.add_edges_from(inst["redges"])
    redges = [[int(u), int(v)] for u, v in res.edges]            # order and orientation as networkx reports them
    missing = [[m["resA"], int(m["idxA"]), m["resB"], int(m["idxB"])] for m in find_missing_edges(res, mol)]
    connecting = [sorted(sorted([int(a), int(b)]) for a, b in find_connecting_edges(res, mol, (u, v))) for u, v in redges]
    mset = {frozenset(e) for e in inst["medges"]}
    hyp = all(frozenset(e) in mset for n in inst["nodes"] for e in n[4])
    return dict(inst=inst, missing=missing, connecting=connecting, hyp=hyp,
                req=dict(op="missing", nodes=inst["nodes"], redges=redges, medges=inst["medges"]))


def judge_direct(ctx, item, ans):
    replay = dict(stream="direct", inst=item["inst"])
    ctx.correspond("findMissingEdges-direct", item["missing"], ans["missing"], replay)
    ctx.correspond("findConnectingEdges-direct", item["connecting"],
                   [sorted(sorted(p) for p in edges) for edges in ans["connecting"]], replay)
    if item["hyp"]:
        # hypotheses of C10_missing_eq_spec hold: the property itself (reported iff not joined)
        got = {tuple(m) for m in item["missing"]}
        want = {tuple(m) for m in ans["spec"]}
        for rec in sorted(got - want):
            ctx.oracle_fail("both", "direct call: residues %s %s and %s %s are joined by an atom-level edge and yet reported "
                                    "missing | %s" % (rec[1], rec[0], rec[3], rec[2], json.dumps(item["inst"])), replay)
        for rec in sorted(want - got):
            ctx.oracle_fail("neither", "direct call: residues %s %s and %s %s are connected in the residue graph, no atom-level "
                                       "edge joins them and find_missing_edges does not report them | %s"
                            % (rec[1], rec[0], rec[3], rec[2], json.dumps(item["inst"])), replay)


def direct_variants(instances, xrng, count):
    """a sample of the exhaustive instances with other labels: residue-graph node keys that are not 0..n-1 (10/20/30,
    gaps, start 1, reversed against the resids), nodes inserted in another order, atom keys with an offset, resids
    from 0 / an offset / with gaps / descending, residue names that contain each other"""
    out = []
    for inst in xrng.sample(instances, min(count, len(instances))):
        nkeys = [n[0] for n in inst["nodes"]]
        kmap = xrng.choice([{k: 10 * (k + 1) for k in nkeys}, {k: k + 1 for k in nkeys}, {k: 3 * k + 2 for k in nkeys},
                            dict(zip(nkeys, reversed(nkeys))), {k: k for k in nkeys}])
        rstyle = xrng.choice(["zero", "offset", "gaps", "descending", "same"])
        rmap = {"zero": lambda r: r - 1, "offset": lambda r: r + 27, "gaps": lambda r: 3 * r + 1, "descending": lambda r: 10 - r,
                "same": lambda r: r}[rstyle]
        nmap = xrng.choice([{"RA": "A", "RB": "AA", "RC": "PA"}, {"RA": "AA", "RB": "A", "RC": "AAA"}, {"RA": "A", "RB": "A", "RC": "A"},
                            {"RA": "RA", "RB": "RB", "RC": "RC"}])
        shift = xrng.choice([0, 0, 5, 100])
        nodes = [[kmap[k], rmap(resid), nmap[name], [a + shift for a in frag], [[u + shift, v + shift] for u, v in fedges]]
                 for k, resid, name, frag, fedges in inst["nodes"]]
        if xrng.random() < 0.5:
            xrng.shuffle(nodes)
        out.append(dict(nodes=nodes, redges=[[kmap[u], kmap[v]] for u, v in inst["redges"]],
                        medges=[[u + shift, v + shift] for u, v in inst["medges"]]))
    return out


def run_direct(ctx):
    base = direct_instances()
    variants = direct_variants(base, derived_rng(ctx.rng, "direct"), ctx.budget(160, 768))
    ctx.tally(direct_relabelled_variants=len(variants))
    items = [one_direct_case(inst) for inst in base + variants]
    answers = ctx.driver.ask([item["req"] for item in items])
    for item, ans in zip(items, answers):
        judge_direct(ctx, item, ans)
    ctx.tally(direct_instances="exhaustive: %d (2 residues x 2 atoms: 64 edge sets x 4 fragment choices; "
                               "3 residues: 64 edge sets x 8 residue graphs) + %d relabelled variants" % (len(base), len(variants)),
              direct_with_hypotheses=sum(1 for item in items if item["hyp"]))


# ------------------------------------------------------------------------------------------ stream gate

def gen_top(rng):
    """abstract topology: molecule types with residues, atoms and bonds/constraints"""
    mols = []
    for midx in range(rng.choice([1, 1, 2, 3])):
        nres = rng.randint(1, 5)
        atoms, per_res = [], []
        for r in range(nres):
            n = rng.randint(1, 3)
            per_res.append(list(range(len(atoms), len(atoms) + n)))
            atoms += [[len(atoms) + i, r + 1, rng.choice(["AA", "BB"])] for i in range(n)]
        for res in per_res:      # one name per residue
            for a in res:
                atoms[a][2] = atoms[res[0]][2]
        edges = set()
        # intra-residue chains (sometimes left out: an isolated atom inside a residue)
        for res in per_res:
            for a, b in zip(res, res[1:]):
                if rng.random() < 0.93:
                    edges.add((a, b))
        # inter-residue edges: random graph over the residues (trees, cycles, several components)
        style = rng.choice(["tree", "tree", "sparse", "cycle+isolated", "dense"])
        pairs = []
        if style == "tree":
            pairs = [(rng.randrange(i), i) for i in range(1, nres)]
        elif style == "sparse":
            pairs = [(rng.randrange(i), i) for i in range(1, nres) if rng.random() < 0.6]
        elif style == "cycle+isolated" and nres >= 4:
            ring = list(range(nres - 1))
            pairs = [(ring[i], ring[(i + 1) % len(ring)]) for i in range(len(ring))]
        elif style == "dense":
            pairs = [(i, j) for i in range(nres) for j in range(i + 1, nres) if rng.random() < 0.5]
        for i, j in pairs:
            if i != j:
                edges.add(tuple(sorted((rng.choice(per_res[i]), rng.choice(per_res[j])))))
        kinds = {e: ("constraints" if rng.random() < 0.2 else "bonds") for e in edges}
        # angle / dihedral terms: over bonded atoms, and also across a place where the bond is missing (what gen_params
        # writes when only the angle link applied, or what is left when a bond line is deleted).  They are NOT bonds:
        # the oracle's connectivity is computed from bonds and constraints only.
        natoms = len(atoms)
        angles, dihedrals = [], []
        for _ in range(rng.choice([0, 1, 2, 3])):
            if natoms >= 3 and rng.random() < 0.6:
                start = rng.randrange(natoms - 2)
                angles.append([start, start + 1, start + 2])
            elif natoms >= 3:
                angles.append(rng.sample(range(natoms), 3))
        for _ in range(rng.choice([0, 0, 1])):
            if natoms >= 4:
                start = rng.randrange(natoms - 3)
                dihedrals.append([start, start + 1, start + 2, start + 3] if rng.random() < 0.6 else rng.sample(range(natoms), 4))
        mols.append(dict(name="M%d" % midx, atoms=atoms, edges=sorted(edges), kinds=[kinds[e] for e in sorted(edges)],
                         angles=angles, dihedrals=dihedrals, count=rng.choice([1, 1, 2])))
    return dict(mols=mols)


def render_top(top):
    lines = ["[ defaults ]", "1 1 no 1.0 1.0", "[ atomtypes ]", "P 45.0 0.0 A 0.47 3.5"]
    for mol in top["mols"]:
        lines += ["[ moleculetype ]", "%s 1" % mol["name"], "[ atoms ]"]
        for key, resid, resname in mol["atoms"]:
            lines.append("%d P %d %s X%d %d 0.0 45.0" % (key + 1, resid, resname, key, key + 1))
        for section in ("bonds", "constraints"):
            rows = [e for e, kind in zip(mol["edges"], mol["kinds"]) if kind == section]
            if rows:
                lines.append("[ %s ]" % section)
                for u, v in rows:
                    lines.append("%d %d 1 0.35%s" % (u + 1, v + 1, " 1000" if section == "bonds" else ""))
        if mol.get("angles"):
            lines.append("[ angles ]")
            for a, b, c in mol["angles"]:
                lines.append("%d %d %d 1 120 50" % (a + 1, b + 1, c + 1))
        if mol.get("dihedrals"):
            lines.append("[ dihedrals ]")
            for a, b, c, d in mol["dihedrals"]:
                lines.append("%d %d %d %d 1 0 2 1" % (a + 1, b + 1, c + 1, d + 1))
        for section in ("virtual_sites2", "virtual_sitesn"):
            rows = [v for v in mol.get("vsites", []) if v[0] == section]
            if rows:
                lines.append("[ %s ]" % section)
                for _section, site, frm in rows:
                    if section == "virtual_sites2":
                        lines.append("%d %d %d 1 0.5" % (site + 1, frm[0] + 1, frm[1] + 1))
                    else:
                        lines.append("%d 1 %s" % (site + 1, " ".join(str(a + 1) for a in frm)))
    lines += ["[ system ]", "verif", "[ molecules ]"]
    for midx, count in molecule_lines(top):
        lines.append("%s %d" % (top["mols"][midx]["name"], count))
    return "\n".join(lines) + "\n"


def molecule_lines(top):
    """the `[ molecules ]` lines as (index of the molecule type, count); default: every type once, in definition
    order; `top["order"]` lists them explicitly (another order, a name repeated on non-adjacent lines, counts > 1)"""
    if top.get("order"):
        return [(int(m), int(c)) for m, c in top["order"]]
    return [(i, mol["count"]) for i, mol in enumerate(top["mols"])]


def instances(top):
    """the molecules of the system in file order (one entry per copy)"""
    return [top["mols"][midx] for midx, count in molecule_lines(top) for _ in range(count)]


def bond_edges(mol):
    """what connects atoms for the property: bonds, constraints and virtual-site constructions"""
    return [list(e) for e in mol["edges"]] + [[site, a] for _s, site, frm in mol.get("vsites", []) for a in frm]


def residues_of(mol):
    """atom keys per residue, residues in resid order"""
    per = {}
    for key, resid, _resname in mol["atoms"]:
        per.setdefault(resid, []).append(key)
    return [per[r] for r in sorted(per)]


def write_gro(path, npos, box):
    """`npos` positions on a serpentine line with 0.4 nm between neighbours (what a residue-level or an atom-level
    starting structure is for this check: only the NUMBER of positions decides which residues count as supplied)"""
    lines = ["verif", str(npos)]
    for i in range(npos):
        row, col = divmod(i, 14)
        col = col if row % 2 == 0 else 13 - col
        layer, row = divmod(row, 14)
        lines.append("%5d%-5s%5s%5d%8.3f%8.3f%8.3f" % ((i + 1) % 100000, "RES", "R", (i + 1) % 100000,
                                                       1.0 + 0.4 * col, 1.0 + 0.4 * row, 1.0 + 0.4 * layer))
    lines.append("%10.5f%10.5f%10.5f" % (box, box, box))
    with open(path, "w") as handle:
        handle.write("\n".join(lines) + "\n")


def coord_arguments(top, tmp, box):
    """the starting-structure arguments of gen_coords a case asks for.  `top["coords"]` = {"meta": k} (a residue-level
    structure, `-mc`, with positions for the first k residues of the system), {"mol": k} (an atom-level structure, `-c`,
    with the atoms of the first k residues), both, and optionally "build_res" (`-res`: residue names to rebuild)"""
    spec = top.get("coords") or {}
    kwargs = {}
    sizes = [len(atoms) for mol in instances(top) for atoms in residues_of(mol)]
    if spec.get("mol"):
        path = os.path.join(tmp, "start.gro")
        write_gro(path, sum(sizes[:int(spec["mol"])]), box)
        kwargs["coordpath"] = pathlib.Path(path)
    if spec.get("meta"):
        path = os.path.join(tmp, "start_meta.gro")
        write_gro(path, min(int(spec["meta"]), len(sizes)), box)
        kwargs["coordpath_meta"] = pathlib.Path(path)
    if spec.get("build_res"):
        kwargs["build_res"] = list(spec["build_res"])
    return kwargs


def one_gate_case(ctx, top, full):
    from polyply.src.topology import Topology
    from polyply.src import gen_coords as gc
    replay = dict(stream="gate", top=top)
    with tempfile.TemporaryDirectory() as tmp:
        path = os.path.join(tmp, "system.top")
        with open(path, "w") as handle:
            handle.write(render_top(top))
        try:
            topology = Topology.from_gmx_topfile(pathlib.Path(path), "verif")
            topology.preprocess()
        except Exception as err:  # pylint: disable=broad-except
            ctx.tally(top_reader_raised=type(err).__name__)
            return None
        try:
            gc._check_molecules(topology.molecules)  # pylint: disable=protected-access
            raised = False
        except IOError:
            raised = True
        full_result = None
        if full:
            out = os.path.join(tmp, "out.gro")
            try:
                # (a molecule that should have been refused may make the builder loop for ever: bounded, and a run
                # that had to be stopped is neither a refusal nor a structure)
                with common.time_limit(60):
                    gc.gen_coords(toppath=pathlib.Path(path), outpath=pathlib.Path(out), name="verif", box=[8.0, 8.0, 8.0],
                                  **coord_arguments(top, tmp, 8.0))
                full_result = "built" if os.path.exists(out) else "no-output"
            except common.CaseTimeout:
                full_result = "stopped-after-60s"
            except IOError:
                full_result = "refused" if not os.path.exists(out) else "refused-but-wrote"
            except Exception as err:  # pylint: disable=broad-except
                full_result = "other:" + type(err).__name__
    mols = [dict(atoms=mol["atoms"], edges=bond_edges(mol)) for mol in instances(top)]
    return dict(top=top, replay=replay, raised=raised, full=full_result, req=dict(op="gate", mols=mols))


def judge_gate(ctx, item, ans, known):
    replay = item["replay"]
    ctx.correspond("checkMolecules", item["raised"], ans["raises"], replay)
    ctx.traces += 1
    want = ans["spec"]
    if item["raised"] != want:
        if want and not ans["raises"]:
            shape, what = ("isolated-atom-inside-connected-residue-graph",
                           "a molecule whose atoms are not all connected (an atom without any bond inside a residue whose other atoms "
                           "are bonded onwards) is not refused: _check_molecules tests the residue graph only")
        elif want:
            shape, what = "disconnected-molecule-accepted", "a molecule with disconnected atoms passes _check_molecules"
        else:
            shape, what = "connected-molecule-refused", "_check_molecules raises although all atoms of every molecule are connected"
        if shape in WITHHELD and shape not in known:
            ctx.tally(withheld_shape=shape)
        else:
            ctx.oracle_fail(shape, what + " | %s" % json.dumps(item["top"])[:400], replay)
    if item["full"] is not None:
        expect = "refused" if item["raised"] else "built"
        coords = item["top"].get("coords") or {}
        how = "+".join(sorted(k for k in coords if coords[k])) or "from-scratch"
        ctx.tally(gen_coords_full=item["full"], gen_coords_input="%s:%s" % (how, item["full"]))
        if item["full"] != expect:
            ctx.oracle_fail("gen_coords-gate-mismatch", "gen_coords %s although _check_molecules %s (starting structure: %s)" %
                            (item["full"], "raises" if item["raised"] else "passes", coords or "none"), replay)
        # the property on the complete command, whatever starting structure is supplied: refuse iff the atoms of
        # some molecule are not all connected (shape classification as above)
        if want and item["full"] == "built" and item["raised"] == want:
            shape = "isolated-atom-inside-connected-residue-graph" if not ans["raises"] else "disconnected-molecule-built"
            if shape in WITHHELD and shape not in known:
                ctx.tally(withheld_shape=shape)
            else:
                ctx.oracle_fail(shape, "gen_coords builds (writes a structure for) a system in which the atoms of a molecule are not "
                                "all connected; starting structure given: %s | %s" % (coords or "none", json.dumps(item["top"])[:400]), replay)
        elif not want and item["full"] != "built" and item["raised"] == want:
            ctx.oracle_fail("connected-molecule-refused", "gen_coords does not build (%s) a system all of whose molecules are connected; "
                            "starting structure given: %s | %s" % (item["full"], coords or "none", json.dumps(item["top"])[:400]), replay)
    natoms = sum(len(m["atoms"]) for m in item["top"]["mols"])
    ctx.case(("gate", json.dumps(item["top"], sort_keys=True)) if natoms >= 2 else None, stream="gate",
             gate=("raises" if item["raised"] else "passes"), atoms_connected=not want)


def residue_graph_connected(mol):
    """harness-side classification used only to SELECT inputs (so that every run has disconnected molecules with every
    kind of starting structure); the oracle is the Lean specification"""
    residues = residues_of(mol)
    owner = {a: i for i, atoms in enumerate(residues) for a in atoms}
    parent = list(range(len(residues)))

    def find(x):
        while parent[x] != x:
            parent[x] = parent[parent[x]]
            x = parent[x]
        return x
    for u, v in bond_edges(mol):
        parent[find(owner[u])] = find(owner[v])
    return len({find(i) for i in range(len(residues))}) <= 1


def add_virtual_site(mol, xrng):
    """append a virtual site to the last residue of a molecule type, constructed from atoms of that residue"""
    last = residues_of(mol)[-1]
    _key, resid, resname = mol["atoms"][last[0]]
    site = len(mol["atoms"])
    mol["atoms"].append([site, resid, resname])
    if len(last) >= 2 and xrng.random() < 0.5:
        mol.setdefault("vsites", []).append(["virtual_sites2", site, xrng.sample(last, 2)])
    else:
        mol.setdefault("vsites", []).append(["virtual_sitesn", site, xrng.sample(last, xrng.randint(1, len(last)))])


def extra_gate_tops(ctx, xrng):
    """the added dimensions of the gate stream, all through the complete `gen_coords`: starting structures (`-mc`
    residue-level, `-c` atom-level, both, `-res`) covering ALL or SOME residues, for connected and for disconnected
    molecules; several molecule types with the disconnected one not first, `[ molecules ]` lines in another order /
    a name repeated on non-adjacent lines / counts > 1 (up to 25 copies); virtual sites; residue names that contain each
    other; resids that do not start at 1"""
    import copy
    connected, broken = [], []
    for _ in range(400):
        if len(connected) >= ctx.budget(8, 60) and len(broken) >= ctx.budget(8, 60):
            break
        top = gen_top(xrng)
        ok = [residue_graph_connected(mol) for mol in top["mols"]]
        (connected if all(ok) else broken).append(top)
    out = []

    def total_residues(top):
        return sum(len(residues_of(mol)) for mol in instances(top))

    def with_coords(top, kind):
        top = copy.deepcopy(top)
        nres = total_residues(top)
        some = xrng.randint(1, max(1, nres - 1))
        top["coords"] = {"meta-all": {"meta": nres}, "meta-some": {"meta": some}, "mol-all": {"mol": nres}, "mol-some": {"mol": some},
                         "both": {"mol": nres, "meta": some}, "meta-all+res": {"meta": nres, "build_res": [xrng.choice(["AA", "BB"])]},
                         "mol-all+res": {"mol": nres, "build_res": [xrng.choice(["AA", "BB"])]}}[kind]
        return top
    kinds = ["meta-all", "mol-all", "meta-some", "mol-some", "both", "meta-all+res", "mol-all+res", "meta-all"]
    for idx, top in enumerate(broken):
        out.append((with_coords(top, kinds[idx % len(kinds)]), "coords-disconnected:" + kinds[idx % len(kinds)]))
    for idx, top in enumerate(connected):
        out.append((with_coords(top, kinds[idx % len(kinds)]), "coords-connected:" + kinds[idx % len(kinds)]))
    # several molecule types, the disconnected one NOT first; `[ molecules ]` lines reordered / repeated / counts > 1
    for idx in range(min(len(connected), len(broken), ctx.budget(4, 30))):
        good = copy.deepcopy(xrng.choice(connected[idx]["mols"]))
        bad = copy.deepcopy(next(m for m in broken[idx]["mols"] if not residue_graph_connected(m)))
        good["name"], bad["name"] = "M0", "M1"
        top = dict(mols=[good, bad])
        top["order"] = xrng.choice([[[0, 1], [1, 1]], [[0, 2], [1, 1], [0, 1]], [[0, 1], [1, 2]], [[0, 3], [1, 1]]])
        out.append((with_coords(top, xrng.choice(["meta-all", "meta-all", "mol-all", "meta-some"])), "disconnected-not-first"))
        only_good = dict(mols=[copy.deepcopy(good), dict(copy.deepcopy(xrng.choice(connected[idx - 1]["mols"])), name="M1")],
                         order=xrng.choice([[[1, 1], [0, 2]], [[0, 1], [1, 1], [0, 1]], [[1, 2], [0, 2]]]))
        out.append((with_coords(only_good, xrng.choice(["meta-all", "mol-some", "meta-some", "both"])), "molecule-lines-reordered"))
    # more than 20 copies, the disconnected type last
    if connected and broken:
        good = copy.deepcopy(min(connected[0]["mols"], key=lambda m: len(m["atoms"])))
        bad = copy.deepcopy(next(m for m in broken[0]["mols"] if not residue_graph_connected(m)))
        good["name"], bad["name"] = "M0", "M1"
        out.append((dict(mols=[good, bad], order=[[0, xrng.choice([20, 21, 25])], [1, 1]]), "more-than-20-molecules"))
        top = with_coords(dict(mols=[copy.deepcopy(good)], order=[[0, xrng.choice([21, 22])]]), "meta-some")
        out.append((top, "more-than-20-molecules"))
    # virtual sites (constructed from atoms of their own residue): connected by the construction, no bond of their own
    for idx, top in enumerate(connected[:ctx.budget(3, 20)] + broken[:ctx.budget(2, 10)]):
        top = copy.deepcopy(top)
        for mol in top["mols"]:
            if xrng.random() < 0.7 or mol is top["mols"][0]:
                add_virtual_site(mol, xrng)
        out.append((with_coords(top, "meta-all") if idx % 2 else top, "virtual-sites"))
    # residue names that contain each other, resids from an offset
    for idx, top in enumerate(connected[-ctx.budget(2, 10):] + broken[-ctx.budget(2, 10):]):
        top = copy.deepcopy(top)
        names = xrng.choice([{"AA": "A", "BB": "AA"}, {"AA": "PAA", "BB": "AA"}, {"AA": "AAA", "BB": "AA"}])
        offset = xrng.choice([0, 6, 27])
        for mol in top["mols"]:
            mol["atoms"] = [[k, r + offset, names[n]] for k, r, n in mol["atoms"]]
        out.append((with_coords(top, "mol-some") if idx % 2 else top, "names-and-resids"))
    return out


def run_gate(ctx, known):
    rng = ctx.rng
    xrng = derived_rng(rng, "gate")
    tops = [c for c in corpus_cases("gate")]
    for _ in range(ctx.budget(120, 1500)):
        tops.append(gen_top(rng))
    nfull = ctx.budget(6, 40)
    items = []
    for idx, top in enumerate(tops):
        item = one_gate_case(ctx, top, full=idx < nfull)
        if item is not None:
            items.append(item)
    for top, label in extra_gate_tops(ctx, xrng):
        ctx.tally(added_dimension_gate=label.split(":")[0])
        item = one_gate_case(ctx, top, full=True)
        if item is not None:
            items.append(item)
    answers = ctx.driver.ask([item["req"] for item in items]) if items else []
    for item, ans in zip(items, answers):
        if ans.get("ok"):
            judge_gate(ctx, item, ans, known)


# ------------------------------------------------------------------------------------------ entry points

def corpus_cases(stream):
    path = os.path.join(common.VERIF, "corpus", "C10")
    out = []
    if os.path.isdir(path):
        for name in sorted(os.listdir(path)):
            data = json.load(open(os.path.join(path, name)))
            inp = data.get("input", data)
            if inp.get("stream") == stream:
                out.append(inp["case"] if stream == "missing" else inp["top"])
    return out


def known_shapes():
    return {k["shape"] for k in common.load_known_findings() if k["property"] == "C10"}


def run(ctx):
    ctx.extra["rule"] = RULE
    ctx.extra["trusted"] = ["networkx Graph.degree / has_edge / is_connected (modelled: incidence count, BFS levels)",
                            "vermouth StyleAdapter log records (level and text inspected)"]
    ctx.assumptions += [
        "residue ownership of atoms for the oracle = residues in resid order own consecutive node keys (the layout C01 states)",
        "a warning 'names both residues' when its text contains resid and resname of both; the wording is not pinned",
        "the complete gen_coords is run on some topologies only (quick 6 + ~40 with starting structures / thorough 40 + ~300); "
        "all others go through Topology.from_gmx_topfile + preprocess + _check_molecules",
        "a virtual site counts as connected to the atoms it is constructed from (the refusal message's own wording: 'bonds, "
        "constraints or virtual-sites'); generated sites are constructed from atoms of their own residue",
        "starting structures are .gro files with the right NUMBER of positions (a serpentine line, 0.4 nm apart): which residues "
        "count as supplied depends on the count only",
    ]
    ctx.extra["explanation"] = ("oracle = C10M.specMissing (a requested residue edge is to be reported iff no atom-level edge joins the "
                                "two residues) evaluated by the Lean driver on the real output molecule, compared with the WARNING "
                                "records of gen_params; C10M.specRaises (atom-graph connectivity) vs the real _check_molecules")
    known = known_shapes()
    run_direct(ctx)
    run_missing(ctx, known)
    run_gate(ctx, known)


def replay(ctx, data):
    inp = data.get("input") or {}
    items = [inp] if inp else [i["input"] for i in data.get("no_longer_checks", []) if i.get("input")]
    known = set(WITHHELD) | known_shapes()
    for item in items:
        if item.get("stream") == "missing":
            got = one_missing_case(ctx, item["case"])
            if got is not None:
                answers = ctx.driver.ask(got["reqs"])
                judge_missing(ctx, got, answers[0], answers[1], known)
                if got["history"] is not None:
                    judge_history(ctx, got, answers[2], answers[3], known)
        elif item.get("stream") == "direct":
            got = one_direct_case(item["inst"])
            judge_direct(ctx, got, ctx.driver.ask([got["req"]])[0])
        elif item.get("stream") == "gate":
            got = one_gate_case(ctx, item["top"], full=True)
            if got is not None:
                judge_gate(ctx, got, ctx.driver.ask([got["req"]])[0], known)
    for b in ctx.broken:
        print("REPLAY-DISAGREES", b["name"], b["detail"][:600])
