"""C10 — every residue-graph edge is realised by a bond or reported as missing.

properties.jsonl: "After link application each pair of residues connected in the residue graph is
either joined by at least one atom-level edge between the two residues or reported in a missing-link
warning naming both residues - never both and never neither. gen_coords refuses to build a molecule
whose atoms are not all connected."

Implementation side
  * stream `missing`: force fields and residue graphs of `ffgen_c02` (with and without applicable links,
    rings, branches); (a) the real stages `load_ff_library -> MetaMolecule -> MapToMolecule -> ApplyLinks`
    and then the real `find_missing_edges(meta, meta.molecule)` called directly; (b) the real
    `gen_params` on the same files (sequence as .json graph) with the log records captured.
  * stream `gate`: random .top files (1-3 molecule types, 1-5 residues, bonds/constraints forming trees,
    cycles, several components, isolated atoms; angle and dihedral lines over bonded atoms and across missing bonds) read by `Topology.from_gmx_topfile`, then the real
    `_check_molecules(topology.molecules)`; a few of them through the complete `gen_coords`.
Model side (`Model/C10Missing.lean`): `findMissingEdges` (correspondence with (a)), `specMissing` — the
property's own statement, evaluated on the REQUESTED residue-graph edges, the generator's residue
ownership of atoms and the bond graph of the real output molecule — compared with the warnings of (b);
`checkMolecules` (correspondence) and `specRaises` (atom-graph connectivity, the oracle) for the gate.
Trusted: networkx `is_connected` / `degree` (modelled), vermouth's logging adapter (records inspected:
level >= WARNING and text naming both residues, the wording itself is not pinned).
"""
import json
import logging
import os
import pathlib
import re
import tempfile

import common
import ffgen_c02 as G

RULE = ("missing: random force fields (1-3 blocks, .ff / .itp with dangling interactions) x random residue graphs "
        "(paths, trees, one ring, 1-7 residues, up to 10 thorough) x 0-4 links that match some, all or none of the "
        "residue edges; non-trivial when the graph has an edge; distinct = abstract case.  gate: random topologies, "
        "distinct = abstract topology")
WITHHELD = ("requested-edge-vanishes-after-atom-removal", "isolated-atom-inside-connected-residue-graph")


class Capture(logging.Handler):
    def __init__(self):
        super().__init__(level=logging.WARNING)
        self.records = []

    def emit(self, record):
        self.records.append((record.levelno, str(record.msg)))


class capture_warnings:
    """collect the log records of the `polyply` loggers while the (globally silenced) logging is enabled"""

    def __enter__(self):
        self.logger = logging.getLogger("polyply")
        self.handler = Capture()
        self.saved = (self.logger.handlers[:], self.logger.propagate, logging.root.manager.disable, self.logger.level)
        self.logger.handlers = [self.handler]
        self.logger.propagate = False
        self.logger.setLevel(logging.WARNING)
        logging.disable(logging.NOTSET)
        return self.handler

    def __exit__(self, *exc):
        self.logger.handlers, self.logger.propagate = self.saved[0], self.saved[1]
        self.logger.setLevel(self.saved[3])
        logging.disable(self.saved[2])
        return False


def tokens(text):
    return re.findall(r"[A-Za-z0-9_+\-]+", text)


def names_both(text, res_a, res_b):
    """does a warning text name both residues (resid and resname of each)?"""
    toks = tokens(text)
    need = [str(res_a[0]), str(res_a[1]), str(res_b[0]), str(res_b[1])]
    pool = list(toks)
    for item in need:
        if item in pool:
            pool.remove(item)
        else:
            return False
    return True


# ------------------------------------------------------------------------------------------ stream missing

def write_files(case, tmp):
    texts = G.render(case)
    paths = []
    for ext in ("ff", "itp"):
        if texts[ext]:
            path = os.path.join(tmp, "case." + ext)
            with open(path, "w") as handle:
                handle.write(texts[ext])
            paths.append(pathlib.Path(path))
    from_itp = {int(k): v for k, v in case["graph"].get("from_itp", {}).items()}
    nodes = [dict(id=k, resname=resname, resid=resid, **({"from_itp": from_itp[k]} if k in from_itp else {}))
             for k, resid, resname in case["graph"]["nodes"]]
    edges = []
    for u, v, linktype in case["graph"]["edges"]:
        edge = dict(source=u, target=v)
        if linktype is not None:
            edge["linktype"] = linktype
        edges.append(edge)
    seq = os.path.join(tmp, "seq.json")
    with open(seq, "w") as handle:
        json.dump(dict(directed=False, multigraph=False, graph={}, nodes=nodes, links=edges, edges=edges), handle)
    return paths, pathlib.Path(seq)


def itp_edges(text):
    """bond graph recounted from a written .itp (node key = atom number - 1; valid when no atom was removed)"""
    edges, section = [], None
    for line in text.splitlines():
        line = line.split(";")[0].strip()
        if not line or line.startswith("#"):
            continue
        if line.startswith("["):
            section = line.strip("[] ").lower()
            continue
        natoms = {"bonds": 2, "constraints": 2, "angles": 3, "dihedrals": 4}.get(section)
        if natoms:
            atoms = [int(t) - 1 for t in line.split()[:natoms]]
            edges += [[a, b] for a, b in zip(atoms, atoms[1:])]
    return edges


def ownership(case):
    """atoms of every residue as the generator defines them: residues in resid order own consecutive node keys; a
    residue taken from a multi-residue (from_itp) block owns the atoms of the corresponding residue of that block"""
    blocks = {b["name"]: b for b in case["blocks"]}
    from_itp = {int(k): v for k, v in case["graph"].get("from_itp", {}).items()}
    own, offset, position = {}, 0, {}
    for key, resid, resname in sorted(case["graph"]["nodes"], key=lambda n: n[1]):
        if key in from_itp:
            block = blocks[from_itp[key]]
            nres = max(a.get("resid", 1) for a in block["atoms"])
            pos = position.get(from_itp[key], 0)
            position[from_itp[key]] = pos + 1
            size = sum(1 for a in block["atoms"] if a.get("resid", 1) == pos % nres + 1)
        else:
            size = len(blocks[resname]["atoms"])
        own[key] = list(range(offset, offset + size))
        offset += size
    return own


def one_missing_case(ctx, case):
    from polyply.src.map_to_molecule import MapToMolecule
    from polyply.src.apply_links import ApplyLinks
    from polyply.src.graph_utils import find_missing_edges
    from polyply.src.gen_itp import gen_params
    replay = dict(stream="missing", case=case)
    import random
    hist_rng = random.Random(json.dumps(case, sort_keys=True))
    with tempfile.TemporaryDirectory() as tmp:
        paths, seq = write_files(case, tmp)
        try:
            # (a) the stages, then find_missing_edges directly
            force_field, meta = G.build(case, tmp)
            MapToMolecule(force_field).run_molecule(meta)
            ApplyLinks().run_molecule(meta)
            direct = [[m["resA"], int(m["idxA"]), m["resB"], int(m["idxB"])] for m in find_missing_edges(meta, meta.molecule)]
            resgraph = G.dump_resgraph(meta)
            medges = [[int(u), int(v)] for u, v in meta.molecule.edges]
            first_state = (resgraph, medges)
            # hypotheses of C10_exact / C10_missing_eq_spec on the real objects: fragment graphs are subgraphs of the
            # molecule on the residue's own atoms, residues own different atoms
            mset = {frozenset(e) for e in medges}
            owners = [set(n["frag"]) for n in resgraph["res"]]
            hyp = all(frozenset(e) in mset and set(e) <= set(n["frag"]) for n in resgraph["res"] for e in n["fedges"]) \
                and sum(len(o) for o in owners) == len(set().union(*owners) if owners else set())
            ctx.tally(theorem_hypotheses_hold=hyp)
            alive = set(int(k) for k in meta.molecule.nodes)
            # (a') history: some of the missing links are supplied (a bond between the two residues is added to the
            # molecule, as a later link / an explicit link / a user would) and find_missing_edges is asked again
            history = None
            if direct:
                by_resid = {int(meta.nodes[k]["resid"]): k for k in meta.nodes}
                supplied = []
                for rec in direct:
                    if hist_rng.random() < 0.6 and rec[1] in by_resid and rec[3] in by_resid:
                        fa = list(meta.nodes[by_resid[rec[1]]]["graph"].nodes)
                        fb = list(meta.nodes[by_resid[rec[3]]]["graph"].nodes)
                        if fa and fb:
                            pair = (hist_rng.choice(fa), hist_rng.choice(fb))
                            meta.molecule.add_edge(*pair)
                            supplied.append([int(pair[0]), int(pair[1])])
                if supplied:
                    direct2 = [[m["resA"], int(m["idxA"]), m["resB"], int(m["idxB"])] for m in find_missing_edges(meta, meta.molecule)]
                    history = dict(direct=direct2, resgraph=G.dump_resgraph(meta),
                                   medges=[[int(u), int(v)] for u, v in meta.molecule.edges], supplied=supplied)
            resgraph, medges = first_state
            # (b) the command, with its log records
            out = pathlib.Path(os.path.join(tmp, "out.itp"))
            # the bond graph of THAT run (its link application may visit matches in another order than (a)):
            # taken from the molecule handed to find_missing_edges inside gen_params (harness-side interposition),
            # or, if the command no longer goes through that attribute, recounted from the written .itp
            import polyply.src.gen_itp as gen_itp_module
            captured = {}
            original = getattr(gen_itp_module, "find_missing_edges", None)

            def spy(res_graph, molecule):
                captured["medges"] = [[int(u), int(v)] for u, v in molecule.edges]
                captured["alive"] = set(int(k) for k in molecule.nodes)
                return original(res_graph, molecule)
            if original is not None:
                gen_itp_module.find_missing_edges = spy
            try:
                with capture_warnings() as cap:
                    gen_params(name="verif", outpath=out, inpath=paths, seq_file=seq)
            finally:
                if original is not None:
                    gen_itp_module.find_missing_edges = original
            written = out.exists()
            if "medges" in captured:
                run_edges, run_alive = captured["medges"], captured["alive"]
                ctx.tally(bond_graph_source="interposed")
            else:
                run_edges, run_alive = itp_edges(out.read_text()), alive
                ctx.tally(bond_graph_source="itp-recount")
        except Exception as err:  # pylint: disable=broad-except
            ctx.oracle_fail("pipeline-raises", "gen_params / link application raised %s: %s on a valid input %s"
                            % (type(err).__name__, str(err)[:200], case["graph"]), replay)
            return None
    warnings = [text for level, text in cap.records if level >= logging.WARNING]
    own = ownership(case)
    removed = any(a not in run_alive for atoms in own.values() for a in atoms)
    req_nodes = [[k, resid, resname, [a for a in own[k] if a in run_alive], []] for k, resid, resname in case["graph"]["nodes"]]
    reqs = [dict(op="missing", nodes=[[n["key"], n["resid"], n["resname"], n["frag"], n["fedges"]] for n in resgraph["res"]],
                 redges=resgraph["redges"], medges=medges),
            dict(op="missing", nodes=req_nodes, redges=[[u, v] for u, v, _ in case["graph"]["edges"]], medges=run_edges)]
    if history is not None:
        alive2 = run_alive
        reqs.append(dict(op="missing", nodes=[[n["key"], n["resid"], n["resname"], n["frag"], n["fedges"]] for n in history["resgraph"]["res"]],
                         redges=history["resgraph"]["redges"], medges=history["medges"]))
        reqs.append(dict(op="missing", nodes=[[k, resid, resname, [a for a in own[k] if a in alive2], []] for k, resid, resname in case["graph"]["nodes"]],
                         redges=[[u, v] for u, v, _ in case["graph"]["edges"]], medges=history["medges"]))
    return dict(case=case, replay=replay, direct=direct, warnings=warnings, removed=removed, written=written, reqs=reqs,
                history=history)


def judge_history(ctx, item, ans_model, ans_spec, known):
    """second evaluation, after bonds were supplied for some of the pairs reported first"""
    case, replay, hist = item["case"], dict(item["replay"], history=item["history"]["supplied"]), item["history"]
    if not ans_model.get("ok") or not ans_spec.get("ok"):
        return
    ctx.correspond("findMissingEdges-after-change", hist["direct"], ans_model["missing"], replay)
    ctx.tally(history_evaluations=True)
    if item["removed"]:
        return
    def norm(m):      # a record names a PAIR of residues, whichever comes first
        return tuple(sorted([(m[1], m[0]), (m[3], m[2])]))
    got = {norm(m) for m in hist["direct"]}
    want = {norm(m) for m in ans_spec["spec"]}
    for rec in sorted(got - want):
        ctx.oracle_fail("both", "after a bond between them was supplied, residues %s %s and %s %s are joined by an atom-level edge and "
                        "still reported missing by a second find_missing_edges (supplied bonds %s) | graph=%s"
                        % (rec[0][0], rec[0][1], rec[1][0], rec[1][1], hist["supplied"], case["graph"]), replay)
        break
    for rec in sorted(want - got):
        ctx.oracle_fail("neither", "second find_missing_edges (after bonds %s were supplied): residues %s %s and %s %s are not joined "
                        "and not reported | graph=%s" % (hist["supplied"], rec[0][0], rec[0][1], rec[1][0], rec[1][1], case["graph"]), replay)
        break


def judge_missing(ctx, item, ans_model, ans_spec, known):
    case, replay = item["case"], item["replay"]
    if not ans_model.get("ok") or not ans_spec.get("ok"):
        ctx.tally(model_rejects=str(ans_model.get("err") or ans_spec.get("err"))[:50])
        return
    # model of the code vs the code (on the residue graph and fragments the code itself holds)
    ctx.correspond("findMissingEdges", item["direct"], ans_model["missing"], replay)
    ctx.traces += 1
    # the property: every REQUESTED edge is realised xor reported (specification evaluated on the requested graph)
    info = {k: (resid, resname) for k, resid, resname in case["graph"]["nodes"]}
    expected = {(m[0], m[1], m[2], m[3]) for m in ans_spec["spec"]}
    failures = []
    for u, v, _lt in case["graph"]["edges"]:
        a, b = info[u], info[v]
        reported = any(names_both(text, a, b) for text in item["warnings"])
        unrealised = (a[1], a[0], b[1], b[0]) in expected
        if unrealised and not reported:
            failures.append(("neither", "residues %d %s and %d %s are connected in the residue graph, no atom-level edge joins "
                             "them and no warning names them (warnings: %s)" % (a[0], a[1], b[0], b[1], item["warnings"][:3])))
        if reported and not unrealised:
            failures.append(("both", "residues %d %s and %d %s are joined by an atom-level edge and yet reported missing"
                             % (a[0], a[1], b[0], b[1])))
    spurious = [t for t in item["warnings"] if "issing" in t and not any(
        names_both(t, info[u], info[v]) for u, v, _ in case["graph"]["edges"])]
    if spurious and not item["removed"]:
        failures.append(("warning-for-no-edge", "a missing-link warning names a pair that is not an edge of the residue graph: %s" % spurious[:2]))
    seen = set()
    for kind, what in failures:
        shape = "requested-edge-vanishes-after-atom-removal" if item["removed"] else kind
        if shape in seen:
            continue
        seen.add(shape)
        if shape in WITHHELD and shape not in known:
            ctx.tally(withheld_shape=shape)
            continue
        ctx.oracle_fail(shape, what + " | graph=%s" % (case["graph"],), replay)
    nedges = len(case["graph"]["edges"])
    nmiss = len(expected)
    ctx.case(json.dumps(case, sort_keys=True) if nedges else None,
             sample=dict(graph=case["graph"], missing=sorted(expected), warnings=item["warnings"][:2]),
             stream="missing", edges=("0" if nedges == 0 else "1-3" if nedges <= 3 else "4+"),
             missing=("none" if nmiss == 0 else "all" if nmiss == nedges else "some"),
             ring=(nedges >= len(case["graph"]["nodes"]) and nedges > 0), removal=item["removed"])


def gen_missing_case(rng, max_res, allow_removal):
    case = G.gen_case(rng, max_res=max_res, removal=allow_removal)
    roll = rng.random()
    if roll < 0.2:
        case["links"] = []
    elif roll < 0.4 and case["links"]:
        case["links"] = case["links"][:1]
    if rng.random() < 0.35 and len(case["graph"]["nodes"]) >= 3:
        # close a ring: the closing edge is usually not realised by a next-residue link
        keys = [n[0] for n in case["graph"]["nodes"]]
        have = {frozenset(e[:2]) for e in case["graph"]["edges"]}
        for _ in range(4):
            u, v = rng.sample(keys, 2)
            if frozenset((u, v)) not in have:
                case["graph"]["edges"].append([u, v, None])
                break
    return case


def gen_long_chain_case(rng, nres):
    """a homopolymer of `nres` residues of a type for which NO link is defined: every one of the nres-1 requested
    edges is unrealised, so each must be named in a warning of its own (many missing links in one molecule)"""
    case = G.gen_case(rng, max_res=2, removal=False)
    case["links"] = []
    resname = case["blocks"][0]["name"]
    case["graph"] = dict(nodes=[[k, k + 1, resname] for k in range(nres)],
                         edges=[[k, k + 1, None] for k in range(nres - 1)])
    return case


def gen_fromitp_case(rng):
    """copies of one multi-residue .itp block (nodes labelled from_itp) in a row, optionally followed by ordinary
    residues; the junctions between copies (and to the ordinary residues) are realised by a link or not"""
    k = rng.choice([2, 2, 3])
    copies = rng.choice([1, 2, 2, 3])
    resnames = ["R%d" % (i + 1) for i in range(k)]
    atoms, per_res = [], []
    for r in range(k):
        n = rng.randint(1, 3)
        per_res.append(list(range(len(atoms), len(atoms) + n)))
        atoms += [dict(name="C%d" % (i + 1), atype=rng.choice(G.ATYPES), cg=r + 1, resid=r + 1, resname=resnames[r]) for i in range(n)]
    ixns = []
    for res in per_res:
        ixns += [["bonds", [a, b], ["1", "0.37", "7000"], {}] for a, b in zip(res, res[1:])]
    for r in range(k - 1):
        if rng.random() < 0.9:
            ixns.append(["bonds", [per_res[r][-1], per_res[r + 1][0]], ["1", "0.37", "7000"], {}])
    blocks = [dict(name="MIX", nrexcl=1, syntax="itp", atoms=atoms, ixns=ixns)]
    nreg = rng.choice([0, 0, 1, 2])
    if nreg:
        n = rng.randint(1, 3)
        blocks.append(dict(name="A", nrexcl=1, syntax="itp", atoms=[dict(name="C%d" % (i + 1), atype="P1", cg=1) for i in range(n)],
                           ixns=[["bonds", [i, i + 1], ["1", "0.3", "1000"], {}] for i in range(n - 1)]))
    nodes, from_itp = [], {}
    for c in range(copies):
        for r in range(k):
            key = len(nodes)
            nodes.append([key, key + 1, resnames[r]])
            from_itp[str(key)] = "MIX"
    for _ in range(nreg):
        nodes.append([len(nodes), len(nodes) + 1, "A"])
    edges = [[i, i + 1, None] for i in range(len(nodes) - 1)]
    if len(nodes) >= 3 and rng.random() < 0.2:
        edges.append([0, len(nodes) - 1, None])
    links = []

    def bond_link(name_a, res_a, name_b, res_b):
        return dict(atoms=[[name_a, {"resname": res_a}], ["+" + name_b, {"resname": res_b}]],
                    ixns=[["bonds", [name_a, "+" + name_b], ["1", "0.41", "5000"], {}]], edges=[], nonedges=[], patterns=[])
    last_name = "C%d" % len(per_res[-1])
    if rng.random() < 0.5:
        links.append(bond_link(last_name, resnames[-1], "C1", resnames[0]))          # copy -> next copy
    if nreg and rng.random() < 0.5:
        links.append(bond_link(last_name, resnames[-1], "C1", "A"))                  # last copy -> ordinary residue
    if nreg == 2 and rng.random() < 0.5:
        links.append(bond_link("C1", "A", "C1", "A"))
    return dict(blocks=blocks, links=links, graph=dict(nodes=nodes, edges=edges, from_itp=from_itp))


def run_missing(ctx, known):
    rng = ctx.rng
    allow_removal = "requested-edge-vanishes-after-atom-removal" in known
    cases = corpus_cases("missing")
    for _ in range(ctx.budget(260, 3000)):
        if rng.random() < 0.15:
            cases.append(gen_fromitp_case(rng))
        else:
            cases.append(gen_missing_case(rng, ctx.budget(7, 10), allow_removal or rng.random() < 0.15))
    # long chains without any link: 19, 20, 21, 25 and (thorough) 60 missing links in one molecule
    for nres in [20, 21, 22, 26] + ([61] if ctx.thorough else []):
        cases.append(gen_long_chain_case(rng, nres))
    items = [x for x in (one_missing_case(ctx, c) for c in cases) if x is not None]
    reqs = [r for item in items for r in item["reqs"]]
    answers = ctx.driver.ask(reqs) if reqs else []
    pos = 0
    for item in items:
        judge_missing(ctx, item, answers[pos], answers[pos + 1], known)
        if item["history"] is not None:
            judge_history(ctx, item, answers[pos + 2], answers[pos + 3], known)
        pos += len(item["reqs"])


# ------------------------------------------------------------------------------------------ stream direct (exhaustive)

def direct_instances():
    """EXHAUSTIVE small inputs for the real `find_missing_edges` / `find_connecting_edges`, called directly:
    (1) two residues of two atoms, joined in the residue graph: every molecule edge set over the six atom pairs x
        every choice of stored fragment edges (also fragments that are NOT subgraphs of the molecule: there the
        code is only compared with its model, the theorem's hypothesis fails);
    (2) three residues of 2, 1, 1 atoms: every residue graph on them x every molecule edge set, the stored fragment
        following the molecule."""
    import itertools
    pairs = [list(p) for p in itertools.combinations(range(4), 2)]
    out = []
    for mask in range(1 << len(pairs)):
        medges = [p for i, p in enumerate(pairs) if mask >> i & 1]
        for fa in ([], [[0, 1]]):
            for fb in ([], [[2, 3]]):
                out.append(dict(nodes=[[0, 1, "RA", [0, 1], fa], [1, 2, "RB", [2, 3], fb]], redges=[[0, 1]], medges=medges))
        frag = [[0, 1]] if [0, 1] in medges else []
        for rmask in range(8):
            redges = [e for i, e in enumerate([[0, 1], [1, 2], [0, 2]]) if rmask >> i & 1]
            out.append(dict(nodes=[[0, 1, "RA", [0, 1], frag], [1, 2, "RB", [2], []], [2, 3, "RC", [3], []]],
                            redges=redges, medges=medges))
    return out


def one_direct_case(inst):
    import networkx as nx
    from vermouth.molecule import Molecule
    from polyply.src.graph_utils import find_missing_edges, find_connecting_edges
    mol = Molecule()
    res = nx.Graph()
    for key, resid, resname, frag, fedges in inst["nodes"]:
        graph = nx.Graph()
        graph.add_nodes_from(frag)
        graph.add_edges_from(fedges)
        for atom in frag:
            mol.add_node(atom, resid=resid, resname=resname, atomname="A%d" % atom)
        res.add_node(key, graph=graph, resid=resid, resname=resname)
    mol.add_edges_from(inst["medges"])
    res.add_edges_from(inst["redges"])
    redges = [[int(u), int(v)] for u, v in res.edges]            # order and orientation as networkx reports them
    missing = [[m["resA"], int(m["idxA"]), m["resB"], int(m["idxB"])] for m in find_missing_edges(res, mol)]
    connecting = [sorted(sorted([int(a), int(b)]) for a, b in find_connecting_edges(res, mol, (u, v))) for u, v in redges]
    mset = {frozenset(e) for e in inst["medges"]}
    hyp = all(frozenset(e) in mset for n in inst["nodes"] for e in n[4])
    return dict(inst=inst, missing=missing, connecting=connecting, hyp=hyp,
                req=dict(op="missing", nodes=inst["nodes"], redges=redges, medges=inst["medges"]))


def judge_direct(ctx, item, ans):
    replay = dict(stream="direct", inst=item["inst"])
    ctx.correspond("findMissingEdges-direct", item["missing"], ans["missing"], replay)
    ctx.correspond("findConnectingEdges-direct", item["connecting"],
                   [sorted(sorted(p) for p in edges) for edges in ans["connecting"]], replay)
    if item["hyp"]:
        # hypotheses of C10_missing_eq_spec hold: the property itself (reported iff not joined)
        got = {tuple(m) for m in item["missing"]}
        want = {tuple(m) for m in ans["spec"]}
        for rec in sorted(got - want):
            ctx.oracle_fail("both", "direct call: residues %s %s and %s %s are joined by an atom-level edge and yet reported "
                                    "missing | %s" % (rec[1], rec[0], rec[3], rec[2], json.dumps(item["inst"])), replay)
        for rec in sorted(want - got):
            ctx.oracle_fail("neither", "direct call: residues %s %s and %s %s are connected in the residue graph, no atom-level "
                                       "edge joins them and find_missing_edges does not report them | %s"
                            % (rec[1], rec[0], rec[3], rec[2], json.dumps(item["inst"])), replay)


def run_direct(ctx):
    items = [one_direct_case(inst) for inst in direct_instances()]
    answers = ctx.driver.ask([item["req"] for item in items])
    for item, ans in zip(items, answers):
        judge_direct(ctx, item, ans)
    ctx.tally(direct_instances="exhaustive: %d (2 residues x 2 atoms: 64 edge sets x 4 fragment choices; "
                               "3 residues: 64 edge sets x 8 residue graphs)" % len(items),
              direct_with_hypotheses=sum(1 for item in items if item["hyp"]))


# ------------------------------------------------------------------------------------------ stream gate

def gen_top(rng):
    """abstract topology: molecule types with residues, atoms and bonds/constraints"""
    mols = []
    for midx in range(rng.choice([1, 1, 2, 3])):
        nres = rng.randint(1, 5)
        atoms, per_res = [], []
        for r in range(nres):
            n = rng.randint(1, 3)
            per_res.append(list(range(len(atoms), len(atoms) + n)))
            atoms += [[len(atoms) + i, r + 1, rng.choice(["AA", "BB"])] for i in range(n)]
        for res in per_res:      # one name per residue
            for a in res:
                atoms[a][2] = atoms[res[0]][2]
        edges = set()
        # intra-residue chains (sometimes left out: an isolated atom inside a residue)
        for res in per_res:
            for a, b in zip(res, res[1:]):
                if rng.random() < 0.93:
                    edges.add((a, b))
        # inter-residue edges: random graph over the residues (trees, cycles, several components)
        style = rng.choice(["tree", "tree", "sparse", "cycle+isolated", "dense"])
        pairs = []
        if style == "tree":
            pairs = [(rng.randrange(i), i) for i in range(1, nres)]
        elif style == "sparse":
            pairs = [(rng.randrange(i), i) for i in range(1, nres) if rng.random() < 0.6]
        elif style == "cycle+isolated" and nres >= 4:
            ring = list(range(nres - 1))
            pairs = [(ring[i], ring[(i + 1) % len(ring)]) for i in range(len(ring))]
        elif style == "dense":
            pairs = [(i, j) for i in range(nres) for j in range(i + 1, nres) if rng.random() < 0.5]
        for i, j in pairs:
            if i != j:
                edges.add(tuple(sorted((rng.choice(per_res[i]), rng.choice(per_res[j])))))
        kinds = {e: ("constraints" if rng.random() < 0.2 else "bonds") for e in edges}
        # angle / dihedral terms: over bonded atoms, and also across a place where the bond is missing (what gen_params
        # writes when only the angle link applied, or what is left when a bond line is deleted).  They are NOT bonds:
        # the oracle's connectivity is computed from bonds and constraints only.
        natoms = len(atoms)
        angles, dihedrals = [], []
        for _ in range(rng.choice([0, 1, 2, 3])):
            if natoms >= 3 and rng.random() < 0.6:
                start = rng.randrange(natoms - 2)
                angles.append([start, start + 1, start + 2])
            elif natoms >= 3:
                angles.append(rng.sample(range(natoms), 3))
        for _ in range(rng.choice([0, 0, 1])):
            if natoms >= 4:
                start = rng.randrange(natoms - 3)
                dihedrals.append([start, start + 1, start + 2, start + 3] if rng.random() < 0.6 else rng.sample(range(natoms), 4))
        mols.append(dict(name="M%d" % midx, atoms=atoms, edges=sorted(edges), kinds=[kinds[e] for e in sorted(edges)],
                         angles=angles, dihedrals=dihedrals, count=rng.choice([1, 1, 2])))
    return dict(mols=mols)


def render_top(top):
    lines = ["[ defaults ]", "1 1 no 1.0 1.0", "[ atomtypes ]", "P 45.0 0.0 A 0.47 3.5"]
    for mol in top["mols"]:
        lines += ["[ moleculetype ]", "%s 1" % mol["name"], "[ atoms ]"]
        for key, resid, resname in mol["atoms"]:
            lines.append("%d P %d %s X%d %d 0.0 45.0" % (key + 1, resid, resname, key, key + 1))
        for section in ("bonds", "constraints"):
            rows = [e for e, kind in zip(mol["edges"], mol["kinds"]) if kind == section]
            if rows:
                lines.append("[ %s ]" % section)
                for u, v in rows:
                    lines.append("%d %d 1 0.35%s" % (u + 1, v + 1, " 1000" if section == "bonds" else ""))
        if mol.get("angles"):
            lines.append("[ angles ]")
            for a, b, c in mol["angles"]:
                lines.append("%d %d %d 1 120 50" % (a + 1, b + 1, c + 1))
        if mol.get("dihedrals"):
            lines.append("[ dihedrals ]")
            for a, b, c, d in mol["dihedrals"]:
                lines.append("%d %d %d %d 1 0 2 1" % (a + 1, b + 1, c + 1, d + 1))
    lines += ["[ system ]", "verif", "[ molecules ]"]
    for mol in top["mols"]:
        lines.append("%s %d" % (mol["name"], mol["count"]))
    return "\n".join(lines) + "\n"


def one_gate_case(ctx, top, full):
    from polyply.src.topology import Topology
    from polyply.src import gen_coords as gc
    replay = dict(stream="gate", top=top)
    with tempfile.TemporaryDirectory() as tmp:
        path = os.path.join(tmp, "system.top")
        with open(path, "w") as handle:
            handle.write(render_top(top))
        try:
            topology = Topology.from_gmx_topfile(pathlib.Path(path), "verif")
            topology.preprocess()
        except Exception as err:  # pylint: disable=broad-except
            ctx.tally(top_reader_raised=type(err).__name__)
            return None
        try:
            gc._check_molecules(topology.molecules)  # pylint: disable=protected-access
            raised = False
        except IOError:
            raised = True
        full_result = None
        if full:
            out = os.path.join(tmp, "out.gro")
            try:
                gc.gen_coords(toppath=pathlib.Path(path), outpath=pathlib.Path(out), name="verif", box=[8.0, 8.0, 8.0])
                full_result = "built" if os.path.exists(out) else "no-output"
            except IOError:
                full_result = "refused" if not os.path.exists(out) else "refused-but-wrote"
            except Exception as err:  # pylint: disable=broad-except
                full_result = "other:" + type(err).__name__
    mols = []
    for mol in top["mols"]:
        for _ in range(mol["count"]):
            mols.append(dict(atoms=mol["atoms"], edges=[list(e) for e in mol["edges"]]))
    return dict(top=top, replay=replay, raised=raised, full=full_result, req=dict(op="gate", mols=mols))


def judge_gate(ctx, item, ans, known):
    replay = item["replay"]
    ctx.correspond("checkMolecules", item["raised"], ans["raises"], replay)
    ctx.traces += 1
    want = ans["spec"]
    if item["raised"] != want:
        if want and not ans["raises"]:
            shape, what = ("isolated-atom-inside-connected-residue-graph",
                           "a molecule whose atoms are not all connected (an atom without any bond inside a residue whose other atoms "
                           "are bonded onwards) is not refused: _check_molecules tests the residue graph only")
        elif want:
            shape, what = "disconnected-molecule-accepted", "a molecule with disconnected atoms passes _check_molecules"
        else:
            shape, what = "connected-molecule-refused", "_check_molecules raises although all atoms of every molecule are connected"
        if shape in WITHHELD and shape not in known:
            ctx.tally(withheld_shape=shape)
        else:
            ctx.oracle_fail(shape, what + " | %s" % json.dumps(item["top"])[:400], replay)
    if item["full"] is not None:
        expect = "refused" if item["raised"] else "built"
        ctx.tally(gen_coords_full=item["full"])
        if item["full"] != expect:
            ctx.oracle_fail("gen_coords-gate-mismatch", "gen_coords %s although _check_molecules %s" %
                            (item["full"], "raises" if item["raised"] else "passes"), replay)
    natoms = sum(len(m["atoms"]) for m in item["top"]["mols"])
    ctx.case(("gate", json.dumps(item["top"], sort_keys=True)) if natoms >= 2 else None, stream="gate",
             gate=("raises" if item["raised"] else "passes"), atoms_connected=not want)


def run_gate(ctx, known):
    rng = ctx.rng
    tops = [c for c in corpus_cases("gate")]
    for _ in range(ctx.budget(120, 1500)):
        tops.append(gen_top(rng))
    nfull = ctx.budget(6, 40)
    items = []
    for idx, top in enumerate(tops):
        item = one_gate_case(ctx, top, full=idx < nfull)
        if item is not None:
            items.append(item)
    answers = ctx.driver.ask([item["req"] for item in items]) if items else []
    for item, ans in zip(items, answers):
        if ans.get("ok"):
            judge_gate(ctx, item, ans, known)


# ------------------------------------------------------------------------------------------ entry points

def corpus_cases(stream):
    path = os.path.join(common.VERIF, "corpus", "C10")
    out = []
    if os.path.isdir(path):
        for name in sorted(os.listdir(path)):
            data = json.load(open(os.path.join(path, name)))
            inp = data.get("input", data)
            if inp.get("stream") == stream:
                out.append(inp["case"] if stream == "missing" else inp["top"])
    return out


def known_shapes():
    return {k["shape"] for k in common.load_known_findings() if k["property"] == "C10"}


def run(ctx):
    ctx.extra["rule"] = RULE
    ctx.extra["trusted"] = ["networkx Graph.degree / has_edge / is_connected (modelled: incidence count, BFS levels)",
                            "vermouth StyleAdapter log records (level and text inspected)"]
    ctx.assumptions += [
        "residue ownership of atoms for the oracle = residues in resid order own consecutive node keys (the layout C01 states)",
        "a warning 'names both residues' when its text contains resid and resname of both; the wording is not pinned",
        "the complete gen_coords is run on a few topologies only (quick 6 / thorough 40); all others go through "
        "Topology.from_gmx_topfile + preprocess + _check_molecules",
    ]
    ctx.extra["explanation"] = ("oracle = C10M.specMissing (a requested residue edge is to be reported iff no atom-level edge joins the "
                                "two residues) evaluated by the Lean driver on the real output molecule, compared with the WARNING "
                                "records of gen_params; C10M.specRaises (atom-graph connectivity) vs the real _check_molecules")
    known = known_shapes()
    run_direct(ctx)
    run_missing(ctx, known)
    run_gate(ctx, known)


def replay(ctx, data):
    inp = data.get("input") or {}
    items = [inp] if inp else [i["input"] for i in data.get("no_longer_checks", []) if i.get("input")]
    known = set(WITHHELD) | known_shapes()
    for item in items:
        if item.get("stream") == "missing":
            got = one_missing_case(ctx, item["case"])
            if got is not None:
                answers = ctx.driver.ask(got["reqs"])
                judge_missing(ctx, got, answers[0], answers[1], known)
                if got["history"] is not None:
                    judge_history(ctx, got, answers[2], answers[3], known)
        elif item.get("stream") == "direct":
            got = one_direct_case(item["inst"])
            judge_direct(ctx, got, ctx.driver.ask([got["req"]])[0])
        elif item.get("stream") == "gate":
            got = one_gate_case(ctx, item["top"], full=True)
            if got is not None:
                judge_gate(ctx, got, ctx.driver.ask([got["req"]])[0], known)
    for b in ctx.broken:
        print("REPLAY-DISAGREES", b["name"], b["detail"][:600])
