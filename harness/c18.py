"""C18 — build options select exactly the molecules and residues they name.

  "A build-file [ molecule ] block applies to the molecules with the given name and an index in the stated
   half-open range, and its residue-level directives to the residues with the given name and an id in the
   stated half-open range, leaving all others untouched. -start, -lig and -split specifications select by
   molecule name, molecule index, residue name and residue id as written; splitting partitions the atoms of
   a residue into the named new residues without losing or duplicating any, and ligands are placed one step
   from the residue they are attached to and handed back to their own molecule with the molecule list
   unchanged."

Implementation side: random small topologies written as .top text and read by the real
`Topology.from_gmx_topfile` + `preprocess`; real `read_build_file` (+ `GenerateTemplates`, `NonBondEngine`,
`sample_end_to_end_distances`, `set_restraints` with `set_distance_restraint` interposed to see which molecule
is restrained), real `parse_residue_spec`, `find_starting_node_from_spec`, `AnnotateLigands`
(`run_system`, `split_ligands`), `MetaMolecule.split_residue`, and the real `gen_coords` end to end for
`-split`, `-lig`, `-start`.  Model side: `Model/BuildFile.lean` through `Drivers/C18.lean`; the oracle is
the model's specification side (`specAnnotate`, `specDist`, `specPers`, `renderSpec`, `specStart`,
`splitSpecB`, `ligRoundTripB`).

Token level (`Model/BuildFileText.lean`, stream `build-text`): generated build-file TEXT (all directives with all
fields, numerals in several spellings, comments, blank lines, header spellings, section re-entry, optional
tolerance column, extra columns, templates, volumes, bending, a share of malformed files) is read by the real
`BuildDirector`; `build_options`, `rw_options`, `topology.distance_restraints`, `topology.persistences`,
`topology.volumes`, `topology.bending`, the stored templates (centred positions) and the node attributes
`restraints` / `rw_options` are compared FIELD BY FIELD with the model (floats: the model's exact decimal value,
correctly rounded, must equal the double the code holds).  Exhaustive sub-streams: `str.split()` on every ASCII
character, the section machine on every (section, header) pair, `float()`/`int()` on every string of at most four
characters over `019.+-`.

Candidate findings (confirmed on the real code, see notes/C18_findings.md) are generated only when their
shape is listed in known_findings.txt or VERIF_C18_CANDIDATES=1.
"""
import json
import math
import os
import random
import shutil
import tempfile
from pathlib import Path

import common

RULE = ("random topologies (2-4 molecule types, repeated names in [ molecules ], 1-5 residues, repeated "
        "residue names) x streams: build files (all directive kinds, overlapping/adjacent index and resid "
        "ranges, repeated molecule names, out-of-range blocks), residue specs (all 16 omitted-field shapes + "
        "malformed), -start lists, -split (direct and through gen_coords), -lig (attach/detach with synthetic "
        "positions, and through gen_coords), build files as TEXT at token level (every directive and field, numeral "
        "spellings, comments, header spellings, section re-entry, templates/volumes/bending, ~20% malformed) + "
        "exhaustive: str.split on all 128 ASCII characters, all (section, header) pairs, all numerals of length "
        "<= 4 over 019.+-; distinct = canonical JSON of the case input; trivial = a build "
        "file selecting no node / a spec with every field omitted")

CANDIDATES = ["dist-restraint-by-index-ignores-name", "rw-restriction-last-line-wins",
              "start-name-index-mismatch-accepted", "lig-name-index-mismatch-accepted"]

TOP_HEAD = ("[ defaults ]\n1 1 no 1.0 1.0\n[ atomtypes ]\nP 72.0 0.0 A 0.1 0.1\n"
            "[ nonbond_params ]\nP P 1 0.1 0.1\n")
# names that contain each other occur in real libraries (PEO / PEOH, DA / DA5): keep such pairs in the pool
RESNAMES = ["RA", "RB", "RC", "RAB", "A"]
ATOMNAMES = ["X", "Y", "Z", "W"]


def enabled_candidates():
    listed = set(k["shape"] for k in common.load_known_findings() if k["property"] == "C18")
    if os.environ.get("VERIF_C18_CANDIDATES") == "1":
        return set(CANDIDATES)
    return listed & set(CANDIDATES)


# ------------------------------------------------------------------------------------------------ topologies

def gen_system(rng, ligand=False, min_res=1, two_atoms=None, shared_resid=0.0, restart=0.0):
    """types: name -> [(resid, resname, [atomnames])]; mols: [(name, count)].
    Resids need not be unique inside a molecule: `shared_resid` numbers a residue like its neighbour (a co-factor),
    `restart` lets the numbering start again for a second block (block copolymer PS 1-3, PEO 1-3); residues that
    share a resid always differ in name (the pair (resid, resname) identifies a residue)."""
    names = rng.sample(["A", "B", "PC", "D"], rng.randint(2, 3))
    types = {}
    for name in names:
        nres = rng.randint(min_res, 5)
        residues = []
        first = rng.choice([1, 1, 1, 2, 5])
        start = first
        restart_at = rng.randint(1, nres - 1) if nres >= 2 and rng.random() < restart else None
        for r in range(nres):
            natoms = rng.randint(1, 3) if two_atoms is None else two_atoms
            atoms = ATOMNAMES[:natoms]
            if natoms == 3 and rng.random() < 0.2:
                atoms = ["X", "Y", "X"]            # a repeated atom name inside one residue
            if r == restart_at:
                first = start - r                  # the second block is numbered from `start` again
            resid, resname = first + r, rng.choice(RESNAMES)
            if residues and rng.random() < shared_resid and residues[-1][1] != resname:
                # a co-factor numbered like its neighbour: two residues with one resid, told apart by name
                resid = residues[-1][0]
                first -= 1
            taken = [q[1] for q in residues if q[0] == resid]
            if resname in taken:
                free = [n for n in RESNAMES if n not in taken]
                if free:
                    resname = rng.choice(free)
                else:                              # no name left for this resid: number on
                    first = max(q[0] for q in residues) + 1 - r
                    resid = first + r
            residues.append((resid, resname, atoms))
        types[name] = residues
    if ligand:
        types["L"] = [(1, "RL", ["Z"])]
        if rng.random() < 0.4:
            types["L2"] = [(1, "RL", ["Z"]), (2, "RM", ["Z"])]
    mols = []
    for _ in range(rng.randint(2, 4)):
        mols.append((rng.choice(names), rng.randint(1, 2)))
    if ligand:
        mols.append(("L", rng.randint(2, 5)))
        if "L2" in types:
            mols.insert(rng.randint(0, len(mols)), ("L2", 1))
    return dict(types=types, mols=mols)


def top_text(system):
    out = [TOP_HEAD]
    for name, residues in system["types"].items():
        out.append("[ moleculetype ]\n%s 1\n[ atoms ]\n" % name)
        k, firsts = 1, []
        for resid, resname, atoms in residues:
            firsts.append(k)
            for atom in atoms:
                out.append("%d P %d %s %s %d 0.0 72.0\n" % (k, resid, resname, atom, k))
                k += 1
        bonds = []
        k = 1
        for resid, resname, atoms in residues:
            for j in range(len(atoms) - 1):
                bonds.append((k + j, k + j + 1))
            k += len(atoms)
        bonds += list(zip(firsts[:-1], firsts[1:]))
        if bonds:
            out.append("[ bonds ]\n")
            for a, b in bonds:
                out.append("%d %d 1 0.3 1000\n" % (a, b))
    out.append("[ system ]\nt\n[ molecules ]\n")
    for name, count in system["mols"]:
        out.append("%s %d\n" % (name, count))
    return "".join(out)


class Work:
    """scratch directory + loader of real topologies"""

    def __init__(self):
        self.dir = tempfile.mkdtemp(prefix="c18_")
        self.count = 0

    def load(self, system):
        from polyply.src.topology import Topology
        self.count += 1
        path = os.path.join(self.dir, "t%d.top" % self.count)
        with open(path, "w") as handle:
            handle.write(top_text(system))
        topology = Topology.from_gmx_topfile(name="t", path=Path(path))
        topology.preprocess()
        return topology, path

    def close(self):
        shutil.rmtree(self.dir, ignore_errors=True)


def mols_json(topology):
    out = []
    for mol in topology.molecules:
        nodes = []
        for key in mol.nodes:
            data = mol.nodes[key]
            lig = data.get("ligated")
            nodes.append([int(key), int(data["resid"]), str(data["resname"]),
                          None if lig is None else [int(lig[0]), int(lig[1])]])
        out.append(dict(name=str(mol.mol_name), nodes=nodes))
    return out


def names_of(mols):
    return [m["name"] for m in mols]


# ------------------------------------------------------------------------------------------------ A. build files

def gen_blocks(rng, mols, candidates):
    """structured build file; payload ids are unique per line"""
    n = len(mols)
    names = sorted(set(names_of(mols))) + ["ZZ"]
    blocks, payload = [], [0]
    rw_seen = set()
    pairs_seen = set()

    def next_payload():
        payload[0] += 1
        return payload[0]

    def res_sel(idxs):
        """mostly aimed at a residue of a molecule the block addresses (so that ranges overlap, touch and
        just miss real residues and several directives select the same residue), sometimes blind"""
        pool = [node for i in idxs if i < n for node in mols[i]["nodes"]]
        if pool and rng.random() < 0.75:
            node = rng.choice(pool)
            resname = node[2] if rng.random() < 0.85 else rng.choice(RESNAMES)
            lo = node[1] - rng.choice([0, 0, 1, 2, -1])
            hi = node[1] + rng.choice([1, 1, 2, 3, 0])
            return resname, max(lo, 0), max(hi, 0)
        resname = rng.choice(RESNAMES + ["RL"])
        lo = rng.randint(0, 6)
        hi = lo + rng.choice([0, 1, 1, 2, 3, 6])
        return resname, lo, hi

    for _ in range(rng.randint(1, 4)):
        name = rng.choice(names)
        lo = rng.randint(0, n)
        hi = min(n + 2, lo + rng.choice([0, 1, 1, 2, 3, n]))
        if rng.random() < 0.65:
            # a block written for a run of equally named molecules (or part of it)
            i = rng.randrange(n)
            name = mols[i]["name"]
            lo = hi = i
            while lo > 0 and mols[lo - 1]["name"] == name and rng.random() < 0.8:
                lo -= 1
            while hi < n and mols[hi]["name"] == name and rng.random() < 0.85:
                hi += 1
        lines = []
        idxs = [i for i in range(lo, hi)]
        same_name = all(i < n and mols[i]["name"] == name for i in idxs)
        for _ in range(rng.randint(1, 5)):
            kind = rng.choice(["geometry", "geometry", "geometry", "rw", "dist", "dist", "pers"])
            if kind in ("dist", "pers"):
                usable = [i for i in idxs if i < n]
                if not usable or hi > n:
                    continue
                if not same_name and "dist-restraint-by-index-ignores-name" not in candidates:
                    continue
                # node keys present in every molecule of the range, on a linear chain
                sizes = [len(mols[i]["nodes"]) for i in usable]
                if min(sizes) < 2:
                    continue
                a = rng.randint(0, min(sizes) - 2)
                b = rng.randint(a + 1, min(sizes) - 1)
                # two restraints on one pair of nodes of one molecule contradict each other (the later line
                # replaces the earlier one in the code's dictionary): not generated
                if kind == "dist" and any((i, a, b) in pairs_seen for i in usable):
                    continue
                if kind == "dist":
                    pairs_seen.update((i, a, b) for i in usable)
                if rng.random() < 0.04:
                    lines.append(["dist", 0, 99, next_payload()])     # malformed: no such node
                    continue
                if kind == "pers":
                    if min(sizes) < 3:
                        continue
                    lines.append(["pers", 0, min(sizes) - 1, next_payload()])
                else:
                    lines.append(["dist", a, b, next_payload()])
            elif kind == "rw":
                keys = set((name, i) for i in idxs)
                if keys & rw_seen and "rw-restriction-last-line-wins" not in candidates:
                    continue
                rw_seen |= keys
                resname, rlo, rhi = res_sel(idxs)
                lines.append(["rw", resname, rlo, rhi, next_payload()])
            else:
                resname, rlo, rhi = res_sel(idxs)
                lines.append(["geometry", resname, rlo, rhi, next_payload()])
        blocks.append(dict(name=name, lo=lo, hi=hi, lines=lines))
    return blocks


GEOMS = [("sphere", 1), ("cylinder", 2), ("rectangle", 3)]


def bld_text(blocks, rng):
    """the build file as text: one section per line kind, payload encoded in a numeric parameter"""
    out = []
    for block in blocks:
        out.append("[ molecule ]\n; name from to\n%s %d %d\n" % (block["name"], block["lo"], block["hi"]))
        for line in block["lines"]:
            kind = line[0]
            if kind == "geometry":
                geom, nparam = GEOMS[line[4] % 3]
                params = " ".join("%.1f" % (1.0 + k) for k in range(nparam))
                out.append("[ %s ]\n%s %d %d %s %d.0 2.0 3.0 %s\n"
                           % (geom, line[1], line[2], line[3], rng.choice(["in", "out"]), line[4], params))
            elif kind == "rw":
                out.append("[ rw_restriction ]\n%s %d %d 1.0 0.0 0.0 %d.0\n" % (line[1], line[2], line[3], line[4]))
            elif kind == "dist":
                out.append("[ distance_restraints ]\n%d %d %d.25 0.05\n" % (line[1], line[2], line[3]))
            else:
                out.append("[ persistence_length ]\nWCM %d.5 %d %d\n" % (line[3], line[1], line[2]))
    if rng.random() < 0.3:
        out.append("[ volumes ]\nRA 0.5\n")
    if rng.random() < 0.2:
        out.append("[ template ]\nresname RQ\n[ atoms ]\nX P 0.0 0.0 0.0\nY P 0.3 0.0 0.0\n[ bonds ]\nX Y\n")
    return "".join(out)


def observe_annotations(topology):
    ann = []
    for i, mol in enumerate(topology.molecules):
        for key in mol.nodes:
            data = mol.nodes[key]
            restr = [int(round(float(p[1][0]))) for p in data.get("restraints", [])]
            rws = [int(round(float(p[1]))) for p in data.get("rw_options", [])]
            ann.append([i, int(key), restr, rws])
    return ann


def apply_restraints(topology):
    """real GenerateTemplates + NonBondEngine + persistence sampling + set_restraints; returns the recorded
    (kind, molecule index, ref, target, distance) of every set_distance_restraint call and the set of
    molecule indices that carry a 'distance_restraints' node attribute afterwards"""
    import numpy as np
    from polyply.src.generate_templates import GenerateTemplates
    from polyply.src.nonbond_engine import NonBondEngine
    import polyply.src.restraints as restraints
    import polyply.src.persistence as persistence
    calls = []
    orig = restraints.set_distance_restraint
    batch = [0]

    def recorder(kind):
        def wrapped(molecule, target_node, ref_node, distance, avg_step_length, tolerance):
            idx = [i for i, m in enumerate(topology.molecules) if m is molecule]
            calls.append((kind, idx[0] if len(idx) == 1 else -1, int(ref_node), int(target_node), float(distance),
                          batch[0]))
            return orig(molecule, target_node, ref_node, distance, avg_step_length, tolerance)
        return wrapped
    orig_gen = persistence.generate_end_end_distances

    def gen_wrapped(*args, **kwargs):
        batch[0] += 1
        return orig_gen(*args, **kwargs)
    import warnings
    warnings.simplefilter("ignore", RuntimeWarning)
    GenerateTemplates(topology=topology, max_opt=10, skip_filter=False).run_system(topology)
    engine = NonBondEngine.from_topology(topology.molecules, topology, np.array([30., 30., 30.]))
    restraints.set_distance_restraint = recorder("dist")
    persistence.set_distance_restraint = recorder("pers")
    persistence.generate_end_end_distances = gen_wrapped
    try:
        persistence.sample_end_to_end_distances(topology, engine)
        restraints.set_restraints(topology, engine)
    finally:
        restraints.set_distance_restraint = orig
        persistence.set_distance_restraint = orig
        persistence.generate_end_end_distances = orig_gen
    carriers = sorted(i for i, mol in enumerate(topology.molecules)
                      if any("distance_restraints" in mol.nodes[k] for k in mol.nodes))
    return calls, carriers


def build_exec(work, system, blocks, text):
    from polyply.src.build_file_parser import read_build_file
    topology, _ = work.load(system)
    mols = mols_json(topology)
    replay = dict(stream="build", system=system, blocks=blocks, text=text)
    has_dist = any(l[0] in ("dist", "pers") for b in blocks for l in b["lines"])
    try:
        read_build_file(text.splitlines(), topology, topology.molecules)
        ann = observe_annotations(topology)
        calls, carriers = apply_restraints(topology) if has_dist else ([], [])
        dist = sorted([c[1], c[2], c[3], int(c[4])] for c in calls if c[0] == "dist")
        pers_by_batch = {}
        for c in calls:
            if c[0] == "pers":
                pers_by_batch.setdefault(c[5], []).append(c[1])
        impl = dict(ok=True, ann=ann, dist=dist, pers=[pers_by_batch[k] for k in sorted(pers_by_batch)],
                    carriers=carriers)
    except Exception as err:  # pylint: disable=broad-except
        impl = dict(ok=False, err=type(err).__name__)
    reqs = [dict(op="build", mols=mols, blocks=blocks), dict(op="build_spec", mols=mols, blocks=blocks)]
    return dict(kind="build", replay=replay, impl=impl, reqs=reqs, mols=mols, blocks=blocks)


def build_case(work, rng, candidates):
    system = gen_system(rng, ligand=rng.random() < 0.3, min_res=rng.choice([1, 2, 3]),
                        shared_resid=rng.choice([0.0, 0.0, 0.4]), restart=rng.choice([0.0, 0.5, 0.5]))
    # the molecule list is needed to draw sensible blocks: read it off the system description
    mols = []
    for name, count in system["mols"]:
        for _ in range(count):
            mols.append(dict(name=name, nodes=[[k, r[0], r[1], None] for k, r in enumerate(system["types"][name])]))
    blocks = gen_blocks(rng, mols, candidates)
    return build_exec(work, system, blocks, bld_text(blocks, rng))


def judge_build(ctx, case, answers):
    model, spec = answers
    impl, replay = case["impl"], case["replay"]
    if model["ok"]:
        want = dict(ok=True, ann=model["ann"], dist=sorted(model["dist"]), pers=[idxs for _, idxs in model["pers"]],
                    carriers=sorted(set([d[0] for d in model["dist"]] + [i for _, idxs in model["pers"] for i in idxs])))
    else:
        want = dict(ok=False)
    got = dict(impl) if impl["ok"] else dict(ok=False)
    ctx.correspond("build-file", got, want, replay)
    selected = 0
    if impl["ok"]:
        spec_ann = spec["ann"]
        selected = sum(1 for a in spec_ann if a[2] or a[3])
        # A deviation from the specification is filed under a KNOWN shape only when the implementation does
        # exactly what the model of the known behaviour does (last rw line wins / restraints by index); any
        # other deviation gets its own shape, so a listed finding can never mask a different defect.
        model_ann = model["ann"] if model["ok"] else None
        reported = set()
        for pos, (got_a, want_a) in enumerate(zip(impl["ann"], spec_ann)):
            if got_a[2] != want_a[2] and "restraint-selection" not in reported:
                reported.add("restraint-selection")
                ctx.oracle_fail("restraint-selection", "node %d of molecule %d (%s) carries restraints %s, the build "
                                "file selects %s; file:\n%s" % (got_a[1], got_a[0], case["mols"][got_a[0]]["name"],
                                                              got_a[2], want_a[2], replay["text"]), replay)
            if got_a[3] != want_a[3]:
                known = model_ann is not None and got_a[3] == model_ann[pos][3]
                shape = "rw-restriction-last-line-wins" if known else "rw-selection"
                if shape not in reported:
                    reported.add(shape)
                    ctx.oracle_fail(shape, "node %d of molecule %d (%s) carries rw_options %s, the build file selects "
                                    "%s; file:\n%s" % (got_a[1], got_a[0], case["mols"][got_a[0]]["name"], got_a[3],
                                                      want_a[3], replay["text"]), replay)
        if impl["dist"] != sorted(spec["dist"]):
            known = model["ok"] and impl["dist"] == sorted(model["dist"])
            shape = "dist-restraint-by-index-ignores-name" if known else "dist-restraint-selection"
            ctx.oracle_fail(shape, "distance restraints applied to (molecule, a, b, line) %s, the build file selects %s "
                            "(molecule names %s); file:\n%s" % (impl["dist"], sorted(spec["dist"]), names_of(case["mols"]),
                                                                replay["text"]), replay)
        spec_pers = [idxs for _, idxs in spec["pers"]]
        if impl["pers"] != [p for p in spec_pers if p] and impl["pers"] != spec_pers:
            known = model["ok"] and impl["pers"] == [idxs for _, idxs in model["pers"]]
            ctx.oracle_fail("dist-restraint-by-index-ignores-name" if known else "persistence-selection",
                            "persistence batches applied to molecules %s, the build file selects %s (names %s); "
                            "file:\n%s" % (impl["pers"], spec_pers, names_of(case["mols"]), replay["text"]), replay)
        want_carriers = sorted(set([d[0] for d in impl["dist"]] + [i for p in impl["pers"] for i in p]))
        if impl["carriers"] != want_carriers:
            ctx.oracle_fail("distance-restraint-attribute-on-unselected-molecule",
                            "molecules %s carry distance_restraints, calls went to %s" % (impl["carriers"], want_carriers),
                            replay)
    kinds = sorted(set(l[0] for b in case["blocks"] for l in b["lines"]))
    ctx.case(json.dumps([replay["system"], case["blocks"]], sort_keys=True) if selected or impl.get("dist") else None,
             sample=dict(build_file=replay["text"], molecules=names_of(case["mols"]),
                         annotated=[a for a in impl.get("ann", []) if a[2] or a[3]][:6], dist=impl.get("dist"))
             if selected > 2 and ctx.rng.random() < 0.1 else None,
             stream="build", build_ok=impl["ok"],
             max_restraints_on_a_node=max([len(a[2]) for a in impl.get("ann", [])] + [0]), kinds="+".join(kinds) or "none", nblocks=len(case["blocks"]))


# ------------------------------------------------------------------------------------------------ B. specs

SAFE = "ABCXYZ"


def gen_name(rng):
    return "".join(rng.choice(SAFE) for _ in range(rng.randint(1, 3)))


def gen_spec(rng):
    return [gen_name(rng) if rng.random() < 0.6 else None, rng.randint(0, 12) if rng.random() < 0.5 else None,
            gen_name(rng) if rng.random() < 0.6 else None, rng.randint(0, 120) if rng.random() < 0.5 else None]


def canon_py_spec(res):
    resid = res.get("resid")
    if resid is not None:
        resid = int(resid) if float(resid).is_integer() else "float:%r" % resid
    return [res.get("molname"), res.get("mol_idx"), res.get("resname"), resid]


def py_parse(text):
    from polyply.src.annotate_ligands import parse_residue_spec
    try:
        return dict(ok=True, spec=canon_py_spec(parse_residue_spec(text)))
    except Exception as err:  # pylint: disable=broad-except
        return dict(ok=False, err=type(err).__name__)


def spec_cases(ctx, rng):
    specs = []
    for mask in range(16):                      # all omitted-field shapes
        specs.append(["AB" if mask & 1 else None, 3 if mask & 2 else None,
                      "RX" if mask & 4 else None, 17 if mask & 8 else None])
    specs += [gen_spec(rng) for _ in range(ctx.budget(60, 600))]
    texts = []
    for _ in range(ctx.budget(60, 600)):          # arbitrary (mostly malformed) strings over the grammar's alphabet
        text = "".join(rng.choice("AB12#-") for _ in range(rng.randint(0, 8)))
        # "<res>#-2": Python's float() reads a signed residue id; the model's numbers are unsigned digit
        # strings (recorded assumption) - such texts are left out
        if "#-1" in text or "#-2" in text:
            continue
        texts.append(text)
    rendered = ctx.driver.ask([dict(op="render_spec", spec=s) for s in specs])
    all_texts = [r["text"] for r in rendered] + texts
    parsed = ctx.driver.ask([dict(op="parse_spec", text=t) for t in all_texts])
    for i, text in enumerate(all_texts):
        impl = py_parse(text)
        model = dict(ok=True, spec=parsed[i]["spec"]) if parsed[i]["ok"] else dict(ok=False)
        replay = dict(stream="spec", text=text)
        ctx.correspond("parse_residue_spec", dict(ok=impl["ok"], spec=impl.get("spec")),
                       dict(ok=model["ok"], spec=model.get("spec")), replay)
        if i < len(specs):
            # the grammar, written by the specification, must be read back as the same fields
            if not impl["ok"] or impl["spec"] != specs[i]:
                ctx.oracle_fail("spec-round-trip", "specification %s is written %r and read back as %s"
                                % (specs[i], text, impl), dict(stream="spec", text=text, spec=specs[i]))
        ctx.case(("spec", text) if any(c in text for c in "#-") or text else None,
                 sample=dict(text=text, parsed=impl) if ctx.rng.random() < 0.01 else None,
                 stream="spec", spec_ok=impl["ok"], generated=("grammar" if i < len(specs) else "arbitrary"))


# ------------------------------------------------------------------------------------------------ C. -start

def render_py(spec):
    mol = (spec[0] or "") + ("#%d" % spec[1] if spec[1] is not None else "")
    if spec[2] is None and spec[3] is None:
        return mol
    return mol + "-" + (spec[2] or "") + ("#%d" % spec[3] if spec[3] is not None else "")


def gen_start_specs(rng, mols, candidates):
    specs = []
    for _ in range(rng.randint(1, 3)):
        i = rng.randrange(len(mols))
        node = rng.choice(mols[i]["nodes"])
        name = mols[i]["name"]
        roll = rng.random()
        if roll < 0.08:
            name = rng.choice(sorted(set(names_of(mols)) - {name}) or ["ZZ"]) \
                if "start-name-index-mismatch-accepted" in candidates else name
        spec = [name if rng.random() < 0.75 else None, i if rng.random() < 0.5 else None,
                node[2] if rng.random() < 0.7 else None, node[1] if rng.random() < 0.6 else None]
        if rng.random() < 0.12:
            spec[2] = "RZ"                       # a residue name nobody has
        if rng.random() < 0.08:
            spec[3] = 99
        if spec[0] is None and spec[1] is None and rng.random() < 0.7:
            spec[0] = mols[i]["name"]
        specs.append(spec)
    return specs


def system_mols(system):
    """the molecule list as the real reader will produce it (node keys 0.., resids and names as written)"""
    mols = []
    for name, count in system["mols"]:
        for _ in range(count):
            mols.append(dict(name=name, nodes=[[k, r[0], r[1], None] for k, r in enumerate(system["types"][name])]))
    return mols


def start_exec(work, system, texts):
    from polyply.src.gen_coords import find_starting_node_from_spec
    topology, _ = work.load(system)
    mols = mols_json(topology)
    try:
        start = find_starting_node_from_spec(topology, texts)
        impl = dict(ok=True, start=[None if start[i] is None else int(start[i]) for i in range(len(mols))])
    except Exception as err:  # pylint: disable=broad-except
        impl = dict(ok=False, err=type(err).__name__)
    replay = dict(stream="start", system=system, specs=texts)
    return dict(kind="start", replay=replay, impl=impl, mols=mols,
                reqs=[dict(op="start", mols=mols, specs=texts), dict(op="start_spec", mols=mols, specs=texts)])


def start_case(work, rng, candidates):
    system = gen_system(rng, ligand=rng.random() < 0.3, shared_resid=rng.choice([0.0, 0.0, 0.4]),
                        restart=rng.choice([0.0, 0.0, 0.5]))
    texts = [render_py(s) for s in gen_start_specs(rng, system_mols(system), candidates)]
    return start_exec(work, system, texts)


def judge_start(ctx, case, answers):
    model, spec = answers
    impl, replay = case["impl"], case["replay"]
    ctx.correspond("find_starting_node_from_spec", dict(ok=impl["ok"], start=impl.get("start")),
                   dict(ok=model["ok"], start=model.get("start")), replay)
    valid = spec["ok"] and spec["valid"]
    if valid and not impl["ok"]:
        ctx.oracle_fail("start-rejects-valid-spec", "-start %s raised %s on molecules %s"
                        % (replay["specs"], impl["err"], names_of(case["mols"])), replay)
    elif valid and impl["start"] != spec["start"]:
        ctx.oracle_fail("start-selects-other-node", "-start %s gives %s, the specifications select %s (molecules %s)"
                        % (replay["specs"], impl["start"], spec["start"], case["mols"]), replay)
    elif not valid and impl["ok"]:
        # known shape only if (a) some specification carries an index AND a name that is not that molecule's,
        # and (b) the implementation does what the model of that known behaviour does
        names = names_of(case["mols"])
        mismatch = False
        for text in replay["specs"]:
            parsed = py_parse(text)
            if parsed["ok"] and parsed["spec"][0] is not None and parsed["spec"][1] is not None \
                    and parsed["spec"][1] < len(names) and names[parsed["spec"][1]] != parsed["spec"][0]:
                mismatch = True
        known = mismatch and model["ok"] and model["start"] == impl["start"]
        ctx.oracle_fail("start-name-index-mismatch-accepted" if known else "start-accepts-invalid-spec",
                        "-start %s is accepted and starts %s although the specifications are not satisfiable as "
                        "written (molecules %s)" % (replay["specs"], impl["start"], names_of(case["mols"])), replay)
    ctx.case(json.dumps([replay["system"], replay["specs"]], sort_keys=True),
             sample=dict(specs=replay["specs"], molecules=names_of(case["mols"]), start=impl.get("start"))
             if ctx.rng.random() < 0.03 else None,
             stream="start", start_ok=impl["ok"], nspecs=len(replay["specs"]))


# ------------------------------------------------------------------------------------------------ E. -split

def atoms_of(mol):
    out = []
    for key in mol.molecule.nodes:
        data = mol.molecule.nodes[key]
        out.append([int(key), int(data["resid"]), str(data["resname"]), str(data["atomname"])])
    return out


def gen_split(rng, system):
    """(split strings, structured definitions)"""
    resnames = sorted(set(r[1] for residues in system["types"].values() for r in residues))
    strings, defs = [], []
    for resname in rng.sample(resnames, rng.randint(1, min(2, len(resnames)))):
        names = list(ATOMNAMES[:3])
        rng.shuffle(names)
        nparts = rng.randint(1, 2)
        parts, pool = [], names[:rng.randint(1, 3)]
        if rng.random() < 0.12:
            pool = pool + [pool[0]]             # a repeated atom name: must be rejected
        for p in range(nparts):
            chunk = pool[p::nparts]
            if chunk:
                new_name = "N%s%d" % (resname[1:], p)
                roll = rng.random()
                if roll < 0.2:
                    new_name = resname                     # the old residue keeps its name for one part
                elif roll < 0.35:
                    new_name = rng.choice(resnames)        # a name some other residue already carries
                if new_name in [q[0] for q in parts]:
                    new_name = "N%s%d" % (resname[1:], p)  # two parts of one name merge by design (notes O-4)
                parts.append([new_name, chunk])
        strings.append(resname + ":" + ":".join("%s-%s" % (n, ",".join(a)) for n, a in parts))
        defs.append(dict(resname=resname, parts=parts))
    return strings, defs


def parse_split_strings(strings):
    defs = []
    for text in strings:
        resname, *parts = text.split(":")
        defs.append(dict(resname=resname, parts=[[p.split("-")[0], p.split("-")[1].split(",")] for p in parts]))
    return defs


def split_exec(work, system, strings, only=None):
    topology, _ = work.load(system)
    defs = parse_split_strings(strings)
    cases = []
    seen = set()
    for mol in topology.molecules:
        if mol.mol_name in seen or (only is not None and mol.mol_name != only):
            continue
        seen.add(mol.mol_name)
        before = atoms_of(mol)
        max_resid = int(mol.max_resid)
        try:
            mol.split_residue(strings)
            residues = []
            for key in mol.nodes:
                data = mol.nodes[key]
                residues.append([int(data["resid"]), str(data["resname"]), sorted(int(a) for a in data["graph"].nodes)])
            after = [[int(k), int(mol.molecule.nodes[k]["resid"]), str(mol.molecule.nodes[k]["resname"])]
                     for k in mol.molecule.nodes]
            flags = all(mol.nodes[k].get("build") is True and mol.nodes[k].get("backmap") is True for k in mol.nodes)
            impl = dict(ok=True, residues=residues, atoms=after, flags=flags,
                        keys=[int(k) for k in mol.nodes])
        except Exception as err:  # pylint: disable=broad-except
            impl = dict(ok=False, err=type(err).__name__)
        replay = dict(stream="split", system=system, molecule=mol.mol_name, split=strings)
        reqs = [dict(op="split", atoms=before, max_resid=max_resid, splits=defs),
                dict(op="split_spec", atoms=before, split=defs[0], residues=impl.get("residues", []))]
        cases.append(dict(kind="split", replay=replay, impl=impl, reqs=reqs, before=before, defs=defs))
    return cases


def split_case(work, rng):
    system = gen_system(rng, ligand=rng.random() < 0.2, shared_resid=rng.choice([0.0, 0.0, 0.4]),
                        restart=rng.choice([0.0, 0.0, 0.4]))
    strings, _ = gen_split(rng, system)
    return split_exec(work, system, strings)


def judge_split(ctx, case, answers):
    model, spec = answers[0], answers[1]
    impl, replay = case["impl"], case["replay"]
    want = dict(ok=True, residues=[[r[0], r[1], sorted(r[2])] for r in model["residues"]], atoms=model["atoms"]) \
        if model["ok"] else dict(ok=False)
    got = dict(ok=True, residues=impl["residues"], atoms=impl["atoms"]) if impl["ok"] else dict(ok=False)
    ctx.correspond("split_residue", got, want, replay)
    listed = [n for d in case["defs"] for p in d["parts"] for n in p[1]]
    per_def_dup = any(len(set(n for p in d["parts"] for n in p[1])) != sum(len(p[1]) for p in d["parts"])
                      for d in case["defs"])
    if per_def_dup:
        if impl["ok"]:
            ctx.oracle_fail("split-accepts-repeated-atom", "-split %s names an atom twice and is accepted"
                            % replay["split"], replay)
    elif not impl["ok"]:
        ctx.oracle_fail("split-rejects-valid", "-split %s raised %s on molecule %s" % (replay["split"], impl["err"],
                                                                                      replay["molecule"]), replay)
    else:
        keys = sorted(a[0] for a in case["before"])
        in_res = sorted(k for r in impl["residues"] for k in r[2])
        if keys != in_res:
            ctx.oracle_fail("split-loses-or-duplicates-atoms", "after -split %s the residues hold atoms %s, the "
                            "molecule has %s" % (replay["split"], in_res, keys), replay)
        elif len(case["defs"]) == 1 and not spec["holds"]:
            ctx.oracle_fail("split-wrong-partition", "-split %s on atoms %s gives residues %s: not the partition "
                            "into the named new residues" % (replay["split"], case["before"], impl["residues"]), replay)
        if not impl["flags"]:
            ctx.oracle_fail("split-residue-without-build-flags", "after -split %s a residue node has no "
                            "build/backmap flag" % replay["split"], replay)
        if impl["keys"] != list(range(len(impl["keys"]))) or [r[0] for r in impl["residues"]] != impl["keys"]:
            ctx.tally(split_numbering="not 0..n-1")
    touched = impl["ok"] and any(a[2] != b[2] for a, b in zip(impl["atoms"], case["before"]))
    ctx.case(json.dumps([replay["system"]["types"][replay["molecule"]], replay["split"]], sort_keys=True)
             if touched or not impl["ok"] else None,
             sample=dict(split=replay["split"], atoms=case["before"], residues=impl.get("residues"))
             if touched and ctx.rng.random() < 0.05 else None,
             stream="split", split_ok=impl["ok"], ndefs=len(case["defs"]))


# ------------------------------------------------------------------------------------------------ D. -lig

def gen_lig_pairs(rng, mols, candidates):
    hosts = [i for i, m in enumerate(mols) if not m["name"].startswith("L")]
    ligs = [i for i, m in enumerate(mols) if m["name"].startswith("L")]
    pairs = []
    for _ in range(rng.randint(1, 2)):
        i = rng.choice(hosts)
        node = rng.choice(mols[i]["nodes"])
        mol_spec = [mols[i]["name"] if rng.random() < 0.8 else None, i if rng.random() < 0.5 else None,
                    node[2] if rng.random() < 0.8 else None, node[1] if rng.random() < 0.7 else None]
        j = rng.choice(ligs)
        lnode = rng.choice(mols[j]["nodes"])
        lig_name = mols[j]["name"]
        lig_spec = [lig_name if rng.random() < 0.85 else None, j if rng.random() < 0.4 else None,
                    lnode[2] if rng.random() < 0.5 else None, lnode[1] if rng.random() < 0.3 else None]
        if rng.random() < 0.1 and "lig-name-index-mismatch-accepted" in candidates:
            lig_spec[0], lig_spec[1] = mols[hosts[0]]["name"], j     # index of a ligand, name of another molecule
        if lig_spec[0] is None and lig_spec[1] is None and rng.random() < 0.8:
            lig_spec[0] = mols[j]["name"]
        pairs.append([render_py(mol_spec), render_py(lig_spec)])
    return pairs


def lig_exec(work, system, pairs):
    import numpy as np
    from polyply.src.annotate_ligands import AnnotateLigands
    topology, _ = work.load(system)
    mols = mols_json(topology)
    replay = dict(stream="lig", system=system, pairs=pairs)
    pos_before, final, pos_after = [], None, []
    try:
        annotator = AnnotateLigands(topology, [tuple(p) for p in pairs])
        defs = sorted([int(i), int(d[0]), int(d[1])] for i, lst in annotator.ligand_defs.items() for d in lst)
        annotator.run_system(topology)
        attached = mols_json(topology)
        edges = []
        for i, mol in enumerate(topology.molecules):
            for key in mol.nodes:
                if "ligated" in mol.nodes[key]:
                    edges += [[i, int(n), int(key)] for n in mol.neighbors(key)]
        # "build": every node gets a distinct synthetic position
        count = 0
        for i, mol in enumerate(topology.molecules):
            for key in mol.nodes:
                count += 1
                mol.nodes[key]["position"] = np.array([float(count), float(i), float(key)])
                pos_before.append([[i, int(key)], "p%d" % count])
        annotator.split_ligands()
        final = mols_json(topology)
        for i, mol in enumerate(topology.molecules):
            for key in mol.nodes:
                pos_after.append([[i, int(key)], "p%d" % int(round(float(mol.nodes[key]["position"][0])))])
        impl = dict(ok=True, defs=defs, mols=attached, edges=sorted(edges))
    except Exception as err:  # pylint: disable=broad-except
        impl = dict(ok=False, err=type(err).__name__)
    reqs = [dict(op="lig", mols=mols, pairs=pairs)]
    if impl["ok"]:
        reqs.append(dict(op="detach", mols=impl["mols"], pos=pos_before))
        reqs.append(dict(op="lig_spec", orig=mols, mols=impl["mols"], final=final, pos=pos_before, pos_after=pos_after,
                         edges=impl["edges"], pairs=pairs))
    return dict(kind="lig", replay=replay, impl=impl, reqs=reqs, mols=mols, final=final, pos_after=pos_after)


def lig_case(work, rng, candidates):
    system = gen_system(rng, ligand=True)
    return lig_exec(work, system, gen_lig_pairs(rng, system_mols(system), candidates))


def judge_lig(ctx, case, answers):
    model = answers[0]
    impl, replay = case["impl"], case["replay"]
    want = dict(ok=True, defs=sorted(model["defs"]), mols=model["mols"], edges=sorted(model["edges"])) \
        if model["ok"] else dict(ok=False)
    got = dict(ok=True, defs=impl["defs"], mols=impl["mols"], edges=impl["edges"]) if impl["ok"] else dict(ok=False)
    ctx.correspond("AnnotateLigands.attach", got, want, replay)
    nattached = 0
    if impl["ok"]:
        detach, spec = answers[1], answers[2]
        nattached = sum(1 for m in impl["mols"] for n in m["nodes"] if n[3] is not None)
        ctx.correspond("AnnotateLigands.split_ligands",
                       dict(mols=case["final"], pos=sorted(case["pos_after"])),
                       dict(mols=detach["mols"], pos=sorted(detach["pos"])), replay)
        if not spec["holds"]:
            shape = "ligand-round-trip"
            if spec["why"].startswith("the attached nodes are not the ones") and got == want:
                # a ligand specification with index AND a name that is not the name of that molecule?
                names = names_of(case["mols"])
                for _, lig_text in replay["pairs"]:
                    parsed = py_parse(lig_text)
                    if parsed["ok"] and parsed["spec"][0] is not None and parsed["spec"][1] is not None \
                            and parsed["spec"][1] < len(names) and names[parsed["spec"][1]] != parsed["spec"][0]:
                        shape = "lig-name-index-mismatch-accepted"
            ctx.oracle_fail(shape, "-lig %s (molecules %s): after attach / build / detach %s"
                            % (replay["pairs"], names_of(case["mols"]), spec["why"]), replay)
    ctx.case(json.dumps([replay["system"], replay["pairs"]], sort_keys=True) if nattached or not impl["ok"] else None,
             sample=dict(pairs=replay["pairs"], molecules=names_of(case["mols"]), defs=impl.get("defs"))
             if nattached and ctx.rng.random() < 0.05 else None,
             stream="lig", lig_ok=impl["ok"], attached=min(nattached, 3))


# ------------------------------------------------------------------------------------------------ end to end

def read_gro(path):
    lines = open(path).read().splitlines()
    n = int(lines[1])
    atoms = []
    for line in lines[2:2 + n]:
        atoms.append(dict(resid=int(line[0:5]), resname=line[5:10].strip(), atomname=line[10:15].strip(),
                          xyz=[float(line[20:28]), float(line[28:36]), float(line[36:44])]))
    return atoms


def e2e_system(rng):
    """host polymers of two-atom residues + single-bead ligands: small enough to build in ~0.1 s"""
    nres = rng.randint(2, 4)
    types = {"A": [(r + 1, rng.choice(["RA", "RB"]), ["X", "Y"]) for r in range(nres)],
             "L": [(1, "RL", ["Z"])]}
    return dict(types=types, mols=[("A", rng.randint(1, 2)), ("L", rng.randint(1, 3))])


def e2e_case(ctx, work, rng, mode, first=False):
    system = e2e_system(rng)
    seed = rng.randint(0, 10 ** 6)
    kwargs = {}
    host_res = system["types"]["A"]
    nA = system["mols"][0][1]
    nL = system["mols"][1][1]
    if mode == "split":
        resname = rng.choice(sorted(set(r[1] for r in host_res)))
        kwargs["split"] = [rng.choice(["%s:NX-X:NY-Y", "%s:NX-X", "%s:NY-Y"]) % resname]
    elif mode == "lig":
        target = rng.choice(host_res)
        mol = "A#%d" % rng.randrange(nA) if rng.random() < 0.5 else "A"
        spec = "%s-%s#%d" % (mol, target[1], target[0])
        nhosts = 1 if "#" in mol else nA
        if nhosts > nL:
            spec = "A#0-%s#%d" % (target[1], target[0])
        kwargs["ligands"] = [[spec, "L"]]
        kwargs["step_fudge"] = rng.choice([1.0, 0.75])
    elif mode == "combo":
        # several option kinds in ONE run: a build file with residue-level directives together with -split / -lig /
        # -start; every directive and specification is written in terms of the residues as they are when it is
        # applied (after the split: new names, any resid)
        parts = rng.choice([("build", "split"), ("build", "split"), ("build", "lig"), ("build", "start"),
                            ("split", "start"), ("build", "split", "start")])
        if first:                                   # every run holds at least one run with two build files
            parts = rng.choice([("build", "split"), ("build", "start"), ("build", "lig")])
        names_after = sorted(set(r[1] for r in host_res))
        if "split" in parts:
            resname = rng.choice(sorted(set(r[1] for r in host_res)))
            pattern = rng.choice(["%s:NX-X:NY-Y", "%s:NX-X", "%s:NY-Y"])
            kwargs["split"] = [pattern % resname]
            names_after = sorted(set(n for n in names_after if n != resname)
                                 | set(p.split("-")[0] for p in pattern.split(":")[1:])
                                 | (set() if pattern.count(":") == 2 else {resname}))
        if "lig" in parts:
            target = rng.choice(host_res)
            kwargs["ligands"] = [["A#0-%s#%d" % (target[1], target[0]), "L"]]
        if "start" in parts:
            idx = rng.randrange(nA)
            if "split" in parts:
                kwargs["start"] = ["A#%d-%s" % (idx, rng.choice(names_after))]
            else:
                target = rng.choice(host_res)
                kwargs["start"] = ["A#%d-%s#%d" % (idx, target[1], target[0])]
        if "build" in parts:
            lines = []
            lo = rng.randrange(nA)
            hi = rng.randint(lo + 1, nA)
            lines += ["[ molecule ]", "A %d %d" % (lo, hi)]
            for _ in range(rng.randint(1, 2)):
                geom = rng.choice(["sphere", "cylinder", "rectangle"])
                params = {"sphere": "3.9", "cylinder": "3.9 3.9", "rectangle": "3.9 3.9 3.9"}[geom]
                rlo = rng.choice([0, 0, 1, 2])
                lines += ["[ %s ]" % geom, "%s %d %d in 4.0 4.0 4.0 %s" % (rng.choice(names_after + ["RL"]), rlo,
                                                                         rlo + rng.choice([2, 9, 9]), params)]
            if first or rng.random() < 0.7:
                lines += ["[ molecule ]", "L %d %d" % (nA, nA + rng.randint(1, nL)), "[ sphere ]", "RL 1 2 in 4.0 4.0 4.0 3.9"]
            kwargs["build_lines"] = lines
            if lines.count("[ molecule ]") == 2 and (first or rng.random() < 0.6):
                # the same directives spread over TWO build files (-b a.bld b.bld): read one after the other
                kwargs["build_split"] = len(lines) - 1 - lines[::-1].index("[ molecule ]")
    else:
        target = rng.choice(host_res)
        idx = rng.randrange(nA)
        kwargs["start"] = ["A#%d-%s#%d" % (idx, target[1], target[0])]
    return e2e_exec(ctx, work, mode, system, kwargs, seed)


def e2e_exec(ctx, work, mode, system, kwargs, seed):
    """the real gen_coords with -split / -lig / -start on a tiny system"""
    import numpy as np
    import polyply
    import polyply.src.gen_coords as gc
    from polyply.src.topology import Topology
    work.count += 1
    path = os.path.join(work.dir, "e2e%d.top" % work.count)
    with open(path, "w") as handle:
        handle.write(top_text(system))
    out = path[:-4] + ".gro"
    box = np.array([8., 8., 8.])
    captured = {}
    kwargs = dict(kwargs)
    if "ligands" in kwargs:
        kwargs["ligands"] = [tuple(p) for p in kwargs["ligands"]]
    build_lines = kwargs.pop("build_lines", None)
    build_split = kwargs.pop("build_split", None)
    if build_lines is not None:
        parts = [build_lines] if build_split is None else [build_lines[:build_split], build_lines[build_split:]]
        kwargs["build"] = []
        for num, part in enumerate(parts):
            # several build files carry the SAME file name in different directories (runA/options.bld,
            # runB/options.bld): each of them is a file of its own and has to be read
            folder = path[:-4] + "_run%s" % "ABC"[num]
            os.makedirs(folder, exist_ok=True)
            bld = os.path.join(folder, "options.bld")
            with open(bld, "w") as handle:
                handle.write("\n".join(part) + "\n")
            kwargs["build"].append(Path(bld))
    saved = []

    def patch(obj, attr, new):
        saved.append((obj, attr, obj.__dict__[attr]))
        setattr(obj, attr, new)
    orig_top = Topology.from_gmx_topfile.__func__
    orig_run = gc.AnnotateLigands.run_system
    orig_split = gc.AnnotateLigands.split_ligands
    orig_build = gc.BuildSystem.run_system

    def top_wrapped(cls, *a, **k):
        captured["topology"] = orig_top(cls, *a, **k)
        return captured["topology"]

    def run_wrapped(self, system_):
        captured["before"] = mols_json(system_)
        return orig_run(self, system_)

    def build_wrapped(self, molecules):
        captured["engine_owner"] = self
        captured["start_dict"] = dict(self.start_dict)
        # the residues as they are when coordinates are generated, and the build-file tags they carry
        topo_now = captured["topology"]
        captured["mols_at_build"] = mols_json(topo_now)
        captured["tags_at_build"] = [
            [i, int(key), [_canon_params(p) for p in mol.nodes[key].get("restraints", [])],
             [[[_f(x) for x in p[0]], _f(p[1])] for p in mol.nodes[key].get("rw_options", [])]]
            for i, mol in enumerate(topo_now.molecules) for key in mol.nodes if "ligated" not in mol.nodes[key]]
        return orig_build(self, molecules)

    def split_wrapped(self):
        topo = self.topology
        att = []
        engine = captured["engine_owner"].nonbond_matrix
        for i, mol in enumerate(topo.molecules):
            for key in mol.nodes:
                if "ligated" in mol.nodes[key]:
                    host = list(mol.neighbors(key))[0]
                    att.append(dict(mol=i, node=int(key), host=int(host), lig=[int(x) for x in mol.nodes[key]["ligated"]],
                                    pos=[float(x) for x in mol.nodes[key]["position"]],
                                    host_pos=[float(x) for x in mol.nodes[host]["position"]],
                                    sigma=float(engine.get_interaction(i, i, host, key)[0])))
        captured["attached"] = att
        return orig_split(self)
    patch(Topology, "from_gmx_topfile", classmethod(top_wrapped))
    patch(gc.AnnotateLigands, "run_system", run_wrapped)
    patch(gc.AnnotateLigands, "split_ligands", split_wrapped)
    patch(gc.BuildSystem, "run_system", build_wrapped)
    np.random.seed(seed)
    random.seed(seed)
    error = None
    timed_out = False
    try:
        with common.time_limit(120):
            polyply.gen_coords(toppath=Path(path), outpath=Path(out), name="t", box=box, **kwargs)
    except common.CaseTimeout:
        timed_out = True
    except Exception as err:  # pylint: disable=broad-except
        error = "%s: %s" % (type(err).__name__, err)
    finally:
        for obj, attr, old in reversed(saved):
            setattr(obj, attr, old)
        from vermouth.file_writer import DeferredFileWriter
        DeferredFileWriter().close()
    replay_kwargs = {k: ([list(p) for p in v] if k == "ligands" else v) for k, v in kwargs.items() if k != "build"}
    if build_lines is not None:
        replay_kwargs["build_lines"] = build_lines
        if build_split is not None:
            replay_kwargs["build_split"] = build_split
    replay = dict(stream="e2e-" + mode, system=system, seed=seed, kwargs=replay_kwargs)
    shape = "gen_coords-%s-fails" % mode
    if timed_out:
        ctx.tally(e2e_timeout=True)          # counted, not judged
        return
    if error is not None:
        ctx.oracle_fail(shape, "gen_coords %s on a valid tiny system raised %s" % (kwargs, error), replay)
        ctx.case(json.dumps(replay, sort_keys=True, default=str), stream="e2e-" + mode, ok=False)
        return
    atoms = read_gro(out)
    topo = captured["topology"]
    natoms = sum(len(m.molecule.nodes) for m in topo.molecules)
    if len(atoms) != natoms or not all(math.isfinite(x) for a in atoms for x in a["xyz"]):
        ctx.oracle_fail(shape, "gen_coords %s wrote %d atoms for %d" % (kwargs, len(atoms), natoms), replay)
    pending = None
    if build_lines is not None and "mols_at_build" in captured:
        # judged by run(): the tags the residues carry when coordinates are generated must be the ones the build
        # file selects among the residues AS THEY ARE THEN (after -split; attached ligand copies left out)
        pending = dict(replay=replay, lines=build_lines, tags=captured["tags_at_build"],
                       mols=[dict(name=m["name"], nodes=[n for n in m["nodes"] if n[3] is None])
                             for m in captured["mols_at_build"]])
    if "split" in kwargs:
        resname, *parts = kwargs["split"][0].split(":")
        asked = {p.split("-")[1]: p.split("-")[0] for p in parts}
        k = 0
        for name, count in system["mols"]:
            for _ in range(count):
                for resid, rname, anames in system["types"][name]:
                    for aname in anames:
                        want = asked.get(aname, rname) if rname == resname else rname
                        if atoms[k]["resname"] != want or atoms[k]["atomname"] != aname:
                            ctx.oracle_fail("split-wrong-partition", "gen_coords -split %s: atom %d (%s of %s %d) is "
                                            "written as %s %s" % (kwargs["split"], k + 1, aname, rname, resid,
                                                                  atoms[k]["resname"], atoms[k]["atomname"]), replay)
                        k += 1
    if "ligands" in kwargs:
        after = mols_json(topo)
        if after != captured["before"]:
            ctx.oracle_fail("ligand-round-trip", "gen_coords -lig %s: molecule list changed from %s to %s"
                            % (kwargs["ligands"], captured["before"], after), replay)
        if not captured.get("attached"):
            ctx.oracle_fail("ligand-not-attached", "gen_coords -lig %s attached nothing" % (kwargs["ligands"],), replay)
        for att in captured.get("attached", []):
            lig_idx, lig_node = att["lig"]
            got = [float(x) for x in topo.molecules[lig_idx].nodes[lig_node]["position"]]
            if got != att["pos"]:
                ctx.oracle_fail("ligand-round-trip", "ligand residue %s holds %s, its attached node was built at %s"
                                % (att["lig"], got, att["pos"]), replay)
            delta = [(a - b) - box[d] * round((a - b) / box[d]) for d, (a, b) in enumerate(zip(att["pos"], att["host_pos"]))]
            dist = math.sqrt(sum(x * x for x in delta))
            step = kwargs.get("step_fudge", 1.0) * att["sigma"]
            if abs(dist - step) > 1e-6 * max(1.0, step):
                ctx.oracle_fail("ligand-not-one-step-from-host", "ligand %s is %.9f nm (minimum image) from its host "
                                "residue, one step is %.9f" % (att["lig"], dist, step), replay)
            # single-bead ligand: the atom is written at the residue position
            first = sum(len(m.molecule.nodes) for m in topo.molecules[:lig_idx])
            if any(abs(a - b) > 0.00051 for a, b in zip(atoms[first]["xyz"], att["pos"])):
                ctx.oracle_fail("ligand-round-trip", "ligand atom written at %s, residue built at %s"
                                % (atoms[first]["xyz"], att["pos"]), replay)
        ctx.tally(e2e_ligands_attached=len(captured.get("attached", [])))
    if "start" in kwargs:
        # the specification is read against the residues as they are when the start is looked up (after -split)
        parsed = py_parse(kwargs["start"][0])["spec"]
        idx = parsed[1]
        at_build = [n for n in captured.get("mols_at_build", mols_json(topo))[idx]["nodes"] if n[3] is None]
        want = next((n[0] for n in at_build if (parsed[2] is None or n[2] == parsed[2])
                     and (parsed[3] is None or n[1] == parsed[3])), None)
        got = captured["start_dict"].get(idx)
        if got != want or any(v is not None for k, v in captured["start_dict"].items() if k != idx):
            ctx.oracle_fail("start-selects-other-node", "gen_coords -start %s: BuildSystem got start_dict %s"
                            % (kwargs["start"], captured["start_dict"]), replay)
    ctx.case(json.dumps(replay, sort_keys=True, default=str), stream="e2e-" + mode, ok=True,
             e2e_options="+".join(sorted(k for k in ("build", "split", "ligands", "start") if k in kwargs))
             + ("(2 files)" if build_split is not None else ""),
             sample=dict(options={k: str(v) for k, v in kwargs.items()}, molecules=system["mols"],
                         attached=captured.get("attached")) if ctx.rng.random() < 0.15 else None)
    return pending


def judge_e2e_tags(ctx, pending):
    """build file + other options in one gen_coords run: what the residues carry when they are built"""
    pending = [p for p in pending if p]
    answers = ctx.driver.ask([dict(op="build_text", mols=p["mols"], lines=p["lines"]) for p in pending])
    for item, ans in zip(pending, answers):
        if not ans["ok"]:
            ctx.tally(e2e_build_text_model_rejects=ans.get("err"))
            continue
        want = [[a[0], a[1], [_model_geom(g)[3] for g in a[2]], [_model_rw(d)[3] for d in a[3]]] for a in ans["spec_ann"]]
        selected = sum(1 for a in want if a[2] or a[3])
        ctx.tally(e2e_build_tags_selected=min(selected, 3))
        if item["tags"] != want:
            bad = next((g, w) for g, w in zip(item["tags"] + [None], want + [None]) if g != w)
            ctx.oracle_fail("build-file-directive-not-on-its-residues-at-build-time",
                            "gen_coords %s with build file\n%s\nwhen coordinates are generated residue %s carries %s, the "
                            "build file selects %s (residues then: %s)"
                            % ({k: v for k, v in item["replay"]["kwargs"].items() if k != "build_lines"},
                               "\n".join(item["lines"]), bad[0][:2] if bad[0] else None, bad[0][2:] if bad[0] else None,
                               bad[1][2:] if bad[1] else None, item["mols"]), item["replay"])



# ------------------------------------------------------------------------------------------------ F. build-file TEXT
# (token level: Model/BuildFileText.lean).  Generated build-file text goes through the real BuildDirector; the
# option tables, the stored templates and the node tags are compared field by field with the model.

import fractions
import itertools


def _dy(rng, lo=-2, hi=9, bits=3):
    """a dyadic number in [lo, hi] and one of its plain decimal spellings"""
    scale = 1 << bits
    num = rng.randint(lo * scale, hi * scale)
    val = fractions.Fraction(num, scale)
    text = "%s" % (("%." + str(bits) + "f") % float(val))
    text = text.rstrip("0") if "." in text else text          # 2.500 -> 2.5, 3.000 -> 3.
    style = rng.random()
    if text.endswith("."):
        text = text + ("0" if style < 0.5 else "") if style < 0.8 else text[:-1]
    if style > 0.9 and not text.startswith("-"):
        text = "+" + text
    elif 0.85 < style <= 0.9:
        text = text.replace("-", "-0", 1) if text.startswith("-") else "0" + text       # leading zero
    elif 0.8 < style <= 0.85 and (text.startswith("0.") or text.startswith("-0.")) and len(text.lstrip("-")) > 2:
        text = text.replace("0.", ".", 1)                                                # .5 / -.5
    return text


def _int_tok(rng, value):
    roll = rng.random()
    if roll < 0.08:
        return "+%d" % value if value >= 0 else "%d" % value
    if roll < 0.14:
        return "0%d" % value if value >= 0 else "-0%d" % -value
    return "%d" % value


def _float_int_tok(rng, value):
    """an integer value written for float(): 3, 3.0, 3., +3"""
    return rng.choice(["%d", "%d", "%d.0", "%d.", "%d.00"]) % value


def _ws(rng):
    return rng.choice([" ", " ", " ", "  ", "\t", " \t "])


def _join(rng, toks):
    out = toks[0]
    for tok in toks[1:]:
        out += _ws(rng) + tok
    lead = rng.choice(["", "", "", " ", "\t"])
    tail = rng.choice(["", "", "", " ", " ; a comment", ";x 1 2", " ;"])
    return lead + out + tail


def _header(rng, name):
    form = rng.choice(["[ %s ]", "[ %s ]", "[ %s ]", "[%s]", "[  %s ]", "[ %s]"])
    if rng.random() < 0.1:
        name = name.upper() if rng.random() < 0.5 else name.capitalize()
    return form % name + rng.choice(["", "", " ; comment", "  "])


TEMPLATE_COUNTS = [1, 2, 4]          # centre of geometry of dyadic positions is exact for these atom counts


def gen_text(rng, mols, candidates):
    """(lines, stats): a build file as text.  Mostly well formed, with a small share of malformed lines."""
    blocks = gen_blocks(rng, mols, candidates)
    lines, stats = [], dict(malformed=None)
    # what the DOCUMENTED line formats say the tables must hold (independent of the model and of the translated
    # field indices): filled for every line written without a deliberate defect
    expect = dict(options={}, rw={}, dist={}, pers=[], volumes={}, bending={}, templates=[], reject=False)

    def keys_of(block):
        return ["%s|%d" % (block["name"], i) for i in range(block["lo"], block["hi"])]
    malformed = rng.random() < 0.22
    bad_kind = rng.choice(["few", "badnum", "intfloat", "unknown_section", "header", "toplevel", "volumes3", "pers5",
                           "template_noname", "atoms_after_bonds", "bond_unknown", "data_first", "template_empty"]) \
        if malformed else None
    stats["malformed"] = bad_kind
    if bad_kind == "data_first":
        lines.append("RA 1 2")
    tcount = [0]

    def template(resname):
        tcount[0] += 1
        natoms = rng.choice(TEMPLATE_COUNTS)
        names = ["T%d" % tcount[0]] + rng.sample(ATOMNAMES, natoms - 1) if natoms > 1 else ["T%d" % tcount[0]]
        lines.append(_header(rng, "template"))
        if bad_kind != "template_noname" or rng.random() < 0.5:
            lines.append(_join(rng, [rng.choice(["resname", "name", "x"]), resname]))
        if bad_kind == "template_empty" and rng.random() < 0.5:
            lines.append(_header(rng, "bonds"))
            return
        lines.append(_header(rng, "atoms"))
        written = {}
        for name in names:
            toks = [name, "P", _dy(rng), _dy(rng), _dy(rng)]
            written[name] = [float(t) for t in toks[2:]]
            lines.append(_join(rng, toks))
        if rng.random() < 0.15:                       # a repeated atom name: the later line replaces the attributes
            toks = [names[0], "P", _dy(rng), _dy(rng), _dy(rng)]
            written[names[0]] = [float(t) for t in toks[2:]]
            lines.append(_join(rng, toks))
        if rng.random() < 0.1:
            return                                    # no [ bonds ]: the template is dropped (known finding of C15)
        lines.append(_header(rng, "bonds"))
        for a, b in zip(names[:-1], names[1:]):
            lines.append(_join(rng, [a, b]))
        # the positions written, as vectors from their centre of geometry, under the residue name written
        expect["templates"].append([resname, _centre([[n, "P", xyz] for n, xyz in written.items()])])
        if bad_kind == "bond_unknown":
            lines.append(_join(rng, [names[0], "QQ"]))
        if bad_kind == "atoms_after_bonds":
            lines.append(_header(rng, "atoms"))
            lines.append(_join(rng, ["Z9", "P", "0", "0", "0"]))

    def misc():
        roll = rng.random()
        if roll < 0.3:
            lines.append(_header(rng, "volumes"))
            for _ in range(rng.randint(1, 3)):
                toks = [rng.choice(RESNAMES), _dy(rng, 0, 3)]
                expect["volumes"][toks[0]] = float(toks[1])
                if bad_kind == "volumes3" and rng.random() < 0.5:
                    toks.append("1")
                lines.append(_join(rng, toks))
        elif roll < 0.45:
            lines.append(_header(rng, "bending"))
            for _ in range(rng.randint(1, 2)):
                toks = [rng.choice(RESNAMES), rng.choice(RESNAMES), rng.choice(RESNAMES), _dy(rng, 0, 40)]
                expect["bending"]["|".join(toks[:3])] = float(toks[3])
                lines.append(_join(rng, toks))
        elif roll < 0.7:
            template(rng.choice(["RQ", "RQ", "RA", "RS"]))
        elif roll < 0.75 and bad_kind == "unknown_section":
            lines.append(_header(rng, "foo"))
            lines.append("bar 1")
        elif roll < 0.8 and bad_kind == "toplevel":
            lines.append(_header(rng, "sphere"))
            lines.append("RA 1 3 in 1 2 3 4")
        elif roll < 0.85:
            lines.append(rng.choice(["", "   ", "; only a comment", "\t"]))

    for block in blocks:
        if rng.random() < 0.4:
            misc()
        lines.append(_header(rng, "molecule"))
        if rng.random() < 0.1:                         # an earlier data line is replaced by the next one
            lines.append(_join(rng, ["ZZ", "0", "1"]))
        mol_toks = [block["name"], _float_int_tok(rng, block["lo"]), _float_int_tok(rng, block["hi"])]
        if rng.random() < 0.05:
            mol_toks.append("7")                       # further columns are not looked at
        lines.append(_join(rng, mol_toks))
        for line in block["lines"]:
            kind = line[0]
            bad = malformed and rng.random() < 0.3
            if kind == "geometry":
                geom, nparam = rng.choice(GEOMS)
                nparam = rng.choice([nparam, nparam, rng.randint(0, 4)])
                rlo = _float_int_tok(rng, line[2])
                rhi = _float_int_tok(rng, line[3]) if rng.random() < 0.85 else "%d.5" % line[3]
                if rng.random() < 0.04:
                    rlo = "%d.5" % line[2]             # a non-integral start selects no residue
                toks = [line[1], rlo, rhi, rng.choice(["in", "out", "in", "out", "IN", "sideways"]),
                        _dy(rng), _dy(rng), _dy(rng)] + [_dy(rng, 0, 6) for _ in range(nparam)]
                if bad and bad_kind == "few":
                    toks = toks[:rng.randint(1, 6)]
                if bad and bad_kind == "badnum":
                    toks[rng.choice([1, 2, 4, 5, 6])] = rng.choice(["1.x", "--1", "1.2.3", ".", "+", "x"])
                if not bad:
                    entry = [toks[0], float(toks[1]), float(toks[2]),
                             [toks[3], [float(t) for t in toks[4:7]]] + [float(t) for t in toks[7:]] + [geom]]
                    for key in keys_of(block):
                        expect["options"].setdefault(key, []).append(entry)
                lines.append(_header(rng, geom))
                lines.append(_join(rng, toks))
            elif kind == "rw":
                toks = [line[1], _int_tok(rng, line[2]), _int_tok(rng, line[3]), _dy(rng, -1, 1), _dy(rng, -1, 1),
                        _dy(rng, -1, 1), _dy(rng, 0, 90)]
                if not bad:
                    for key in keys_of(block):         # one slot per molecule: assigned
                        expect["rw"][key] = [toks[0], int(toks[1]), int(toks[2]),
                                             [[float(t) for t in toks[3:6]], float(toks[6])]]
                if rng.random() < 0.1:
                    toks.append("99")                  # further columns are not looked at
                if bad and bad_kind == "intfloat":
                    toks[rng.choice([1, 2])] += ".0"   # int() does not read 3.0
                if bad and bad_kind == "few":
                    toks = toks[:rng.randint(1, 6)]
                lines.append(_header(rng, "rw_restriction"))
                lines.append(_join(rng, toks))
            elif kind == "dist":
                toks = [_int_tok(rng, line[1]), _int_tok(rng, line[2]), _dy(rng, 0, 9)]
                roll = rng.random()
                if roll < 0.5:
                    toks.append(_dy(rng, 0, 1))
                elif roll < 0.6:
                    toks += [_dy(rng, 0, 1), "5"]      # five columns: the tolerance column is NOT read
                if line[2] == 99:
                    expect["reject"] = True            # no such node: the file must be rejected
                elif not bad:
                    for key in keys_of(block):         # the optional fourth column is the tolerance
                        pair = "%d|%d" % (int(toks[0]), int(toks[1]))
                        # five columns are not a documented format: what the tolerance is then is not judged
                        expect["dist"].setdefault(key, {})[pair] = \
                            [float(toks[2]), (float(toks[3]) if len(toks) == 4 else 0.0) if len(toks) <= 4 else None]
                if bad and bad_kind == "intfloat":
                    toks[rng.choice([0, 1])] += ".0"
                if bad and bad_kind == "few":
                    toks = toks[:rng.randint(1, 2)]
                lines.append(_header(rng, "distance_restraints"))
                lines.append(_join(rng, toks))
            else:
                toks = [rng.choice(["WCM", "WCM", "XX"]), _dy(rng, 0, 9), _int_tok(rng, line[1]), _int_tok(rng, line[2])]
                if not bad:
                    expect["pers"].append([[toks[0], float(toks[1]), int(toks[2]), int(toks[3])],
                                           list(range(block["lo"], block["hi"]))])
                if bad and bad_kind == "pers5":
                    toks.append("3")
                if bad and bad_kind == "few":
                    toks = toks[:rng.randint(1, 3)]
                lines.append(_header(rng, "persistence_length"))
                lines.append(_join(rng, toks))
            if rng.random() < 0.08:
                lines.append(_header(rng, "molecule"))   # header without a data line: the block stays current
        if bad_kind == "header" and rng.random() < 0.5:
            lines.append("[ volumes")
    for _ in range(rng.randint(0, 2)):
        misc()
    if bad_kind is None:
        stats["expect"] = expect
    return lines, stats


def _f(x):
    return float(x)


def _r9(x):
    """template positions are vectors from a centre of geometry (a division by the number of atoms): compared
    after rounding to 1e-9 (the values are multiples of 1/(8 n), far from every rounding boundary)"""
    return round(float(x), 9) + 0.0


def _canon_params(params):
    out = []
    for item in params:
        if isinstance(item, str):
            out.append(item)
        elif hasattr(item, "__len__"):
            out.append([_f(x) for x in item])
        else:
            out.append(_f(item))
    return out


def _mq(text):
    """a model rational ("num/den") as the correctly rounded double"""
    return float(fractions.Fraction(text))


def _model_params(params):
    return [p if not isinstance(p, list) and _is_name(p) else ([_mq(x) for x in p] if isinstance(p, list) else _mq(p))
            for p in params]


def _is_name(text):
    try:
        fractions.Fraction(text)
        return False
    except (ValueError, ZeroDivisionError):
        return True


def _model_geom(g):
    return [g[0], _mq(g[1]), _mq(g[2]), _model_params(g[3])]


def _model_rw(d):
    return [d[0], int(d[1]), int(d[2]), [[_mq(x) for x in d[3][0]], _mq(d[3][1])]]


def text_exec(work, system, lines, expect=None):
    from polyply.src.build_file_parser import BuildDirector
    topology, _ = work.load(system)
    mols = mols_json(topology)
    replay = dict(stream="build-text", system=system, lines=lines, expect=expect)
    vol_names = set(RESNAMES)
    volumes0 = [[str(k), common.rat_str(v)] for k, v in topology.volumes.items()]
    oracle = []          # per finished template: (graph hash, size stored under it right afterwards)
    try:
        director = BuildDirector(topology.molecules, topology)
        orig_finalize_section = director.finalize_section

        def watched(previous_section, ended_section):
            before = {k: len(v) for k, v in director.resnames_to_hash.items()}
            result = orig_finalize_section(previous_section, ended_section)
            for resname, hashes in director.resnames_to_hash.items():
                if len(hashes) > before.get(resname, 0):          # a template was stored: its hash was appended
                    oracle.append([str(hashes[-1]), common.rat_str(topology.volumes[hashes[-1]])])
            return result
        director.finalize_section = watched
        list(director.parse(iter(lines)))
        options = sorted([str(k[0]), int(k[1]), [[o["resname"], _f(o["start"]), _f(o["stop"]), _canon_params(o["parameters"])]
                                                 for o in v]] for k, v in director.build_options.items() if v)
        rws = sorted([str(k[0]), int(k[1]), [o["resname"], int(o["start"]), int(o["stop"]),
                                             [[_f(x) for x in o["parameters"][0]], _f(o["parameters"][1])]]]
                     for k, o in director.rw_options.items())
        dist = sorted([str(k[0]), int(k[1]), sorted([int(ab[0]), int(ab[1]), [_f(v[0]), _f(v[1])]] for ab, v in inner.items())]
                      for k, inner in topology.distance_restraints.items() if inner)
        pers = [[[str(p.model), _f(p.lp), int(p.start), int(p.stop)], [int(i) for i in p.mol_idxs]]
                for p in topology.persistences]
        volumes = sorted([str(k), _f(v)] for k, v in topology.volumes.items() if k in vol_names)
        bending = sorted([str(k[0]), str(k[1]), str(k[2]), _f(v)] for k, v in topology.bending.items())
        templates = []
        for resname, hashes in director.resnames_to_hash.items():
            for graph_hash in hashes:
                coords = director.templates[graph_hash]
                templates.append([str(resname), sorted([str(n), [_r9(x) for x in c]] for n, c in coords.items())])
        ann = []
        for i, mol in enumerate(topology.molecules):
            for key in mol.nodes:
                data = mol.nodes[key]
                ann.append([i, int(key), [_canon_params(p) for p in data.get("restraints", [])],
                            [[[_f(x) for x in p[0]], _f(p[1])] for p in data.get("rw_options", [])]])
        shared = all(mol.templates is director.templates for mol in topology.molecules)
        impl = dict(ok=True, options=options, rw=rws, dist=dist, pers=pers, volumes=volumes, bending=bending,
                    templates=sorted(templates), ann=ann, templates_handed_to_every_molecule=shared)
        sizes = dict(volumes=sorted([str(k), _f(v)] for k, v in topology.volumes.items()),
                     templates=sorted([str(h), sorted([str(n), [_r9(x) for x in c]] for n, c in t.items())]
                                      for h, t in director.templates.items()))
    except Exception as err:  # pylint: disable=broad-except
        impl = dict(ok=False, err=type(err).__name__)
        sizes = None
    reqs = [dict(op="build_text", mols=mols, lines=lines)]
    if sizes is not None:
        # C15's precedence model (Model/Templates.lean) fed from the TEXT; hash and compute_volume are oracles
        reqs.append(dict(op="build_text_sizes", lines=lines, volumes0=volumes0, oracle=oracle))
    return dict(kind="text", replay=replay, impl=impl, mols=mols, reqs=reqs, sizes=sizes)


def text_case(work, rng, candidates):
    system = gen_system(rng, ligand=rng.random() < 0.2, min_res=rng.choice([1, 2, 3]),
                        shared_resid=rng.choice([0.0, 0.0, 0.4]), restart=rng.choice([0.0, 0.5, 0.5]))
    lines, stats = gen_text(rng, system_mols(system), candidates)
    case = text_exec(work, system, lines, stats.get("expect"))
    case["stats"] = stats
    return case


def _centre(atoms):
    """map_from_CoG on exact rationals: [name, [coords]]"""
    n = len(atoms)
    cog = [sum(fractions.Fraction(a[2][d]) for a in atoms) / n for d in range(3)]
    return sorted([a[0], [_r9(fractions.Fraction(a[2][d]) - cog[d]) for d in range(3)]] for a in atoms)


def judge_text(ctx, case, answers):
    model = answers[0]
    impl, replay = case["impl"], case["replay"]
    stats = case.get("stats", {})
    if not model["ok"] and model.get("err", "").startswith("outside-model"):
        ctx.tally(text_outside_model=model["err"])
        ctx.case(None, stream="build-text")
        return
    if model["ok"]:
        want = dict(
            ok=True,
            options=sorted([k[0], k[1], [_model_geom(g) for g in k[2]]] for k in model["options"]),
            rw=sorted([k[0], k[1], _model_rw(k[2])] for k in model["rw"]),
            dist=sorted([k[0], k[1], sorted([e[0], e[1], [_mq(e[2][0]), _mq(e[2][1])]] for e in k[2])] for k in model["dist"]),
            pers=[[[p[0][0], _mq(p[0][1]), int(p[0][2]), int(p[0][3])], p[1]] for p in model["pers"]],
            volumes=sorted([v[0], _mq(v[1])] for v in model["volumes"] if v[0] in RESNAMES),
            bending=sorted([b[0], b[1], b[2], _mq(b[3])] for b in model["bending"]),
            templates=sorted([t[0], _centre(t[1])] for t in model["templates"]),
            ann=[[a[0], a[1], [_model_geom(g)[3] for g in a[2]], [_model_rw(d)[3] for d in a[3]]] for a in model["ann"]],
            templates_handed_to_every_molecule=True)
    else:
        want = dict(ok=False)
    got = dict(impl) if impl["ok"] else dict(ok=False)
    ctx.correspond("build-file-text", got, want, replay)
    if case.get("sizes") is not None and len(answers) > 1:
        msizes = answers[1]
        want_sizes = dict(volumes=sorted([v[0], _mq(v[1])] for v in msizes["volumes"]),
                          templates=sorted([t[0], sorted([a[0], [_r9(_mq(x)) for x in a[1]]] for a in t[1])]
                                           for t in msizes["templates"])) if msizes["ok"] else dict(ok=False)
        ctx.correspond("build-file-text-sizes", case["sizes"], want_sizes, replay)
    tagged_nodes = 0
    if impl["ok"] and model["ok"]:
        spec = [[a[0], a[1], [_model_geom(g)[3] for g in a[2]], [_model_rw(d)[3] for d in a[3]]] for a in model["spec_ann"]]
        tagged_nodes = sum(1 for a in spec if a[2] or a[3])
        reported = set()
        for pos, (got_a, want_a) in enumerate(zip(impl["ann"], spec)):
            if got_a[2] != want_a[2] and "restraint-selection" not in reported:
                reported.add("restraint-selection")
                ctx.oracle_fail("restraint-selection", "node %d of molecule %d carries restraints %s, the build file "
                                "selects %s; file:\n%s" % (got_a[1], got_a[0], got_a[2], want_a[2], "\n".join(replay["lines"])),
                                replay)
            if got_a[3] != want_a[3]:
                known = got_a[3] == want["ann"][pos][3]
                shape = "rw-restriction-last-line-wins" if known else "rw-selection"
                if shape not in reported:
                    reported.add(shape)
                    ctx.oracle_fail(shape, "node %d of molecule %d carries rw_options %s, the build file selects %s; "
                                    "file:\n%s" % (got_a[1], got_a[0], got_a[3], want_a[3], "\n".join(replay["lines"])), replay)
    expect = replay.get("expect")
    if expect is not None:
        text = "\n".join(replay["lines"])
        if expect["reject"]:
            if impl["ok"]:
                ctx.oracle_fail("build-text-accepts-missing-node", "a [ distance_restraints ] line names node 99, which "
                                "no molecule has, and the file is accepted:\n%s" % text, replay)
        elif not impl["ok"]:
            ctx.oracle_fail("build-text-rejects-documented-file", "a build file that follows the documented line "
                            "formats is rejected (%s):\n%s" % (impl.get("err"), text), replay)
        else:
            have = dict(
                options={"%s|%d" % (k[0], k[1]): k[2] for k in impl["options"]},
                rw={"%s|%d" % (k[0], k[1]): k[2] for k in impl["rw"]},
                dist={"%s|%d" % (k[0], k[1]): {"%d|%d" % (e[0], e[1]): e[2] for e in k[2]} for k in impl["dist"]},
                pers=impl["pers"], volumes={v[0]: v[1] for v in impl["volumes"]},
                bending={"|".join(b[:3]): b[3] for b in impl["bending"]}, templates=impl["templates"])
            expect["templates"] = sorted(expect.get("templates", []))
            for key, inner_t in expect["dist"].items():
                for pair, val in inner_t.items():
                    if val[1] is None and pair in have["dist"].get(key, {}):
                        val[1] = have["dist"][key][pair][1]
            for table in ("options", "rw", "dist", "pers", "volumes", "bending", "templates"):
                want_t = expect[table]
                if table in ("options", "dist"):
                    want_t = {k: v for k, v in want_t.items() if v}
                if have[table] != want_t:
                    ctx.oracle_fail("build-text-fields-" + table, "the %s table after reading the file is %s, the "
                                    "documented line formats say %s; file:\n%s"
                                    % (table, json.dumps(have[table])[:700], json.dumps(want_t)[:700], text), replay)
                    break
    rich = impl["ok"] and (tagged_nodes or impl["templates"] or impl["dist"] or impl["volumes"])
    ctx.case(json.dumps([replay["system"], replay["lines"]], sort_keys=True) if rich or not impl["ok"] else None,
             sample=dict(build_file=replay["lines"], options=impl.get("options"), templates=impl.get("templates"))
             if rich and ctx.rng.random() < 0.02 else None,
             stream="build-text", text_ok=impl["ok"], text_malformed=stats.get("malformed"),
             text_templates=min(len(impl.get("templates", [])), 3))


def text_exhaustive(ctx):
    """small finite domains, enumerated completely: (1) every ASCII character as a separator candidate of
    `line.split()`; (2) every (registered section, header) pair of the section machine; (3) every string of at most
    four characters over `019.+-` through float() and int()."""
    from polyply.src.build_file_parser import BuildDirector
    texts = ["a%sb" % chr(c) for c in range(128)] + [" %sa" % chr(c) for c in range(128)]
    paths = sorted(set(tuple(k) for k in BuildDirector.METH_DICT))
    lasts = sorted(set(p[-1] for p in paths)) + ["foo", "atoms bonds", ""]
    queries = [[list(cur), "[ %s ]" % h] for cur in [()] + paths + [("foo",), ("molecule", "foo")] for h in lasts]
    toks = ["".join(t) for n in range(1, 5) for t in itertools.product("019.+-", repeat=n)]
    ans = ctx.driver.ask([dict(op="tokens", texts=texts), dict(op="sections", queries=queries), dict(op="numbers", toks=toks)])
    for text, mtoks in zip(texts, ans[0]["tokens"]):
        ctx.correspond("build-file-text:split", text.split(), mtoks, dict(stream="text-split", text=text))
    ctx.tally(text_split_ascii_exhaustive=len(texts))
    for (cur, header), (msec, mknown) in zip(queries, ans[1]["sections"]):
        director = BuildDirector([], None)
        director.finalize_section = lambda *a, **k: None
        director.section = list(cur)
        director.parse_header(header)
        ctx.correspond("build-file-text:sections", [list(director.section), tuple(director.section) in director.METH_DICT],
                       [msec, mknown], dict(stream="text-sections", cur=cur, header=header))
    ctx.tally(text_sections_exhaustive=len(queries))
    for tok, (mfloat, mint) in zip(toks, ans[2]["values"]):
        try:
            pfloat = float(tok)
        except ValueError:
            pfloat = None
        try:
            pint = int(tok)
        except ValueError:
            pint = None
        ctx.correspond("build-file-text:numbers", [pfloat, pint],
                       [None if mfloat is None else _mq(mfloat), None if mint is None else int(mint)],
                       dict(stream="text-numbers", token=tok))
    ctx.tally(text_numbers_exhaustive=len(toks))
    ctx.case(("text-exhaustive", len(texts), len(queries), len(toks)), stream="build-text-exhaustive")


# ------------------------------------------------------------------------------------------------ run

JUDGES = dict(build=judge_build, start=judge_start, split=judge_split, lig=judge_lig, text=judge_text)


def run_batch(ctx, cases):
    reqs = [r for c in cases for r in c["reqs"]]
    answers = ctx.driver.ask(reqs)
    pos = 0
    for case in cases:
        n = len(case["reqs"])
        JUDGES[case["kind"]](ctx, case, answers[pos:pos + n])
        pos += n


def corpus_inputs():
    path = os.path.join(common.VERIF, "corpus", "C18")
    out = []
    if os.path.isdir(path):
        for name in sorted(os.listdir(path)):
            data = json.load(open(os.path.join(path, name)))
            out.append(data.get("input", data))
    return out


def replay_inputs(ctx, work, inputs):
    """re-execute recorded inputs exactly (systems, files, option strings and seeds are in the record)"""
    cases = []
    for inp in inputs:
        stream = inp.get("stream", "")
        if stream == "spec":
            impl = py_parse(inp["text"])
            ans = ctx.driver.ask([dict(op="parse_spec", text=inp["text"])])[0]
            ctx.correspond("parse_residue_spec", dict(ok=impl["ok"], spec=impl.get("spec")),
                           dict(ok=ans["ok"], spec=ans.get("spec")), inp)
            if "spec" in inp and (not impl["ok"] or impl["spec"] != inp["spec"]):
                ctx.oracle_fail("spec-round-trip", "specification %s written %r read back as %s"
                                % (inp["spec"], inp["text"], impl), inp)
        elif stream == "build":
            cases.append(build_exec(work, inp["system"], inp["blocks"], inp["text"]))
        elif stream == "build-text":
            cases.append(text_exec(work, inp["system"], inp["lines"], inp.get("expect")))
        elif stream.startswith("text-"):
            text_exhaustive(ctx)
        elif stream == "start":
            cases.append(start_exec(work, inp["system"], inp["specs"]))
        elif stream == "split":
            cases += split_exec(work, inp["system"], inp["split"], only=inp.get("molecule"))
        elif stream == "lig":
            cases.append(lig_exec(work, inp["system"], inp["pairs"]))
        elif stream.startswith("e2e-"):
            judge_e2e_tags(ctx, [e2e_exec(ctx, work, stream[4:], inp["system"], inp["kwargs"], inp["seed"])])
    run_batch(ctx, cases)


def run(ctx):
    ctx.extra["rule"] = RULE
    ctx.extra["trusted"] = [
        "vermouth make_residue_graph / SectionLineParser, networkx (as installed); the harness maps numeric "
        "parameters of build-file lines back to line identifiers",
        "np.arange(lo, hi) on integer tokens is modelled as List.range'; float()/int() of specification numbers "
        "are modelled on plain decimal digit strings only",
        "token level: vermouth's LineParser/SectionLineParser (comment splitting, header recognition, pop(-2) section "
        "resolution) is MODELLED (Model/BuildFileText.lean) and tied by the exhaustive section stream; float() is "
        "modelled on [+-]?(digits[.digits*]|.digits) with the exact decimal value (the harness rounds it correctly "
        "to a double); exponents, inf/nan, '_' in numerals, '$' macros and the inherited [ macros ] section, "
        "negative or non-integral molecule indices, negative node ids and template positions that are not 3D are "
        "outside the model; the graph hash of a template is not modelled (generated templates have pairwise "
        "different atom-name sets)",
    ]
    ctx.assumptions.append("numbers in build files and specifications are non-negative decimal integers")
    ctx.assumptions.append("two residues of one molecule differ in resid or in residue name (resids alone need not be "
                           "unique: co-factors numbered like their neighbour, numbering restarting per block)")
    candidates = enabled_candidates()
    ctx.extra["explanation"] = ("candidate-finding streams enabled: %s" % (sorted(candidates) or "none"))
    rng = ctx.rng
    work = Work()
    try:
        replay_inputs(ctx, work, corpus_inputs())
        spec_cases(ctx, rng)
        text_exhaustive(ctx)
        cases = []
        for _ in range(ctx.budget(200, 2200)):
            cases.append(build_case(work, rng, candidates))
        for _ in range(ctx.budget(160, 2000)):
            cases.append(text_case(work, rng, candidates))
        for _ in range(ctx.budget(120, 1500)):
            cases.append(start_case(work, rng, candidates))
        for _ in range(ctx.budget(100, 1000)):
            cases += split_case(work, rng)
        for _ in range(ctx.budget(120, 1500)):
            cases.append(lig_case(work, rng, candidates))
        run_batch(ctx, cases)
        pending = []
        for mode, count in (("split", ctx.budget(12, 100)), ("lig", ctx.budget(20, 180)), ("start", ctx.budget(6, 40)),
                            ("combo", ctx.budget(14, 120))):
            for num in range(count):
                pending.append(e2e_case(ctx, work, rng, mode, first=(num == 0)))
        judge_e2e_tags(ctx, pending)
    finally:
        work.close()


def replay(ctx, data):
    inp = data.get("input") or {}
    inputs = [inp] if inp else [i["input"] for i in data.get("no_longer_checks", []) if i.get("input")]
    for item in data.get("no_longer_checks", []):
        print("no longer checks:", item["name"], "-", item["detail"][:300])
    work = Work()
    try:
        replay_inputs(ctx, work, inputs)
    finally:
        work.close()
    for b in ctx.broken:
        print("REPLAY-DISAGREES", b["name"], b["detail"][:400])
