"""C11 helper: the REAL composition gen_params -> .itp file -> polyply's readers, run in-process.

Nothing here decides a verdict; it only drives the real code and canonicalises what it produced:

* `run_pipeline(spec)`: writes the generated force-field files of `spec` (or names a shipped library),
  calls the real `polyply.src.gen_itp.gen_params` into a temporary directory, with three harness-side
  interpositions (attribute assignment, no source hook):
    - `gen_itp.MapToMolecule`, `gen_itp.ApplyLinks`  -> which stage was reached,
    - `gen_itp.find_missing_edges`                   -> the residue graph the program holds + missing links,
    - `vermouth.gmx.itp.write_molecule_itp`          -> snapshot of `meta_molecule.molecule` right before
                                                        it is written (+ header, moltype);
  then re-reads the written file with `Topology.from_gmx_topfile` (through a minimal .top that
  `#include`s it) and with `MetaMolecule.from_itp`.
* `lex_file(text)`: the character level of the readers (`split_comments`, `strip`, `[`/`#` dispatch,
  whitespace tokenisation) — the Lean model works on these token lines.
"""
import copy
import os
import pathlib
import sys
import tempfile

import common  # noqa: F401  (sets sys.path for polyply)


# ------------------------------------------------------------------------------------------------ lexing

def lex_line(raw):
    """one physical line -> token line of the Lean model (`ItpIO.Line`)"""
    line = raw.rstrip("\n")
    data, sep, comment = line.partition(";")
    data = data.strip()
    if not data:
        if sep:
            return dict(k="c", t=comment.strip())
        return dict(k="b")
    if data.startswith("["):
        # SectionLineParser.is_section_header / parse_header: strip('[ ]').casefold()
        if not data.endswith("]"):
            return dict(k="x", t=data)
        return dict(k="h", n=data.strip("[ ]").casefold())
    if data.startswith("#"):
        return dict(k="p", t=data.split())
    return dict(k="d", t=data.split(), c=comment.strip() if sep else None)


def lex_file(text):
    return [lex_line(l) for l in text.split("\n")[:-1]] if text.endswith("\n") else \
           [lex_line(l) for l in text.split("\n")]


# ------------------------------------------------------------------------------------------------ canonical forms

def tok(value):
    """what the writer prints for a parameter / attribute: str(x)"""
    return str(value)


def mol_to_json(mol):
    """snapshot of a vermouth Molecule as the Lean model's `Mol` (node insertion order, dict order)"""
    atoms = []
    problems = []
    for key in mol.nodes:
        node = mol.nodes[key]
        for attr in ("atype", "resid", "resname", "atomname", "charge_group"):
            if attr not in node:
                problems.append("atom %r lacks %s" % (key, attr))
        resid, cgnr = node.get("resid"), node.get("charge_group")
        if not isinstance(key, int) or isinstance(key, bool) or key < 0:
            problems.append("node key %r is not a natural number" % (key,))
        for name, val in (("resid", resid), ("charge_group", cgnr)):
            if val is not None and (not isinstance(val, int) or isinstance(val, bool) or val < 0):
                try:
                    if int(val) == val and val >= 0:
                        continue
                except (TypeError, ValueError):
                    pass
                problems.append("atom %r has %s=%r (not a natural number)" % (key, name, val))
        atomid = node.get("atomid")
        atoms.append(dict(key=key, atomid=atomid if isinstance(atomid, int) else None,
                          name=tok(node.get("atomname")), atype=tok(node.get("atype")),
                          resid=int(resid) if resid is not None and not problems else resid,
                          resname=tok(node.get("resname")),
                          cgnr=int(cgnr) if cgnr is not None and not problems else cgnr,
                          charge=None if "charge" not in node else tok(node["charge"]),
                          mass=None if "mass" not in node else tok(node["mass"])))
        if "atomid" in node and not isinstance(atomid, int):
            problems.append("atom %r has a non-integer atomid" % (key,))
    sections = []
    for name, ixns in mol.interactions.items():
        items = []
        for ixn in ixns:
            meta = ixn.meta or {}
            for k in ("ifdef", "ifndef", "group", "comment"):
                if meta.get(k) is not None and not isinstance(meta.get(k), str):
                    problems.append("%s meta %s is not a string" % (name, k))
            items.append(dict(atoms=list(ixn.atoms), params=[tok(p) for p in ixn.parameters],
                              ifdef=meta.get("ifdef"), ifndef=meta.get("ifndef"),
                              group=meta.get("group"), comment=meta.get("comment")))
        sections.append([name, items])
    nrexcl = getattr(mol, "nrexcl", None)
    return dict(nrexcl=nrexcl, atoms=atoms, sections=sections, problems=problems)


def block_to_json(block):
    """a re-read vermouth Block/Molecule as the Lean model's `Block` (numbers printed canonically)"""
    atoms = []
    for key in block.nodes:
        node = block.nodes[key]
        atoms.append(dict(key=key, name=node["atomname"], atype=node["atype"], resid=node["resid"],
                          resname=node["resname"], cgnr=node["charge_group"],
                          charge=None if "charge" not in node else tok(node["charge"]),
                          mass=None if "mass" not in node else tok(node["mass"])))
    sections = []
    for name, ixns in block.interactions.items():
        items = []
        for ixn in ixns:
            meta = ixn.meta or {}
            guard = None
            if "ifdef" in meta:
                guard = ["ifdef", meta["ifdef"]]
            elif "ifndef" in meta:
                guard = ["ifndef", meta["ifndef"]]
            items.append(dict(atoms=list(ixn.atoms), params=[tok(p) for p in ixn.parameters], guard=guard))
        sections.append([name, items])
    return dict(name=getattr(block, "name", None), nrexcl=getattr(block, "nrexcl", None), atoms=atoms, sections=sections)


def res_graph_to_json(graph):
    """residue graph (networkx) -> nodes [key, resid, resname] in node order, edges as sorted key pairs"""
    nodes = [[key, graph.nodes[key].get("resid"), graph.nodes[key].get("resname")] for key in graph.nodes]
    edges = sorted([min(u, v), max(u, v)] for u, v in graph.edges)
    return dict(nodes=nodes, edges=edges)


# ------------------------------------------------------------------------------------------------ the real composition

class _Recorder:
    """wraps a processor class of gen_itp so that the harness learns which stage completed"""

    def __init__(self, cls, name, trace):
        self.cls, self.name, self.trace = cls, name, trace

    def __call__(self, *args, **kwargs):
        inner = self.cls(*args, **kwargs)
        outer = self

        class Proxy:
            def run_molecule(self, meta_molecule):
                outer.trace["entered"].append(outer.name)
                result = inner.run_molecule(meta_molecule)
                outer.trace["passed"].append(outer.name)
                return result

            def __getattr__(self, item):
                return getattr(inner, item)
        return Proxy()


def _listing(root):
    for base, _, names in os.walk(root):
        for nm in names:
            yield os.path.relpath(os.path.join(base, nm), root)


def _drain_writer():
    """drop (and delete the temp files of) whatever a failed run left queued in vermouth's singleton"""
    from vermouth.file_writer import DeferredFileWriter
    queue = getattr(DeferredFileWriter(), "open_files", None)
    while queue:
        entry = queue.pop()
        try:
            os.remove(entry[0])
        except OSError:
            pass


def run_pipeline(spec, keep=False):
    """Run the real gen_params on `spec` and re-read its output with the real readers.

    spec: dict(name, files={filename: text} | None, lib=[...]|None, seq=[...]|None,
               seq_json=dict|None (written as seq.json), argv=[...])
    """
    import vermouth
    import vermouth.forcefield
    import vermouth.gmx.itp as vitp
    from vermouth.file_writer import DeferredFileWriter
    from vermouth.citation_parser import citation_formatter
    from polyply.src import gen_itp
    from polyply.src.topology import Topology
    from polyply.src.meta_molecule import MetaMolecule

    common.quiet_logs()
    trace = dict(entered=[], passed=[])
    captured = {}
    result = dict(trace=trace, captured=captured)
    name = spec["name"]
    tmp = tempfile.mkdtemp(prefix="c11_")
    # where the caller asks for the output: any file name (suffix or not, several dots, upper case,
    # sub-directory), given absolute or relative to the working directory
    out_name = spec.get("out_name") or "out.itp"
    # the output directory: below the temporary directory, or (out_fs == "other") on ANOTHER file system than
    # tempfile.gettempdir() — vermouth's deferred writer moves a temporary file to the destination
    out_base = tmp
    if spec.get("out_fs") == "other":
        other = other_filesystem()
        if other is not None:
            out_base = tempfile.mkdtemp(prefix="c11_out_", dir=other)
    result["out_fs"] = "other" if out_base != tmp else "same"
    out = pathlib.Path(out_base) / "work" / out_name
    out.parent.mkdir(parents=True, exist_ok=True)
    out_arg = pathlib.Path(out_name) if spec.get("out_rel") else out
    before = set(_listing(tmp)) | set(_listing(out_base))
    old_cwd = os.getcwd()
    inpath = []
    for fname, text in sorted((spec.get("files") or {}).items()):
        path = pathlib.Path(tmp) / fname
        path.write_text(text)
        inpath.append(path)
    seq_file = None
    if spec.get("seq_json") is not None:
        import json
        seq_file = pathlib.Path(tmp) / "seq.json"
        seq_file.write_text(json.dumps(spec["seq_json"]))

    orig_write = vitp.write_molecule_itp
    orig_map, orig_links = gen_itp.MapToMolecule, gen_itp.ApplyLinks
    orig_missing = gen_itp.find_missing_edges
    orig_argv = sys.argv

    def write_wrapper(molecule, outfile, header=(), moltype=None, **kwargs):
        header = list(header)
        captured["mol"] = mol_to_json(molecule)
        captured["header"] = header
        captured["moltype"] = moltype
        # same set object, unmodified since gen_params iterated it: same iteration order
        captured["citations_ordered"] = [str(c) for c in molecule.citations]
        cmap = {}
        sources = [getattr(gen_itp, "COMMON_CITATIONS", {}) or {}, molecule.force_field.citations or {}]
        for source in sources:            # ChainMap(force_field.citations, COMMON_CITATIONS): the force field wins
            for key, entry in source.items():
                try:
                    cmap[str(key)] = citation_formatter(entry)
                except Exception:  # pylint: disable=broad-except
                    cmap[str(key)] = None
        captured["cmap"] = sorted([k, v] for k, v in cmap.items())
        trace["entered"].append("write")
        res = orig_write(molecule, outfile, header=header, moltype=moltype, **kwargs)
        trace["passed"].append("write")
        return res

    def missing_wrapper(meta_molecule, molecule):
        trace["entered"].append("missing")
        missing = list(orig_missing(meta_molecule, molecule))
        captured["requested"] = res_graph_to_json(meta_molecule)
        captured["missing"] = [[m["idxA"], m["idxB"]] for m in missing]
        # "the molecule that was built": the result of mapping, link application and modifications, as it is when
        # gen_params reports the missing links — BEFORE anything the output stage may do to it
        captured["built"] = mol_to_json(molecule)
        trace["passed"].append("missing")
        return missing

    # the writer queue of vermouth is a process-wide singleton: start from a clean one
    _drain_writer()
    try:
        vitp.write_molecule_itp = write_wrapper
        gen_itp.MapToMolecule = _Recorder(orig_map, "map", trace)
        gen_itp.ApplyLinks = _Recorder(orig_links, "links", trace)
        gen_itp.find_missing_edges = missing_wrapper
        sys.argv = list(spec.get("argv") or ["polyply", "gen_params"])
        try:
            os.chdir(str(pathlib.Path(out_base) / "work"))
            gen_itp.gen_params(name=name, outpath=out_arg, inpath=inpath, lib=spec.get("lib"),
                               seq=spec.get("seq"), seq_file=seq_file,
                               dsdna=bool(spec.get("dsdna")), mods=[], protter=False)
            result["raised"] = None
        except Exception as err:  # pylint: disable=broad-except
            result["raised"] = "%s: %s" % (type(err).__name__, str(err)[:300])
        except SystemExit as err:
            result["raised"] = "SystemExit: %s" % (err,)
    finally:
        vitp.write_molecule_itp = orig_write
        gen_itp.MapToMolecule, gen_itp.ApplyLinks = orig_map, orig_links
        gen_itp.find_missing_edges = orig_missing
        sys.argv = orig_argv
        os.chdir(old_cwd)
        _drain_writer()

    # the file must be at exactly the requested path
    result["written"] = out.is_file()
    result["requested_path"] = str(out_arg)
    result["new_files"] = sorted((set(_listing(tmp)) | set(_listing(out_base))) - before)
    result["tmp"] = tmp
    if result["written"]:
        text = out.read_text()
        result["text"] = text
        # (1) polyply's topology reader on a minimal .top that includes the file
        # the .top sits next to the written file; it is reached (read_mode) by its absolute path, by a path
        # relative to the working directory, or through a symbolic link in the output directory whose target
        # lives elsewhere (next to a stale file of the same name): includes are relative to the path GIVEN
        top_text = '#include "%s"\n[ system ]\nverif\n[ molecules ]\n%s 1\n' % (out.name, name)
        read_mode = spec.get("read_mode") or "plain"
        top_path = out.parent / "verif_system.top"
        top_arg = str(top_path)
        if read_mode == "symlink":
            elsewhere = pathlib.Path(tmp) / "elsewhere"
            elsewhere.mkdir(exist_ok=True)
            (elsewhere / "verif_system.top").write_text(top_text)
            (elsewhere / out.name).write_text("; stale file\n[ moleculetype ]\n%s 1\n[ atoms ]\n1 STALE 1 OLD X1 1 0.0 1.0\n" % name)
            os.symlink(str(elsewhere / "verif_system.top"), str(top_path))
        else:
            top_path.write_text(top_text)
        try:
            if read_mode == "relative":
                os.chdir(str(out.parent))
                top_arg = "verif_system.top"
            elif read_mode == "relative-dir":
                os.chdir(out_base)
                top_arg = os.path.relpath(str(top_path), out_base)
            top = Topology.from_gmx_topfile(top_arg, "verif")
            meta = top.molecules[0]
            result["top"] = dict(ok=True, block=block_to_json(meta.molecule), graph=res_graph_to_json(meta),
                                 block_name=meta.mol_name, nrexcl=top.force_field.blocks[name].nrexcl)
        except Exception as err:  # pylint: disable=broad-except
            result["top"] = dict(ok=False, err="%s: %s" % (type(err).__name__, str(err)[:300]),
                                 cause=repr(getattr(err, "__cause__", None))[:300])
        finally:
            os.chdir(old_cwd)
        result["top"]["read_mode"] = read_mode
        # (1b) the flattened form: one .top whose text is the written itp followed by [ system ] / [ molecules ]
        flat_path = out.parent / "verif_flat.top"
        flat_path.write_text(text + "\n[ system ]\nverif\n[ molecules ]\n%s 1\n" % name)
        try:
            top = Topology.from_gmx_topfile(str(flat_path), "verif_flat")
            meta = top.molecules[0]
            result["flat"] = dict(ok=True, block=block_to_json(meta.molecule), graph=res_graph_to_json(meta),
                                  block_name=meta.mol_name, nrexcl=top.force_field.blocks[name].nrexcl)
        except Exception as err:  # pylint: disable=broad-except
            result["flat"] = dict(ok=False, err="%s: %s" % (type(err).__name__, str(err)[:300]),
                                  cause=repr(getattr(err, "__cause__", None))[:300])
        # (2) MetaMolecule.from_itp
        try:
            ff = vermouth.forcefield.ForceField("verif_itp")
            meta = MetaMolecule.from_itp(ff, out, name)
            result["itp"] = dict(ok=True, block=block_to_json(meta.molecule), graph=res_graph_to_json(meta),
                                 nrexcl=ff.blocks[name].nrexcl)
        except Exception as err:  # pylint: disable=broad-except
            result["itp"] = dict(ok=False, err="%s: %s" % (type(err).__name__, str(err)[:300]),
                                 cause=repr(getattr(err, "__cause__", None))[:300])
    if not keep:
        import shutil
        shutil.rmtree(tmp, ignore_errors=True)
        if out_base != tmp:
            shutil.rmtree(out_base, ignore_errors=True)
    return result


def other_filesystem():
    """a writable directory on another file system than the default temporary directory, if the machine has one"""
    try:
        here = os.stat(tempfile.gettempdir()).st_dev
    except OSError:
        return None
    for cand in ("/dev/shm", os.path.expanduser("~"), "/var/tmp", "/verif/evidence_scratch"):
        try:
            if os.path.isdir(cand) and os.access(cand, os.W_OK) and os.stat(cand).st_dev != here:
                return cand
        except OSError:
            continue
    return None


# ------------------------------------------------------------------------------------------------ libraries

def library_names():
    from polyply import DATA_PATH
    return sorted(d for d in os.listdir(DATA_PATH)
                  if os.path.isdir(os.path.join(DATA_PATH, d)) and not d.startswith("__"))


def library_sequences(lib):
    """short sequences for every block of a shipped library that occurs in a link"""
    from polyply.src.load_library import load_ff_library
    ff = load_ff_library("verif", [lib], [])
    blocks = set(ff.blocks)
    seqs = []
    seen = set()

    def names_of(value):
        if isinstance(value, str):
            return [value]
        vals = getattr(value, "value", None)
        if isinstance(vals, (list, tuple, set)):
            return [v for v in vals if isinstance(v, str)]
        return []

    def add(seq):
        key = tuple(seq)
        if key not in seen:
            seen.add(key)
            seqs.append(list(seq))

    linked = set()
    pairs = set()
    for link in ff.links:
        by_order = {}
        for _, data in link.nodes(data=True):
            for nm in names_of(data.get("resname")):
                if nm in blocks:
                    by_order.setdefault(data.get("order", 0), set()).add(nm)
        for nms in by_order.values():
            linked |= nms
        orders = sorted(o for o in by_order if isinstance(o, int))
        for o1, o2 in zip(orders[:-1], orders[1:]):
            for a in by_order[o1]:
                for b in by_order[o2]:
                    if a != b:
                        pairs.add((a, b))
    for nm in sorted(linked):
        add(["%s:3" % nm])
    for a, b in sorted(pairs):
        add(["%s:2" % a, "%s:1" % b])
        add(["%s:1" % a, "%s:2" % b])
    for nm in sorted(blocks - linked):
        add(["%s:1" % nm])
    return seqs


if __name__ == "__main__":
    import json
    lib = sys.argv[1]
    for seq in library_sequences(lib):
        res = run_pipeline(dict(name="mol", lib=[lib], seq=seq))
        print(lib, seq, res["trace"]["passed"], res["raised"], res["written"],
              res.get("top", {}).get("ok"), res.get("top", {}).get("err"), res.get("itp", {}).get("ok"),
              len(res["captured"].get("missing", [])) if "missing" in res["captured"] else None)
